/- Helper lemmas for the string-literal round trip (C03). -/
import UtapModel.Model.StrLit
namespace UtapModel.StrLit

def NoQuote (s : List Char) : Prop := ∀ c ∈ s, c ≠ dq

theorem dq_ne_bs : dq ≠ bs := by decide

theorem noQuote_escape : ∀ s : List Char, NoQuote s → NoQuote (escape s) := by
  intro s
  induction s with
  | nil => intro _ c hc; simp [escape] at hc
  | cons a r ih =>
    intro h c hc
    have ha : a ≠ dq := h a (by simp)
    have hr : NoQuote r := fun x hx => h x (by simp [hx])
    simp only [escape] at hc
    by_cases hb : (a == dq || a == bs) = true
    · simp only [hb, if_true, List.mem_cons] at hc
      rcases hc with rfl | rfl | hc
      · exact fun e => dq_ne_bs e.symm
      · exact ha
      · exact ih hr c hc
    · simp only [hb, Bool.false_eq_true, if_false, List.mem_cons] at hc
      rcases hc with rfl | hc
      · exact ha
      · exact ih hr c hc

theorem escape_ne_nil : ∀ s : List Char, s ≠ [] → escape s ≠ [] := by
  intro s hs
  cases s with
  | nil => exact absurd rfl hs
  | cons a r => simp only [escape]; split <;> simp

theorem spanNoQuote_append (a rest : List Char) (h : NoQuote a) : spanNoQuote (a ++ dq :: rest) = (a, dq :: rest) := by
  induction a with
  | nil => simp [spanNoQuote]
  | cons c r ih =>
    have hc : c ≠ dq := h c (by simp)
    have hr : NoQuote r := fun x hx => h x (by simp [hx])
    have : (c == dq) = false := by simpa using hc
    simp only [List.cons_append, spanNoQuote, this, Bool.false_eq_true, if_false, ih hr]

theorem unescape_dq (r : List Char) : unescape (dq :: r) = [] := by
  rw [unescape.eq_def]; simp

theorem unescape_bs (d : Char) (r : List Char) : unescape (bs :: d :: r) = d :: unescape r := by
  rw [unescape.eq_def]; simp [show (bs == dq) = false by decide]

theorem unescape_other (c : Char) (r : List Char) (h1 : (c == dq) = false) (h2 : (c == bs) = false) :
    unescape (c :: r) = c :: unescape r := by
  rw [unescape.eq_def]; simp [h1, h2]

/-- reading back what `std::quoted` wrote gives the value, whatever it contains -/
theorem unescape_escape : ∀ (s rest : List Char), unescape (escape s ++ dq :: rest) = s := by
  intro s rest
  induction s with
  | nil => simp only [escape, List.nil_append]; exact unescape_dq rest
  | cons c r ih =>
    simp only [escape]
    by_cases h1 : (c == dq) = true
    · have : c = dq := by simpa using h1
      subst this
      simp only [beq_self_eq_true, Bool.true_or, if_true, List.cons_append]
      rw [unescape_bs, ih]
    · by_cases h2 : (c == bs) = true
      · have : c = bs := by simpa using h2
        subst this
        simp only [beq_self_eq_true, Bool.or_true, if_true, List.cons_append]
        rw [unescape_bs, ih]
      · have h1' : (c == dq) = false := by simpa using h1
        have h2' : (c == bs) = false := by simpa using h2
        simp only [h1', h2', Bool.or_self, Bool.false_eq_true, if_false, List.cons_append]
        rw [unescape_other c _ h1' h2', ih]

end UtapModel.StrLit
