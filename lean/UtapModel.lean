-- Root of the `UtapModel` library: every property module (each imports its models and generated tables).
-- `./check --setup` builds this target and all drivers so that later check runs start from a warm cache.
import UtapModel.Props.C02
import UtapModel.Props.C03
import UtapModel.Props.C03Query
import UtapModel.Props.C18
import UtapModel.Props.C18Float
import UtapModel.Gen.PrinterWitness
import UtapModel.Props.C07Subst
import UtapModel.Props.C04Rate
import UtapModel.Props.C16Sync
