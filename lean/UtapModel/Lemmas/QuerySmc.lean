/- Helper lemmas for the statistical query forms (Props/C03Query.lean): the generated literals as tokens, and the parser on printed bounds. -/
import UtapModel.Model.QuerySmc
import UtapModel.Lemmas.Query

namespace UtapModel.QuerySmc
open UtapModel.Pratt UtapModel.ExprTable UtapModel.PrintModel UtapModel.QueryTables UtapModel.Query

/-- the terminals of the statistical forms -/
def QS : List String := ["T_PROBA", "T_SIMULATE", "'E'", "T_BOX", "T_DIAMOND", "T_HASH", "T_LEQ", "';'", "'{'", "'}'", "'U'"]

theorem qid_inj_tbl : ∀ x ∈ QS, ∀ y ∈ QS, (qid x == qid y) = (x == y) := by decide +kernel
theorem qtok_tbl : ∀ x ∈ QS, qtok x = .sym (qid x) := by decide +kernel
theorem nonop_tbl : ∀ x ∈ QS, x ≠ "T_LEQ" →
    (utapT.isBin (qid x) = false ∧ utapT.isPost (qid x) = false ∧ utapT.isPre (qid x) = false) := by decide +kernel
theorem leq_not_pre : utapT.isPre (qid "T_LEQ") = false := by decide +kernel

theorem isTok_qs (x y : String) (hx : x ∈ QS) (hy : y ∈ QS) : isTok (qid x) y = (x == y) := qid_inj_tbl x hx y hy

theorem isTok_pre_qs (t : Nat) (y : String) (hp : utapT.isPre t = true) (hy : y ∈ QS) : isTok t y = false := by
  simp only [isTok, beq_eq_false_iff_ne]
  intro he; subst he
  by_cases hl : y = "T_LEQ"
  · subst hl; rw [leq_not_pre] at hp; cases hp
  · have h := (nonop_tbl y hy hl).2.2; rw [hp] at h; cases h

theorem nonop_qs (x : String) (hx : x ∈ QS) (hm : x ≠ "T_LEQ") : NonOp (qid x) := ⟨(nonop_tbl x hx hm).1, (nonop_tbl x hx hm).2.1⟩

/-- the generated literals, as tokens -/
theorem lits :
    lit "pr" = [.sym (qid "T_PROBA"), .lb] ∧ lit "runs" = [.sym (qid "';'")] ∧ lit "box" = [.rb, .lp, .sym (qid "T_BOX")] ∧
    lit "diamond" = [.rb, .lp, .sym (qid "T_DIAMOND")] ∧ lit "untilOpen" = [.rb, .lp] ∧ lit "until" = [.sym (qid "'U'")] ∧
    lit "close" = [.rp] ∧ lit "ex" = [.sym (qid "'E'"), .lb] ∧ lit "exOpen" = [.rb, .lp] ∧ lit "colon" = [.colon] ∧
    lit "sim" = [.sym (qid "T_SIMULATE"), .lb] ∧ lit "simOpen" = [.rb, .sym (qid "'{'")] ∧ lit "simClose" = [.sym (qid "'}'")] ∧
    lit "steps" = [.sym (qid "T_HASH")] ∧ lit "leq" = [.sym (qid "T_LEQ")] := by decide +kernel

/-- what follows the bound expression: `]` or `; n ]` -/
theorem runsTail_print (k : BKind) (bound : Expr) (runs : Option Nat) (rest : List Tok) :
    runsTail k bound (runsToks runs ++ .rb :: rest) = some ({ kind := k, bound := bound, runs := runs }, rest) := by
  obtain ⟨_, hruns, _⟩ := lits
  cases runs with
  | none => simp only [runsToks, List.nil_append, runsTail]
  | some n => simp (disch := decide) [runsToks, hruns, runsTail, isTok_qs]

theorem runsToks_stop (runs : Option Nat) (rest : List Tok) (c : Nat) :
    Safe utapT c (runsToks runs ++ .rb :: rest) ∧ contAt utapT c (runsToks runs ++ .rb :: rest) = false := by
  obtain ⟨_, hruns, _⟩ := lits
  cases runs with
  | none => exact ⟨safe_rb utapT c rest, rfl⟩
  | some n =>
    have hno := nonop_qs "';'" (by decide) (by decide)
    simp only [runsToks, hruns, List.cons_append, List.nil_append]
    exact ⟨safe_mono utapT (qstop_sym hno _).2 (Nat.zero_le _), by simp [contAt, hno.1, hno.2]⟩

/-- a printed expression starts with a token that starts an expression: neither `<=` nor `#` -/
theorem boundExpr_not_other (l : Expr) (hl : goodE l = true) (r : List Tok) :
    parseBnd (P l ++ r) = boundExpr (P l ++ r) := by
  obtain ⟨hd, tl, hp, hst⟩ := P_head l hl
  rw [hp]
  cases hd with
  | sym t =>
    have hpre : utapT.isPre t = true := hst
    simp (disch := first | decide | assumption) [parseBnd, isTok_pre_qs]
  | atom _ => simp [parseBnd]
  | quant _ _ _ => simp [parseBnd]
  | lp => simp [parseBnd]
  | fn _ _ => simp [parseBnd]
  | _ => exact absurd hst (by simp [StartTok])

/-- **a printed bound is read back**: `B ]` in front of anything -/
theorem parseBnd_print (b : Bnd) (h : b.wf = true) (rest : List Tok) :
    parseBnd (bndToks P b ++ .rb :: rest) = some (b, rest) := by
  obtain ⟨_, _, _, _, _, _, _, _, _, _, _, _, _, hsteps, hleq⟩ := lits
  obtain ⟨k, bound, runs⟩ := b
  simp only [Bnd.wf, Bool.and_eq_true] at h
  obtain ⟨h, hk⟩ := h
  have hstop := runsToks_stop runs rest
  have hrt := fun k' => runsTail_print k' bound runs rest
  cases k with
  | time =>
    have := pE_print bound h (runsToks runs ++ .rb :: rest) ⟨(hstop 0).2, (hstop 0).1⟩
    simp (disch := decide) [bndToks, boundToks, hleq, parseBnd, isTok_qs, List.append_assoc, boundAfter, this, hrt]
  | steps =>
    have := pE_print bound h (runsToks runs ++ .rb :: rest) ⟨(hstop 0).2, (hstop 0).1⟩
    simp (disch := decide) [bndToks, boundToks, hleq, hsteps, parseBnd, isTok_qs, List.append_assoc, boundAfter, this, hrt]
  | expr l =>
    simp only [Bool.and_eq_true] at hk
    obtain ⟨_, hx⟩ := hk
    -- the text is the text of the one expression `l <= bound`
    have hp := pE_print (.bin leqTok l bound) hx (runsToks runs ++ .rb :: rest) ⟨(hstop 0).2, (hstop 0).1⟩
    have htoks : bndToks P { kind := .expr l, bound := bound, runs := runs } ++ .rb :: rest =
        P (.bin leqTok l bound) ++ (runsToks runs ++ .rb :: rest) := by
      simp only [bndToks, boundToks, List.append_assoc]
    rw [htoks, boundExpr_not_other (.bin leqTok l bound) hx]
    simp only [boundExpr]
    rw [hp]
    simp [hrt, leqTok]

theorem closeEnd_rp : closeEnd [Tok.rp] = true := by decide

/-- the body of `Pr[..]( .. )` in its `U` form -/
theorem untilBody_print (b : Bnd) (a c : Expr) (ha : goodE a = true) (hc : goodE c = true) :
    prBody.untilBody b (P a ++ Tok.sym (qid "'U'") :: (P c ++ [Tok.rp])) = some (.pr false b a c) := by
  have h1 := pE_print a ha (.sym (qid "'U'") :: (P c ++ [.rp])) (qstop_sym (nonop_qs _ (by decide) (by decide)) _)
  have h2 := pE_print c hc [.rp] (qstop_rp [])
  simp (disch := decide) [prBody.untilBody, h1, h2, isTok_qs, closeEnd_rp]

/-- the case analysis behind `C03_smc_roundtrip` -/
theorem smc_roundtrip (q : SQuery) (h : q.wf = true) : parseS (sprint q) = some q := by
  obtain ⟨hpr, hruns, hbox, hdia, huo, hun, hcl, hex, hexo, hcol, hsim, hso, hsc, hsteps, hleq⟩ := lits
  unfold sprint
  cases q with
  | pr box b pred u =>
    simp only [SQuery.wf, Bool.and_eq_true, Bool.or_eq_true, Bool.not_eq_true'] at h
    obtain ⟨⟨⟨hb, hp⟩, hu⟩, hbu⟩ := h
    by_cases hc : (box || isTrue u) = true
    · -- `[] e` / `<> e`: the until operand is the constant true
      have hut : u = .atom .tru := by
        cases hbu with
        | inl hf => rw [hc] at hf; cases hf
        | inr ht => simpa using ht
      subst hut
      have h2 := pE_print pred hp [.rp] (qstop_rp [])
      cases box with
      | true =>
        have hbnd := parseBnd_print b hb (.lp :: .sym (qid "T_BOX") :: (P pred ++ [.rp]))
        simp (disch := decide) [printS, hpr, hbox, hcl, parseS, isTok_qs, hbnd, prBody, h2, closeEnd_rp, isTrue]
      | false =>
        have hbnd := parseBnd_print b hb (.lp :: .sym (qid "T_DIAMOND") :: (P pred ++ [.rp]))
        simp (disch := decide) [printS, hpr, hdia, hcl, parseS, isTok_qs, hbnd, prBody, h2, closeEnd_rp, isTrue]
    · have hbf : box = false := by cases box <;> simp_all
      subst hbf
      simp only [Bool.false_or, Bool.not_eq_true] at hc
      have hub := untilBody_print b pred u hp hu
      have hbnd := parseBnd_print b hb (.lp :: (P pred ++ .sym (qid "'U'") :: (P u ++ [.rp])))
      obtain ⟨hd, tl, hph, hst⟩ := P_head pred hp
      have hbody : prBody b (P pred ++ .sym (qid "'U'") :: (P u ++ [.rp])) = some (.pr false b pred u) := by
        rw [hph] at hub ⊢
        cases hd with
        | sym t =>
          have hpre : utapT.isPre t = true := hst
          simp (disch := first | decide | assumption) [prBody, isTok_pre_qs]
          exact hub
        | atom _ => simpa [prBody] using hub
        | quant _ _ _ => simpa [prBody] using hub
        | lp => simpa [prBody] using hub
        | fn _ _ => simpa [prBody] using hub
        | _ => exact absurd hst (by simp [StartTok])
      simp (disch := decide) [printS, hc, hpr, huo, hun, hcl, parseS, isTok_qs, List.append_assoc, hbnd, hbody]
  | ex b isMax e =>
    simp only [SQuery.wf, Bool.and_eq_true] at h
    have h2 := pE_print e h.2 [.rp] (qstop_rp [])
    cases isMax with
    | true =>
      have hbnd := parseBnd_print b h.1 (.lp :: .atom (.ident "max") :: .colon :: (P e ++ [.rp]))
      simp (disch := decide) [printS, hex, hexo, hcol, hcl, parseS, isTok_qs, List.append_assoc, hbnd, h2, closeEnd_rp]
    | false =>
      have hbnd := parseBnd_print b h.1 (.lp :: .atom (.ident "min") :: .colon :: (P e ++ [.rp]))
      simp (disch := decide) [printS, hex, hexo, hcol, hcl, parseS, isTok_qs, List.append_assoc, hbnd, h2, closeEnd_rp]
  | sim b l =>
    simp only [SQuery.wf, Bool.and_eq_true, Bool.not_eq_true', List.isEmpty_eq_false_iff] at h
    obtain ⟨⟨⟨hb, hr⟩, hg⟩, hne⟩ := h
    obtain ⟨k, bound, runs⟩ := b
    cases runs with
    | none => simp at hr
    | some n =>
      have hbnd := parseBnd_print { kind := k, bound := bound, runs := some n } hb (.sym (qid "'{'") :: (printList P l ++ [.sym (qid "'}'")]))
      have hst : QStop [Tok.sym (qid "'}'")] := qstop_sym (nonop_qs _ (by decide) (by decide)) _
      have hpl := parseList_print l hne hg [.sym (qid "'}'")] hst (by intro r h; cases h)
      have hlen := printList_length l hg
      simp only [bndToks, runsToks, hruns, List.append_assoc, List.cons_append, List.nil_append] at hbnd hpl hlen
      simp (disch := decide) only [printS, hsim, hruns, hso, hsc, parseS, isTok_qs, List.append_assoc, List.cons_append, List.nil_append,
        Option.getD_some, beq_self_eq_true, if_true]
      rw [hbnd]
      simp (disch := decide) only [isTok_qs, beq_self_eq_true, if_true]
      rw [hpl _ (by simp only [List.length_append, List.length_cons, List.length_nil]; omega)]
      simp (disch := decide) [isTok_qs]

end UtapModel.QuerySmc
