/- Formula trees of property C10 and their classification by the (regenerated) type-checker rules.

   Leaves:  `ipred k`        an integer predicate / integer-valued expression without clocks (type INT or BOOL)
            `cmp op l r`     an atomic comparison  l op r , op ∈ < <= == != >= > , each side an integer expression (INT),
                             a boolean expression (BOOL), a clock (CLOCK) or a clock difference (DIFF)
   Connectives:  && || ! imply xor == != forall exists   (`a imply b` is built by the parser as OR(NOT a, b),
                 src/parser.y `Expression T_KW_IMPLY Expression`).

   `classify` mirrors `TypeChecker::checkExpression` on such a tree: operands first, any failure rejects the whole tree
   (`ok &= checkExpression(expr[i]); if (!ok) return false`), then the operator's clause list -- taken from
   UtapModel/Gen/TypeClauses.lean, i.e. from the current source.  Every clause result is `type_t::create_primitive(K)`,
   so only the kind `K` is kept (Lemmas/C10: `typeBin_result_prim`). -/
import UtapModel.Gen.TypeClauses
namespace UtapModel.Formula
open UtapModel.Types UtapModel.TypeClauses

inductive Side where
  | INT | BOOL | CLOCK | DIFF
deriving DecidableEq, Repr, Inhabited

def Side.tk : Side → TK
  | .INT => .INT | .BOOL => .BOOL | .CLOCK => .CLOCK | .DIFF => .DIFF

def Side.clockFree : Side → Bool
  | .INT | .BOOL => true
  | _ => false

inductive Cmp where
  | LT | LE | EQ | NEQ | GE | GT
deriving DecidableEq, Repr, Inhabited

def Cmp.bin : Cmp → BinOp
  | .LT => .LT | .LE => .LE | .EQ => .EQ | .NEQ => .NEQ | .GE => .GE | .GT => .GT

inductive Form where
  | ipred (k : Side)
  | cmp (op : Cmp) (l r : Side)
  | and (a b : Form)
  | or (a b : Form)
  | not (a : Form)
  | imply (a b : Form)
  | xor (a b : Form)
  | eq (a b : Form)
  | neq (a b : Form)
  | all (a : Form)
  | ex (a : Form)
deriving DecidableEq, Repr, Inhabited

def binK (op : BinOp) (ka kb : TK) : Option TK := (typeBin op (.prim ka) (.prim kb)).map Ty.term
def unK (op : UnOp) (ka : TK) : Option TK := (typeUn op (.prim ka)).map Ty.term
def quantK (op : QOp) (ka : TK) : Option TK := (typeQuant op (.prim ka)).map Ty.term

/-- kind of the type the checker assigns to the formula; `none` = a diagnostic was emitted -/
def classify : Form → Option TK
  | .ipred k => if k.clockFree then some k.tk else none
  | .cmp op l r => binK op.bin l.tk r.tk
  | .and a b => do let ka ← classify a; let kb ← classify b; binK .AND ka kb
  | .or a b => do let ka ← classify a; let kb ← classify b; binK .OR ka kb
  | .not a => do let ka ← classify a; unK .NOT ka
  | .imply a b => do let ka ← classify a; let na ← unK .NOT ka; let kb ← classify b; binK .OR na kb
  | .xor a b => do let ka ← classify a; let kb ← classify b; binK .XOR ka kb
  | .eq a b => do let ka ← classify a; let kb ← classify b; binK .EQ ka kb
  | .neq a b => do let ka ← classify a; let kb ← classify b; binK .NEQ ka kb
  | .all a => do let ka ← classify a; quantK .FORALL ka
  | .ex a => do let ka ← classify a; quantK .EXISTS ka

/-- accepted as the guard of an edge: type checks and passes the test of `TypeChecker::visitEdge` -/
def acceptsAsGuard (f : Form) : Bool :=
  match classify f with
  | some k => guardAccepted (.prim k)
  | none => false

/-- accepted as the invariant of a location: type checks and passes the test of `TypeChecker::visitLocation` -/
def acceptsAsInvariant (f : Form) : Bool :=
  match classify f with
  | some k => invariantAccepted (.prim k)
  | none => false

/-! ### the declarative side of the property -/

/-- no clock comparison anywhere in the formula -/
def ClockFree : Form → Bool
  | .ipred k => k.clockFree
  | .cmp _ l r => l.clockFree && r.clockFree
  | .and a b | .or a b | .imply a b | .xor a b | .eq a b | .neq a b => ClockFree a && ClockFree b
  | .not a | .all a | .ex a => ClockFree a

/-- Clock comparisons occur solely under conjunction, universal quantification, or disjunction with a clock-free
    operand (an implication is the disjunction of its negated antecedent and its consequent).  Straight from the
    statement of C10. -/
def Convex : Form → Bool
  | .ipred _ => true
  | .cmp _ _ _ => true
  | .and a b => Convex a && Convex b
  | .or a b => (ClockFree a && Convex b) || (Convex a && ClockFree b)
  | .not a => ClockFree a
  | .imply a b => ClockFree a && Convex b
  | .xor a b => ClockFree a && ClockFree b
  | .eq a b => ClockFree a && ClockFree b
  | .neq a b => ClockFree a && ClockFree b
  | .all a => Convex a
  | .ex a => ClockFree a

/-- The leaf language of the property: integer predicates (both sides INT/BOOL), clock bounds `x ~ n` / `n ~ x`,
    clock-difference bounds `x - y ~ n` / `n ~ x - y` and `x ~ y` (= `x - y ~ 0`), n an *integer* expression.
    Outside the property's quantifier (and typed as plain booleans by the SMC extension clauses `is_number && is_number`):
    comparisons between two differences or a clock and a difference, and "bounds" that are boolean expressions. -/
def leafOk (l r : Side) : Bool :=
  match l, r with
  | .INT, _ | _, .INT => true
  | .BOOL, .BOOL => true
  | .CLOCK, .CLOCK => true
  | _, _ => false

def Cmp.all : List Cmp := [.LT, .LE, .EQ, .NEQ, .GE, .GT]
def Side.all : List Side := [.INT, .BOOL, .CLOCK, .DIFF]
def Cmp.name : Cmp → String
  | .LT => "LT" | .LE => "LE" | .EQ => "EQ" | .NEQ => "NEQ" | .GE => "GE" | .GT => "GT"
def Side.name : Side → String
  | .INT => "INT" | .BOOL => "BOOL" | .CLOCK => "CLOCK" | .DIFF => "DIFF"

/-- EXCEPTION SET (computed from the regenerated rules): leaf shapes of the property's language that contain a clock
    but are typed as an integral, so that every connective treats them as clock-free.  Empty iff the key lemma
    "integral ⇒ clock-free" holds for all leaves. -/
def leafExceptions : List (Cmp × Side × Side) :=
  Cmp.all.flatMap fun op => Side.all.flatMap fun l => (Side.all.filter fun r =>
    leafOk l r && !(l.clockFree && r.clockFree) &&
      (match binK op.bin l.tk r.tk with
       | some k => ty_is_integral (.prim k)
       | none => false)).map fun r => (op, l, r)

/-- no leaf of the formula is in the exception set -/
def noExcLeaf : Form → Bool
  | .ipred _ => true
  | .cmp op l r => !(leafExceptions.contains (op, l, r))
  | .and a b | .or a b | .imply a b | .xor a b | .eq a b | .neq a b => noExcLeaf a && noExcLeaf b
  | .not a | .all a | .ex a => noExcLeaf a

def WF : Form → Bool
  | .ipred k => k.clockFree
  | .cmp _ l r => leafOk l r
  | .and a b | .or a b | .imply a b | .xor a b | .eq a b | .neq a b => WF a && WF b
  | .not a | .all a | .ex a => WF a

/-- every comparison leaf that contains a clock satisfies `acc` (e.g. "is itself accepted as a guard") -/
def clockLeavesAll (acc : Form → Bool) : Form → Bool
  | .ipred _ => true
  | .cmp op l r => (l.clockFree && r.clockFree) || acc (.cmp op l r)
  | .and a b | .or a b | .imply a b | .xor a b | .eq a b | .neq a b => clockLeavesAll acc a && clockLeavesAll acc b
  | .not a | .all a | .ex a => clockLeavesAll acc a

def isAtom : Form → Bool
  | .ipred _ | .cmp _ _ _ => true
  | _ => false

/-- a plain conjunction (any `&&`-tree) all of whose atoms satisfy `acc` -/
def conjOf (acc : Form → Bool) : Form → Bool
  | .and a b => conjOf acc a && conjOf acc b
  | f => isAtom f && acc f

/-! ### wire format (prefix notation):  I k | C op l r | & a b | | a b | ! a | > a b | ^ a b | = a b | # a b | A a | E a -/
def Side.ofName? : String → Option Side
  | "INT" => some .INT | "BOOL" => some .BOOL | "CLOCK" => some .CLOCK | "DIFF" => some .DIFF | _ => none
def Cmp.ofName? : String → Option Cmp
  | "LT" => some .LT | "LE" => some .LE | "EQ" => some .EQ | "NEQ" => some .NEQ | "GE" => some .GE | "GT" => some .GT
  | _ => none

def parseForm : Nat → List String → Option (Form × List String)
  | 0, _ => none
  | fuel + 1, toks =>
    let bin (mk : Form → Form → Form) (rest : List String) : Option (Form × List String) :=
      match parseForm fuel rest with
      | some (a, rest) => (parseForm fuel rest).map fun (b, rest) => (mk a b, rest)
      | none => none
    let un (mk : Form → Form) (rest : List String) : Option (Form × List String) :=
      (parseForm fuel rest).map fun (a, rest) => (mk a, rest)
    match toks with
    | "I" :: k :: rest => (Side.ofName? k).map fun k => (.ipred k, rest)
    | "C" :: op :: l :: r :: rest =>
      match Cmp.ofName? op, Side.ofName? l, Side.ofName? r with
      | some op, some l, some r => some (.cmp op l r, rest)
      | _, _, _ => none
    | "&" :: rest => bin .and rest
    | "|" :: rest => bin .or rest
    | ">" :: rest => bin .imply rest
    | "^" :: rest => bin .xor rest
    | "=" :: rest => bin .eq rest
    | "#" :: rest => bin .neq rest
    | "!" :: rest => un .not rest
    | "A" :: rest => un .all rest
    | "E" :: rest => un .ex rest
    | _ => none

end UtapModel.Formula
