// C11 harness: whole models and queries through the real parser + TypeChecker; see c11_effects.hpp for the protocol.
#include "c11_effects.hpp"

int main(int argc, char** argv)
{
    std::ios::sync_with_stdio(false);
    bool withModel = argc > 1 && std::string(argv[1]) == "model";
    return c11::runCases(std::cin, std::cout, withModel);
}
