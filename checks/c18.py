"""C18 -- interval operations of range_t agree with their set semantics (DESIGN.md section 4, C18).

 1 translate   include/utap/range.h -> lean/UtapModel/Gen/RangeGen.lean      (tie T: model regenerated every run)
 2 prove       UtapModel.Props.C18: membership theorems for every operation, all integers, by omega/nlinarith
 3 correspond  generated model (drv_c18) vs real range_t<int32_t> on the same op lines  (validates the translator)
 4 search      direct set-semantics oracle on the implementation: exhaustive int8_t and uint8_t, boundary int32_t / uint32_t /
               uint64_t / double, + - * of the 32- and 64-bit integer types against 128-bit arithmetic
"""
import os
import sys

from vlib import core

sys.path.insert(0, os.path.join(core.VERIF, "translate"))
import range_h  # noqa: E402

GEN = os.path.join(core.LEAN_DIR, "UtapModel", "Gen", "RangeGen.lean")
GEN_ORD = os.path.join(core.LEAN_DIR, "UtapModel", "Gen", "RangeOrd.lean")
MODULE = "UtapModel.Props.C18"
MODULES = ["UtapModel.Props.C18", "UtapModel.Props.C18Float"]
SCALAR_OPS = ["gt", "geq", "lt", "leq", "andT", "orT", "addT", "subT", "mulT", "contains", "eqT"]
RANGE_OPS = ["andR", "orR", "addR", "subR", "mulR", "intersects", "eqR", "ltop", "gtop", "leop", "geop", "minR", "maxR"]
# which theorems speak about which operation (used to name the replay when a proof breaks)
THEOREM_OPS = {"mem_gt": "gt", "mem_geq": "geq", "mem_lt": "lt", "mem_leq": "leq"}
# (theorems of both modules: the integral instantiation (Props/C18) and the floating-point one (Props/C18Float))


def gen_ops(ctx):
    lines = []
    w = 10 if not ctx.thorough else 16
    for a in range(-w, w + 1):
        for b in range(a, w + 1):
            for e in range(-w - 1, w + 2):
                for op in SCALAR_OPS:
                    lines.append("%s %d %d %d" % (op, a, b, e))
            lines.append("size %d %d" % (a, b))
            for op in ("addSelf", "subSelf", "mulSelf", "andSelf", "orSelf"):
                lines.append("%s %d %d" % (op, a, b))
            lines.append("empty %d %d" % (a, b))
    w2 = 4 if not ctx.thorough else 6
    for a in range(-w2, w2 + 1):
        for b in range(a, w2 + 1):
            for c in range(-w2, w2 + 1):
                for d in range(c, w2 + 1):
                    for op in RANGE_OPS:
                        lines.append("%s %d %d %d %d" % (op, a, b, c, d))
    # random larger operands (products stay far below 2^31) and some empty operands
    r = ctx.rng
    for _ in range(20000 if not ctx.thorough else 200000):
        a, b, c, d = [r.randint(-40000, 40000) for _ in range(4)]
        if r.random() < 0.9:
            a, b = min(a, b), max(a, b)
            c, d = min(c, d), max(c, d)
        if r.random() < 0.5:
            lines.append("%s %d %d %d" % (r.choice(SCALAR_OPS), a, b, c))
        else:
            lines.append("%s %d %d %d %d" % (r.choice(RANGE_OPS), a, b, c, d))
    return lines


def run_oracle(ctx, hb):
    exe = core.build_harness(hb, "c18", ["c18.cpp"])
    # window of the exhaustive interval pairs (int8_t: [-w,w], uint8_t: [0,2w]); seed of the sampled 32/64-bit operands
    rc, out, err, dt = core.run_exe(exe, ["oracle", "12" if not ctx.thorough else "36", str(ctx.rng.randrange(1, 2 ** 31))], timeout=3000)
    fails = [l for l in out.split("\n") if l.startswith("FAIL ")]
    summary = [l for l in out.split("\n") if l.startswith("SUMMARY")]
    if rc != 0 or not summary:
        ctx.finding("impl:crash", "range_t oracle harness died rc=%s" % rc, {"stderr": err[-3000:], "stdout": out[-2000:]})
        return 0, fails
    cases = int(summary[0].split()[1].split("=")[1])
    by_op = {}
    for f in fails:
        op = f.split()[1]
        by_op.setdefault(op, []).append(f)
    for op, fl in by_op.items():
        ctx.finding("impl:" + op, "range_t::%s disagrees with its set semantics: %s" % (op, fl[0][5:]),
                    {"how": "harness/c18.cpp oracle (real UTAP::range_t)", "failing_cases": fl[:5]})
    return cases, fails


def run(ctx):
    cov = ctx.coverage
    hb = core.header_build("plain")
    # 1 translate -------------------------------------------------------------------------------
    tie_ok = True
    try:
        text, order = range_h.translate(core.REPO)
        core.write_if_changed(GEN, text)
        cov["translated_members"] = len(order)
        text2, order2 = range_h.translate_ord(core.REPO)        # floating-point instantiation (order-theoretic members)
        core.write_if_changed(GEN_ORD, text2)
        cov["translated_members_floating_point"] = len(order2)
    except range_h.TranslateError as ex:
        tie_ok = False
        ctx.log("translator failed:", ex)
        cases, fails = run_oracle(ctx, hb)
        if not fails:
            ctx.proof_broken("translate/range_h.py", str(ex), "oracle: %d cases on the implementation, no failure" % cases)
        cov.update({"obligations": sum(len(core.theorems_of(m)) for m in MODULES), "discharged": 0, "checker_cmd": "n/a (translation failed)",
                    "trusted_base": core.TRUSTED_BASE})
        return
    # 2 prove -----------------------------------------------------------------------------------
    ok, log = ctx.prove(MODULES, ["drv_c18"])
    broken = []
    if not ok:
        broken = core.failing_theorems(log)
        ctx.log("proof broken:", broken or log[-1500:])
    # 4 search (always: it is cheap, and it is what produces the replay) --------------------------
    cases, fails = run_oracle(ctx, hb)
    cov["oracle_cases_on_implementation"] = cases
    cov["oracle_failures"] = len(fails)
    if not ok:
        explained = {f.split()[1] for f in fails}
        for path, thm, msg in (broken or [("?", "lake build", log[-300:])]):
            op = THEOREM_OPS.get(thm)
            if op and op in explained:
                continue  # this broken theorem has its failing input (reported by the oracle above)
            if fails and not op:
                continue
            ctx.proof_broken(thm, msg + "\n" + log[-2000:], "oracle: %d cases on the implementation" % cases)
        if not os.path.exists(core.lean_exe("drv_c18")):
            return
        ok2, _ = core.lake_build(["drv_c18"])
        if not ok2:
            return
    # 3 correspondence ----------------------------------------------------------------------------
    lines = gen_ops(ctx)
    text = "\n".join(lines) + "\n"
    exe = core.build_harness(hb, "c18", ["c18.cpp"])
    rc1, out1, err1, _ = core.run_exe(exe, ["ops"], stdin_text=text)
    rc2, out2, err2, _ = core.run_exe(core.lean_exe("drv_c18"), [], stdin_text=text)
    o1, o2 = out1.split("\n"), out2.split("\n")
    dis = [(lines[i], o1[i], o2[i]) for i in range(len(lines)) if i >= len(o1) or i >= len(o2) or o1[i] != o2[i]]
    cov["correspondence_cases"] = len(lines)
    cov["correspondence_disagreements"] = len(dis)
    cov["traces_validated_against_impl"] = len(lines)
    ops_hit = {}
    for l in lines:
        ops_hit[l.split()[0]] = ops_hit.get(l.split()[0], 0) + 1
    cov["distribution"] = ops_hit
    cov["samples"] = [{"op": lines[i], "impl": o1[i], "model": o2[i]} for i in (0, len(lines) // 2, len(lines) - 1)]
    if rc1 != 0 or rc2 != 0 or dis:
        what = "generated model and range_t<int32_t> disagree on %d of %d ops, first: %r" % (len(dis), len(lines), dis[:1])
        if not fails:
            ctx.proof_broken("correspondence:range_h", what + (err1 + err2)[-1000:], "oracle: %d cases, no failure" % cases)
    ctx.assumptions += [
        "integral T: no operation overflows (the property's own restriction). Floating-point T: the order-theoretic operations "
        "(gt lt geq leq & | contains intersects == <) are proved over the abstract structure FloatLike (linear order with "
        "infinities, nexttoward as successor/predecessor; NaN excluded, -0.0 = +0.0); floating-point + - * round and are not claimed",
        "asserts are compiled out (the baseline configuration is RelWithDebInfo = -DNDEBUG)",
    ]
    cov["evaluations"] = len(lines) + cases
    cov["distinct_nontrivial"] = len(set(lines))
    cov["rule"] = "correspondence: distinct operation lines (operation + operand intervals) run on range_t<int32_t> and on the generated model; oracle cases (exhaustive small domains) are counted in evaluations only"
    cov["exhaustive_parts"] = ("oracle: all a<=b, e in int8_t and in uint8_t for scalar operations; all a<=b,c<=d in [-12,12] (uint8_t: [0,24]; "
                               "thorough: [-36,36] / [0,72]) for interval pairs")


def replay(ctx, path):
    import json
    r = json.load(open(path))
    print(json.dumps(r, indent=1))
    hb = core.header_build("plain")
    cases, fails = run_oracle(ctx, hb)
    for f in fails:
        print(f)
    return 1 if fails else 0
