/- Property C11 -- expressions that must be side-effect free are rejected if they can write state.

   Model: Model/Effect.lean (executable, parameterised by the configuration `EffectGen.genCfg` that translate/effects.py
   regenerates from src/expression.cpp, include/utap/statement.h, src/statement.cpp, src/typechecker.cpp on every run).
   Spec:  Model/EffectSpec.lean (`Writes`, `MayWrite`, `RootOf`, `pureExpr`, `Context`).
   Lemmas: Lemmas/Effect.lean.

   The general theorems are stated for *every* configuration satisfying a decidable completeness predicate and for every
   program, expression and statement nesting (no bound); the instance for today's source is closed by `decide` on the
   generated tables, so a dropped case label / visitor method / check site breaks exactly that instance. -/
import UtapModel.Lemmas.Effect
import UtapModel.Lemmas.EffectSub
import UtapModel.Lemmas.TypeWalk
import UtapModel.Gen.EffectGen
namespace UtapModel.C11
open UtapModel UtapModel.Effect UtapModel.EffectGen

/-! ## today's tables are complete -/

/-- collect_possible_writes has a case for every assignment / increment kind and for calls, recurses into all children,
    adds the callee's `changes` and the arguments of non-constant reference parameters; get_symbols follows `.`, `[]`,
    both branches of `?:`, the right operand of `,`, assignment and pre-increment targets; the visitor behind
    CollectChangesVisitor reaches every expression field and sub-statement of every statement class. -/
theorem C11_tables_complete : genCfg.WritesComplete := by decide

/-- nothing else contributes to a write set: only the language's writing kinds and call kinds are listed -/
theorem C11_tables_exact : genCfg.WritesExact := by decide

theorem C11_calls_exact : genCfg.CallsExact := by decide

/-- every `…_must_be_side-effect_free` / `$Must_be_computable_at_compile_time` site the contexts rely on is present
    in src/typechecker.cpp, each guarded by `changes_any_variable()` / `!isCompileTimeComputable(..)` -/
theorem C11_sites_complete : genCfg.SitesComplete := by decide

/-! ## soundness: whatever can write is reported by `changes_any_variable` -/

/-- General form: for every complete configuration, every program whose functions are declared before use
    (`$Recursion_is_not_allowed`; identifiers resolve to preceding declarations only) and every expression:
    if evaluating `e` may write some variable -- directly, in a sub-expression, through the body of a called function in any
    statement form (local initialisers included) and through any chain of calls, or through a non-constant reference
    parameter -- then `changes_any_variable()` is true for `e` under the `changes` sets the type checker computes.
    `dot` selects the spec without (`false`) or with (`true`) calls `P.f()` of process functions; the latter needs the
    call case to resolve such callees. -/
theorem C11_sound_general (cfg : Cfg) (hc : cfg.WritesComplete) (hx : cfg.CallsExact) (dot : Bool)
    (hdot : dot = true → cfg.writeCallResolvesDot = true) (P : List FunDecl)
    (hd : declaredBeforeUse P = true) (e : Expr) (h : MayWrite dot P e) : changesAny cfg (analyse cfg P) e = true := by
  obtain ⟨s, hs⟩ := h
  have hm : s ∈ collectWrites cfg (analyse cfg P) e := writes_sound hc hdot (analyse_consistent hx P hd) hs
  unfold changesAny
  cases hl : collectWrites cfg (analyse cfg P) e with
  | nil => rw [hl] at hm; cases hm
  | cons a as => simp

/-- C11 for the current source, every expression whose calls name their function by an identifier (all contexts of the
    property except queries that call a function of a process as `P.f()`, see `C11_witness_process_dot`).
    Full statement: `C11_sound_full_of_resolved` without its premise; not provable today because
    `collect_possible_writes` looks up `get(0).get_symbol()`, which for the callee `P.f` is the process `P`. -/
theorem C11_sound_partial (P : List FunDecl) (hd : declaredBeforeUse P = true) (e : Expr) (h : MayWrite false P e) :
    changesAny genCfg (analyse genCfg P) e = true :=
  C11_sound_general genCfg C11_tables_complete C11_calls_exact false (fun h => by cases h) P hd e h

/-- C11 at full strength (process-dot calls included) for a source whose call case resolves `P.f` callees
    (proposed_fixes/C11-process-dot-call.diff sets the premise; today it is false and `c11Exceptions` is non-empty). -/
theorem C11_sound_full_of_resolved (hfix : genCfg.writeCallResolvesDot = true) (P : List FunDecl)
    (hd : declaredBeforeUse P = true) (e : Expr) (h : MayWrite true P e) : changesAny genCfg (analyse genCfg P) e = true :=
  C11_sound_general genCfg C11_tables_complete C11_calls_exact true (fun _ => hfix) P hd e h

/-- the written variable itself is in the computed set (what `changes_variable(set)` consults) -/
theorem C11_sound_symbol (P : List FunDecl) (hd : declaredBeforeUse P = true) (e : Expr) (s : Sym) (h : Writes false P e s) :
    s ∈ collectWrites genCfg (analyse genCfg P) e :=
  writes_sound C11_tables_complete (fun h => by cases h) (analyse_consistent C11_calls_exact P hd) h

/-- per function: a non-local variable written anywhere in the body is in `function_t::changes` -/
theorem C11_function_changes (P : List FunDecl) (hd : declaredBeforeUse P = true) (fd : FunDecl) (hfd : fd ∈ P) (b : Expr)
    (hb : b ∈ exprsOf fd.body) (s : Sym) (h : Writes false P b s) (hl : s ∉ fd.locals) (hp : s ∉ fd.params) :
    ∃ fi, (analyse genCfg P).find fd.name = some fi ∧ s ∈ fi.changes := by
  have hcons := analyse_consistent C11_calls_exact (cfg := genCfg) P hd
  exact ⟨_, hcons fd hfd, mem_funInfo_changes C11_tables_complete hb
    (writes_sound C11_tables_complete (fun h => by cases h) hcons h) hl hp⟩

/-! ### the hypotheses are satisfiable: a writer hidden in a do-while inside a for-each, called through a chain and through
    a reference parameter -/

/-- symbols: 1 = `w` (global), 2 = `wr`, 3 = `chain`, 4 = `viaRef`, 5 = its parameter `r`, 6 = local `l` of `chain`, 7 = `it` -/
def demoAssign (t : Sym) : Expr := .node .kASSIGN 0 [.node .kIDENTIFIER t [], .node .kCONSTANT 0 []]
def demoCall (f : Sym) (args : List Expr) : Expr := .node .kFUN_CALL 0 (.node .kIDENTIFIER f [] :: args)
def demoWr : FunDecl :=
  { name := 2, params := [], refNonConst := [], locals := [7],
    body := .block [] [.iterS 7 (.doWhileS (.block [] [.exprS (demoAssign 1)]) (.node .kCONSTANT 0 []))] }
def demoChain : FunDecl :=
  { name := 3, params := [], refNonConst := [], locals := [6],
    body := .block [.node .kCONSTANT 0 []] [.ifS (.node .kCONSTANT 0 []) (.exprS (demoCall 2 [])) .empty, .returnS (.node .kIDENTIFIER 6 [])] }
def demoViaRef : FunDecl :=
  { name := 4, params := [5], refNonConst := [true], locals := [], body := .block [] [.exprS (demoAssign 5)] }
def demoP : List FunDecl := [demoWr, demoChain, demoViaRef]

example : declaredBeforeUse demoP = true := by decide

/-- `chain() == 0` may write `w` -/
example : MayWrite false demoP (.node .kEQ 0 [demoCall 3 [], .node .kCONSTANT 0 []]) :=
  ⟨1, .sub (e := demoCall 3 []) (by simp)
    (.callBody (fd := demoChain) (b := demoCall 2 []) (by decide) (.ident 3 []) (by simp [demoP]) rfl (by simp [demoChain, exprsOf, exprsOfL])
      (.callBody (fd := demoWr) (b := demoAssign 1) (by decide) (.ident 2 []) (by simp [demoP]) rfl (by simp [demoWr, exprsOf, exprsOfL])
        (.direct (by decide) (.ident 1 [])) (by decide) (by decide))
      (by decide) (by decide))⟩

/-- `viaRef(w)` may write `w` -/
example : MayWrite false demoP (demoCall 4 [.node .kIDENTIFIER 1 []]) :=
  ⟨1, .callRef (fd := demoViaRef) (a := .node .kIDENTIFIER 1 []) (p := 5) (b := demoAssign 5) (by decide) (.ident 4 []) (by simp [demoP]) rfl
    (by simp [demoViaRef]) (by simp [demoViaRef, exprsOf, exprsOfL]) (.direct (by decide) (.ident 5 [])) (.ident 1 [])⟩

example : changesAny genCfg (analyse genCfg demoP) (.node .kEQ 0 [demoCall 3 [], .node .kCONSTANT 0 []]) = true := by decide

/-! ## exception set: calls of process functions in queries -/

/-- witness of `call-through-process-dot`: template function `twr` (symbol 2) writes the template variable `tw`
    (symbol 1); the query expression `P.twr()` (process `P` = symbol 3) may write `tw`, yet `changes_any_variable()` is
    false whenever the call case does not resolve `P.f` callees (true of the current source; vacuous after the repair). -/
def witnessDotP : List FunDecl :=
  [{ name := 2, params := [], refNonConst := [], locals := [], body := .block [] [.exprS (demoAssign 1), .returnS (.node .kCONSTANT 0 [])] }]
def witnessDotCall : Expr := .node .kFUN_CALL 0 [.node .kDOT 2 [.node .kIDENTIFIER 3 []]]
theorem C11_witness_process_dot :
    MayWrite true witnessDotP witnessDotCall ∧
    (genCfg.writeCallResolvesDot = false → changesAny genCfg (analyse genCfg witnessDotP) witnessDotCall = false) :=
  ⟨⟨1, .callBody (fd := witnessDotP[0]) (b := demoAssign 1) (by decide) (.processDot 2 _ rfl (by decide)) (by simp [witnessDotP]) rfl
        (by simp [witnessDotP, exprsOf, exprsOfL]) (.direct (by decide) (.ident 1 [])) (by decide) (by decide)⟩,
   by decide⟩

/-- the computed exception set of the current source contains nothing but that shape -/
theorem C11_exceptions_today : ∀ x ∈ c11Exceptions genCfg, x ∈ ["call-through-process-dot"] := by decide

/-! ## the twin: nothing that cannot write is rejected for writing -/

/-- An expression without assignment / increment / decrement whose callees change nothing and take no non-constant
    reference parameter has an empty write set, for every configuration listing only the language's writing and call kinds. -/
theorem C11_twin_general (cfg : Cfg) (hx : cfg.WritesExact) (env : Env) (e : Expr) (h : pureExpr env e = true) :
    changesAny cfg env e = false := by
  unfold changesAny
  rw [pure_collectWrites hx e h]
  rfl

theorem C11_twin (P : List FunDecl) (e : Expr) (h : pureExpr (analyse genCfg P) e = true) :
    changesAny genCfg (analyse genCfg P) e = false :=
  C11_twin_general genCfg C11_tables_exact _ e h

/-- A function whose body writes only its own locals and parameters has an empty `changes` set (visitFunction erases
    both), so calls of it are `pureExpr` callees -- the twin "write goes to a local / by-value parameter instead". -/
theorem C11_twin_local_writes (env : Env) (fd : FunDecl)
    (h : ∀ s ∈ collectStmt genCfg.visit (collectWrites genCfg env) fd.body, s ∈ fd.locals ∨ s ∈ fd.params) :
    (funInfo genCfg env fd).changes = [] :=
  funInfo_changes_nil (by decide) (by decide) env fd h

/-- satisfiable: reading `w` and calling a function that only writes its own local and its by-value parameter -/
def demoPure : List FunDecl :=
  [ { name := 2, params := [5], refNonConst := [false], locals := [6],
      body := .block [.node .kIDENTIFIER 5 []] [.exprS (demoAssign 6), .exprS (demoAssign 5), .returnS (.node .kIDENTIFIER 6 [])] } ]
example : pureExpr (analyse genCfg demoPure) (.node .kEQ 0 [demoCall 2 [.node .kIDENTIFIER 1 []], .node .kIDENTIFIER 1 []]) = true := by
  decide

/-! ## the contexts -/

/-- In each context of the property that has its own side-effect check (guard, invariant, synchronisation, probability,
    variable / local initialiser, instantiation argument, quantified body, assertion, query) an expression with
    `changes_any_variable()` is rejected whatever the earlier checks of that site said. -/
theorem C11_contexts : ∀ c ∈ Context.all, c.site ≠ none → ∀ typedOk computable : Bool,
    c.rejects genCfg typedOk computable true = true := by decide

/-- The remaining contexts (select domain, array size, range bound) only test compile-time computability:
    a non-computable expression is rejected there. (That a *write* makes the expression non-computable unless it
    targets a constant is `C13`'s read analysis; a write to a constant is C12's lvalue rule.) -/
theorem C11_contexts_computable : ∀ c ∈ Context.all, c.site = none → ∀ typedOk changes : Bool,
    c.rejects genCfg typedOk false changes = true := by decide

theorem C11_erase_alike : genCfg.EraseAlike := by decide

/-- Select domain, array size, range bound (no side-effect test of their own): whatever an expression accepted as
    compile-time computable could write is itself a compile-time constant or a function symbol -- every written symbol is
    also a read symbol (`collect_possible_writes ⊆ collect_possible_reads`, per function `changes ⊆ depends`).  A constant
    is not a modifiable lvalue (property C12), so no accepted expression in these contexts writes a variable.
    (`extFree` / `bodiesExtFree`: no call of an external, dlopen'ed function, whose effects the library cannot see.) -/
theorem C11_computable_contexts_no_write (P : List FunDecl) (hb : bodiesExtFree genCfg P = true) (tab : SymTab) (e : Expr)
    (hf : extFree genCfg e = true) (hctc : isCTC genCfg (analyse genCfg P) tab e = true) :
    ∀ s ∈ collectWrites genCfg (analyse genCfg P) e, symOk tab s = true := by
  intro s hs
  exact symOk_of_isCTC hctc
    (writes_sub_reads C11_tables_exact (by decide) (analyse_envSub C11_tables_exact C11_erase_alike P hb) e _ hf hs)

/-- satisfiable, and sharp: `int z[pure(C)]` with a pure callee is accepted; `int z[(w = 1)]` is not computable -/
example : bodiesExtFree genCfg demoPure = true ∧
    isCTC genCfg (analyse genCfg demoPure) [(2, ⟨true, false⟩), (9, ⟨false, true⟩)] (demoCall 2 [.node .kIDENTIFIER 9 []]) = true ∧
    isCTC genCfg (analyse genCfg demoPure) [(2, ⟨true, false⟩), (1, ⟨false, false⟩)] (demoAssign 1) = false := by decide

/-- and the twin is not rejected by these checks: well-typed, computable, write-free passes every context -/
theorem C11_contexts_twin : ∀ c ∈ Context.all, c.rejects genCfg true true false = false := by decide

/-! ## array sizes: every dimension is a context of its own (Model/TypeWalk.lean) -/

/-- `T z[s₁][s₂]…[sₙ]` -/
def arrayOf (base : TypeWalk.WTy) : List TypeWalk.WTy → TypeWalk.WTy
  | [] => base
  | s :: ss => .array s (arrayOf base ss)

theorem arrayOf_wellKinded (base : TypeWalk.WTy) (hb : base.wellKinded = true) :
    ∀ sizes : List TypeWalk.WTy, (∀ s ∈ sizes, s.wellKinded = true) → (arrayOf base sizes).wellKinded = true
  | [], _ => hb
  | s :: ss, h => by
    simp only [arrayOf, TypeWalk.WTy.wellKinded, Bool.and_eq_true]
    exact ⟨h s (by simp), arrayOf_wellKinded base hb ss (fun t ht => h t (by simp [ht]))⟩

theorem arrayOf_exprs (base : TypeWalk.WTy) : ∀ sizes : List TypeWalk.WTy, ∀ s ∈ sizes, ∀ x ∈ s.exprs, x ∈ (arrayOf base sizes).exprs
  | [], s, hs, _, _ => by simp at hs
  | t :: ts, s, hs, x, hx => by
    simp only [arrayOf, TypeWalk.WTy.exprs, List.mem_append]
    rcases List.mem_cons.mp hs with h | h
    · exact Or.inl (h ▸ hx)
    · exact Or.inr (arrayOf_exprs base ts s h x hx)

/-- The size expression of EVERY dimension of an array declaration -- first, inner, last, whatever the element type is (a
    typedef name of a further array type included) -- is handed to the checks that reject a size whose evaluation can write
    (`C11_computable_contexts_no_write`): today's `checkType` leaves no dimension out. -/
theorem C11_every_dimension_checked (base : TypeWalk.WTy) (hb : base.wellKinded = true) (sizes : List TypeWalk.WTy)
    (hs : ∀ s ∈ sizes, s.wellKinded = true) : ∀ s ∈ sizes, ∀ x ∈ s.exprs, x ∈ TypeWalk.visits genWalk (arrayOf base sizes) :=
  fun s hin x hx => TypeWalk.visits_complete genWalk (by decide) (arrayOf base sizes) (arrayOf_wellKinded base hb sizes hs) x
    (arrayOf_exprs base sizes s hin x hx)

end UtapModel.C11
