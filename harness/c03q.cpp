// C03 (queries): parse a query with the real query builder, print it, re-parse, compare.  Testing only (no Lean model).
//   in : one query per line
//   out: OK <root kind> <str> <equal|notequal|REPARSE-REJECT msg|STR-EXCEPTION msg> <second str> <kind tree>   |   REJECT <msg>
// The kind tree (format of harness/c02.cpp) is what the Lean query layer (Model/Query.lean, driver op QRY) recomputes.
#include "common.hpp"
#include <limits>
#include <sstream>

using namespace UTAP;
using namespace UTAP::Constants;

static const char* DECLS = R"(
int a, b, c, d, e, i, j, k;
int arr[4];
bool p, q;
double x, y;
clock cl;
process P() { state s0; init s0; trans s0 -> s0 { guard a < 3; assign a = a + 1; }; }
process T(const int[0,3] id) { int v; state t0; init t0; }
process T2(const int[0,3] id, const int[0,1] u) { int v; int w[3]; state t0, t1; init t0; }
system P, T, T2;
)";

// keeps the whole query expression (TigaPropertyBuilder strips `control:` etc. into PropInfo::type)
class QueryGrabber : public StatementBuilder
{
public:
    std::vector<expression_t> queries;
    explicit QueryGrabber(Document& d): StatementBuilder{d} {}
    void property() override
    {
        if (fragments.size() == 0) return;
        queries.push_back(fragments[0]);
        fragments.pop();
    }
    void strategy_declaration(const char*) override {}
    void subjection(const char*) override {}
    void imitation(const char*) override {}
    variable_t* addVariable(type_t, const std::string&, expression_t, position_t) override { throw NotSupportedException("addVariable"); }
    bool addFunction(type_t, const std::string&, position_t) override { throw NotSupportedException("addFunction"); }
    void drop() { while (fragments.size() > 0) fragments.pop(); }
};

// kind tree in the model's format: constants with type tag, doubles as hex bits, DOT with the field *name*
static std::string ktree(const expression_t& e)
{
    if (e.empty()) return "()";
    std::ostringstream os;
    auto k = e.get_kind();
    os << "(" << vh::kindName(k);
    if (k == IDENTIFIER) os << " " << e.get_symbol().get_name();
    else if (k == CONSTANT) {
        type_t t = e.get_type();
        if (t.is(Constants::DOUBLE)) os << " double " << vh::hexDouble(e.get_double_value());
        else if (t.is_string()) os << " string " << std::string(e.get_string_value());
        else if (t.is(Constants::BOOL)) os << " bool " << e.get_value();
        else os << " int " << e.get_value();
    } else if (k == DOT) {
        type_t t = e[0].get_type();
        int idx = e.get_index();
        if (idx == std::numeric_limits<int32_t>::max()) os << " location";
        else if (t.is_record() || t.is_process()) os << " " << t.get_record_label(idx);
        else os << " #" << idx;
    }
    for (size_t i = 0; i < e.get_size(); ++i) {
        // the path types of a probability comparison are stored as the constants BOX / DIAMOND (expr_proba_compare): by name
        if (k == PROBA_CMP && (i == 2 || i == 6) && e[i].get_kind() == CONSTANT && (e[i].get_value() == BOX || e[i].get_value() == DIAMOND))
            os << " (CONSTANT path " << (e[i].get_value() == BOX ? "BOX" : "DIAMOND") << ")";
        else
            os << " " << ktree(e[i]);
    }
    os << ")";
    return os.str();
}

static std::string oneline(std::string s)
{
    for (auto& c : s) if (c == '\n' || c == '\t') c = ' ';
    return s;
}

int main()
{
    Document doc;
    if (!parse_XTA(DECLS, &doc, true) || doc.has_errors()) {
        std::cout << "SCOPE-ERROR\n";
        for (auto& e : doc.get_errors()) std::cout << e.msg << "\n";
        return 2;
    }
    QueryGrabber pb(doc);
    std::string line;
    while (std::getline(std::cin, line)) {
        std::string out;
        try {
            doc.clear_errors();
            doc.clear_warnings();
            size_t n0 = pb.queries.size();
            pb.drop();
            parseProperty(line.c_str(), &pb);
            if (doc.has_errors() || pb.queries.size() != n0 + 1) {
                out = "REJECT " + (doc.has_errors() ? doc.get_errors()[0].msg : std::string("no property"));
            } else {
                expression_t e = pb.queries.back();
                std::string s1, s2, status;
                try {
                    s1 = e.str();
                    doc.clear_errors();
                    size_t n1 = pb.queries.size();
                    pb.drop();
                    parseProperty(s1.c_str(), &pb);
                    if (doc.has_errors() || pb.queries.size() != n1 + 1)
                        status = "REPARSE-REJECT " + (doc.has_errors() ? doc.get_errors()[0].msg : std::string("no property"));
                    else {
                        expression_t e2 = pb.queries.back();
                        status = e2.equal(e) ? "equal" : "notequal";
                        s2 = e2.str();
                    }
                } catch (std::exception& ex) {
                    status = std::string("STR-EXCEPTION ") + ex.what();
                }
                out = std::string("OK\t") + vh::kindName(e.get_kind()) + "\t" + oneline(s1) + "\t" + oneline(status) + "\t" + oneline(s2) + "\t" + oneline(ktree(e));
            }
        } catch (std::exception& ex) {
            out = std::string("REJECT exception ") + ex.what();
        }
        std::cout << oneline(out).substr(0, 0) << out << "\n";
    }
    return 0;
}
