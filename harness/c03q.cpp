// C03 (queries): parse a query with the real query builder, print it, re-parse, compare.  Testing only (no Lean model).
//   in : one query per line
//   out: OK <root kind> <str> <equal|notequal|REPARSE-REJECT msg|STR-EXCEPTION msg> <second str>   |   REJECT <msg>
#include "common.hpp"

using namespace UTAP;
using namespace UTAP::Constants;

static const char* DECLS = R"(
int a, b, c, d, e, i, j, k;
int arr[4];
bool p, q;
double x, y;
clock cl;
process P() { state s0; init s0; trans s0 -> s0 { guard a < 3; assign a = a + 1; }; }
system P;
)";

// keeps the whole query expression (TigaPropertyBuilder strips `control:` etc. into PropInfo::type)
class QueryGrabber : public StatementBuilder
{
public:
    std::vector<expression_t> queries;
    explicit QueryGrabber(Document& d): StatementBuilder{d} {}
    void property() override
    {
        if (fragments.size() == 0) return;
        queries.push_back(fragments[0]);
        fragments.pop();
    }
    void strategy_declaration(const char*) override {}
    void subjection(const char*) override {}
    void imitation(const char*) override {}
    variable_t* addVariable(type_t, const std::string&, expression_t, position_t) override { throw NotSupportedException("addVariable"); }
    bool addFunction(type_t, const std::string&, position_t) override { throw NotSupportedException("addFunction"); }
    void drop() { while (fragments.size() > 0) fragments.pop(); }
};

static std::string oneline(std::string s)
{
    for (auto& c : s) if (c == '\n' || c == '\t') c = ' ';
    return s;
}

int main()
{
    Document doc;
    if (!parse_XTA(DECLS, &doc, true) || doc.has_errors()) {
        std::cout << "SCOPE-ERROR\n";
        for (auto& e : doc.get_errors()) std::cout << e.msg << "\n";
        return 2;
    }
    QueryGrabber pb(doc);
    std::string line;
    while (std::getline(std::cin, line)) {
        std::string out;
        try {
            doc.clear_errors();
            doc.clear_warnings();
            size_t n0 = pb.queries.size();
            pb.drop();
            parseProperty(line.c_str(), &pb);
            if (doc.has_errors() || pb.queries.size() != n0 + 1) {
                out = "REJECT " + (doc.has_errors() ? doc.get_errors()[0].msg : std::string("no property"));
            } else {
                expression_t e = pb.queries.back();
                std::string s1, s2, status;
                try {
                    s1 = e.str();
                    doc.clear_errors();
                    size_t n1 = pb.queries.size();
                    pb.drop();
                    parseProperty(s1.c_str(), &pb);
                    if (doc.has_errors() || pb.queries.size() != n1 + 1)
                        status = "REPARSE-REJECT " + (doc.has_errors() ? doc.get_errors()[0].msg : std::string("no property"));
                    else {
                        expression_t e2 = pb.queries.back();
                        status = e2.equal(e) ? "equal" : "notequal";
                        s2 = e2.str();
                    }
                } catch (std::exception& ex) {
                    status = std::string("STR-EXCEPTION ") + ex.what();
                }
                out = std::string("OK\t") + vh::kindName(e.get_kind()) + "\t" + oneline(s1) + "\t" + oneline(status) + "\t" + oneline(s2);
            }
        } catch (std::exception& ex) {
            out = std::string("REJECT exception ") + ex.what();
        }
        std::cout << oneline(out).substr(0, 0) << out << "\n";
    }
    return 0;
}
