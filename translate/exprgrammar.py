#!/usr/bin/env python3
"""Translator: the `Expression` sub-grammar of /repo/src/parser.y (+ operator literals of lexer.l, NEW-syntax keywords of
keywords.cpp)  ->  lean/UtapModel/Gen/ExprGrammar.lean.

Emits (as plain data; the Lean side builds the `Tbl` from it and proves things about it by `decide`):
  * tokNames        : every terminal with a precedence or used as an expression operator (index = token id)
  * precLevels      : the %left/%right/%nonassoc block, in order (low -> high)
  * binProds        : `Expression TOK Expression` productions  (token, level token, kind)   incl. the assignment family
  * implyProd       : the `Expression T_KW_IMPLY {…} Expression` production
  * preProds        : prefix productions (token, level token, resulting kind or "" for identity)
  * postProds       : postfix productions (token, kind)
  * quantProds      : forall/exists/sum  (token, level token, kind)
  * tern / topLevel : `?:` production (token level of '?', %prec level) ; level of '(' '[' '.'
  * fnProds         : builtin functions (token, kind, arity)
  * literals        : operator literal -> token  (from lexer.l),  keywords: word -> token (NEW syntax)
  * exprListLeftRec : is the recursive alternative of `ExprList` (the comma list) the left-recursive one?
Fails closed: an alternative of `Expression` it cannot classify raises TranslateError.
"""
import os
import re
import sys


class TranslateError(Exception):
    pass


def strip_c_comments(s):
    s = re.sub(r"/\*.*?\*/", lambda m: " " * 1 if "\n" not in m.group(0) else "\n" * m.group(0).count("\n"), s, flags=re.S)
    return s


def split_rules(gram):
    """Very small yacc reader: returns {nonterminal: [alternative]} ; alternative = dict(symbols, actions(list of text), prec)"""
    # tokenise into: identifiers, 'c' char literals, { action }, |, :, ;, %prec
    i, n = 0, len(gram)
    toks = []
    while i < n:
        c = gram[i]
        if c.isspace():
            i += 1
        elif c == "{":
            d, j = 0, i
            while j < n:
                if gram[j] == "{":
                    d += 1
                elif gram[j] == "}":
                    d -= 1
                    if d == 0:
                        break
                elif gram[j] == "'" and j + 2 < n and gram[j + 2] == "'":
                    j += 2
                elif gram[j] == '"':
                    j += 1
                    while j < n and gram[j] != '"':
                        j += 2 if gram[j] == "\\" else 1
                j += 1
            toks.append(("act", gram[i:j + 1]))
            i = j + 1
        elif c == "'":
            j = i + 3 if gram[i + 1] == "\\" else i + 2
            if gram[j] != "'":
                raise TranslateError("bad character literal at %r" % gram[i:i + 10])
            toks.append(("sym", gram[i:j + 1]))
            i = j + 1
        elif c == "/" and gram[i + 1] == "/":
            while i < n and gram[i] != "\n":
                i += 1
        elif c in "|:;":
            toks.append((c, c))
            i += 1
        elif c == "%":
            m = re.match(r"%(\w+)", gram[i:])
            toks.append(("dir", m.group(1)))
            i += m.end()
        elif re.match(r"[A-Za-z_]", c):
            m = re.match(r"[A-Za-z_][A-Za-z_0-9]*", gram[i:])
            toks.append(("sym", m.group(0)))
            i += m.end()
        elif c == "<":  # %type <x>
            j = gram.index(">", i)
            i = j + 1
        else:
            raise TranslateError("unexpected character in grammar section: %r at %r" % (c, gram[i:i + 30]))
    rules = {}
    i = 0
    while i < len(toks):
        k, v = toks[i]
        if k == "sym" and i + 1 < len(toks) and toks[i + 1][0] == ":":
            name = v
            i += 2
            alts, cur = [], dict(symbols=[], actions=[], prec=None)
            while toks[i][0] != ";":
                k, v = toks[i]
                if k == "|":
                    alts.append(cur)
                    cur = dict(symbols=[], actions=[], prec=None)
                elif k == "act":
                    cur["actions"].append((len(cur["symbols"]), v))
                elif k == "dir" and v == "prec":
                    i += 1
                    cur["prec"] = toks[i][1]
                elif k == "sym":
                    cur["symbols"].append(v)
                else:
                    raise TranslateError("unexpected %r in rule %s" % ((k, v), name))
                i += 1
            alts.append(cur)
            rules.setdefault(name, []).extend(alts)
            i += 1
        else:
            i += 1
    return rules


def calls_of(alt):
    out = []
    for pos, a in alt["actions"]:
        for m in re.finditer(r"CALL\(\s*@\d+\s*,\s*@\d+\s*,\s*(\w+)\(([^;]*)\)\s*\)\s*;", a):
            out.append((pos, m.group(1), m.group(2).strip()))
    return out


def kind_alternatives(rules, nt):
    """alternatives of the form  TOK { $$ = KIND; }"""
    out = []
    for alt in rules[nt]:
        if len(alt["symbols"]) != 1 or len(alt["actions"]) != 1:
            raise TranslateError("unexpected alternative of %s: %r" % (nt, alt))
        m = re.search(r"\$\$\s*=\s*(\w+)\s*;", alt["actions"][0][1])
        if not m:
            raise TranslateError("no kind in alternative of %s" % nt)
        out.append((alt["symbols"][0], m.group(1)))
    return out


def extract(repo="/repo"):
    y = open(os.path.join(repo, "src", "parser.y")).read()
    parts = y.split("\n%%")
    if len(parts) < 3:
        raise TranslateError("parser.y: cannot find the %% sections")
    decl, gram = parts[0], strip_c_comments(parts[1])
    # ---- precedence block
    levels = []
    for line in strip_c_comments(decl).split("\n"):
        m = re.match(r"\s*%(left|right|nonassoc)\s+(.*)$", line)
        if m:
            toks = re.findall(r"'\\?.'|[A-Za-z_][A-Za-z_0-9]*", m.group(2))
            levels.append((m.group(1), toks))
    if len(levels) < 15:
        raise TranslateError("precedence block not found (%d lines)" % len(levels))
    level_of = {}
    for i, (_, toks) in enumerate(levels):
        for t in toks:
            if t in level_of:
                raise TranslateError("token %s has two precedence declarations" % t)
            level_of[t] = i + 1
    rules = split_rules(gram)
    for need in ("Expression", "Assignment", "AssignOp", "UnaryOp", "BuiltinFunction1", "BuiltinFunction2", "BuiltinFunction3",
                 "ArgList"):
        if need not in rules:
            raise TranslateError("nonterminal %s not found" % need)
    G = dict(levels=levels, bin=[], pre=[], post=[], quant=[], fn=[], atoms=[], imply=None, tern=None, top=None, ignored=[])

    def rule_prec(alt):
        if alt["prec"]:
            return alt["prec"]
        terms = [s for s in alt["symbols"] if s in level_of]
        return terms[-1] if terms else None

    unary = kind_alternatives(rules, "UnaryOp")
    assign = kind_alternatives(rules, "AssignOp")
    top_tokens = set()
    for alt in rules["Expression"]:
        syms, calls = alt["symbols"], calls_of(alt)
        cn = [c[1] for c in calls]
        E = "Expression"
        if syms == [E, "'('", "ArgList", "')'"] and cn == ["expr_call_begin", "expr_call_end"]:
            top_tokens.add("'('")
            G["call"] = True
        elif "error" in syms:
            G["ignored"].append(" ".join(syms))          # error-recovery productions: outside the model (inputs it rejects)
        elif len(syms) == 3 and syms[0] == E and syms[2] == E and cn == ["expr_binary"]:
            G["bin"].append((syms[1], rule_prec(alt), calls[0][2]))
        elif syms == [E, "T_KW_IMPLY", E] and cn == ["expr_unary", "expr_binary"] and calls[0][2] == "NOT" and calls[0][0] == 2:
            G["imply"] = ("T_KW_IMPLY", rule_prec(alt), calls[1][2])
        elif syms == [E, "'?'", E, "':'", E] and cn == ["expr_inline_if"]:
            G["tern"] = ("'?'", rule_prec(alt))
        elif syms == [E, "'['", E, "']'"] and cn == ["expr_array"]:
            top_tokens.add("'['")
        elif syms == ["'('", E, "')'"] and cn == []:
            G["paren"] = True
        elif syms == [E, "'.'", "NonTypeId"] and cn == ["expr_dot"]:
            top_tokens.add("'.'")
        elif syms == [E, "'.'", "T_LOCATION"] and cn == ["expr_location"]:
            G["dotLoc"] = True
        elif len(syms) == 2 and syms[0] == E and cn in (["expr_post_increment"], ["expr_post_decrement"]):
            G["post"].append((syms[1], "POST_INCREMENT" if cn[0].endswith("increment") else "POST_DECREMENT"))
        elif len(syms) == 2 and syms[0] == E and cn == ["expr_unary"]:
            G["post"].append((syms[1], calls[0][2]))
        elif len(syms) == 2 and syms[1] == E and cn in (["expr_pre_increment"], ["expr_pre_decrement"]):
            G["pre"].append((syms[0], rule_prec(alt), "PRE_INCREMENT" if cn[0].endswith("increment") else "PRE_DECREMENT"))
        elif syms == ["UnaryOp", E] and cn == ["expr_unary"]:
            for tok, k in unary:
                # ExpressionBuilder::expr_unary: PLUS is ignored, MINUS becomes UNARY_MINUS (checked by the correspondence)
                G["pre"].append((tok, rule_prec(alt), {"PLUS": "", "MINUS": "UNARY_MINUS"}.get(k, k)))
        elif syms == ["T_MINUS", "T_POS_NEG_MAX"] and cn == ["expr_nat"]:
            G["intMin"] = "T_MINUS"
        elif len(syms) == 1 and syms[0] in ("T_FALSE", "T_TRUE", "T_NAT", "T_FLOATING", "T_CHARARR", "NonTypeId", "T_DEADLOCK"):
            G["atoms"].append(syms[0])
        elif len(syms) >= 4 and syms[0].startswith("BuiltinFunction") and syms[1] == "'('":
            ar = int(syms[0][-1])
            if syms.count(E) != ar or cn != ["expr_builtin_function%d" % ar]:
                raise TranslateError("builtin function production changed shape: %r" % syms)
            for tok, k in kind_alternatives(rules, syms[0]):
                G["fn"].append((tok, k, ar))
        elif len(syms) == 7 and syms[1:6] == ["'('", "Id", "':'", "Type", "')'"] and syms[6] == E and len(cn) == 2:
            k = {"expr_forall_end": "FORALL", "expr_exists_end": "EXISTS", "expr_sum_end": "SUM"}.get(cn[1])
            if not k or calls[0][0] != 6:
                raise TranslateError("quantifier production changed shape: %r %r" % (syms, cn))
            G["quant"].append((syms[0], rule_prec(alt), k))
        elif syms in (["DynamicExpression"], ["MITLExpression"]):
            G["ignored"].append(syms[0])                 # dynamic / MITL expressions: outside the model's fragment
        elif syms == ["Assignment"]:
            a = rules["Assignment"]
            if len(a) != 1 or a[0]["symbols"] != [E, "AssignOp", E] or [c[1] for c in calls_of(a[0])] != ["expr_assignment"]:
                raise TranslateError("Assignment production changed shape")
            for tok, k in assign:
                G["bin"].append((tok, rule_prec(a[0]), k))
        else:
            raise TranslateError("unclassified Expression alternative: %s   calls=%r" % (" ".join(syms), cn))
    # ---- ExprList, the comma list of update labels, for/while/if/switch heads and before_update/after_update: which side the
    # recursion is on decides the order of the expr_comma() reductions, i.e. to which side a list of three or more elements nests
    if "ExprList" not in rules:
        raise TranslateError("nonterminal ExprList not found")
    la = rules["ExprList"]
    lbase = [a for a in la if a["symbols"] == ["Expression"] and not calls_of(a)]
    lrec = [a for a in la if a not in lbase]
    if len(la) != 2 or len(lbase) != 1 or [(c[0], c[1], c[2]) for c in calls_of(lrec[0])] != [(3, "expr_comma", "")]:
        raise TranslateError("ExprList is not `Expression | <recursive alternative> { expr_comma() }` any more: %r" % [a["symbols"] for a in la])
    if lrec[0]["symbols"] == ["ExprList", "','", "Expression"]:
        G["exprlist_left"] = True
    elif lrec[0]["symbols"] == ["Expression", "','", "ExprList"]:
        G["exprlist_left"] = False
    else:
        raise TranslateError("unclassified recursive alternative of ExprList: %s" % " ".join(lrec[0]["symbols"]))
    for req in ("imply", "tern", "call", "paren", "intMin"):
        if not G.get(req):
            raise TranslateError("production %s not found" % req)
    lv = {level_of.get(t) for t in top_tokens}
    if len(lv) != 1 or None in lv:
        raise TranslateError("'(' '[' '.' are not on one precedence level: %r" % lv)
    G["top"] = sorted(top_tokens)[0]
    # every token used must have a level
    for t, p, _k in G["bin"] + G["pre"] + G["quant"] + [G["imply"]]:
        if p not in level_of:
            raise TranslateError("production with token %s has no precedence (%r)" % (t, p))
    for t, _k in G["post"]:
        if t not in level_of:
            raise TranslateError("postfix token %s has no precedence" % t)
    # the model uses one number per infix operator both as the level of its production (reduce side) and as the level
    # of its token (shift side): a %prec on an infix production that moves it away from its token is not supported
    for t, p, _k in G["bin"] + [G["imply"]]:
        if level_of[t] != level_of[p]:
            raise TranslateError("infix production of %s has %%prec %s on another level than its token" % (t, p))
    # ---- lexer literals
    lx = open(os.path.join(repo, "src", "lexer.l")).read()
    lits = []
    for m in re.finditer(r'^"((?:[^"\\]|\\.)+)"\s*\{\s*return\s+([^;]+);\s*\}', lx, re.M):
        lit = re.sub(r"\\(.)", r"\1", m.group(1))
        lits.append((lit, m.group(2).strip()))
    if len(lits) < 40:
        raise TranslateError("lexer literal rules not found (%d)" % len(lits))
    kw = []
    ks = open(os.path.join(repo, "src", "keywords.cpp")).read()
    for m in re.finditer(r'\{"(\w+)",\s*Keyword\{(\w+),\s*syntax_t::(\w+)\}\}', ks):
        kw.append((m.group(1), m.group(2), m.group(3)))
    if len(kw) < 100:
        raise TranslateError("keyword table not found (%d)" % len(kw))
    G["literals"], G["keywords"], G["level_of"] = lits, kw, level_of
    # ---- the identifier rule's length guard and the token buffer
    hp = open(os.path.join(repo, "src", "libparser.h")).read()
    mm = re.search(r"constexpr\s+auto\s+MAXLEN\s*=\s*(\d+)u?\s*;", hp)
    if not mm:
        raise TranslateError("MAXLEN not found in libparser.h")
    maxlen = int(mm.group(1))
    rule = re.search(r"\n\{alpha\}\{idchr\}\*\s*\{(.*?)\n\}\n", lx, re.S)
    if not rule:
        raise TranslateError("identifier rule of lexer.l not found")
    body = rule.group(1)
    gm = re.search(r"if\s*\(\s*utap_string\.size\(\)\s*(>=|>)\s*MAXLEN\s*\)\s*\{[^{}]*utap_error\(ID_TOO_LONG\);\s*\}", body)
    NOGUARD = 10 ** 9      # no (recognisable) guard: nothing is reported; the theorems about truncation then fail and the oracle looks for the input
    if not gm:
        G["ident_too_long_from"], G["ident_buf_keeps"], G["string_too_long_from"] = NOGUARD, maxlen - 1, NOGUARD
        G["guard_note"] = "identifier rule: the length guard `if (utap_string.size() >= MAXLEN) utap_error(ID_TOO_LONG)` was not found"
        return G
    copies = re.findall(r"strncpy\(utap_lval\.string,\s*utap_text,\s*MAXLEN\);\s*utap_lval\.string\[MAXLEN - 1\]\s*=\s*'\\0';", body)
    if len(copies) != 2 or body.index("ID_TOO_LONG") > body.index("strncpy(utap_lval.string"):
        raise TranslateError("identifier rule: the token text is not copied as `strncpy(.., MAXLEN); string[MAXLEN - 1] = 0` after the guard any more")
    srule = re.search(r'\n\\"\[\^\\"\]\+\\"\s*\{(.*?)\n\}\n', lx, re.S)
    if not srule:
        raise TranslateError("string-literal rule of lexer.l not found")
    sbody = srule.group(1)
    sg = re.search(r"if\s*\(\s*static_cast<size_t>\(utap_leng\)\s*(>=|>)\s*MAXLEN\s*\)\s*\{[^{}]*utap_error\(STRING_TOO_LONG\);\s*\}", sbody)
    if not sg or "strncpy(utap_lval.string, utap_text, MAXLEN);" not in sbody[sg.end():] or "utap_lval.string[MAXLEN - 1] = '\\0';" not in sbody:
        G["string_too_long_from"] = NOGUARD
        G["guard_note"] = "string-literal rule: length guard followed by `strncpy(.., MAXLEN); string[MAXLEN - 1] = 0` not found"
    else:
        G["string_too_long_from"] = maxlen if sg.group(1) == ">=" else maxlen + 1   # smallest token length (quotes included) that is reported
    G["ident_too_long_from"] = maxlen if gm.group(1) == ">=" else maxlen + 1     # smallest length that is reported
    G["ident_buf_keeps"] = maxlen - 1                                           # characters of the text that reach the token
    return G


def lean_str(s):
    return '"' + s.replace("\\", "\\\\").replace('"', '\\"') + '"'


def emit(G):
    names = []

    def tid(t):
        if t not in names:
            names.append(t)
        return names.index(t)
    for _, toks in G["levels"]:
        for t in toks:
            tid(t)
    for t, p, k in G["bin"] + G["pre"] + G["quant"] + [G["imply"]]:
        tid(t)
    for t, k in G["post"]:
        tid(t)
    L = ["/- GENERATED by translate/exprgrammar.py from src/parser.y, src/lexer.l, src/keywords.cpp on every check run -- do not edit. -/",
         "namespace UtapModel.ExprGrammar", ""]
    L.append("/-- terminals; a token id is an index into this list -/")
    L.append("def tokNames : List String := [" + ", ".join(lean_str(n) for n in names) + "]")
    L.append("")
    L.append("/-- the %left/%right block of parser.y, lowest precedence first: (right associative?, token ids) -/")
    L.append("def precLevels : List (Bool × List Nat) := [")
    L.append(",\n".join("  (%s, [%s])" % ("true" if a == "right" else "false", ", ".join(str(tid(t)) for t in toks)) for a, toks in G["levels"]))
    L.append("]")
    L.append("def nonassocLevels : List Nat := [%s]" % ", ".join(str(i + 1) for i, (a, _) in enumerate(G["levels"]) if a == "nonassoc"))
    lo = G["level_of"]
    L.append("")
    L.append("/-- `Expression TOK Expression` productions incl. the assignment family: (token, level of the production, kind) -/")
    L.append("def binProds : List (Nat × Nat × String) := [" + ", ".join("(%d, %d, %s)" % (tid(t), lo[p], lean_str(k)) for t, p, k in G["bin"]) + "]")
    t, p, k = G["imply"]
    L.append("/-- `a imply b` (built as %s(NOT a, b)): (token, level, kind of the binary node) -/" % k)
    L.append("def implyProd : Nat × Nat × String := (%d, %d, %s)" % (tid(t), lo[p], lean_str(k)))
    L.append("/-- prefix productions: (token, level of the production, kind; \"\" = no node (unary plus)) -/")
    L.append("def preProds : List (Nat × Nat × String) := [" + ", ".join("(%d, %d, %s)" % (tid(t), lo[p], lean_str(k)) for t, p, k in G["pre"]) + "]")
    L.append("/-- postfix productions: (token, level of the token, kind) -/")
    L.append("def postProds : List (Nat × Nat × String) := [" + ", ".join("(%d, %d, %s)" % (tid(t), lo[t], lean_str(k)) for t, k in G["post"]) + "]")
    L.append("/-- quantifier productions: (token, level of the production, kind) -/")
    L.append("def quantProds : List (Nat × Nat × String) := [" + ", ".join("(%d, %d, %s)" % (tid(t), lo[p], lean_str(k)) for t, p, k in G["quant"]) + "]")
    L.append("def questLevel : Nat := %d" % lo[G["tern"][0]])
    L.append("def ternLevel : Nat := %d" % lo[G["tern"][1]])
    L.append("def topLevel : Nat := %d" % lo[G["top"]])
    L.append("def minusTok : Nat := %d" % tid(G["intMin"]))
    L.append("/-- builtin functions: (keyword token name, kind, arity) -/")
    L.append("def fnProds : List (String × String × Nat) := [" + ", ".join("(%s, %s, %d)" % (lean_str(t), lean_str(k), a) for t, k, a in G["fn"]) + "]")
    L.append("/-- the recursive alternative of `ExprList` (callback expr_comma at its end): `ExprList ',' Expression` (true: one reduction per")
    L.append("    element, the tree grows to the left) or `Expression ',' ExprList` (false: all reductions at the end, it grows to the right) -/")
    L.append("def exprListLeftRec : Bool := %s" % ("true" if G["exprlist_left"] else "false"))
    L.append("def atomProds : List String := [" + ", ".join(lean_str(a) for a in G["atoms"]) + "]")
    L.append("/-- operator literals of lexer.l: (text, token name) -/")
    L.append("def literals : List (String × String) := [" + ", ".join("(%s, %s)" % (lean_str(a), lean_str(b)) for a, b in G["literals"]) + "]")
    L.append("/-- keywords of keywords.cpp that are active in the NEW (4.x) syntax: (word, token name) -/")
    L.append("def keywordsNew : List (String × String) := [" + ", ".join("(%s, %s)" % (lean_str(w), lean_str(t)) for w, t, s in G["keywords"] if "NEW" in s) + "]")
    L.append("/-- productions of `Expression` that are outside the model (error recovery, dynamic and MITL expressions) -/")
    L.append("def outsideModel : List String := [" + ", ".join(lean_str(x) for x in G["ignored"]) + "]")
    L.append("/-- the identifier rule of lexer.l: the smallest identifier length that is reported (`$Identifier_is_too_long`), and how many")
    L.append("    characters of an identifier the token buffer keeps (`strncpy(.., MAXLEN); string[MAXLEN - 1] = 0`, MAXLEN of libparser.h) -/")
    L.append("def identTooLongFrom : Nat := %d" % G["ident_too_long_from"])
    L.append("def identBufKeeps : Nat := %d" % G["ident_buf_keeps"])
    L.append("/-- the string-literal rule: the smallest token length (quotes included) that is reported (`$String_literal_is_too_long`) -/")
    L.append("def stringTooLongFrom : Nat := %d" % G["string_too_long_from"])
    L += ["", "end UtapModel.ExprGrammar", ""]
    return "\n".join(L)


def translate(repo="/repo"):
    return emit(extract(repo))


if __name__ == "__main__":
    sys.stdout.write(translate(sys.argv[1] if len(sys.argv) > 1 else "/repo"))
