#!/bin/bash
# usage: tools/try_seed.sh <PROP> <seed dir with patch.diff demo.cpp meta.json> [democompile-extra]
# Applies the patch in the scratch worktree /var/tmp/main-mt/wt, rebuilds, runs the unit tests, the demo (with / without), and the check.
set -u
P=$1; D=$2
WT=/var/tmp/main-mt/wt; B=/var/tmp/main-mt/build
cd $WT && git checkout -q -- . && git apply $D/patch.diff || { echo "PATCH DOES NOT APPLY"; exit 2; }
cmake --build $B 2>&1 | tail -1
ctest --test-dir $B -j8 2>&1 | grep "tests passed\|tests failed"
if [ -f $D/demo.cpp ]; then
  (cd $D && g++ -std=c++17 demo.cpp -I $WT/include -I $WT/src -I $B/src/include $B/src/libUTAP.a -lxml2 -ldl -o /var/tmp/main-mt/demo 2>&1 | tail -3)
  (cd $D && /var/tmp/main-mt/demo > /var/tmp/main-mt/demo.out 2>&1; echo "demo rc WITH change = $?"; tail -2 /var/tmp/main-mt/demo.out)
fi
cd /verif && VERIF_REPO=$WT VERIF_CACHE=/var/tmp/main-mt/cache ./check $P 2>&1 | grep -v "KNOWN-FINDING" | cut -c1-260 | head -9
cd $WT && git checkout -q -- . && cmake --build $B 2>&1 | tail -1
if [ -f $D/demo.cpp ]; then
  (cd $D && g++ -std=c++17 demo.cpp -I $WT/include -I $WT/src -I $B/src/include $B/src/libUTAP.a -lxml2 -ldl -o /var/tmp/main-mt/demo 2>&1 | tail -3; /var/tmp/main-mt/demo > /var/tmp/main-mt/demo.out 2>&1; echo "demo rc WITHOUT change = $?")
fi
