// Correspondence harness of C04 / C05 / C20 (structure of the document built from XML / XTA, and the XML writer).
//
// Protocol (stdin):   <op> <id> <nbytes>\n<bytes>\n        op = xml | xta | write
//   (xmlf / xtaf: the same text through the file entry points parse_XML_file / parse_XTA(FILE*); a trailing 0 -- xml0, xta0, xmlf0,
//    xtaf0 -- reads it in the 3.x syntax, newxta = false)
// Output (stdout):    BEGIN <id> <op> / ... lines ... / END <id>
//   xml, xta : TRACE lines (structural ParserBuilder callbacks as seen by a logging DocumentBuilder, with the
//              expression stack at the calls that consume it), then the canonical dump of the Document built through
//              the *public* entry point (parse_XML_buffer / parse_XTA with a Document*), diagnostics, verdict.
//   write    : parse the XML, write_XML_file, read the written file with libxml2's tree API (independent reader),
//              print the graph read ("W ...") and the graph of the document that was written ("D ...").
#include "common.hpp"
#include <locale>

#include "utap/xmlwriter.h"

#include <libxml/parser.h>
#include <libxml/tree.h>

#include <cstdio>
#include <set>
#include <sys/wait.h>
#include <unistd.h>

using namespace UTAP;
using namespace UTAP::Constants;

namespace {

class TraceBuilder : public DocumentBuilder
{
public:
    std::ostream& os;
    bool muted = false;
    TraceBuilder(Document& d, std::ostream& o): DocumentBuilder{d}, os{o} {}

    std::string stack()
    {
        std::string s = " |";
        for (uint32_t i = 0; i < fragments.size(); ++i) s += std::string(i ? " ; " : " ") + vh::sexp(fragments[i]);
        return s;
    }
    void line(const std::string& s)
    {
        if (!muted) os << "TRACE " << s << "\n";
    }
    static const char* b(bool x) { return x ? "1" : "0"; }

    // declarations (only top-level ones: not the locals of a function body)
    void decl_var(const char* name, bool init) override
    {
        if (!currentFun) line(std::string("decl_var ") + name);
        DocumentBuilder::decl_var(name, init);
    }
    void decl_func_begin(const char* name) override
    {
        line(std::string("decl_func ") + name);
        DocumentBuilder::decl_func_begin(name);
    }
    void decl_typedef(const char* name) override
    {
        if (!currentFun) line(std::string("decl_typedef ") + name);
        DocumentBuilder::decl_typedef(name);
    }
    void decl_parameter(const char* name, bool ref) override
    {
        if (!currentFun) line(std::string("decl_parameter ") + name + " " + b(ref));
        DocumentBuilder::decl_parameter(name, ref);
    }
    // templates
    void proc_begin(const char* name, const bool isTA, const std::string& type, const std::string& mode) override
    {
        line(std::string("proc_begin ") + name + " " + b(isTA));
        DocumentBuilder::proc_begin(name, isTA, type, mode);
    }
    void proc_end() override
    {
        line("proc_end" + stack());
        DocumentBuilder::proc_end();
    }
    void proc_location(const char* name, bool hasInvariant, bool hasER) override
    {
        line(std::string("proc_location ") + name + " " + b(hasInvariant) + " " + b(hasER) + stack());
        DocumentBuilder::proc_location(name, hasInvariant, hasER);
    }
    void proc_location_commit(const char* name) override
    {
        line(std::string("proc_location_commit ") + name);
        DocumentBuilder::proc_location_commit(name);
    }
    void proc_location_urgent(const char* name) override
    {
        line(std::string("proc_location_urgent ") + name);
        DocumentBuilder::proc_location_urgent(name);
    }
    void proc_branchpoint(const char* name) override
    {
        line(std::string("proc_branchpoint ") + name);
        DocumentBuilder::proc_branchpoint(name);
    }
    void proc_location_init(const char* name) override
    {
        line(std::string("proc_location_init ") + name);
        DocumentBuilder::proc_location_init(name);
    }
    void proc_edge_begin(const char* from, const char* to, const bool control, const char* actname) override
    {
        line(std::string("proc_edge_begin ") + from + " " + to + " " + b(control) + stack());
        DocumentBuilder::proc_edge_begin(from, to, control, actname);
    }
    void proc_edge_end(const char* from, const char* to) override
    {
        line(std::string("proc_edge_end ") + from + " " + to + stack());
        DocumentBuilder::proc_edge_end(from, to);
    }
    void proc_select(const char* id) override
    {
        line(std::string("proc_select ") + id + " " + vh::tsexp(typeFragments[0]));
        DocumentBuilder::proc_select(id);
    }
    void proc_guard() override
    {
        line("proc_guard" + stack());
        DocumentBuilder::proc_guard();
    }
    void proc_sync(synchronisation_t type) override
    {
        line(std::string("proc_sync ") + (type == SYNC_QUE ? "?" : type == SYNC_BANG ? "!" : "csp") + stack());
        DocumentBuilder::proc_sync(type);
    }
    void proc_update() override
    {
        line("proc_update" + stack());
        DocumentBuilder::proc_update();
    }
    void proc_prob() override
    {
        line("proc_prob" + stack());
        DocumentBuilder::proc_prob();
    }
    // system
    void instantiation_begin(const char* id, size_t parameters, const char* templ) override
    {
        line(std::string("instantiation_begin ") + id + " " + std::to_string(parameters) + " " + templ);
        DocumentBuilder::instantiation_begin(id, parameters, templ);
    }
    void instantiation_end(const char* id, size_t parameters, const char* templ, size_t arguments) override
    {
        line(std::string("instantiation_end ") + id + " " + std::to_string(parameters) + " " + templ + " " +
             std::to_string(arguments) + stack());
        DocumentBuilder::instantiation_end(id, parameters, templ, arguments);
    }
    void process(const char* name) override
    {
        line(std::string("process ") + name);
        DocumentBuilder::process(name);
    }
    void process_list_end() override
    {
        line("process_list_end");
        DocumentBuilder::process_list_end();
    }
    void proc_priority_inc() override
    {
        line("proc_priority_inc");
        DocumentBuilder::proc_priority_inc();
    }
    void done() override
    {
        line("done" + stack());
        DocumentBuilder::done();
    }
};

void analysis(Document& doc)
{
    // what parse_XML_buffer(.., Document*, ..) does after building (src/typechecker.cpp static_analysis)
    if (!doc.has_errors()) {
        TypeChecker checker{doc};
        doc.accept(checker);
        FeatureChecker fc{doc};
        doc.set_supported_methods(fc.get_supported_methods());
    }
}

void dumpAll(std::ostream& os, Document& doc)
{
    vh::dumpDocument(os, doc);
    // instances that are not templates (partial / full instantiations), in declaration order of the global frame
    frame_t g = doc.get_globals().frame;
    for (uint32_t i = 0; i < g.get_size(); ++i) {
        symbol_t s = g[i];
        if (s.get_type().get_kind() != INSTANCE) continue;
        auto* p = static_cast<instance_t*>(s.get_data());
        if (!p || (void*)p->templ == (void*)p) continue;
        os << "instance " << p->uid.get_name() << " templ=" << (p->templ ? p->templ->uid.get_name() : "NONE")
           << " unbound=" << p->unbound << " arguments=" << p->arguments << " params=" << vh::frameDump(p->parameters)
           << " mapping={";
        bool first = true;
        for (uint32_t j = 0; j < p->parameters.get_size(); ++j) {
            auto it = p->mapping.find(p->parameters[j]);
            if (it != p->mapping.end()) {
                os << (first ? "" : " ") << p->parameters[j].get_name() << "=" << vh::sexp(it->second);
                first = false;
            }
        }
        os << "}\n";
    }
    for (auto& p : doc.get_processes()) {
        int pr = 0;
        try {
            pr = doc.get_proc_priority(p.uid.get_name().c_str());
        } catch (...) {
            pr = -999;
        }
        os << "priority " << p.uid.get_name() << " " << pr << "\n";
    }
    os << "hasPriorities " << doc.has_priority_declaration() << "\n";
    {   // the action name of edges (XML attribute "action"; not part of the structural dump)
        std::set<std::string> names;
        for (auto& t : doc.get_templates())
            for (auto& e : t.edges) names.insert(e.actname);
        os << "ACTNAMES";
        for (auto& n : names) os << " " << vh::quote(n);
        os << "\n";
    }
    vh::dumpDiags(os, doc, false);
    auto m = doc.get_supported_methods();
    os << "VERDICT errors=" << doc.get_errors().size() << " symbolic=" << m.symbolic << " stochastic=" << m.stochastic
       << " concrete=" << m.concrete << "\n";
}

std::string dumpStr(Document& doc)
{
    std::ostringstream o;
    dumpAll(o, doc);
    return o.str();
}

// the text as a file: the file entry points must give what the buffer entry points give
struct TextFile
{
    FILE* f;
    explicit TextFile(const std::string& text): f{tmpfile()}
    {
        if (!f) throw std::runtime_error("tmpfile failed");
        if (!text.empty() && fwrite(text.data(), 1, text.size(), f) != text.size()) throw std::runtime_error("fwrite failed");
        fflush(f);
        rewind(f);
    }
    ~TextFile() { fclose(f); }
    std::string path() const { return "/proc/self/fd/" + std::to_string(fileno(f)); }
};

static bool isParseOp(const std::string& op)
{
    static const char* ops[] = {"xml", "xta", "xml0", "xta0", "xmlf", "xtaf", "xmlf0", "xtaf0"};
    for (auto* o : ops) if (op == o) return true;
    return false;
}

void opParse(const std::string& op, const std::string& text)
{
    // a trailing 0: the 3.x syntax (newxta = false); xmlf / xtaf: through parse_XML_file / parse_XTA(FILE*)
    const bool nx = op.back() != '0';
    const std::string fmt = nx ? op : op.substr(0, op.size() - 1);
    std::string tracedDump;
    {
        Document doc;
        TraceBuilder tb(doc, std::cout);
        try {
            auto* pb = static_cast<ParserBuilder*>(&tb);
            if (fmt == "xml") parse_XML_buffer(text.c_str(), pb, nx);
            else if (fmt == "xmlf") { TextFile tf(text); parse_XML_file(tf.path().c_str(), pb, nx); }
            else if (fmt == "xtaf") { TextFile tf(text); parse_XTA(tf.f, pb, nx); }
            else parse_XTA(text.c_str(), pb, nx);
        } catch (std::exception& ex) {
            std::cout << "TRACE-EXCEPTION " << vh::quote(ex.what()) << "\n";
        }
        analysis(doc);
        tracedDump = dumpStr(doc);
    }
    Document doc;
    try {
        if (fmt == "xml") parse_XML_buffer(text.c_str(), &doc, nx);
        else if (fmt == "xmlf") { TextFile tf(text); parse_XML_file(tf.path().c_str(), &doc, nx); }
        else if (fmt == "xtaf") { TextFile tf(text); parse_XTA(tf.f, &doc, nx); }
        else parse_XTA(text.c_str(), &doc, nx);
    } catch (std::exception& ex) {
        std::cout << "EXCEPTION " << vh::quote(ex.what()) << "\n";
    }
    std::string d = dumpStr(doc);
    std::cout << d;
    if (d != tracedDump) std::cout << "TRACED-DOCUMENT-DIFFERS\n" << tracedDump << "END-TRACED-DOCUMENT\n";
}

// ---------------------------------------------------------------------------------------------- invariants as stored
// what the type checker stored as the invariant of every location (RateDecomposer): the operands of the left-nested conjunction it builds,
// the cost rate, the document's stop-watch / strict-invariant flags, the diagnostics
void opRateDec(const std::string& text)
{
    Document doc;
    try {
        parse_XML_buffer(text.c_str(), &doc, true);
    } catch (std::exception& ex) {
        std::cout << "EXCEPTION " << vh::quote(ex.what()) << "\n";
    }
    for (auto& t : doc.get_templates()) {
        for (auto& l : t.locations) {
            std::vector<std::string> conj;
            expression_t e = l.invariant;
            while (!e.empty() && e.get_kind() == AND && e.get_size() == 2) {
                conj.push_back(e[1].str());
                e = e[0];
            }
            if (!e.empty()) conj.push_back(e.str());
            std::cout << "RD " << t.uid.get_name() << " " << l.uid.get_name() << " cost=" << (l.cost_rate.empty() ? std::string("-") : vh::quote(l.cost_rate.str()));
            for (auto it = conj.rbegin(); it != conj.rend(); ++it) std::cout << "\t" << *it;
            std::cout << "\n";
        }
    }
    std::cout << "RDFLAGS stopwatch=" << doc.has_stop_watch() << " strict=" << doc.has_strict_invariants() << "\n";
    for (auto& e : doc.get_errors()) std::cout << "RDERR " << vh::quote(e.msg) << "\n";
    for (auto& e : doc.get_warnings()) std::cout << "RDWARN " << vh::quote(e.msg) << "\n";
}

// ---------------------------------------------------------------------------------------------- C20
std::string attr(xmlNodePtr n, const char* name)
{
    xmlChar* v = xmlGetProp(n, (const xmlChar*)name);
    if (!v) return "<none>";
    std::string s = (const char*)v;
    xmlFree(v);
    return s;
}
std::string content(xmlNodePtr n)
{
    xmlChar* v = xmlNodeGetContent(n);
    std::string s = v ? (const char*)v : "";
    xmlFree(v);
    return s;
}
bool is(xmlNodePtr n, const char* name) { return n->type == XML_ELEMENT_NODE && !strcmp((const char*)n->name, name); }

// the graph read back from the written file by an independent reader
void readWritten(const std::string& path)
{
    xmlDocPtr d = xmlReadFile(path.c_str(), nullptr, XML_PARSE_NONET | XML_PARSE_NOERROR | XML_PARSE_NOWARNING);
    if (!d) {
        std::cout << "W NOT-WELL-FORMED\n";
        return;
    }
    xmlNodePtr root = xmlDocGetRootElement(d);
    if (!root || !is(root, "nta")) {
        std::cout << "W NO-NTA-ROOT\n";
        xmlFreeDoc(d);
        return;
    }
    for (xmlNodePtr t = root->children; t; t = t->next) {
        if (!is(t, "template")) continue;
        std::string tname = "<none>";
        for (xmlNodePtr c = t->children; c; c = c->next)
            if (is(c, "name")) tname = content(c);
        std::cout << "W template " << tname << "\n";
        for (xmlNodePtr c = t->children; c; c = c->next) {
            if (is(c, "location")) {
                std::string name = "<none>", inv = "-", rate = "-", flag = "";
                int others = 0;
                for (xmlNodePtr x = c->children; x; x = x->next) {
                    if (is(x, "name")) name = content(x);
                    else if (is(x, "label")) {
                        std::string k = attr(x, "kind");
                        if (k == "invariant") inv = vh::quote(content(x));
                        else if (k == "exponentialrate") rate = vh::quote(content(x));
                        else others++;
                    } else if (is(x, "urgent")) flag += "U";
                    else if (is(x, "committed")) flag += "C";
                }
                std::cout << "W location id=" << attr(c, "id") << " name=" << name << " flag=" << (flag.empty() ? "-" : flag)
                          << " inv=" << inv << " rate=" << rate << (others ? " otherlabels=" + std::to_string(others) : "") << "\n";
            } else if (is(c, "branchpoint")) {
                std::cout << "W branchpoint id=" << attr(c, "id") << "\n";
            } else if (is(c, "init")) {
                std::cout << "W init ref=" << attr(c, "ref") << "\n";
            } else if (is(c, "transition")) {
                std::string src = "<none>", dst = "<none>";
                std::string labels;
                for (xmlNodePtr x = c->children; x; x = x->next) {
                    if (is(x, "source")) src = attr(x, "ref");
                    else if (is(x, "target")) dst = attr(x, "ref");
                    else if (is(x, "label")) labels += " " + attr(x, "kind") + "=" + vh::quote(content(x));
                }
                std::cout << "W transition " << src << " -> " << dst << " controllable=" << attr(c, "controllable") << labels << "\n";
            }
        }
    }
    xmlFreeDoc(d);
}

// the same graph taken from the Document that was handed to the writer (text of labels through expression_t::str)
void docGraph(Document& doc)
{
    for (auto& t : doc.get_templates()) {
        if (!t.is_TA) continue;
        std::cout << "D template " << t.uid.get_name() << "\n";
        for (auto& l : t.locations) {
            type_t lt = l.uid.get_type();
            std::cout << "D location nr=" << l.nr << " name=" << l.uid.get_name() << " flag="
                      << (lt.is(URGENT) ? "U" : lt.is(COMMITTED) ? "C" : "-")
                      << " inv=" << (l.invariant.empty() ? std::string("-") : vh::quote(l.invariant.str()))
                      << " rate=" << (l.exp_rate.empty() ? std::string("-") : vh::quote(l.exp_rate.str())) << "\n";
        }
        for (auto& b : t.branchpoints) std::cout << "D branchpoint nr=" << b.bpNr << " name=" << b.uid.get_name() << "\n";
        std::cout << "D init " << (t.init == symbol_t() ? std::string("NONE") : t.init.get_name()) << "\n";
        for (auto& e : t.edges) {
            std::cout << "D edge " << vh::endpoint(e, true) << " -> " << vh::endpoint(e, false) << " control=" << e.control << " select=[";
            for (uint32_t i = 0; i < e.select.get_size(); ++i)
                std::cout << (i ? "," : "") << e.select[i].get_name() << ":" << vh::quote(e.select[i].get_type().str());
            std::cout << "]"
                      << " guard=" << (e.guard.empty() ? std::string("-") : vh::quote(e.guard.str()))
                      << " sync=" << (e.sync.empty() ? std::string("-") : vh::quote(e.sync.str()))
                      << " assign=" << (e.assign.empty() ? std::string("-") : vh::quote(e.assign.str()))
                      << " prob=" << (e.prob.empty() ? std::string("-") : vh::quote(e.prob.str()));
            // the synchronisation once more, taken apart: the direction the edge holds and the text of the channel expression
            // (the specification composes the label from these two, whatever a SYNC node prints as)
            const bool isSync = !e.sync.empty() && e.sync.get_kind() == SYNC && e.sync.get_size() == 1;
            std::cout << " syncdir=" << (!isSync ? "-" : e.sync.get_sync() == SYNC_QUE ? "?" : e.sync.get_sync() == SYNC_BANG ? "!" : "csp")
                      << " syncchan=" << (!isSync ? std::string("-") : vh::quote(e.sync[0].str())) << "\n";
        }
    }
    // the system line: per process whether it is a template itself and which of its parameters are bound
    for (auto& p : doc.get_processes()) {
        std::cout << "D process " << p.uid.get_name() << " istempl=" << (p.templ && p.uid.get_name() == p.templ->uid.get_name()) << " bound=[";
        for (uint32_t i = 0; i < p.parameters.get_size(); ++i) std::cout << (p.mapping.find(p.parameters[i]) != p.mapping.end());
        std::cout << "]\n";
    }
}

struct GroupingPunct : std::numpunct<char>
{
    char do_thousands_sep() const override { return ','; }
    std::string do_grouping() const override { return "\3"; }
};

void opWrite(const std::string& text, const std::string& tmp)
{
    Document doc;
    try {
        parse_XML_buffer(text.c_str(), &doc, true);
    } catch (std::exception& ex) {
        std::cout << "EXCEPTION " << vh::quote(ex.what()) << "\n";
        return;
    }
    std::cout << "ACCEPTED " << (doc.has_errors() ? 0 : 1) << " errors=" << doc.get_errors().size() << "\n";
    for (auto& e : doc.get_errors()) std::cout << vh::diagLine("ERROR", e, false) << "\n";
    docGraph(doc);
    std::cout.flush();   // if the writer crashes, the document graph is already out
    std::remove(tmp.c_str());
    try {
        write_XML_file(tmp.c_str(), &doc);
        std::cout << "WRITTEN\n";
    } catch (std::exception& ex) {
        std::cout << "WRITE-EXCEPTION " << vh::quote(ex.what()) << "\n";
        return;
    }
    readWritten(tmp);
}

}  // namespace

int main(int argc, char** argv)
{
    std::string tmp = argc > 1 ? argv[1] : "";
    std::string hdr;
    while (std::getline(std::cin, hdr)) {
        if (hdr.empty()) continue;
        std::istringstream hs(hdr);
        std::string op, id;
        size_t n = 0;
        hs >> op >> id >> n;
        std::string text(n, '\0');
        std::cin.read(&text[0], n);
        std::cin.get();
        std::cout << "BEGIN " << id << " " << op << "\n";
        if (isParseOp(op)) opParse(op, text);
        else if (op == "ratedec") opRateDec(text);
        else if (op == "write" || op == "writeL") {
            // the writer is known to crash on some documents: run it in a child so that one crash costs one case
            std::cout.flush();
            pid_t pid = fork();
            if (pid == 0) {
                // writeL: the host application has installed a global locale that groups digits (1,001): the written ids and the
                // references to them must still agree
                if (op == "writeL") std::locale::global(std::locale(std::locale::classic(), new GroupingPunct));
                opWrite(text, tmp);
                std::cout.flush();
                _exit(0);
            }
            int st = 0;
            waitpid(pid, &st, 0);
            if (!(WIFEXITED(st) && WEXITSTATUS(st) == 0))
                std::cout << "WRITER-CRASH " << (WIFSIGNALED(st) ? "signal=" + std::to_string(WTERMSIG(st)) : "rc=" + std::to_string(WEXITSTATUS(st))) << "\n";
        }
        else std::cout << "bad-op\n";
        std::cout << "END " << id << "\n";
        std::cout.flush();
    }
    return 0;
}
