/-
C02 — parsed expression trees follow the language's precedence and associativity.

Objects:
* `Pratt.Tbl`, `parseTop`, `render` (Model/Pratt.lean): the operator-precedence reading of the `Expression` grammar;
* `parseList`, `renderList` (Model/ExprList.lean): the comma list `ExprList` around it; which side its recursion is on is regenerated;
* `ExprTable.utapT` : the table *regenerated on every run* from parser.y's %left/%right block, the `Expression`,
  `Assignment`, `AssignOp`, `UnaryOp`, `BuiltinFunction1-3` productions with their %prec annotations and builder
  callbacks (translate/exprgrammar.py → Gen/ExprGrammar.lean);
* `Spec.specData` : the UPPAAL operator table written by hand (Spec/OperatorTable.lean), the reference.

The general theorems are proved for *every* table (Lemmas/Pratt*.lean, by induction on renderings, no bound on size or
depth); the instance for today's grammar needs only finite facts about the generated table, discharged by `decide`.
An edit to parser.y changes Gen/ExprGrammar.lean, hence `utapT`, hence these obligations.
-/
import UtapModel.Lemmas.PrattRender
import UtapModel.Lemmas.ExprList
import UtapModel.Lemmas.LexNum
import UtapModel.Spec.OperatorTable

namespace UtapModel.C02
open UtapModel.Pratt UtapModel.ExprTable UtapModel.ExprGrammar UtapModel.Spec

/-- the one numeric fact the general theorem needs of a table: the inline-if production is not above the token `?` -/
theorem utapT_tern_le_quest : utapT.ternL ≤ utapT.questL := by decide

/-- **no identifier is silently cut**: every identifier length that the lexer does not report fits the token buffer whole
    (`identTooLongFrom`, `identBufKeeps`: regenerated from the identifier rule of lexer.l and MAXLEN of libparser.h) -/
theorem C02_identifier_not_truncated (n : Nat) (h : n < identTooLongFrom) : n ≤ identBufKeeps := by
  have : identTooLongFrom ≤ identBufKeeps + 1 := by decide
  omega

/-- **no string literal is silently cut**: the same for the token of a string literal (quotes included) -/
theorem C02_string_not_truncated (n : Nat) (h : n < stringTooLongFrom) : n ≤ identBufKeeps := by
  have : stringTooLongFrom ≤ identBufKeeps + 1 := by decide
  omega

/-- **The generated grammar table is the UPPAAL operator table**: same operators in the same roles with the same
resulting kinds, the same order of precedence levels and the same associativity per level (level *numbers* aside). -/
theorem utap_matches_spec : rows genData = rows specData := by decide +kernel

/-- the builtin functions of the generated grammar (`BuiltinFunction1-3` of parser.y joined with the keyword table of keywords.cpp): the
    spelling in the text, the kind of the node the parser builds, the number of arguments -/
def genBuiltins : List (String × String × Nat) :=
  fnProds.filterMap (fun f => (keywordsNew.find? (fun kw => kw.2 == f.1)).map (fun kw => (kw.1, f.2.1, f.2.2)))

/-- **Every builtin function name builds the node kind and takes the number of arguments the language reference gives it**, and the
    grammar has no others. -/
theorem utap_builtins_match_spec :
    (∀ x ∈ builtinSpec, x ∈ genBuiltins) ∧ (∀ x ∈ genBuiltins, x ∈ builtinSpec) ∧ genBuiltins.length = builtinSpec.length ∧
    genBuiltins.length = fnProds.length := by decide +kernel

/-- every infix / prefix / postfix operator of the generated grammar can occur in a tree of the fragment the round-trip
theorems speak about (so the fragment is the full operator set, and the theorems are not vacuous) -/
theorem fragment_bin : ∀ x ∈ binProds, utapT.isBin x.1 = true ∧ utapT.isImply x.1 = false ∧ utapT.isPost x.1 = false := by
  decide +kernel
theorem fragment_pre : ∀ x ∈ preProds, utapT.isPre x.1 = true := by decide +kernel
theorem fragment_post : ∀ x ∈ postProds, utapT.isPost x.1 = true ∧ utapT.isBin x.1 = false := by decide +kernel
theorem fragment_intMin : utapT.isPre mt = true ∧ utapT.isMinus mt = true := by decide +kernel

/-- **parse (render_min t) = t** for every tree over the operator set of the grammar: unary, binary, assignment family,
inline-if, indexing, field access, calls with any number of arguments, builtin functions, quantifiers, rate;
all literal atoms including -2147483648.  `wf` only says that each node uses an operator token in its own role. -/
theorem C02_min (e : Expr) (h : wf utapT mt false e = true) : parseTop utapT (render utapT mt false 0 e) = some e :=
  roundtrip utapT mt utapT_tern_le_quest false e h

/-- **parse (render_full t) = t**: every operator node parenthesised -/
theorem C02_full (e : Expr) (h : wf utapT mt false e = true) : parseTop utapT (render utapT mt true 0 e) = some e :=
  roundtrip utapT mt utapT_tern_le_quest true e h

/-- any rendering with *redundant* parentheses anywhere (the relation `R`) parses to the same tree -/
theorem C02_redundant_parens {e : Expr} {ts : List Tok} (h : R utapT mt false 0 e ts) : parseTop utapT ts = some e :=
  roundtrip_R utapT mt utapT_tern_le_quest h

/-- the same round trips hold for the reference table, i.e. the reference table is itself a consistent grammar -/
theorem C02_spec_min (e : Expr) (h : wf specT specData.minus false e = true) :
    parseTop specT (render specT specData.minus false 0 e) = some e :=
  roundtrip specT specData.minus (by decide) false e h

/-- keyword aliases: `and`/`&&`, `or`/`||` are infix operators of the same level and kind; `not`/`!` prefix operators of
the same level and kind; `:=` and `=` are one token -/
theorem C02_aliases :
    (utapT.bp (tokOfText "and") = utapT.bp (tokOfText "&&") ∧ binKind genData (tokOfText "and") = binKind genData (tokOfText "&&")) ∧
    (utapT.bp (tokOfText "or") = utapT.bp (tokOfText "||") ∧ binKind genData (tokOfText "or") = binKind genData (tokOfText "||")) ∧
    (utapT.pp (tokOfText "not") = utapT.pp (tokOfText "!") ∧ preKind genData (tokOfText "not") = preKind genData (tokOfText "!")) ∧
    tokOfText ":=" = tokOfText "=" := by decide +kernel

/-- unary plus is the identity -/
theorem C02_unary_plus {e : Expr} {ts : List Tok} (hR : R utapT mt false (utapT.mn (utapT.pp (tokOfText "+"))) e ts) :
    parseTop utapT (.sym (tokOfText "+") :: ts) = some e :=
  unary_plus utapT mt utapT_tern_le_quest (by decide +kernel) (by decide +kernel) hR

/-- `a imply b` is `!a || b` -/
theorem C02_imply {a b : Expr} {ta tb : List Tok}
    (ha : R utapT mt false (utapT.lctx (utapT.bp (tokOfText "imply"))) a ta)
    (hb : R utapT mt false (utapT.mn (utapT.bp (tokOfText "imply"))) b tb) :
    parseTop utapT (ta ++ [.sym (tokOfText "imply")] ++ tb) =
      some (.bin (tokOfText "||") (.pre (tokOfText "!") a) b) :=
  imply_parse utapT mt utapT_tern_le_quest (by decide +kernel) (by decide +kernel) (by decide +kernel) ha hb

/-- integer literals: exact, or the INT_MIN token, or rejected with `$Overflow` — never silently changed -/
theorem C02_int_literal (n k : Nat) :
    lexNum (List.replicate k '0' ++ Nat.toDigits 10 n) =
      if n ≤ 2147483647 then .nat n else if n = 2147483648 then .posNegMax else .overflow :=
  lexNum_exact n k

/-- `- 2147483648` is the constant INT_MIN -/
theorem C02_int_min : parseTop utapT [.sym mt, .posNegMax] = some (.atom .intMin) := by decide +kernel

/-! ### comma lists (`ExprList`: update labels, `for (;;)` clauses, `while` / `if` / `switch` heads, before_update / after_update) -/

/-- the recursion of the generated `ExprList` rule is on the side the reference table prescribes -/
theorem utap_comma_matches_spec : exprListLeftRec = commaLeftAssoc := by decide

/-- **a comma list of any length nests to the left**: rendering the elements `e, x₁, …, xₙ` (minimally or fully parenthesised) and
parsing the text with today's grammar gives COMMA(…COMMA(COMMA(e, x₁), x₂)…, xₙ) -/
theorem C02_comma_list (full : Bool) (e : Expr) (es : List Expr) (he : wf utapT mt false e = true)
    (hes : ∀ x ∈ es, wf utapT mt false x = true) :
    parseList utapT exprListLeftRec (renderList utapT mt full e es) = some (nestLeft (.one e) es) := by
  have h := parseList_render utapT mt utapT_tern_le_quest full exprListLeftRec e es he hes
  have hl : exprListLeftRec = true := by decide
  simpa only [nest, hl, if_true] using h

/-- why lists of one and two elements say nothing about the side of the recursion, and lists of three do -/
theorem C02_comma_two (e : Expr) (es : List Expr) (h : es.length ≤ 1) : nest true e es = nest false e es := nest_le_two e es h
theorem C02_comma_three_differ (a b c : Expr) : nest true a [b, c] ≠ nest false a [b, c] := by
  simp [nest, nestLeft, nestRight]

/-! ### non-vacuity: concrete trees of the fragment, and what their renderings look like -/
example : wf utapT mt false
    (.bin (tokOfText "=") (.atom (.ident "a")) (.tern (.bin (tokOfText "<") (.atom (.ident "b")) (.atom (.nat 3)))
      (.pre (tokOfText "-") (.index (.atom (.ident "c")) (.atom .intMin)))
      (.call (.atom (.ident "f")) (.acons (.atom (.nat 1)) (.acons (.post (tokOfText "++") (.atom (.ident "d"))) .anil))))) = true := by
  decide +kernel
example : toksText (render utapT mt false 0
    (.bin (tokOfText "*") (.bin (tokOfText "+") (.atom (.ident "a")) (.atom (.ident "b"))) (.atom (.ident "c")))) = "( a + b ) * c" := by
  decide +kernel

end UtapModel.C02
