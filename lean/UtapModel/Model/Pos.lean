/-
M-POS — the position machinery of libutap (properties C06, C15).

  * `Tracker`         = `UTAP::PositionTracker` (src/libparser.h): `line`, `offset`, `position` are `uint32_t`
                        (modelled as `Nat` with explicit reduction modulo `W = 2^32`), plus the current path.
  * `Index`           = `position_index_t::lines` (src/position.cpp): entries oldest first, `add` with the
                        monotonicity check, `find` = the binary search of position.cpp:41-53.
  * `resolve`         = what `Document::add_error` stores for one end of a diagnostic and how `error_t` prints it:
                        the entry found for the absolute position, and the column `position - entry.position`.
  * `Path`            = `class Path` of src/xmlreader.cpp (list of sibling-tag vectors, push/pop/str).

Core Lean only.
-/
namespace UtapModel.Pos

/-- 2^32: `uint32_t` arithmetic wraps modulo `W`. -/
def W : Nat := 4294967296

/-- `position_index_t::line_t` -/
structure Line where
  position : Nat
  offset : Nat
  line : Nat
  path : String
  deriving Repr, DecidableEq, Inhabited

/-- `position_index_t::lines`, oldest entry first -/
abbrev Index := List Line

/-- `UTAP::PositionTracker` -/
structure Tracker where
  line : Nat
  offset : Nat
  position : Nat
  path : String
  deriving Repr, DecidableEq, Inhabited

inductive Err where
  | notMonotone          -- std::logic_error("Positions must be monotonically increasing")
  | noPositions          -- std::logic_error("No positions have been added")
  deriving Repr, DecidableEq

/-- `position_index_t::add` (position.cpp:33-39) -/
def Index.add (idx : Index) (e : Line) : Except Err Index :=
  match idx.getLast? with
  | some l => if e.position < l.position then .error .notMonotone else .ok (idx ++ [e])
  | none => .ok [e]

/-- `PositionTracker::setPath`: line 1, offset 0, new path, `++position`, then `add_position`. -/
def Tracker.setPath (t : Tracker) (s : String) : Tracker :=
  { line := 1, offset := 0, position := (t.position + 1) % W, path := s }

/-- `PositionTracker::increment` (the `set_position` call is the token range, kept by the callers) -/
def Tracker.increment (t : Tracker) (n : Nat) : Tracker :=
  { t with position := (t.position + n) % W, offset := (t.offset + n) % W }

/-- `PositionTracker::newline` before its `add_position` -/
def Tracker.newline (t : Tracker) (n : Nat) : Tracker :=
  { t with line := (t.line + n) % W }

/-- the entry `add_position(position, offset, line, path)` records for the tracker's current state -/
def Tracker.entry (t : Tracker) : Line :=
  { position := t.position, offset := t.offset, line := t.line, path := t.path }

/-! ### `find` — the binary search of position.cpp -/

/-- `find(position, first, last)`: `while (first + 1 < last) { i = (first+last)/2; if (position < lines[i].position) last = i; else first = i; }` -/
def findLoop (idx : Index) (pos : Nat) (first last : Nat) : Nat :=
  if h : first + 1 < last then
    let i := (first + last) / 2
    if pos < (idx.getD i default).position then findLoop idx pos first i else findLoop idx pos i last
  else first
termination_by last - first
decreasing_by all_goals omega

/-- `position_index_t::find(position)` -/
def Index.find (idx : Index) (pos : Nat) : Except Err Line :=
  if idx.isEmpty then .error .noPositions else .ok (idx.getD (findLoop idx pos 0 idx.length) default)

/-- positions never decrease along the table (what `add` enforces) -/
def Monotone : Index → Prop
  | [] => True
  | [_] => True
  | a :: b :: rest => a.position ≤ b.position ∧ Monotone (b :: rest)

instance : (idx : Index) → Decidable (Monotone idx)
  | [] => isTrue trivial
  | [_] => isTrue trivial
  | a :: b :: rest =>
    have := instDecidableMonotone (b :: rest)
    by unfold Monotone; exact inferInstance

/-- reference: the last entry whose position is `≤ pos`; the first entry when there is none
    (linear scan; agrees with "last entry ≤ pos" on monotone tables). -/
def findSpec : Index → Nat → Option Line
  | [], _ => none
  | [e], _ => some e
  | e :: e' :: rest, pos => if e'.position ≤ pos then findSpec (e' :: rest) pos else some e

/-- One end of a diagnostic as the user sees it: (path, line, column). -/
structure Loc where
  path : String
  line : Nat
  col : Nat
  deriving Repr, DecidableEq, Inhabited

/-- `Document::add_error`: `positions.find(p)`, printed as `path`, `line`, column `p - entry.position` (uint32 subtraction). -/
def resolve (idx : Index) (pos : Nat) : Except Err Loc :=
  match idx.find pos with
  | .ok e => .ok { path := e.path, line := e.line, col := (pos + W - e.position) % W }
  | .error x => .error x

/-- the same through the reference `findSpec` (used in the statements of the theorems) -/
def resolveSpec (idx : Index) (pos : Nat) : Option Loc :=
  (findSpec idx pos).map fun e => { path := e.path, line := e.line, col := pos - e.position }

/-! ### `Path` (src/xmlreader.cpp:210-293) -/

/-- one row of the `switch` in `Path::str`: the element name and, for indexed tags, the tag that is counted -/
structure TagRow where
  tag : String            -- enumerator of `tag_t`
  name : String           -- element name printed after '/'
  counted : Option String -- `some t` when the row prints `[count(level, tag_t::t)]`
  deriving Repr, DecidableEq

/-- `std::list<std::vector<tag_t>>`.  Representation: innermost level first, and inside a level the most recent
    sibling first (so `path.back().back()` is `head` of `head`).  The constructor pushes one empty level. -/
abbrev Path := List (List String)

def Path.init : Path := [[]]

/-- `path.back().push_back(tag); path.emplace_back();` -/
def Path.push : Path → String → Path
  | [], tag => [[], [tag]]            -- cannot happen: the path always has at least one level
  | cur :: above, tag => [] :: (tag :: cur) :: above

/-- `path.pop_back(); return path.back().back();` (only the new path; the returned tag is `Path.current`) -/
def Path.pop : Path → Path
  | [] => []
  | _ :: above => above

def Path.current : Path → Option String
  | (t :: _) :: _ => some t
  | _ => none

/-- an XPath location step: element name and optional 1-based index among same-named siblings -/
structure Step where
  name : String
  index : Option Nat
  deriving Repr, DecidableEq, Inhabited

def count (level : List String) (tag : String) : Nat := (level.filter (· == tag)).length

/-- the loop of `Path::str(tag)` over the levels from the outermost one: one step per level until the first empty
    level; stops after the first level whose current tag is `stop`.  `none` = `xpath_corrupt_error`. -/
def stepsOuter (table : List TagRow) (stop : Option String) : List (List String) → Option (List Step)
  | [] => some []
  | [] :: _ => some []
  | (cur :: sibs) :: rest =>
    match table.find? (·.tag == cur) with
    | none => none
    | some row =>
      let st : Step := { name := row.name, index := row.counted.map (count (cur :: sibs)) }
      if stop == some cur then some [st]
      else (stepsOuter table stop rest).map (st :: ·)

/-- `Path::str(tag)` as a list of steps -/
def Path.steps (table : List TagRow) (stop : Option String) (p : Path) : Option (List Step) :=
  stepsOuter table stop p.reverse

def Step.render (s : Step) : String :=
  match s.index with
  | none => "/" ++ s.name
  | some i => "/" ++ s.name ++ "[" ++ toString i ++ "]"

def renderSteps (ss : List Step) : String := String.join (ss.map Step.render)

/-! ### XML trees, the reader's walk, and XPath evaluation
    (element children only; text nodes do not take part in these paths) -/

inductive XNode where
  | elem (tag : String) (children : List XNode)
  deriving Repr, Inhabited

def XNode.tag : XNode → String
  | .elem t _ => t
def XNode.children : XNode → List XNode
  | .elem _ c => c

/-- what `XMLReader::read` sees in document order: start of an element (`path.push`) and its end (`path.pop`) -/
inductive Ev where
  | op (tag : String)
  | cl
  deriving Repr, DecidableEq

mutual
def events : XNode → List Ev
  | .elem t cs => Ev.op t :: (eventsL cs ++ [Ev.cl])
def eventsL : List XNode → List Ev
  | [] => []
  | n :: ns => events n ++ eventsL ns
end

def Path.run : Path → List Ev → Path
  | p, [] => p
  | p, Ev.op t :: es => Path.run (p.push t) es
  | p, Ev.cl :: es => Path.run p.pop es

/-- A node is identified by its address: child indices from the document node (the root element has address `[0]`). -/
abbrev Addr := List Nat

/-- the events the reader has consumed when it stands on the start tag of the node at `addr` -/
def prefixTo : List XNode → Addr → List Ev
  | _, [] => []
  | kids, i :: rest =>
    match kids[i]? with
    | none => []
    | some n => eventsL (kids.take i) ++ Ev.op n.tag :: prefixTo n.children rest

/-- the node at an address -/
def nodeAt : List XNode → Addr → Option XNode
  | _, [] => none
  | kids, [i] => kids[i]?
  | kids, i :: rest => match kids[i]? with
    | none => none
    | some n => nodeAt n.children rest

/-- indices (in `kids`) of the children selected by one step, in document order -/
def selectStep (nameOf : String → String) (kids : List XNode) (s : Step) : List Nat :=
  let named := (List.range kids.length).filter fun i => (kids[i]?.map fun n => nameOf n.tag == s.name) == some true
  match s.index with
  | none => named
  | some i => if i = 0 then [] else (named.drop (i - 1)).take 1

/-- XPath evaluation of an absolute path of child steps: all addresses selected, in document order. -/
def select (nameOf : String → String) : List XNode → List Step → List Addr
  | _, [] => [[]]
  | kids, s :: rest =>
    (selectStep nameOf kids s).flatMap fun i =>
      match kids[i]? with
      | none => []
      | some n => (select nameOf n.children rest).map (i :: ·)

end UtapModel.Pos
