// C19 harness: the public expression_t API (clone, clone_deeper x3, subst, equal, get_size, operator[], str) on trees the
// real parser produced, behind
//   (1) a line protocol whose results the Lean driver (lean/UtapModel/Drv/C19.lean) recomputes on the same trees, and
//   (2) a direct oracle that runs every law of property C19 on the implementation (all symbols, all single-node
//       perturbations) and prints FAIL lines with the offending tree.
//
// Trees travel as S-expressions WITH NODE IDENTITIES:  (id KIND val sym ty child...)   empty expression = ()
//   id   = number of the node object (expression_t::operator== / operator< compare object identity)
//   val  = i<int> | s<sync> | d<16 hex digits> | t<string index>     (the std::variant of the node)
//   sym  = #<n> (n-th distinct symbol_t seen, object identity) or -
//   ty   = B bool | I integer | D double | S string | - anything else  (what expression_t::print looks at for constants)
#include "common.hpp"

#include <fcntl.h>
#include <map>
#include <set>
#include <sys/wait.h>
#include <unistd.h>

using namespace vh;

static std::string unhex(const std::string& h)
{
    std::string o;
    auto v = [](char c) { return c <= '9' ? c - '0' : (c | 32) - 'a' + 10; };
    for (size_t i = 0; i + 1 < h.size(); i += 2) o += (char)(v(h[i]) * 16 + v(h[i + 1]));
    return o;
}

struct World
{
    std::unique_ptr<Document> doc;
    std::vector<expression_t> pool;          // trees under test
    std::vector<std::string> origin;         // where each came from
    std::map<size_t, std::pair<frame_t, frame_t>> scope;   // pool index -> (template frame, select frame) for the labels of an edge
    std::map<expression_t, int> ids;         // node identity -> number   (expression_t::operator< orders by object identity)
    std::vector<symbol_t> syms;              // symbol identity -> number
    int nid(const expression_t& e)
    {
        auto it = ids.find(e);
        if (it != ids.end()) return it->second;
        int n = (int)ids.size();
        ids[e] = n;
        return n;
    }
    bool known(const expression_t& e) const { return ids.find(e) != ids.end(); }
    int sid(const symbol_t& s)
    {
        for (size_t i = 0; i < syms.size(); ++i)
            if (syms[i] == s) return (int)i;
        syms.push_back(s);
        return (int)syms.size() - 1;
    }
};

/// str() of a tree; printing is C03's subject: a printer that throws makes the text unavailable here, not a C19 failure
static std::string safeStr(const expression_t& e)
{
    try {
        return e.str();
    } catch (std::exception& ex) {
        return std::string("<str() throws ") + ex.what() + ">";
    }
}

/// the same in the 3.x syntax (str(true))
static std::string safeStrOld(const expression_t& e)
{
    try {
        return e.str(true);
    } catch (std::exception& ex) {
        return std::string("<str(old) throws ") + ex.what() + ">";
    }
}

static std::string tyTag(const expression_t& e)
{
    type_t t = e.get_type();
    if (t.unknown()) return "-";
    if (t.is(Constants::DOUBLE)) return "D";
    if (t.is_string()) return "S";
    if (t.is_integer()) return "I";
    if (t.is(Constants::BOOL)) return "B";
    return "-";
}

static bool isCounted(kind_t k)
{
    return k == FUN_CALL || k == FUN_CALL_EXT || k == LIST || k == SIMULATE || k == SIMULATEREACH || k == SPAWN;
}

static std::string valOf(const expression_t& e)
{
    auto k = e.get_kind();
    std::ostringstream os;
    if (k == CONSTANT) {
        type_t t = e.get_type();
        if (!t.unknown() && t.is(Constants::DOUBLE)) os << "d" << hexDouble(e.get_double_value());
        else if (!t.unknown() && t.is_string()) os << "t" << e.get_string_index();
        else {
            // raw int32 of the variant: get_value() normalises non-integer (bool) types to 0/1, which is what the variant holds for them anyway
            os << "i" << e.get_value();
        }
    } else if (k == SYNC) os << "s" << (int)e.get_sync();
    else if (k == DOT) os << "i" << e.get_index();
    else if (isCounted(k)) os << "i" << e.get_size();
    else os << "i0";
    return os.str();
}

/// S-expression with node identities.  `fresh`: nodes not yet known get ids n0, n1, ... in order of first occurrence
/// (they are NOT registered), known nodes keep their number: sharing with earlier trees is visible.
static std::string idsexp(World& w, const expression_t& e, std::map<expression_t, int>* fresh)
{
    if (e.empty()) return "()";
    std::ostringstream os;
    os << "(";
    if (fresh) {
        if (w.known(e)) os << w.ids[e];
        else {
            auto it = fresh->find(e);
            int n;
            if (it == fresh->end()) {
                n = (int)fresh->size();
                (*fresh)[e] = n;
            } else
                n = it->second;
            os << "n" << n;
        }
    } else os << w.nid(e);
    auto k = e.get_kind();
    os << " " << kindName(k) << " " << valOf(e) << " ";
    symbol_t s = (k == IDENTIFIER) ? e.get_symbol() : symbol_t();
    if (s != symbol_t()) os << "#" << w.sid(s);
    else os << "-";
    os << " " << tyTag(e);
    for (size_t i = 0; i < e.get_size(); ++i) os << " " << idsexp(w, e[i], fresh);
    os << ")";
    return os.str();
}
static std::string reg(World& w, const expression_t& e) { return idsexp(w, e, nullptr); }
static std::string canon(World& w, const expression_t& e)
{
    std::map<expression_t, int> fresh;
    return idsexp(w, e, &fresh);
}

/// plain structure (no identities): what `equal` should look at, plus the constant's type tag
static std::string plain(World& w, const expression_t& e, bool withTy)
{
    if (e.empty()) return "()";
    std::ostringstream os;
    auto k = e.get_kind();
    os << "(" << kindName(k) << " " << valOf(e);
    if (k == IDENTIFIER && e.get_symbol() != symbol_t()) os << " #" << w.sid(e.get_symbol());
    if (withTy && k == CONSTANT) os << " " << tyTag(e);
    for (size_t i = 0; i < e.get_size(); ++i) os << " " << plain(w, e[i], withTy);
    os << ")";
    return os.str();
}

static void nodes(const expression_t& e, std::vector<expression_t>& out)
{
    if (e.empty()) return;
    out.push_back(e);
    for (size_t i = 0; i < e.get_size(); ++i) nodes(e[i], out);
}
static void symbolsOf(const expression_t& e, std::vector<symbol_t>& out)
{
    if (e.empty()) return;
    if (e.get_kind() == IDENTIFIER && e.get_symbol() != symbol_t()) {
        bool have = false;
        for (auto& s : out) have |= (s == e.get_symbol());
        if (!have) out.push_back(e.get_symbol());
    }
    for (size_t i = 0; i < e.get_size(); ++i) symbolsOf(e[i], out);
}
static bool sharesNode(const expression_t& a, const expression_t& b)
{
    std::vector<expression_t> na, nb;
    nodes(a, na);
    nodes(b, nb);
    std::set<expression_t> sb(nb.begin(), nb.end());
    for (auto& x : na)
        if (sb.count(x)) return true;
    return false;
}

/// reference substitution, written from the statement (not from expression_t::subst): a fresh tree in which exactly the
/// IDENTIFIER nodes of `s` are replaced by `r`
static std::string refSubst(World& w, const expression_t& e, const symbol_t& s, const expression_t& r)
{
    if (e.empty()) return "()";
    if (e.get_kind() == IDENTIFIER && e.get_symbol() == s) return plain(w, r, true);
    std::ostringstream os;
    auto k = e.get_kind();
    os << "(" << kindName(k) << " " << valOf(e);
    if (k == IDENTIFIER && e.get_symbol() != symbol_t()) os << " #" << w.sid(e.get_symbol());
    if (k == CONSTANT) os << " " << tyTag(e);
    for (size_t i = 0; i < e.get_size(); ++i) os << " " << refSubst(w, e[i], s, r);
    os << ")";
    return os.str();
}

/// reference for clone_deeper(frame): the same tree with every symbol replaced by what the frame resolves its name to
static std::string refFrame(World& w, const expression_t& e, const frame_t& fr)
{
    if (e.empty()) return "()";
    std::ostringstream os;
    auto k = e.get_kind();
    os << "(" << kindName(k) << " " << valOf(e);
    if (k == IDENTIFIER && e.get_symbol() != symbol_t()) {
        symbol_t uid;
        frame_t f = fr;
        if (f.resolve(e.get_symbol().get_name(), uid) && uid != symbol_t()) os << " #" << w.sid(uid);
    }
    if (k == CONSTANT) os << " " << tyTag(e);
    for (size_t i = 0; i < e.get_size(); ++i) os << " " << refFrame(w, e[i], fr);
    os << ")";
    return os.str();
}

/// reference for clone_deeper(frame, select): every symbol resolved by name in `frame` (and its parents), else in `select`
static std::string refFrame2(World& w, const expression_t& e, const frame_t& fr, const frame_t& sel)
{
    if (e.empty()) return "()";
    std::ostringstream os;
    auto k = e.get_kind();
    os << "(" << kindName(k) << " " << valOf(e);
    if (k == IDENTIFIER && e.get_symbol() != symbol_t()) {
        symbol_t uid;
        frame_t f = fr, s2 = sel;
        bool res = f.resolve(e.get_symbol().get_name(), uid);
        if (!res && s2 != frame_t()) res = s2.resolve(e.get_symbol().get_name(), uid);
        if (res && uid != symbol_t()) os << " #" << w.sid(uid);
    }
    if (k == CONSTANT) os << " " << tyTag(e);
    for (size_t i = 0; i < e.get_size(); ++i) os << " " << refFrame2(w, e[i], fr, sel);
    os << ")";
    return os.str();
}

// ---- rebuilding a tree with one node replaced (path = child indices from the root) -------------------------
static expression_t replaceAt(const expression_t& e, const std::vector<int>& path, size_t d, const expression_t& repl)
{
    if (d == path.size()) return repl;
    expression_t c = e.clone();   // shallow copy of this node; children assigned below
    c[path[d]] = replaceAt(e[path[d]], path, d + 1, repl);
    return c;
}
static void paths(const expression_t& e, std::vector<int>& cur, std::vector<std::vector<int>>& out)
{
    if (e.empty()) return;
    out.push_back(cur);
    for (size_t i = 0; i < e.get_size(); ++i) {
        cur.push_back((int)i);
        paths(e[i], cur, out);
        cur.pop_back();
    }
}
static expression_t at(const expression_t& e, const std::vector<int>& p)
{
    expression_t c = e;
    for (int i : p) c = c[i];
    return c;
}
static std::string pathStr(const std::vector<int>& p)
{
    std::string s = "/";
    for (int i : p) s += std::to_string(i) + "/";
    return s;
}

static kind_t otherKind(kind_t k, size_t arity)
{
    switch (arity) {
    case 1: return k == NOT ? UNARY_MINUS : NOT;
    case 2: return k == PLUS ? MINUS : (k == MINUS ? PLUS : (k == LT ? LE : (k == AND ? OR : (k == ASSIGN ? ASS_PLUS : PLUS))));
    case 3: return k == INLINE_IF ? FMA_F : INLINE_IF;
    default: return k;
    }
}

/// a node like `n` but of another kind (children shared), built through the public factories
static expression_t withKind(const expression_t& n, kind_t k2)
{
    switch (n.get_size()) {
    case 1: return expression_t::create_unary(k2, n[0], n.get_position(), n.get_type());
    case 2: return expression_t::create_binary(k2, n[0], n[1], n.get_position(), n.get_type());
    case 3: return expression_t::create_ternary(k2, n[0], n[1], n[2], n.get_position(), n.get_type());
    default: return expression_t();
    }
}

struct Pert
{
    std::string what;     // kind | order | symbol | constant | constant-type
    kind_t kind;          // kind of the perturbed node
    std::vector<int> path;
    std::string detail;
    expression_t tree;    // the whole tree with that one node changed (ancestors rebuilt, everything else shared)
};

/// all single-node perturbations of e: another kind, two operands swapped, another symbol, another constant
static std::vector<Pert> perturbationsOf(World& w, const expression_t& e)
{
    std::vector<Pert> out;
    std::vector<std::vector<int>> ps;
    std::vector<int> cur;
    paths(e, cur, ps);
    for (auto& p : ps) {
        expression_t n = at(e, p);
        kind_t k = n.get_kind();
        std::vector<std::tuple<std::string, std::string, expression_t>> pert;   // (what, detail, replacement node)
        if (n.get_size() >= 1 && n.get_size() <= 3 && !isCounted(k) && k != DOT && k != SYNC) {
            kind_t k2 = otherKind(k, n.get_size());
            if (k2 != k) pert.push_back({"kind", kindName(k2), withKind(n, k2)});
        }
        for (size_t i = 0; i + 1 < n.get_size(); ++i) {
            size_t j = i + 1;
            if (n[i].empty() || n[j].empty()) continue;
            if (plain(w, n[i], false) == plain(w, n[j], false)) continue;   // swapping equal operands changes nothing
            expression_t sw = n.clone();
            expression_t a = sw[i], b = sw[j];
            sw[i] = b;
            sw[j] = a;
            pert.push_back({"order", std::to_string(i), sw});
        }
        if (k == IDENTIFIER && n.get_symbol() != symbol_t()) {
            for (auto& cand : w.syms)
                if (cand != n.get_symbol()) {
                    pert.push_back({"symbol", cand.get_name(), expression_t::create_identifier(cand, n.get_position())});
                    break;
                }
            // another symbol OF THE SAME NAME (a local hiding a global, the bound variables of two quantifiers, ...)
            for (auto& cand : w.syms)
                if (cand != n.get_symbol() && cand.get_name() == n.get_symbol().get_name()) {
                    pert.push_back({"symbol", "same-name:" + cand.get_name(), expression_t::create_identifier(cand, n.get_position())});
                    break;
                }
        }
        if (k == CONSTANT) {
            std::string ty = tyTag(n);
            if (ty == "D") pert.push_back({"constant", "double", expression_t::create_double(n.get_double_value() != 0.0 ? -n.get_double_value() : 1.0)});
            else if (ty == "I" || ty == "B") {
                int32_t v = n.get_value();
                expression_t c = expression_t::create_constant(v == 0 ? 1 : (ty == "B" ? 0 : (v == INT32_MAX ? v - 1 : v + 1)));
                c.set_type(n.get_type());
                pert.push_back({"constant", "int", c});
                // same value, the other of bool/int: differs in the constant's type only
                expression_t c2 = expression_t::create_constant(v);
                c2.set_type(type_t::create_primitive(ty == "B" ? Constants::INT : Constants::BOOL));
                if (ty == "B" || v == 0 || v == 1) pert.push_back({"constant-type", ty + "/" + (ty == "B" ? "I" : "B"), c2});
                // an integer constant vs a floating-point constant of the same value
                pert.push_back({"constant", "int-vs-double", expression_t::create_double((double)v)});
            }
        }
        for (auto& [what, detail, repl] : pert) {
            if (repl.empty()) continue;
            out.push_back({what, k, p, detail, replaceAt(e, p, 0, repl)});
        }
    }
    return out;
}

struct Laws
{
    World& w;
    long checks = 0;
    std::vector<std::string> fails;
    std::map<std::string, long> per;
    void fail(const std::string& law, const std::string& shape, const std::string& detail)
    {
        if (fails.size() < 200) fails.push_back("FAIL " + law + " " + shape + " " + detail);
    }
    void ok(const std::string& law) { ++checks; ++per[law]; }

    void cloneLaws(const expression_t& e, const std::string& tag)
    {
        std::string before = canon(w, e), text = safeStr(e);
        expression_t c = e.clone_deeper();
        ok("clone_equal");
        if (!c.equal(e) || !e.equal(c)) fail("clone_equal", kindName(e.get_kind()), tag + " " + plain(w, e, true));
        if (plain(w, c, true) != plain(w, e, true) || safeStr(c) != text) fail("clone_same_structure", kindName(e.get_kind()), tag);
        ok("clone_no_shared_node");
        if (sharesNode(c, e)) fail("clone_no_shared_node", kindName(e.get_kind()), tag + " " + canon(w, c));
        // later changes to either do not affect the other: overwrite every child slot and every type of the clone
        std::vector<std::vector<int>> ps;
        std::vector<int> cur;
        paths(c, cur, ps);
        for (auto it = ps.rbegin(); it != ps.rend(); ++it) {   // deepest first: the paths stay valid
            auto& p = *it;
            expression_t n = at(c, p);
            n.set_type(type_t::create_primitive(Constants::VOID_TYPE));
            for (size_t i = 0; i < n.get_size(); ++i) n[i] = expression_t::create_constant(424242);
        }
        ok("mutate_independent");
        if (canon(w, e) != before || safeStr(e) != text) fail("mutate_independent", kindName(e.get_kind()), tag + " original changed after mutating its deep clone");
        // and the other direction, on a scratch pair so that the pool tree stays intact
        expression_t a = e.clone_deeper(), b = a.clone_deeper();
        std::string sb = plain(w, b, true), tb = safeStr(b);
        ps.clear();
        paths(a, cur, ps);
        for (auto it = ps.rbegin(); it != ps.rend(); ++it) {
            expression_t n = at(a, *it);
            for (size_t i = 0; i < n.get_size(); ++i) n[i] = expression_t::create_constant(-7);
        }
        ok("mutate_independent");
        if (plain(w, b, true) != sb || safeStr(b) != tb) fail("mutate_independent", kindName(e.get_kind()), tag + " deep clone changed after mutating the original");
        // clone_deeper(frame): symbols re-resolved by name, everything else copied
        {
            frame_t fr = w.doc->get_globals().frame;
            expression_t cf = e.clone_deeper(fr);
            ok("clone_frame");
            if (plain(w, cf, true) != refFrame(w, e, fr) || sharesNode(cf, e))
                fail("clone_frame", kindName(e.get_kind()), tag + " got " + plain(w, cf, true) + " want " + refFrame(w, e, fr));
        }
        // shallow clone: a new root sharing the children
        expression_t s = e.clone();
        ok("clone_shallow");
        if (!s.equal(e) || s == e) fail("clone_shallow", kindName(e.get_kind()), tag);
        for (size_t i = 0; i < e.get_size(); ++i)
            if (!(s[i] == e[i])) fail("clone_shallow", kindName(e.get_kind()), tag + " child not shared");
    }

    void substLaws(const expression_t& e, const std::vector<expression_t>& repls, const std::string& tag)
    {
        std::vector<symbol_t> ss;
        symbolsOf(e, ss);
        std::string before = canon(w, e), text = safeStr(e);
        for (auto& s : ss) {
            // by itself: identity
            expression_t self = e.subst(s, expression_t::create_identifier(s));
            ok("subst_self");
            if (!self.equal(e) || !e.equal(self) || plain(w, self, false) != plain(w, e, false))
                fail("subst_self", kindName(e.get_kind()), tag + " sym=" + s.get_name());
            for (auto& r : repls) {
                expression_t t = e.subst(s, r);
                ok("subst_exact");
                if (plain(w, t, true) != refSubst(w, e, s, r))
                    fail("subst_exact", kindName(e.get_kind()), tag + " sym=" + s.get_name() + " got " + plain(w, t, true) + " want " + refSubst(w, e, s, r));
                ok("subst_preserves_source");
                if (canon(w, e) != before || safeStr(e) != text)
                    fail("subst_preserves_source", kindName(e.get_kind()), tag + " sym=" + s.get_name());
                // clone_deeper(from, to) with an identifier replacement is the same renaming
                if (r.get_kind() == IDENTIFIER) {
                    expression_t cd = e.clone_deeper(s, r.get_symbol());
                    ok("clone_rename");
                    if (plain(w, cd, false) != plain(w, t, false) || sharesNode(cd, e))
                        fail("clone_rename", kindName(e.get_kind()), tag + " sym=" + s.get_name());
                }
            }
        }
        // a symbol that does not occur: nothing changes
        if (!repls.empty()) {
            symbol_t unused;
            for (auto& cand : w.syms) {
                bool occ = false;
                for (auto& s : ss) occ |= (s == cand);
                if (!occ) { unused = cand; break; }
            }
            if (unused != symbol_t()) {
                expression_t t = e.subst(unused, repls[0]);
                ok("subst_absent");
                if (!t.equal(e) || plain(w, t, true) != plain(w, e, true)) fail("subst_absent", kindName(e.get_kind()), tag);
            }
        }
    }

    /// a well-formed stand-in for the operand n of e: another constant of the same type, another symbol of the same type, or a copy of
    /// another subtree of e of the same type (the tree stays printable: the printer may rely on the types of the operands)
    expression_t standIn(const expression_t& n, const std::vector<expression_t>& all)
    {
        auto tstr = [](const type_t& t) -> std::string {
            try {
                return t.unknown() ? std::string() : t.str();
            } catch (std::exception&) {
                return std::string();
            }
        };
        kind_t k = n.get_kind();
        if (k == CONSTANT) {
            std::string ty = tyTag(n);
            if (ty == "D") return expression_t::create_double(n.get_double_value() != 0.0 ? -n.get_double_value() : 1.0, n.get_position());
            if (ty != "I" && ty != "B") return expression_t();
            int32_t v = n.get_value();
            expression_t c = expression_t::create_constant(v == 0 ? 1 : (ty == "B" ? 0 : (v == INT32_MAX ? v - 1 : v + 1)), n.get_position());
            c.set_type(n.get_type());
            return c;
        }
        if (k == IDENTIFIER) {
            symbol_t s = n.get_symbol();
            if (s == symbol_t()) return expression_t();
            std::string ts = tstr(s.get_type());
            if (ts.empty()) return expression_t();
            for (auto& cand : w.syms)
                if (cand != s && cand.get_name() != s.get_name() && tstr(cand.get_type()) == ts) return expression_t::create_identifier(cand, n.get_position());
            return expression_t();
        }
        std::string tn = tstr(n.get_type()), pn = plain(w, n, true);
        if (tn.empty()) return expression_t();
        for (auto& m : all)
            if (!(m == n) && tstr(m.get_type()) == tn && plain(w, m, true) != pn) return m.clone_deeper();
        return expression_t();
    }

    /// The text of a tree is a function of the tree as it is NOW, not of what was asked of it earlier: print a private copy of e
    /// (the root and every node down to the operand, both syntaxes), replace the operand through operator[] (the reference the API
    /// hands out), print again.  The changed copy is the same tree as one that got the operand before it was ever printed, and as
    /// its own fresh deep clone: it is equal() to both and has to print like both.  Every operand of e in turn.
    void changeAfterPrint(const expression_t& e, const std::string& tag)
    {
        std::vector<std::vector<int>> ps;
        std::vector<int> cur;
        paths(e, cur, ps);
        std::vector<expression_t> all;
        nodes(e, all);
        for (auto& p : ps) {
            if (p.empty()) continue;   // the root has no slot to be assigned through
            expression_t n = at(e, p);
            expression_t repl = standIn(n, all);
            if (repl.empty()) continue;
            expression_t a = e.clone_deeper(), b = e.clone_deeper();
            expression_t pa = a, pb = b;
            (void)safeStr(pa);
            (void)safeStrOld(pa);
            for (size_t d = 0; d + 1 < p.size(); ++d) {
                pa = pa[p[d]];
                pb = pb[p[d]];
                (void)safeStr(pa);
            }
            (void)safeStr(pa[p.back()]);
            pa[p.back()] = repl;
            pb[p.back()] = repl.clone_deeper();   // b: changed first, printed afterwards
            expression_t fresh = a.clone_deeper();
            std::string where = tag + " @" + pathStr(p) + " := " + plain(w, repl, true);
            ok("change_visible");
            if (plain(w, a, true) != plain(w, b, true) || !a.equal(b) || !a.equal(fresh) || a.equal(e))
                fail("change_visible", kindName(n.get_kind()), where + " got " + plain(w, a, true) + " want " + plain(w, b, true));
            ok("equal_implies_same_text");
            std::string ta = safeStr(a), tb = safeStr(b), tf = safeStr(fresh);
            if (ta != tb || ta != tf)
                fail("equal_implies_same_text", "changed-after-print",
                     where + " the changed tree prints " + quote(ta) + ", the same tree changed before its first print " + quote(tb) + ", its deep clone " + quote(tf));
            std::string oa = safeStrOld(a), ob = safeStrOld(b);   // the 3.x text is a text of its own
            if (oa != ob) fail("equal_implies_same_text", "changed-after-print", where + " str(old) " + quote(oa) + " vs " + quote(ob));
        }
    }

    /// equality laws on e, its clones and all its single-node perturbations
    void equalLaws(const expression_t& e, const std::string& tag)
    {
        ok("equal_refl");
        if (!e.equal(e)) fail("equal_refl", kindName(e.get_kind()), tag);
        std::vector<expression_t> variants;   // trees to compare with each other
        variants.push_back(e);
        variants.push_back(e.clone_deeper());
        variants.push_back(e.clone());
        for (auto& pt : perturbationsOf(w, e)) {
            const expression_t& pe = pt.tree;
            bool eq1 = e.equal(pe), eq2 = pe.equal(e);
            ok("equal_symm");
            if (eq1 != eq2) fail("equal_symm", kindName(pt.kind), tag + " " + pt.what + "@" + pathStr(pt.path));
            std::string shape = pt.what + ":" + kindName(pt.kind);
            if (pt.what == "constant-type") {
                // not a difference `equal` is required to see; but equality must then imply equal text
                ok("equal_implies_same_text");
                if (eq1 && safeStr(e) != safeStr(pe))
                    fail("equal_implies_same_text", "constant-type:" + pt.detail, tag + " @" + pathStr(pt.path) + " " + quote(safeStr(e)) + " vs " + quote(safeStr(pe)));
            } else {
                ok("equal_distinguishes");
                if (eq1 || eq2) fail("equal_distinguishes", shape, tag + " @" + pathStr(pt.path) + " " + plain(w, e, true) + " vs " + plain(w, pe, true));
            }
            if (variants.size() < 12) variants.push_back(pe);
        }
        // symmetry, transitivity, equal => same text, over all variants
        size_t n = variants.size();
        std::vector<std::vector<bool>> eq(n, std::vector<bool>(n));
        for (size_t i = 0; i < n; ++i)
            for (size_t j = 0; j < n; ++j) eq[i][j] = variants[i].equal(variants[j]);
        for (size_t i = 0; i < n; ++i) {
            for (size_t j = 0; j < n; ++j) {
                ok("equal_symm");
                if (eq[i][j] != eq[j][i]) fail("equal_symm", kindName(e.get_kind()), tag);
                if (eq[i][j] && i != j) {   // (a perturbed tree need not be printable; two equal distinct trees are e, its clones, constant-type variants)
                    ok("equal_implies_same_text");
                    if (safeStr(variants[i]) != safeStr(variants[j]) && plain(w, variants[i], false) != plain(w, variants[j], false))
                        fail("equal_implies_same_text", "structure", tag + " " + quote(safeStr(variants[i])) + " vs " + quote(safeStr(variants[j])));
                }
                if (eq[i][j]) {
                    ok("equal_structural");
                    if (plain(w, variants[i], false) != plain(w, variants[j], false))
                        fail("equal_structural", kindName(e.get_kind()), tag + " equal but " + plain(w, variants[i], false) + " vs " + plain(w, variants[j], false));
                } else {
                    ok("equal_structural");
                    if (plain(w, variants[i], false) == plain(w, variants[j], false))
                        fail("equal_structural", kindName(e.get_kind()), tag + " same structure but not equal: " + plain(w, variants[i], false));
                }
                for (size_t k = 0; k < n; ++k) {
                    ok("equal_trans");
                    if (eq[i][j] && eq[j][k] && !eq[i][k]) fail("equal_trans", kindName(e.get_kind()), tag);
                }
            }
        }
    }
};

/// is there a child beyond get_size()?  Reading slot get_size() of the child vector aborts under _GLIBCXX_ASSERTIONS
/// when the vector really ends there, so the probe runs in a forked child.  Returns 1 = an extra child is accessible,
/// 0 = none, -1 = probe not available.
static int extraChildProbe(const expression_t& e)
{
    fflush(stdout);
    pid_t pid = fork();
    if (pid < 0) return -1;
    if (pid == 0) {
        int fd = open("/dev/null", 1);
        if (fd >= 0) { dup2(fd, 2); }
        const expression_t& c = e.get((uint32_t)e.get_size());   // one past the reported number of children
        volatile bool em = c.empty();
        (void)em;
        _exit(42);
    }
    int st = 0;
    waitpid(pid, &st, 0);
    if (WIFEXITED(st) && WEXITSTATUS(st) == 42) return 1;
    return 0;
}

static void collectDoc(World& w)
{
    Document& d = *w.doc;
    auto add = [&](const expression_t& e, const std::string& where) {
        if (e.empty()) return;
        w.pool.push_back(e);
        w.origin.push_back(where);
    };
    auto decls = [&](declarations_t& ds, const std::string& pre) {
        for (auto& v : ds.variables) add(v.init, pre + "init:" + v.uid.get_name());
    };
    decls(d.get_globals(), "");
    for (auto& t : d.get_templates()) {
        decls(t, t.uid.get_name() + ".");
        for (auto& l : t.locations) {
            add(l.invariant, t.uid.get_name() + ".inv");
            add(l.exp_rate, t.uid.get_name() + ".exprate");
        }
        for (auto& e : t.edges) {
            for (auto& [x, what] : {std::pair<expression_t, const char*>{e.guard, ".guard"}, {e.sync, ".sync"}, {e.assign, ".assign"}, {e.prob, ".prob"}}) {
                if (x.empty()) continue;
                w.scope[w.pool.size()] = {t.frame, e.select};
                add(x, t.uid.get_name() + what);
            }
        }
    }
}

int main(int argc, char** argv)
{
    World w;
    std::string line;
    bool probeOk = true;
    std::map<int, int> probed;   // kind -> result
    while (std::getline(std::cin, line)) {
        std::istringstream is(line);
        std::string op;
        is >> op;
        try {
            if (op == "DOC") {
                std::string h;
                is >> h;
                w = World();
                w.doc = std::make_unique<Document>();
                parse_XML_buffer(unhex(h).c_str(), w.doc.get(), true);
                collectDoc(w);
                // register every symbol of the global frame first so that symbol numbers are stable
                auto& fr = w.doc->get_globals().frame;
                for (uint32_t i = 0; i < fr.get_size(); ++i) w.sid(fr[i]);
                std::cout << "DOC errors=" << w.doc->get_errors().size() << " pool=" << w.pool.size() << std::endl;
            } else if (op == "E" || op == "Q") {
                std::string h;
                is >> h;
                std::string text = unhex(h);
                size_t nerr = w.doc->get_errors().size();
                expression_t e = op == "E" ? parseExpr(*w.doc, text) : parseQuery(*w.doc, text);
                if (e.empty() || w.doc->get_errors().size() != nerr) {
                    std::cout << op << " fail" << std::endl;
                    // keep the document usable: later parses only compare the error count before/after
                } else {
                    w.pool.push_back(e);
                    w.origin.push_back(op + ":" + text);
                    std::cout << op << " " << w.pool.size() - 1 << std::endl;
                }
            } else if (op == "TREE") {   // register the nodes of pool[k] and print it
                size_t k;
                is >> k;
                std::cout << "TREE " << k << " " << reg(w, w.pool.at(k)) << std::endl;
            } else if (op == "TYPE") {   // the type of pool[k] with the bound expressions of ranges (common.hpp tsexp)
                size_t k;
                is >> k;
                std::cout << "TYPE " << k << " " << tsexp(w.pool.at(k).get_type()) << std::endl;
            } else if (op == "TEXT") {
                size_t k;
                is >> k;
                std::cout << "TEXT " << quote(safeStr(w.pool.at(k))) << std::endl;
            } else if (op == "clone_deeper") {
                size_t k;
                is >> k;
                std::cout << canon(w, w.pool.at(k).clone_deeper()) << std::endl;
            } else if (op == "clone") {
                size_t k;
                is >> k;
                std::cout << canon(w, w.pool.at(k).clone()) << std::endl;
            } else if (op == "clone_sym") {
                size_t k, a, b;
                is >> k >> a >> b;
                std::cout << canon(w, w.pool.at(k).clone_deeper(w.syms.at(a), w.syms.at(b))) << std::endl;
            } else if (op == "clone_frame") {   // clone_deeper(frame): every symbol re-resolved by name in the global frame
                size_t k;
                is >> k;
                std::cout << canon(w, w.pool.at(k).clone_deeper(w.doc->get_globals().frame)) << std::endl;
            } else if (op == "RESOLVE") {   // what frame_t::resolve(name) answers for every known symbol: "s>t" or "s>-"
                std::cout << "RESOLVE";
                size_t n = w.syms.size();
                for (size_t i = 0; i < n; ++i) {
                    symbol_t uid;
                    bool ok = w.doc->get_globals().frame.resolve(w.syms[i].get_name(), uid);
                    std::cout << " " << i << ">";
                    if (ok && uid != symbol_t()) std::cout << w.sid(uid);
                    else std::cout << "-";
                }
                std::cout << std::endl;
            } else if (op == "SEXP") {
                size_t k;
                is >> k;
                std::cout << "SEXP " << k << " " << sexp(w.pool.at(k)) << std::endl;
            } else if (op == "subst") {
                size_t k, s, j;
                is >> k >> s >> j;
                std::cout << canon(w, w.pool.at(k).subst(w.syms.at(s), w.pool.at(j))) << std::endl;
            } else if (op == "equal") {
                size_t k, j;
                is >> k >> j;
                std::cout << (w.pool.at(k).equal(w.pool.at(j)) ? "true" : "false") << std::endl;
            } else if (op == "sizes") {   // get_size of every node, preorder
                size_t k;
                is >> k;
                std::vector<expression_t> ns;
                nodes(w.pool.at(k), ns);
                std::cout << "sizes";
                for (auto& n : ns) std::cout << " " << n.get_size();
                std::cout << std::endl;
            } else if (op == "NSYMS") {
                std::cout << "NSYMS " << w.syms.size();
                for (auto& s : w.syms) std::cout << " " << s.get_name();
                std::cout << std::endl;
            } else if (op == "XDOC") {   // two documents: equality of trees taken from different documents (string constants are interned per document)
                std::string ha, hb;
                is >> ha >> hb;
                Document da, db;
                parse_XML_buffer(unhex(ha).c_str(), &da, true);
                parse_XML_buffer(unhex(hb).c_str(), &db, true);
                std::vector<expression_t> xa, xb;
                for (auto& v : da.get_globals().variables) if (!v.init.empty()) xa.push_back(v.init);
                for (auto& v : db.get_globals().variables) if (!v.init.empty()) xb.push_back(v.init);
                long n = 0, bad = 0;
                for (auto& a : xa)
                    for (auto& b : xb) {
                        ++n;
                        bool eq = a.equal(b), eq2 = b.equal(a);
                        std::string ta = safeStr(a), tb = safeStr(b);
                        if (eq != eq2) { ++bad; std::cout << "FAIL equal_symm cross-document " << quote(ta) << " vs " << quote(tb) << "\n"; }
                        else if (eq && ta != tb) { ++bad; std::cout << "FAIL equal_implies_same_text cross-document trees of two documents are equal() but print " << quote(ta) << " vs " << quote(tb) << "\n"; }
                    }
                std::cout << "XDOC errors=" << da.get_errors().size() + db.get_errors().size() << " pairs=" << n << " fails=" << bad << std::endl;
            } else if (op == "LAWS") {   // the direct oracle on pool[k]; replacement expressions = pool[j...]
                size_t k;
                is >> k;
                std::vector<expression_t> repls;
                size_t j;
                while (is >> j) repls.push_back(w.pool.at(j));
                repls.push_back(expression_t::create_constant(7));
                for (auto& s : w.syms)
                    if (!s.get_type().unknown() && (s.get_type().is_integral() || s.get_type().is_clock())) {
                        repls.push_back(expression_t::create_identifier(s));
                        break;
                    }
                Laws L{w};
                const expression_t& e = w.pool.at(k);
                std::string tag = "tree=" + std::to_string(k);
                L.cloneLaws(e, tag);
                if (auto sc = w.scope.find(k); sc != w.scope.end()) {
                    // a label of an edge: clone_deeper(template frame, select frame) resolves every name where the label itself was resolved
                    expression_t cf = e.clone_deeper(sc->second.first, sc->second.second);
                    L.ok("clone_frame_select");
                    std::string want = refFrame2(w, e, sc->second.first, sc->second.second);
                    if (plain(w, cf, true) != want || sharesNode(cf, e))
                        L.fail("clone_frame_select", kindName(e.get_kind()), tag + " got " + plain(w, cf, true) + " want " + want);
                }
                L.substLaws(e, repls, tag);
                L.equalLaws(e, tag);
                L.changeAfterPrint(e, tag);
                // get_size: every reported child is accessible (walked above under _GLIBCXX_ASSERTIONS); none beyond (probe per kind)
                std::vector<expression_t> ns;
                nodes(e, ns);
                std::string arities;
                for (auto& n : ns) {
                    int kk = (int)n.get_kind();
                    if (!probed.count(kk) || isCounted(n.get_kind())) {
                        int r = probeOk ? extraChildProbe(n) : -1;
                        if (r < 0) probeOk = false;
                        if (!isCounted(n.get_kind())) probed[kk] = r;
                        L.ok("arity_accessible");
                        if (r == 1) L.fail("arity_accessible", kindName(kk), tag + " a child beyond get_size()=" + std::to_string(n.get_size()) + " is accessible");
                        arities += std::string(" ") + kindName(kk) + "=" + std::to_string(n.get_size()) + (r == 1 ? "+" : "");
                    }
                }
                for (auto& f : L.fails) std::cout << f << std::endl;
                std::cout << "LAWS " << k << " checks=" << L.checks << " fails=" << L.fails.size() << " probe=" << (probeOk ? 1 : 0) << " arities:" << arities;
                std::cout << " per:";
                for (auto& [law, n] : L.per) std::cout << " " << law << "=" << n;
                std::cout << std::endl;
            } else if (op == "VARIANTS") {   // append up to `max` single-node perturbations of pool[k] to the pool
                size_t k, mx = 1000, n0 = w.pool.size();
                is >> k >> mx;
                auto ps = perturbationsOf(w, w.pool.at(k));
                for (size_t i = 0; i < ps.size() && i < mx; ++i) {
                    w.pool.push_back(ps[(i * 7919) % ps.size()].tree);
                    w.origin.push_back("pert:" + ps[(i * 7919) % ps.size()].what + " of " + std::to_string(k));
                }
                std::cout << "VARIANTS " << n0 << " " << w.pool.size() << std::endl;
            } else if (op == "ORIGIN") {
                size_t k;
                is >> k;
                std::cout << "ORIGIN " << quote(w.origin.at(k)) << std::endl;
            } else {
                std::cout << "bad-op" << std::endl;
            }
        } catch (std::exception& ex) {
            std::cout << "EXC " << op << " " << quote(ex.what()) << " line=" << quote(line.substr(0, 60)) << std::endl;
        }
    }
    return 0;
}
