/- stub: line-protocol driver for C07 (to be written) -/
def main : IO Unit := pure ()
