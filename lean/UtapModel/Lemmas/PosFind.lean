/- Helper lemmas about `position_index_t::find` (binary search) and the reference `findSpec`. -/
import UtapModel.Model.Pos

namespace UtapModel.Pos

/-- `r` is the index of the last entry with position `≤ pos`, or `0` when there is none. -/
def IsLastLE (idx : Index) (pos r : Nat) : Prop :=
  r < idx.length ∧ (r = 0 ∨ (idx.getD r default).position ≤ pos) ∧
    ∀ j, r < j → j < idx.length → pos < (idx.getD j default).position

theorem IsLastLE.unique {idx : Index} {pos r r' : Nat} (h : IsLastLE idx pos r) (h' : IsLastLE idx pos r') : r = r' := by
  obtain ⟨hr, hle, hgt⟩ := h
  obtain ⟨hr', hle', hgt'⟩ := h'
  rcases Nat.lt_trichotomy r r' with hlt | heq | hlt
  · have := hgt r' hlt hr'
    rcases hle' with h0 | h1
    · omega
    · omega
  · exact heq
  · have := hgt' r hlt hr
    rcases hle with h0 | h1
    · omega
    · omega

theorem Monotone.tail {a : Line} {l : Index} (h : Monotone (a :: l)) : Monotone l := by
  cases l with
  | nil => trivial
  | cons b rest => exact h.2

theorem Monotone.getD_le {idx : Index} (hm : Monotone idx) : ∀ {i j : Nat}, i ≤ j → j < idx.length →
    (idx.getD i default).position ≤ (idx.getD j default).position := by
  induction idx with
  | nil => intro i j _ hj; simp at hj
  | cons a l ih =>
    intro i j hij hj
    cases j with
    | zero =>
      have : i = 0 := by omega
      subst this; exact Nat.le_refl _
    | succ j' =>
      cases i with
      | zero =>
        cases l with
        | nil => simp at hj
        | cons b rest =>
          have h1 : a.position ≤ b.position := hm.1
          have h2 := ih hm.2 (i := 0) (j := j') (Nat.zero_le _) (by simpa using hj)
          simp only [List.getD_cons_zero, List.getD_cons_succ] at h2 ⊢
          omega
      | succ i' =>
        have := ih hm.tail (i := i') (j := j') (by omega) (by simpa using hj)
        simpa using this

/-- loop invariant of the binary search -/
theorem findLoop_spec (idx : Index) (hm : Monotone idx) (pos : Nat) : ∀ (n first last : Nat), last - first = n →
    first < last → last ≤ idx.length →
    (first = 0 ∨ (idx.getD first default).position ≤ pos) →
    (∀ j, last ≤ j → j < idx.length → pos < (idx.getD j default).position) →
    IsLastLE idx pos (findLoop idx pos first last) := by
  intro n
  induction n using Nat.strongRecOn with
  | _ n ih =>
    intro first last hn h1 h2 hf hl
    unfold findLoop
    by_cases hc : first + 1 < last
    · simp only [hc, ↓reduceDIte]
      by_cases hp : pos < (idx.getD ((first + last) / 2) default).position
      · simp only [hp, ↓reduceIte]
        apply ih ((first + last) / 2 - first) (by omega) first ((first + last) / 2) rfl (by omega) (by omega) hf
        intro j hj hjl
        have := hm.getD_le (i := (first + last) / 2) (j := j) hj hjl
        omega
      · simp only [hp, ↓reduceIte]
        apply ih (last - (first + last) / 2) (by omega) ((first + last) / 2) last rfl (by omega) h2
        · right; omega
        · exact hl
    · simp only [hc, ↓reduceDIte]
      refine ⟨by omega, hf, ?_⟩
      intro j hj hjl
      exact hl j (by omega) hjl

theorem findSpec_of_isLastLE : ∀ (idx : Index), Monotone idx → ∀ (pos r : Nat), IsLastLE idx pos r →
    findSpec idx pos = some (idx.getD r default) := by
  intro idx
  induction idx with
  | nil => intro _ pos r h; exact absurd h.1 (by simp)
  | cons e l ih =>
    intro hm pos r h
    cases l with
    | nil =>
      have : r = 0 := by have := h.1; simp at this; omega
      subst this; simp [findSpec]
    | cons e' rest =>
      obtain ⟨hr, hle, hgt⟩ := h
      by_cases hp : e'.position ≤ pos
      · simp only [findSpec, hp, ↓reduceIte]
        cases r with
        | zero =>
          have := hgt 1 (by omega) (by simp)
          simp at this; omega
        | succ r' =>
          have := ih hm.2 pos r' ⟨by simpa using hr, ?_, ?_⟩
          · simpa using this
          · rcases hle with h0 | h1
            · omega
            · by_cases hz : r' = 0
              · left; exact hz
              · right; simpa using h1
          · intro j hj hjl
            have := hgt (j + 1) (by omega) (by simpa using hjl)
            simpa using this
      · simp only [findSpec, hp, ↓reduceIte]
        cases r with
        | zero => simp
        | succ r' =>
          exfalso
          rcases hle with h0 | h1
          · omega
          · have h2 := hm.getD_le (idx := e :: e' :: rest) (i := 1) (j := r' + 1) (by omega) hr
            simp only [List.getD_cons_succ, List.getD_cons_zero] at h2 h1
            omega

/-- **binary search = reference**: on a monotone, non-empty table `find` returns exactly `findSpec`. -/
theorem find_eq_findSpec (idx : Index) (hm : Monotone idx) (hne : idx ≠ []) (pos : Nat) :
    ∃ e, idx.find pos = .ok e ∧ findSpec idx pos = some e := by
  have hlen : 0 < idx.length := by
    cases idx with
    | nil => exact absurd rfl hne
    | cons _ _ => simp
  have hemp : idx.isEmpty = false := by
    cases idx with
    | nil => exact absurd rfl hne
    | cons _ _ => rfl
  have h := findLoop_spec idx hm pos idx.length 0 idx.length rfl hlen (Nat.le_refl _) (Or.inl rfl)
    (by intro j h1 h2; omega)
  refine ⟨idx.getD (findLoop idx pos 0 idx.length) default, ?_, findSpec_of_isLastLE idx hm pos _ h⟩
  simp [Index.find, hemp]

/-! ### `findSpec` on tables that grow at the end -/

theorem findSpec_append_gt : ∀ (idx : Index) (more : Index) (pos : Nat), idx ≠ [] →
    (∀ e ∈ more, pos < e.position) → findSpec (idx ++ more) pos = findSpec idx pos := by
  intro idx
  induction idx with
  | nil => intro _ _ h; exact absurd rfl h
  | cons a l ih =>
    intro more pos _ hmore
    cases l with
    | nil =>
      cases more with
      | nil => rfl
      | cons m ms =>
        have : ¬ m.position ≤ pos := by have := hmore m (by simp); omega
        simp [findSpec, this]
    | cons b rest =>
      simp only [List.cons_append, findSpec]
      by_cases hb : b.position ≤ pos
      · simp only [hb, ↓reduceIte]
        have := ih more pos (by simp) hmore
        simpa using this
      · simp only [hb, ↓reduceIte]

/-- on a monotone table whose last entry is `≤ pos` the search returns the last entry -/
theorem findSpec_last : ∀ (idx : Index) (l : Line) (pos : Nat), Monotone idx → idx.getLast? = some l → l.position ≤ pos →
    findSpec idx pos = some l := by
  intro idx
  induction idx with
  | nil => intro l pos _ h; simp at h
  | cons a rest ih =>
    intro l pos hm hl hp
    cases rest with
    | nil => simp at hl; simp [findSpec, hl]
    | cons b rest' =>
      have hl' : (b :: rest').getLast? = some l := by simpa using hl
      have hb : b.position ≤ l.position := by
        have hlen : (b :: rest').length - 1 < (b :: rest').length := by simp
        have := hm.2.getD_le (i := 0) (j := (b :: rest').length - 1) (Nat.zero_le _) hlen
        rw [List.getLast?_eq_getElem?] at hl'
        have hd : (b :: rest').getD ((b :: rest').length - 1) default = l := by
          simp only [List.getD_eq_getElem?_getD, hl', Option.getD_some]
        rw [hd] at this
        simpa using this
      have : b.position ≤ pos := by omega
      simp only [findSpec, this, ↓reduceIte]
      exact ih l pos hm.2 hl' hp

theorem Monotone.append_one : ∀ (idx : Index) (l e : Line), Monotone idx → idx.getLast? = some l → l.position ≤ e.position →
    Monotone (idx ++ [e]) := by
  intro idx
  induction idx with
  | nil => intro l e _ h; simp at h
  | cons a rest ih =>
    intro l e hm hl he
    cases rest with
    | nil =>
      simp at hl; subst hl
      exact ⟨he, trivial⟩
    | cons b rest' =>
      refine ⟨hm.1, ?_⟩
      have hl' : (b :: rest').getLast? = some l := by simpa using hl
      exact ih l e hm.2 hl' he

end UtapModel.Pos
