/- C20 -- the XML writer's template graph mirrors the document it was given; writing never crashes.

   Model: `writeXml : WDoc → Option Xml` (`none` = the writer dereferences a null pointer), the independent reader
   `readGraph : Xml → Graph`, the specification `graphOf : WDoc → Graph` (all in Model/XmlWrite.lean), the computed
   exception shapes `docShapes`.  Helper lemmas: Lemmas/C20.lean.  Tie: correspondence run of checks/c20.py against the
   real `write_XML_file`, read back with libxml2's tree API.

   Full-strength statement (NOT provable: the unchanged writer violates it, see the witnesses below):
     theorem C20_full (d : WDoc) : (writeXml d).map readGraph = some (graphOf d)                                   -/
import UtapModel.Lemmas.C20
namespace UtapModel.AM

/-- a document using everything the writer handles: named locations, invariant (as the type checker stores it) and
    rate, urgent / committed, self loop, parallel edges, a select over a typedef'd type, guard, sync, update -/
def sampleDoc : WDoc :=
  { procs := [{ name := "P", isTempl := false, bound := [true, true] }, { name := "T", isTempl := true, bound := [false] }],
    templs := [
   { name := "T",
     locs := [{ name := "L0", inv := some (.andOne "x <= 5"), rate := some (.plain "3"), urgent := false, committed := false },
              { name := "_id1", inv := none, rate := none, urgent := true, committed := false },
              { name := "L<2>", inv := some .one, rate := none, urgent := false, committed := true }],
     bps := [], init := some 0,
     edges := [{ src := .loc 0, dst := .loc 1, ctrl := true, select := [{ id := "i", ty := "idT", named := true }],
                 guard := some (.plain "x >= 1 && m == i"), sync := some (.plain "ch[1]!"), assign := some (.plain "m = 4, x = 0"),
                 prob := some .one },
               { src := .loc 0, dst := .loc 1, ctrl := true, select := [], guard := some .one, sync := none, assign := some .one,
                 prob := some .one },
               { src := .loc 2, dst := .loc 2, ctrl := true, select := [], guard := some .one, sync := some (.plain "ch[2]?"),
                 assign := some .one, prob := some .one }] }] }

example : docShapes sampleDoc = [] := by decide

/-- **C20 (outside the exception shapes).**  For every document none of whose edges / templates has one of the computed
    shapes, the writer does not crash and an independent reader of the written tree finds exactly the document's graph:
    per template one location element per location (id `id<nr>`, name, invariant and rate label, urgent / committed),
    one init reference to the initial location, one transition per edge in order with the ids of its endpoints, the
    controllable flag and the select / guard / synchronisation / assignment labels carrying the non-trivial texts. -/
theorem C20_partial (d : WDoc) (h : docShapes d = []) : (writeXml d).map readGraph = some (graphOf d) := by
  simp only [docShapes, List.append_eq_nil_iff, List.flatMap_eq_nil_iff] at h
  obtain ⟨h, hp⟩ := h
  have hpc : d.procs.any procCrash = false := by
    cases hc : d.procs.any procCrash with
    | false => rfl
    | true => simp [hc] at hp
  have hok : ∀ t ∈ d.templs, TemplOk t := fun t ht => templOk_of t (h t ht)
  have hall := allSome_map_some wTempl wTempl' d.templs (fun t ht => wTempl_ok t (hok t ht))
  simp only [writeXml, hpc, Bool.false_eq_true, ↓reduceIte, hall, Option.map_some, readGraph, graphOf, List.filterMap_append]
  have hts : (d.templs.map wTempl').filterMap templF = d.templs.map gtemplOf := by
    apply filterMap_map_some
    intro t ht
    obtain ⟨k, hk, hg⟩ := gTempl_wTempl t (hok t ht)
    simp [hk, templF, hg]
  simp [hts, templF, List.filterMap_cons]

theorem allSome_eq_none_iff {α} (l : List (Option α)) : allSome l = none ↔ none ∈ l := by
  induction l with
  | nil => simp [allSome]
  | cons x r ih =>
    cases x with
    | none => simp [allSome]
    | some a => simp [allSome, ih]

theorem mem_ite_singleton {α} (c : Prop) [Decidable c] (a b : α) : a ∈ (if c then [b] else []) ↔ c ∧ a = b := by
  by_cases h : c <;> simp [h]

theorem selShapes_only (select : List WSel) (x : Shape) (hx : x ≠ Shape.selectTypeDropped) : x ∉ selShapes select := by
  cases select with
  | nil => simp [selShapes]
  | cons s r => cases hn : s.named <;> simp [selShapes, hn, hx]

theorem bp_mem_edgeShapes (e : WEdge) : Shape.branchpointEndpoint ∈ edgeShapes e ↔ wEdge e = none := by
  obtain ⟨src, dst, ctrl, select, guard, sync, assign, prob⟩ := e
  have h1 := selShapes_only select Shape.branchpointEndpoint (by decide)
  simp only [edgeShapes, List.mem_append, mem_ite_singleton, h1, or_false]
  cases src <;> cases dst <;> simp [wEdge]

theorem noInit_not_mem_edgeShapes (e : WEdge) : Shape.noInit ∉ edgeShapes e := by
  obtain ⟨src, dst, ctrl, select, guard, sync, assign, prob⟩ := e
  have h1 := selShapes_only select Shape.noInit (by decide)
  simp only [edgeShapes, List.mem_append, mem_ite_singleton, h1, or_false]
  cases src <;> cases dst <;> simp

theorem wTempl_eq_none_iff (t : WTempl) :
    wTempl t = none ↔ Shape.branchpointEndpoint ∈ templShapes t ∨ Shape.noInit ∈ templShapes t := by
  have hE : allSome (t.edges.map wEdge) = none ↔ ∃ e ∈ t.edges, wEdge e = none := by
    rw [allSome_eq_none_iff]; simp [List.mem_map]
  have hb : Shape.branchpointEndpoint ∈ templShapes t ↔ ∃ e ∈ t.edges, wEdge e = none := by
    simp only [templShapes, List.mem_append, List.mem_flatMap, mem_ite_singleton, bp_mem_edgeShapes]
    simp
  have hn : Shape.noInit ∈ templShapes t ↔ t.init = none := by
    simp only [templShapes, List.mem_append, List.mem_flatMap, mem_ite_singleton]
    constructor
    · rintro ((⟨e, _, he⟩ | h) | h)
      · exact absurd he (noInit_not_mem_edgeShapes e)
      · simp at h
      · simpa using h.1
    · intro h; right; simp [h]
  rw [hb, hn, ← hE]
  cases hi : t.init with
  | none => simp [wTempl, hi]
  | some i =>
    cases ha : allSome (t.edges.map wEdge) with
    | none => simp [wTempl, hi, ha]
    | some es => simp [wTempl, hi, ha]

/-- **C20, crashes.**  The writer dereferences a null pointer exactly when some edge starts or ends in a branchpoint
    or some template has no initial location. -/
theorem unbound_not_mem_templShapes (t : WTempl) : Shape.unboundProcess ∉ templShapes t := by
  simp only [templShapes, List.mem_append, List.mem_flatMap, mem_ite_singleton, not_or, not_exists, not_and]
  refine ⟨⟨?_, by simp⟩, by simp⟩
  intro e _
  obtain ⟨src, dst, ctrl, select, guard, sync, assign, prob⟩ := e
  have h1 := selShapes_only select Shape.unboundProcess (by decide)
  simp only [edgeShapes, List.mem_append, mem_ite_singleton, h1, or_false]
  cases src <;> cases dst <;> simp

theorem C20_crash_iff (d : WDoc) :
    writeXml d = none ↔ Shape.branchpointEndpoint ∈ docShapes d ∨ Shape.noInit ∈ docShapes d ∨ Shape.unboundProcess ∈ docShapes d := by
  have hu : Shape.unboundProcess ∈ docShapes d ↔ d.procs.any procCrash = true := by
    simp only [docShapes, List.mem_append, List.mem_flatMap, mem_ite_singleton, and_true]
    constructor
    · rintro (⟨t, _, h⟩ | h)
      · exact absurd h (unbound_not_mem_templShapes t)
      · exact h
    · intro h; exact Or.inr h
  have hb : ∀ s, s ≠ Shape.unboundProcess → (s ∈ docShapes d ↔ ∃ t ∈ d.templs, s ∈ templShapes t) := by
    intro s hs
    simp only [docShapes, List.mem_append, List.mem_flatMap, mem_ite_singleton]
    constructor
    · rintro (h | ⟨_, h⟩)
      · exact h
      · exact absurd h hs
    · intro h; exact Or.inl h
  rw [hu, hb _ (by decide), hb _ (by decide)]
  cases hc : d.procs.any procCrash with
  | true => simp [writeXml, hc]
  | false =>
    have h1 : writeXml d = none ↔ ∃ t ∈ d.templs, wTempl t = none := by
      simp only [writeXml, hc, Bool.false_eq_true, ↓reduceIte, Option.map_eq_none_iff, allSome_eq_none_iff, List.mem_map]
    rw [h1]
    simp only [Bool.false_eq_true, or_false]
    constructor
    · rintro ⟨t, ht, h⟩
      rcases (wTempl_eq_none_iff t).mp h with h | h
      · exact Or.inl ⟨t, ht, h⟩
      · exact Or.inr ⟨t, ht, h⟩
    · rintro (⟨t, ht, h⟩ | ⟨t, ht, h⟩)
      · exact ⟨t, ht, (wTempl_eq_none_iff t).mpr (Or.inl h)⟩
      · exact ⟨t, ht, (wTempl_eq_none_iff t).mpr (Or.inr h)⟩

/-- **C20, ids.**  The location ids the writer emits are unique within a template. -/
theorem C20_ids_unique (t : WTempl) : ((gtemplOf t).locs.map (·.id)).Nodup := by
  have h : (gtemplOf t).locs.map (·.id) = (List.range t.locs.length).map (fun i => some (idOf i)) := by
    simp only [gtemplOf, List.map_map]
    apply List.ext_getElem
    · simp
    · intro i h1 h2
      simp [glocOf]
  rw [h]
  exact List.Pairwise.map _ (fun a b hab heq => hab (idOf_injective (Option.some.inj heq))) List.nodup_range

/-! ### the exception shapes are real: a witness for each -/

def wEdgeBase : WEdge :=
  { src := .loc 0, dst := .loc 0, ctrl := true, select := [], guard := some .one, sync := none, assign := some .one, prob := some .one }

def wLocBase : WLoc := { name := "L0", inv := none, rate := none, urgent := false, committed := false }

def wDocWith (e : WEdge) : WDoc := { templs := [{ name := "T", locs := [wLocBase], bps := ["_b"], init := some 0, edges := [e] }] }

def witness : Shape → WDoc
  | .probabilityDropped => wDocWith { wEdgeBase with prob := some (.plain "3") }
  | .selectBindingsDropped =>
    wDocWith { wEdgeBase with select := [{ id := "i", ty := "idT", named := true }, { id := "j", ty := "idT", named := true }] }
  | .selectTypeDropped => wDocWith { wEdgeBase with select := [{ id := "i", ty := "int[0,3]", named := false }] }
  | .controllableDropped => wDocWith { wEdgeBase with ctrl := false }
  | .branchpointEndpoint => wDocWith { wEdgeBase with dst := .bp 0 }
  | .urgentAndCommitted =>
    { templs := [{ name := "T", locs := [{ wLocBase with urgent := true, committed := true }], bps := [], init := some 0, edges := [] }] }
  | .noInit => { templs := [{ name := "T", locs := [wLocBase], bps := [], init := none, edges := [] }] }
  | .unboundProcess =>
    { templs := [{ name := "T", locs := [wLocBase], bps := [], init := some 0, edges := [] }],
      procs := [{ name := "P", isTempl := false, bound := [false, true] }] }

/-- every shape occurs in its witness, and on the witness the written graph differs from the document's graph
    (or the writer crashes) -/
theorem C20_witness (s : Shape) :
    s ∈ docShapes (witness s) ∧ (writeXml (witness s)).map readGraph ≠ some (graphOf (witness s)) := by
  cases s <;> decide

end UtapModel.AM
