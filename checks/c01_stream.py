"""C01, part B -- the runtime part: sanitizer fuzz / enumeration stream (DESIGN.md section 4, C01 "runtime part").

    run_stream(ctx, b) -> coverage dict        b = core.build_repo("asan")
    replay_one(ctx, b, replay_obj) -> 0 | 1     re-run a replay object produced by run_stream (or a minimal
                                                {"entry","newxta","builder","part","input_b64"|"input_text"})
    triage_inputs(ctx, b, items) -> [(key|None, outcome)]   run inputs found elsewhere through the same harness + keying

Entries: xmlbuf (parse_XML_buffer), xmlfile (parse_XML_file), xta (parse_XTA whole text), prop (parseProperty),
part (parse_XTA(str, builder, newxta, part, xpath) inside the builder context the XML reader establishes for that kind of
block: proc_begin / proc_location / proc_edge_begin / proc_instance_line / proc_message ...), partraw (the same entry point
on a fresh builder).  Builders: doc (Document overloads = DocumentBuilder + TypeChecker + FeatureChecker, then the stored
queries through TigaPropertyBuilder), tiga (TigaPropertyBuilder over a parsed context model), pretty (PrettyPrinter).

Every input is one call of a public parsing entry point of the real library (harness/c01.cpp, ASan + UBSan +
_GLIBCXX_ASSERTIONS build), in its own forked child, under a CPU-time budget proportional to the input length.
PASS = the call returns or throws something derived from std::exception.  FAIL = sanitizer report, signal, abort,
non-std exception, time out of proportion (budget exceeded again when re-run alone with 5x the budget), or memory out of
proportion (an input of at most 4 KB whose child is stopped by the harness's cap on the resident set, 2 GB + 4 KB per byte).
Each distinct failure is keyed by the top libutap frame of the sanitizer report (never by seed or counter) and
reported through ctx.finding(key, what, replay_obj).

Families (counts per family are in the coverage dict):
  seed     the unmodified seed models / snippets in every configuration
  xmlmut   (a) XML structure mutation, enumerated over /repo/test/models/*.xml + corpus/c01/*.xml
  tokmut   (b) grammar-aware token mutation at every token position of every text block / snippet
  tokxml   (b') the mutated block re-embedded in its XML model
  trunc    (c) truncation at every byte of small models / snippets, every prefix of every query
  noise    (d) random byte flips / inserts / deletes, purely random bytes
  deep     (e) long chains / deep nesting, n = 10^2 .. 10^5 (thorough 10^6), with n/2n/4n growth measurement
               (the XML documents with nested general entities: n = 6, 12, 24, 30 levels, 27 bytes each)
`import` declarations are kept out of the stream (dynamic_load_lib would dlopen arbitrary files).
Deterministic for a given ctx.seed: enumerations are sorted, sub-sampling uses strides and random.Random(seed).
"""
import base64
import hashlib
import json
import os
import random
import re
import shutil
import subprocess
import threading
import time
import xml.etree.ElementTree as ET
from concurrent.futures import ThreadPoolExecutor
from xml.sax.saxutils import escape as xml_escape

from vlib import core

CORPUS = os.path.join(core.VERIF, "corpus", "c01")
SCRATCH_ROOT = os.environ.get("C01_SCRATCH", "/var/tmp/agent-c01/partB")
SMALL_INPUT = 4096         # bytes: an input up to this size that runs into the memory cap of the harness (2 GB + 4 KB/byte) is a finding
CPU_BASE_MS = 1000          # CPU budget of one call: 1 s + 20 us per input byte (ASan build), x5 on the re-run
CPU_US_PER_BYTE = 20
RERUN_MULT = 5
PARTS = ["S_XTA", "S_DECLARATION", "S_LOCAL_DECL", "S_INST", "S_SYSTEM", "S_PARAMETERS", "S_INVARIANT",
         "S_EXPONENTIAL_RATE", "S_SELECT", "S_GUARD", "S_SYNC", "S_ASSIGN", "S_EXPRESSION", "S_EXPRESSION_LIST",
         "S_PROPERTY", "S_XTA_PROCESS", "S_PROBABILITY", "S_INSTANCE_LINE", "S_MESSAGE", "S_UPDATE", "S_CONDITION"]
OLD_OK = {"S_XTA", "S_DECLARATION", "S_LOCAL_DECL", "S_INST", "S_PARAMETERS", "S_INVARIANT", "S_GUARD", "S_ASSIGN"}

# global declarations parsed before a block that is run through a per-part entry (so that its identifiers resolve)
CTX_DECL = ("clock x, y; int i, j, n; int arr[4]; chan c, d, cs[4]; broadcast chan bc; bool p; typedef int[0,3] id_t; "
            "int f(int a){ return a; } typedef struct { int a; int bs[2]; } rc_t; rc_t rc; "
            "typedef struct { rc_t q; } fp_t; const int N = 4; double dd; ")
CTX_DECL_OLD = "clock x, y; int i, j, n; int arr[4]; chan c, d; const N 4; "


# ------------------------------------------------------------------------------------------------
# jobs
# ------------------------------------------------------------------------------------------------

class Job:
    __slots__ = ("family", "entry", "newxta", "builder", "part", "ctx", "input", "tag")

    def __init__(self, family, entry, newxta, builder, part, ctx, inp, tag=""):
        self.family, self.entry, self.newxta, self.builder, self.part = family, entry, int(bool(newxta)), builder, part or "-"
        self.ctx = ctx if isinstance(ctx, bytes) else (ctx or "").encode("utf-8", "surrogateescape")
        self.input = inp if isinstance(inp, bytes) else inp.encode("utf-8", "surrogateescape")
        self.tag = tag

    def cfg(self):
        return (self.entry, self.newxta, self.builder, self.part)

    def ident(self):
        h = hashlib.sha1()
        h.update(repr(self.cfg()).encode())
        h.update(b"\0" + self.ctx + b"\0" + self.input)
        return h.digest()

    def entry_name(self):
        return self.entry if self.entry not in ("part", "partraw") else self.entry + ":" + self.part

    def cost(self):
        return 8 + (len(self.input) + len(self.ctx)) // 30

    def line(self, jid):
        def e(b):
            return base64.b64encode(b).decode() if b else "-"
        return "%s %s %d %s %s %s %s\n" % (jid, self.entry, self.newxta, self.builder, self.part, e(self.ctx), e(self.input))

    def replay_obj(self, observed=""):
        o = {"entry": self.entry, "newxta": bool(self.newxta), "builder": self.builder, "part": self.part,
             "input_b64": base64.b64encode(self.input).decode(), "family": self.family, "observed": observed}
        if self.ctx:
            o["ctx_b64"] = base64.b64encode(self.ctx).decode()
        if self.tag:
            o["tag"] = self.tag
        try:
            t = self.input.decode("utf-8")
            if len(t) <= 4000 and all(ch == "\n" or ch == "\t" or 32 <= ord(ch) < 127 for ch in t):
                o["input_text"] = t
        except UnicodeDecodeError:
            pass
        return o


ENTRY_ALIAS = {"parse_XTA": "xta", "parse_XTA_part": "partraw", "parse_XTA_part_in_context": "part", "parseProperty": "prop",
               "parse_XML_buffer": "xmlbuf", "parse_XML_file": "xmlfile"}


def job_from_replay(o):
    """accepts full replay objects and minimal ones {"entry","newxta","builder","part","input_b64" | "input_text"}"""
    inp = base64.b64decode(o["input_b64"]) if o.get("input_b64") is not None else o.get("input_text", "").encode("utf-8", "surrogateescape")
    entry = ENTRY_ALIAS.get(o["entry"], o["entry"])
    part = o.get("part") or "-"
    if entry == "xta" and part not in ("-", "S_XTA"):
        entry = "part"
    ctx = base64.b64decode(o["ctx_b64"]) if o.get("ctx_b64") else o.get("ctx_text", "").encode()
    return Job(o.get("family", "replay"), entry, o.get("newxta", True), o.get("builder", "doc"), part, ctx, inp, tag=o.get("tag", ""))


class Res:
    __slots__ = ("outcome", "payload", "wall", "cpu")

    def __init__(self, outcome, payload, wall, cpu):
        self.outcome, self.payload, self.wall, self.cpu = outcome, payload, wall, cpu

    @property
    def failed(self):
        return not (self.outcome == "ok" or self.outcome.startswith("exception:"))


# ------------------------------------------------------------------------------------------------
# running the harness
# ------------------------------------------------------------------------------------------------

class Runner:
    def __init__(self, b, log=None):
        self.b = b
        self.exe = core.build_harness(b, "c01", ["c01.cpp"])
        self.log = log or (lambda *a: None)
        root = SCRATCH_ROOT
        try:
            os.makedirs(root, exist_ok=True)
        except OSError:
            root = os.path.join(core.CACHE, "c01-scratch")
            os.makedirs(root, exist_ok=True)
        self.dir = os.path.join(root, "run-%d" % os.getpid())
        shutil.rmtree(self.dir, ignore_errors=True)
        os.makedirs(self.dir)
        self.seq = 0
        self.lock = threading.Lock()
        self.symcache = {}
        self.env = dict(os.environ)
        self.env["ASAN_OPTIONS"] = (core.SAN_ENV["ASAN_OPTIONS"] + ":detect_stack_use_after_return=0:handle_segv=1:handle_abort=1"
                                    ":handle_sigfpe=1:handle_sigill=1:handle_sigbus=1:symbolize=0:exitcode=77"
                                    ":fast_unwind_on_fatal=0:hard_rss_limit_mb=12000:disable_coredump=1:clear_shadow_mmap_threshold=268435456")
        self.env["UBSAN_OPTIONS"] = core.SAN_ENV["UBSAN_OPTIONS"] + ":symbolize=0:exitcode=77"
        self.env["UTAP_VERIF_NO_DLOPEN"] = "1"
        self.stack_limit = None

    def close(self):
        shutil.rmtree(self.dir, ignore_errors=True)

    def _run_batch(self, items, mult):
        """items: [(index, Job)] -> {index: Res}"""
        with self.lock:
            self.seq += 1
            path = os.path.join(self.dir, "batch-%d.txt" % self.seq)
        with open(path, "w") as fh:
            for idx, j in items:
                fh.write(j.line(str(idx)))
        out = {}
        try:
            p = subprocess.run([self.exe, "batch", path, self.dir, str(CPU_BASE_MS), str(CPU_US_PER_BYTE), str(mult)],
                               stdout=subprocess.PIPE, stderr=subprocess.PIPE, env=self.env, timeout=7200)
            text = p.stdout.decode("ascii", "replace")
        except subprocess.TimeoutExpired as ex:
            text = (ex.stdout or b"").decode("ascii", "replace")
        for ln in text.split("\n"):
            if ln.startswith("#c01 stack="):
                self.stack_limit = int(ln.split("=")[1])
                continue
            f = ln.split(" ")
            if len(f) != 5:
                continue
            try:
                out[int(f[0])] = Res(f[1], f[2], int(f[3]), int(f[4]))
            except ValueError:
                pass
        try:
            os.remove(path)
        except OSError:
            pass
        return out

    def run(self, jobs, mult=1, nproc=None, batch=120):
        """Run all jobs; returns a list of Res aligned with jobs.  Heavy jobs first, small batches, NCPU processes.
        `mult` (budget multiplier) may be a list with one entry per job."""
        nproc = nproc or core.NCPU
        mults = mult if isinstance(mult, (list, tuple)) else [mult] * len(jobs)
        batches = []
        for m in sorted(set(mults)):
            order = sorted((i for i in range(len(jobs)) if mults[i] == m), key=lambda i: (-jobs[i].cost(), i))
            cur, curcost = [], 0
            for i in order:
                c = jobs[i].cost()
                if cur and (len(cur) >= batch or curcost + c > 3000):
                    batches.append((curcost, m, cur))
                    cur, curcost = [], 0
                cur.append((i, jobs[i]))
                curcost += c
            if cur:
                batches.append((curcost, m, cur))
        batches.sort(key=lambda t: (-t[0], t[2][0][0]))
        results = [None] * len(jobs)
        with ThreadPoolExecutor(nproc) as ex:
            for got in ex.map(lambda t: self._run_batch(t[2], t[1]), batches):
                for i, r in got.items():
                    results[i] = r
        lost = [i for i, r in enumerate(results) if r is None]
        for i in lost:  # the harness parent itself died or was cut short: run the input alone
            got = self._run_batch([(i, jobs[i])], mults[i])
            results[i] = got.get(i) or Res("crash:harness-lost", "-", 0, 0)
        return results

    # -- symbolisation (bulk, cached) --------------------------------------------------------------
    def symbolize(self, offsets):
        need = sorted(o for o in set(offsets) if o not in self.symcache)
        if need:
            inp = "".join("0x%x\n" % o for o in need)
            try:
                p = subprocess.run(["llvm-symbolizer", "--obj=" + self.exe, "--demangle", "--inlines", "--functions=linkage"],
                                   input=inp.encode(), stdout=subprocess.PIPE, stderr=subprocess.DEVNULL, timeout=600)
                blocks = p.stdout.decode("utf-8", "replace").split("\n\n")
            except (OSError, subprocess.TimeoutExpired):
                blocks = []
            if len(blocks) < len(need):
                blocks = self._addr2line(need)
            for o, blk in zip(need, blocks):
                lines = [l for l in blk.split("\n") if l.strip()]
                fr = []
                for k in range(0, len(lines) - 1, 2):
                    fr.append((lines[k].strip(), lines[k + 1].strip()))
                self.symcache[o] = fr or [("??", "??:0")]
        return {o: self.symcache.get(o, [("??", "??:0")]) for o in offsets}

    def _addr2line(self, need):
        try:
            p = subprocess.run(["addr2line", "-f", "-C", "-i", "-a", "-e", self.exe] + ["0x%x" % o for o in need],
                               stdout=subprocess.PIPE, stderr=subprocess.DEVNULL, timeout=600)
        except (OSError, subprocess.TimeoutExpired):
            return []
        blocks, cur = [], None
        for l in p.stdout.decode("utf-8", "replace").split("\n"):
            if l.startswith("0x"):
                if cur is not None:
                    blocks.append("\n".join(cur))
                cur = []
            elif cur is not None:
                cur.append(l)
        if cur is not None:
            blocks.append("\n".join(cur))
        return blocks


# ------------------------------------------------------------------------------------------------
# crash triage: key = top libutap frame
# ------------------------------------------------------------------------------------------------

RAW_FRAME = re.compile(r"^\s*#(\d+) 0x[0-9a-f]+\s+\((\S+?)\+0x([0-9a-f]+)\)", re.M)
SYM_FRAME = re.compile(r"^\s*#(\d+) 0x[0-9a-f]+ in (.+?) (\S+:\d+(?::\d+)?)\s*$", re.M)
ACCESSOR = re.compile(r"Fragments::|::operator\[\]|^std::|^__gnu|^operator |^__|^void std::|^__interceptor|^__asan|^__ubsan|^__sanitizer"
                      r"|^(UTAP::)?(symbol_t|type_t|expression_t|frame_t|position_t)::(get_?|is_?|operator|size|empty|unknown|begin|end)")


def short_name(func):
    f = re.sub(r"\[abi:[^\]]*\]", "", func.replace("(anonymous namespace)", "anon"))
    depth, out = 0, []
    i = 0
    while i < len(f):
        ch = f[i]
        if ch == "<" and not f[:i].endswith("operator") and not f[:i].endswith("operator<"):
            depth += 1
        elif ch == ">" and depth > 0 and not f[:i].endswith("operator") and not f[:i].endswith("-"):
            depth -= 1
        elif depth == 0:
            if ch == "(":
                if f[:i].endswith("operator"):
                    out.append("()")
                    i += 2
                    continue
                break
            out.append(ch)
        i += 1
    s = "".join(out).strip()
    s = s.split(" ")[-1] if " " in s and not s.startswith("operator") and "operator" not in s.split(" ")[-2:-1] else s
    if s.startswith("UTAP::"):
        s = s[6:]
    return s or func


def is_utap_frame(func, loc):
    path = loc.rsplit(":", 2)[0] if loc.count(":") >= 2 else loc.rsplit(":", 1)[0]
    if "/harness/" in path or path.endswith("c01.cpp"):
        return False
    base = os.path.basename(path)
    in_repo = path.startswith(core.REPO + "/src") or path.startswith(core.REPO + "/include") or \
        base in ("parser.y", "parser.cpp", "lexer.l", "lexer.cc")
    if func.startswith("std::") or func.startswith("void std::") or func.startswith("__gnu"):
        return False
    return in_repo or func.startswith("UTAP::") or func.startswith("utap_")


class Crash:
    def __init__(self, kind, san, frames, top, report):
        self.kind, self.san, self.frames, self.top, self.report = kind, san, frames, top, report

    prefix = ""
    site = None      # what the key names instead of the top libutap frame (see triage)

    @property
    def key(self):
        if self.site:
            return self.prefix + "%s:%s" % (self.kind, self.site)
        return self.prefix + "%s:%s" % (self.kind, short_name(self.top[0]) if self.top else "no-utap-frame:" + self.san.split(" ")[0])


def sym_frames(runner, rep):
    """[(frame number, function, location)] of a raw sanitizer stack (frames of the harness binary only)"""
    raw = [(int(a), mod, int(off, 16)) for a, mod, off in RAW_FRAME.findall(rep)]
    frames = []
    mine = [(n, off) for n, mod, off in raw if os.path.basename(mod) == os.path.basename(runner.exe)]
    if mine:
        sym = runner.symbolize([off - 1 if n else off for n, off in mine])
        for n, off in mine:
            for fn, loc in sym[off - 1 if n else off]:
                frames.append((n, fn, loc))
    return frames


def triage_hang(runner, res, job):
    """key of a time out: the deepest libutap frame that is on the stack in >= 90% of the 30 stack samples taken after
    the budget was exhausted (robust against sampling noise; the frame that contains, or repeatedly enters, the loop)"""
    rep = base64.b64decode(res.payload).decode("utf-8", "replace") if res.payload not in ("-", "") else ""
    parts = rep.split("==C01-TIMEOUT-SAMPLE==")[1:]
    stacks = []
    for part in parts:
        fr = sym_frames(runner, part)
        ut = [(short_name(fn), loc) for _, fn, loc in fr if is_utap_frame(fn, loc)]
        ut.reverse()  # outermost first
        if ut:
            stacks.append(ut)
    top, prefix, depth = None, [], 0
    while stacks:
        cnt = {}
        for st in stacks:
            if len(st) > depth and [f for f, _ in st[:depth]] == prefix:
                cnt.setdefault(st[depth][0], []).append(st[depth][1])
        if not cnt:
            break
        fn, locs = sorted(cnt.items(), key=lambda kv: (-len(kv[1]), kv[0]))[0]
        if len(locs) < 0.9 * len(stacks):
            break
        prefix.append(fn)
        if not ACCESSOR.search(fn):
            top = (fn, sorted(locs)[0])
        depth += 1
    text = ["%d stack samples after the CPU budget was exhausted; frame present in >= 90%%: %s" % (len(stacks), " > ".join(prefix))]
    for k, part in enumerate(parts[:2]):
        text.append("stack sample %d (innermost first):" % (k + 1))
        for n, fn, loc in sym_frames(runner, part)[:12]:
            text.append("    #%d %s %s" % (n, fn, loc))
    return Crash("hang", res.outcome, [], top or (job.entry_name(), ""), "\n".join(text))


def triage(runner, res, job):
    """Res of a failed job -> Crash (kind, sanitizer kind, symbolised frames, top libutap frame)."""
    cr = _triage(runner, res, job)
    if job.family == "deep" and "entity_nest" in job.tag and cr.kind in ("hang", "memory"):
        # the time / memory of these documents goes into libxml2, below XMLReader::read whatever the cause: the top libutap frame says
        # nothing, the family (where the entity is referenced from) does
        cr.site = "deep:" + job.tag.split(":")[0]
    return cr


def _triage(runner, res, job):
    if res.outcome.startswith("timeout"):
        return triage_hang(runner, res, job)
    if res.outcome == "nonstd-exception":
        return Crash("nonstd-exception", "a type not derived from std::exception was thrown", [], (job.entry_name(), ""), "")
    rep = base64.b64decode(res.payload).decode("utf-8", "replace") if res.payload != "-" else ""
    m = re.search(r"ERROR: AddressSanitizer:? ([A-Za-z-]+)", rep)
    san = ""
    if m:
        san = "AddressSanitizer: " + m.group(1)
    m2 = re.search(r"runtime error: ([^\n]*)", rep)
    if m2:
        san = (san + "; " if san else "") + "UBSan: " + m2.group(1)
    m3 = re.search(r"Assertion '([^\n]*?)' failed", rep)
    if m3:
        san = "_GLIBCXX_ASSERTIONS: " + m3.group(1)[:120] + (" (" + san + ")" if san else "")
    if "terminate called" in rep:
        san = "std::terminate (" + san + ")"
    if not san:
        san = res.outcome
    mm = re.search(r"==C01-MEMORY-LIMIT== rss_mb=(\d+) cap_mb=(\d+)", rep)
    if mm:
        # stopped by the harness's cap on the resident set.  An input of a few hundred bytes that needs gigabytes is the finding (memory
        # out of proportion to the input, keyed by the libutap frame that was active); for larger inputs the cap only protects the machine
        if len(job.input) + len(job.ctx) > SMALL_INPUT:
            return Crash("oom", "resident set above the cap", [], None, rep)
        fr = sym_frames(runner, rep.split("==C01-MEMORY-LIMIT==")[1])
        ut = [(fn, loc) for _, fn, loc in fr if is_utap_frame(fn, loc) and not ACCESSOR.search(short_name(fn))]
        text = ["resident set %s MB > cap %s MB (2 GB + 4 KB per input byte) for an input of %d bytes" % (mm.group(1), mm.group(2), len(job.input) + len(job.ctx))]
        text += ["    #%d %s %s" % t for t in fr[:14]]
        return Crash("memory", "resident set %s MB for %d bytes of input" % (mm.group(1), len(job.input) + len(job.ctx)), fr,
                     ut[0] if ut else (job.entry_name(), ""), "\n".join(text))
    if re.search(r"rss limit|out of memory|allocation-size-too-big|failed to allocate|cannot allocate", rep, re.I) or "out-of-memory" in san:
        return Crash("oom", san, [], None, rep)
    if not rep.strip() and res.outcome in ("crash:signal:9", "crash:harness-lost"):
        # killed from outside (kernel OOM killer, operator) without any report: environment, not the library
        return Crash("oom", res.outcome, [], None, rep)
    frames = sym_frames(runner, rep)
    for n, fn, loc in SYM_FRAME.findall(rep):  # already symbolised frames (UBSan may do that)
        frames.append((int(n), fn, loc))
    frames.sort(key=lambda t: t[0])
    utap = [(fn, loc) for _, fn, loc in frames if is_utap_frame(fn, loc)]
    cand = [(fn, loc) for fn, loc in utap if not ACCESSOR.search(short_name(fn)) and not ACCESSOR.search(fn)]
    kind = "stack-overflow" if "stack-overflow" in san else "crash"
    top = None
    if kind == "stack-overflow" and utap:
        cnt = {}
        for fn, loc in utap:
            cnt[fn] = cnt.get(fn, 0) + 1
        best = sorted(cnt.items(), key=lambda kv: (-kv[1], kv[0]))[0][0]
        top = next((fn, loc) for fn, loc in utap if fn == best)
    elif cand:
        top = cand[0]
    elif utap:
        top = utap[0]
    # readable report: raw frames replaced by their symbolised form
    lines = []
    symmap = {}
    for n, fn, loc in frames:
        symmap.setdefault(n, []).append("%s %s" % (fn, loc))
    for ln in rep.split("\n"):
        mm = RAW_FRAME.match(ln)
        if mm and int(mm.group(1)) in symmap and os.path.basename(mm.group(2)) == os.path.basename(runner.exe):
            ln = "    #%s %s" % (mm.group(1), " <- ".join(symmap[int(mm.group(1))]))
        lines.append(ln)
    return Crash(kind, san, frames, top, "\n".join(lines))


# ------------------------------------------------------------------------------------------------
# seeds
# ------------------------------------------------------------------------------------------------

def load_seed_models():
    out = []
    for d in (os.path.join(core.REPO, "test", "models"), CORPUS):
        if not os.path.isdir(d):
            continue
        for f in sorted(os.listdir(d)):
            if f.endswith(".xml"):
                data = open(os.path.join(d, f), "rb").read()
                if b"import" in data:
                    continue
                out.append((f, data))
    return out


def load_snippets():
    """[(entry, part, syntax, text)] from corpus/c01/snippets.txt"""
    out = []
    p = os.path.join(CORPUS, "snippets.txt")
    if not os.path.exists(p):
        return out
    cur, head = [], None
    for ln in open(p, encoding="utf-8").read().split("\n"):
        if ln.startswith("### "):
            if head:
                out.append(head + ("\n".join(cur).strip("\n"),))
            f = ln.split()
            head, cur = (f[1], f[2], f[3] if len(f) > 3 else "new"), []
        elif head is not None:
            cur.append(ln)
    if head:
        out.append(head + ("\n".join(cur).strip("\n"),))
    return [s for s in out if "import" not in s[3]]


LABEL_PART = {"invariant": "S_INVARIANT", "exponentialrate": "S_EXPONENTIAL_RATE", "select": "S_SELECT", "guard": "S_GUARD",
              "synchronisation": "S_SYNC", "assignment": "S_ASSIGN", "probability": "S_PROBABILITY", "message": "S_MESSAGE",
              "update": "S_UPDATE", "condition": "S_CONDITION"}
TAG_PART = {"declaration": "S_DECLARATION", "parameter": "S_PARAMETERS", "system": "S_SYSTEM", "instantiation": "S_INST"}


def parse_model(data):
    try:
        return ET.fromstring(data)
    except ET.ParseError:
        return None


def serialize(root):
    return b'<?xml version="1.0" encoding="utf-8"?>\n' + ET.tostring(root, encoding="utf-8").split(b"?>\n", 1)[-1]


def text_blocks(root):
    """[(element, kind)] for every element whose text is fed to the grammar; kind = part name or 'prop'."""
    out = []
    for el in root.iter():
        if el.text is None or not el.text.strip():
            continue
        if el.tag == "label":
            part = LABEL_PART.get(el.get("kind", ""))
            if part:
                out.append((el, part))
        elif el.tag in TAG_PART:
            out.append((el, TAG_PART[el.tag]))
        elif el.tag == "formula":
            out.append((el, "prop"))
    return out


def model_ctx(root):
    """global + local declarations of a model, as context for its blocks when run through a per-part entry"""
    parts = []
    for el in root.iter("declaration"):
        if el.text:
            parts.append(el.text)
    return "\n".join(parts)


# ------------------------------------------------------------------------------------------------
# (a) XML structure mutation -- enumerated
# ------------------------------------------------------------------------------------------------

def xml_mutants(name, data):
    """yield (tag, bytes) for every single structural mutation of the model"""
    root = parse_model(data)
    if root is None:
        return
    n_el = sum(1 for _ in root.iter())
    all_attr_vals = [v for el in root.iter() for v in el.attrib.values()]

    def fresh():
        r = ET.fromstring(data)
        return r, list(r.iter()), {c: p for p in r.iter() for c in p}

    for k in range(1, n_el):  # element 0 is the root
        for op in ("drop", "dup", "move"):
            r, els, parent = fresh()
            el = els[k]
            par = parent[el]
            kids = list(par)
            pos = kids.index(el)
            if op == "drop":
                par.remove(el)
            elif op == "dup":
                par.insert(pos + 1, ET.fromstring(ET.tostring(el)))
            else:
                if len(kids) < 2:
                    continue
                other = pos + 1 if pos + 1 < len(kids) else pos - 1
                par.remove(el)
                par.insert(other, el)
            yield ("%s:el%d:%s:%s" % (name, k, el.tag, op), serialize(r))
    ai = 0
    for k in range(n_el):
        r0, els0, _ = fresh()
        for an in sorted(els0[k].attrib):
            for op in ("drop", "empty", "unknown", "swap"):
                r, els, _ = fresh()
                el = els[k]
                if op == "drop":
                    del el.attrib[an]
                elif op == "empty":
                    el.set(an, "")
                elif op == "unknown":
                    el.set(an, "id999" if an in ("ref", "id", "instanceid") else "zz_unknown")
                else:
                    others = sorted(a for a in el.attrib if a != an)
                    if others:
                        o = others[0]
                        v1, v2 = el.get(an), el.get(o)
                        el.set(an, v2)
                        el.set(o, v1)
                    elif all_attr_vals:
                        el.set(an, all_attr_vals[(ai + 1) % len(all_attr_vals)])
                yield ("%s:el%d:%s@%s:%s" % (name, k, el.tag, an, op), serialize(r))
            ai += 1
    for k in range(n_el):
        _, els0, _ = fresh()
        if els0[k].text and els0[k].text.strip():
            for op, val in (("empty", ""), ("blank", " \n\t ")):
                r, els, _ = fresh()
                els[k].text = val
                yield ("%s:el%d:%s#text:%s" % (name, k, els[k].tag, op), serialize(r))
    # a text block that holds what is valid in another block: the text of every other block of the model and declarations that only make
    # sense globally (a process, a dynamic template, an instantiation, priorities, update hooks), alone and in front of the block's own text
    _, els0, _ = fresh()
    texts = []
    for el in els0:
        if el.text and el.text.strip() and el.tag in ("declaration", "system", "parameter", "label", "formula", "instantiation") and el.text not in texts:
            texts.append(el.text)
    texts = texts[:12] + FOREIGN_DECLS
    for k in range(n_el):
        if els0[k].tag not in ("declaration", "system", "parameter", "label", "formula", "instantiation"):
            continue
        own = els0[k].text or ""
        for ti, t in enumerate(texts):
            if t == own:
                continue
            for op, val in (("foreign", t), ("foreign+own", t + "\n" + own)):
                if op == "foreign+own" and els0[k].tag != "declaration":
                    continue
                r, els, _ = fresh()
                els[k].text = val
                yield ("%s:el%d:%s#text:%s%d" % (name, k, els[k].tag, op, ti), serialize(r))


FOREIGN_DECLS = ["process Zq() { state a; init a; }", "dynamic Zd(const int i);", "Zi = P();", "chan priority default;", "before_update { 1 }",
                 "void zf() { exit(); }", "system P;", "int zg(int a, int b) { return a; } int zv = zg(1);"]


XML_CFGS = [("xmlbuf", 1, "doc"), ("xmlfile", 1, "doc"), ("xmlbuf", 0, "doc"), ("xmlbuf", 1, "pretty"), ("xmlfile", 0, "pretty"),
            ("xmlbuf", 0, "pretty"), ("xmlfile", 0, "doc"), ("xmlfile", 1, "pretty")]


# ------------------------------------------------------------------------------------------------
# (b) grammar-aware token mutation
# ------------------------------------------------------------------------------------------------

TOK = re.compile(r"""\s+|//[^\n]*|/\*.*?\*/|"(?:[^"\\\n]|\\.)*"|[A-Za-z_][A-Za-z0-9_]*|\d+\.\d*(?:[eE][-+]?\d+)?|\.\d+|\d+
                 |-->|-u->|<<=|>>=|<=|>=|==|!=|&&|\|\||\+\+|--|<<|>>|<\?|>\?|:=|\+=|-=|\*=|/=|%=|&=|\|=|\^=|->|<>|\[\]|.""", re.S | re.X)
INTERESTING = ["(", ")", "{", "}", "[", "]", ";", ",", ":", "zz", "x", "int", "0"]
ROTATING = ["if", "else", "struct", "forall", "return", "for", "while", "typedef", "const", "chan", "clock", "select", "trans",
            "state", "process", "system", "A[]", "Pr", "control", "=", "?", ".", "'", "!", "-", "++", "&", "->", "<", "E<>",
            "guard", "sync", "assign", "init", "urgent", "commit", "broadcast", "scalar", "bool", "double", "void", "meta",
            "priority", "default", "switch", "case", "do", "break", "assert", "exists", "sum", "spawn", "exit", "numOf",
            "dynamic", "before_update", "progress", "gantt", "query", "deadlock", "imply", "not", "and", "or", "true", "U", "W",
            "simulate", "strategy", "under", "minE", "sup", "inf", "bounds", "1.5", "\"s\"", "-->", "<=", "#", "[]", "<>", "*", "id_t"]


def tokenize(text):
    """[(leading whitespace, token)] ; trailing whitespace is returned separately"""
    toks, ws = [], ""
    for m in TOK.finditer(text):
        t = m.group(0)
        if not t.strip():
            ws += t
        else:
            toks.append((ws, t))
            ws = ""
    return toks, ws


def untok(toks, tail=""):
    return "".join(ws + t for ws, t in toks) + tail


def token_mutants(text):
    """yield (op, position, mutated text) for every token position"""
    toks, tail = tokenize(text)
    for k, (ws, t) in enumerate(toks):
        yield ("del", k, untok(toks[:k] + toks[k + 1:], tail))
        yield ("dup", k, untok(toks[:k + 1] + [(" ", t)] + toks[k + 1:], tail))
        if k + 1 < len(toks):
            a, b_ = toks[k], toks[k + 1]
            yield ("swap", k, untok(toks[:k] + [(a[0], b_[1]), (b_[0] or " ", a[1])] + toks[k + 2:], tail))
        for r in INTERESTING:
            if r != t:
                yield ("rep:" + r, k, untok(toks[:k] + [(ws or " ", r)] + toks[k + 1:], tail))
        r = ROTATING[(k * 7 + len(toks)) % len(ROTATING)]
        if r != t:
            yield ("rot:" + r, k, untok(toks[:k] + [(ws or " ", r)] + toks[k + 1:], tail))
        r2 = ROTATING[(k * 13 + 5 + len(toks)) % len(ROTATING)]
        if r2 != t and r2 != r:
            yield ("ins:" + r2, k, untok(toks[:k] + [(ws or " ", r2)] + [(" ", t)] + toks[k + 1:], tail))


def embed_snippet(entry, part, text):
    """a small model around a snippet, so that it reaches the grammar through the XML reader"""
    e = xml_escape(text)
    decl = xml_escape(CTX_DECL)
    lab = {v: k for k, v in LABEL_PART.items()}
    head = '<?xml version="1.0" encoding="utf-8"?>\n<nta>'
    tmpl = ('<template><name>Tm</name><parameter>%s</parameter><declaration>%s</declaration>'
            '<location id="id0"><name>A</name>%s</location><location id="id1"><name>B</name></location>'
            '<branchpoint id="id2"/><init ref="id0"/><transition><source ref="id0"/><target ref="id1"/>%s</transition>'
            '<transition><source ref="id0"/><target ref="id2"/></transition>'
            '<transition><source ref="id2"/><target ref="id1"/>%s</transition></template>')
    sysd = "<system>Q = Tm(); system Q;</system>"
    q = "<queries><query><formula>%s</formula><comment/></query></queries>"
    if entry == "prop":
        return head + "<declaration>%s</declaration>" % decl + tmpl % ("", "", "", "", "") + sysd + q % e + "</nta>"
    if entry == "xta":
        return None
    if part == "S_DECLARATION":
        return head + "<declaration>%s</declaration>" % e + tmpl % ("", "", "", "", "") + sysd + "</nta>"
    if part == "S_LOCAL_DECL":
        return head + "<declaration>%s</declaration>" % decl + tmpl % ("", e, "", "", "") + sysd + "</nta>"
    if part == "S_PARAMETERS":
        return head + "<declaration>%s</declaration>" % decl + tmpl % (e, "", "", "", "") + "<system>system Tm;</system></nta>"
    if part in ("S_INVARIANT", "S_EXPONENTIAL_RATE"):
        l = '<label kind="%s">%s</label>' % (lab[part], e)
        return head + "<declaration>%s</declaration>" % decl + tmpl % ("", "", l, "", "") + sysd + "</nta>"
    if part in ("S_SELECT", "S_GUARD", "S_SYNC", "S_ASSIGN"):
        l = '<label kind="%s">%s</label>' % (lab[part], e)
        return head + "<declaration>%s</declaration>" % decl + tmpl % ("", "", "", l, "") + sysd + "</nta>"
    if part == "S_PROBABILITY":
        l = '<label kind="probability">%s</label>' % e
        return head + "<declaration>%s</declaration>" % decl + tmpl % ("", "", "", "", l) + sysd + "</nta>"
    if part == "S_SYSTEM":
        return head + "<declaration>%s</declaration>" % decl + tmpl % ("const int k", "", "", "", "") + "<system>%s</system></nta>" % e
    if part == "S_INST":
        return (head + "<declaration>%s</declaration>" % decl + tmpl % ("const int k, int &amp;r", "", "", "", "") +
                "<instantiation>%s</instantiation><system>system P1;</system></nta>" % e)
    if part in ("S_MESSAGE", "S_UPDATE", "S_CONDITION", "S_INSTANCE_LINE"):
        inst = '<instance id="id8"><name>%s</name></instance><instance id="id9"><name>Q</name></instance>' % \
            (e if part == "S_INSTANCE_LINE" else "Q2")
        body = ""
        if part == "S_MESSAGE":
            body = '<message><source ref="id8"/><target ref="id9"/><lsclocation>1</lsclocation><label kind="message">%s</label></message>' % e
        elif part == "S_CONDITION":
            body = ('<condition><anchor instanceid="id8"/><lsclocation>1</lsclocation><temperature>hot</temperature>'
                    '<label kind="condition">%s</label></condition>' % e)
        elif part == "S_UPDATE":
            body = '<update><anchor instanceid="id9"/><lsclocation>1</lsclocation><label kind="update">%s</label></update>' % e
        lsc = ('<lsc><name>Sc</name><type>Universal</type><mode>Invariant</mode><yloccoord number="0" y="0"/>%s'
               '<prechart><lsclocation>0</lsclocation></prechart>%s</lsc>' % (inst, body))
        return (head + "<declaration>%s</declaration>" % decl + tmpl % ("", "", "", "", "") + lsc +
                "<system>Q = Tm(); Q2 = Tm(); system Q, Q2;</system></nta>")
    return None


# ------------------------------------------------------------------------------------------------
# (e) long chains / deep nesting
# ------------------------------------------------------------------------------------------------

def _xml(body, system="system T;"):
    return ('<?xml version="1.0" encoding="utf-8"?>\n<nta><declaration>int v; clock x; chan c;</declaration>%s<system>%s</system></nta>'
            % (body, system))


def _tmpl(name="T", locs='<location id="id0"/>', init='<init ref="id0"/>', trans=""):
    return "<template><name>%s</name>%s%s%s</template>" % (name, locs, init, trans)


def _xml_entities(n, where):
    """a document whose internal DTD subset declares n general entities, each one twice the one before it (e0 is 10 characters,
    eN would be 10 * 2^n characters if it were ever expanded), and ONE reference to the last of them in element content
    (where = decl | label | system) or in an attribute value (where = attr).
    The text of the document grows by 27 bytes per level; what the reader does with it must not grow faster than that."""
    dtd = '<!DOCTYPE nta [\n<!ENTITY e0 "0123456789">\n' + "".join('<!ENTITY e%d "&e%d;&e%d;">\n' % (k, k - 1, k - 1) for k in range(1, n + 1)) + "]>\n"
    ref = "&e%d;" % n
    decl = "int v; clock x; chan c;" + (" // " + ref + "\n" if where == "decl" else "")
    if where == "attr":      # in the value of an attribute the reader never asks for
        return ('<?xml version="1.0" encoding="utf-8"?>\n' + dtd + "<nta><declaration>%s</declaration>%s<system>system T;</system></nta>"
                % (decl, _tmpl(locs='<location id="id0" color="%s"/>' % ref)))
    tmpl = _tmpl(trans='<transition><source ref="id0"/><target ref="id0"/><label kind="guard">v >= 0 // %s</label></transition>' % ref
                 if where == "label" else "")
    system = "system T;" + (" // " + ref if where == "system" else "")
    return ('<?xml version="1.0" encoding="utf-8"?>\n' + dtd + "<nta><declaration>%s</declaration>%s<system>%s</system></nta>" % (decl, tmpl, system))


DEEP = {
    # name: (entry, part, builder, ctx, generator(n) -> text)
    "expr_left_plus": ("part", "S_EXPRESSION", "doc", CTX_DECL, lambda n: "1" + "+1" * n),
    "expr_left_minus_ids": ("part", "S_EXPRESSION", "doc", CTX_DECL, lambda n: "i" + "-j" * n),
    "expr_right_assign": ("part", "S_EXPRESSION", "doc", CTX_DECL, lambda n: "i=" * n + "1"),
    "expr_prefix_minus": ("part", "S_EXPRESSION", "doc", CTX_DECL, lambda n: "- " * n + "1"),
    "expr_prefix_not": ("part", "S_EXPRESSION", "doc", CTX_DECL, lambda n: "!" * n + "p"),
    "expr_parens": ("part", "S_EXPRESSION", "doc", CTX_DECL, lambda n: "(" * n + "1" + ")" * n),
    "expr_parens_open": ("part", "S_EXPRESSION", "doc", CTX_DECL, lambda n: "(" * n),
    "expr_index_nest": ("part", "S_EXPRESSION", "doc", CTX_DECL, lambda n: "arr[" * n + "0" + "]" * n),
    "expr_index_chain": ("part", "S_EXPRESSION", "doc", CTX_DECL, lambda n: "arr" + "[0]" * n),
    "expr_call_nest": ("part", "S_EXPRESSION", "doc", CTX_DECL, lambda n: "f(" * n + "1" + ")" * n),
    "expr_arg_list": ("part", "S_EXPRESSION", "doc", CTX_DECL, lambda n: "f(" + "1," * n + "1)"),
    "expr_ternary_right": ("part", "S_EXPRESSION", "doc", CTX_DECL, lambda n: "p?1:" * n + "0"),
    "expr_ternary_mid": ("part", "S_EXPRESSION", "doc", CTX_DECL, lambda n: "p?" * n + "1" + ":0" * n),
    "expr_and_chain": ("part", "S_EXPRESSION", "doc", CTX_DECL, lambda n: "p" + "&&p" * n),
    "expr_cmp_chain": ("part", "S_EXPRESSION", "doc", CTX_DECL, lambda n: "1" + "<1" * n),
    "expr_dot_chain": ("part", "S_EXPRESSION", "doc", CTX_DECL, lambda n: "rc" + ".a" * n),
    "expr_postfix_inc": ("part", "S_EXPRESSION", "doc", CTX_DECL, lambda n: "i" + "++" * n),
    "expr_forall_nest": ("part", "S_EXPRESSION", "doc", CTX_DECL, lambda n: "forall(k:int[0,1]) " * n + "true"),
    "expr_comma_list": ("part", "S_EXPRESSION_LIST", "doc", CTX_DECL, lambda n: "i=1," * n + "i=1"),
    "expr_left_plus_pretty": ("part", "S_EXPRESSION", "pretty", "", lambda n: "1" + "+1" * n),
    "expr_parens_pretty": ("part", "S_EXPRESSION", "pretty", "", lambda n: "(" * n + "1" + ")" * n),
    "guard_and_chain": ("part", "S_GUARD", "doc", CTX_DECL, lambda n: "x>1" + "&&x>1" * n),
    "guard_old_list": ("part", "S_GUARD", "doc", CTX_DECL_OLD, lambda n: "x>1" + ",x>1" * n),
    "assign_list": ("part", "S_ASSIGN", "doc", CTX_DECL, lambda n: "i=1" + ",i=1" * n),
    "select_list": ("part", "S_SELECT", "doc", CTX_DECL, lambda n: ",".join("s%d:int[0,1]" % k for k in range(n + 1))),
    "sync_index_chain": ("part", "S_SYNC", "doc", CTX_DECL, lambda n: "cs" + "[0]" * n + "!"),
    "invariant_and_chain": ("part", "S_INVARIANT", "doc", CTX_DECL, lambda n: "x<5" + "&&x<5" * n),
    "decl_init_plus": ("part", "S_DECLARATION", "doc", "", lambda n: "int a = 1" + "+1" * n + ";"),
    "decl_list": ("part", "S_DECLARATION", "doc", "", lambda n: "int " + ",".join("v%d" % k for k in range(n + 1)) + ";"),
    "decl_many": ("part", "S_DECLARATION", "doc", "", lambda n: "".join("int v%d;\n" % k for k in range(n + 1))),
    "decl_array_dims": ("part", "S_DECLARATION", "doc", "", lambda n: "int a" + "[2]" * n + ";"),
    "decl_array_typedims": ("part", "S_DECLARATION", "doc", "", lambda n: "int a" + "[int[0,1]]" * n + ";"),
    "decl_init_nest": ("part", "S_DECLARATION", "doc", "", lambda n: "int a[1] = " + "{" * n + "1" + "}" * n + ";"),
    "decl_init_list": ("part", "S_DECLARATION", "doc", "", lambda n: "int a[2] = {" + "1," * n + "1};"),
    "decl_struct_nest": ("part", "S_DECLARATION", "doc", "", lambda n: "struct{" * n + "int q;" + "".join("}s%d;" % k for k in range(n))),
    "decl_struct_fields": ("part", "S_DECLARATION", "doc", "", lambda n: "struct{" + "".join("int f%d;" % k for k in range(n + 1)) + "} s;"),
    "decl_typedef_chain": ("part", "S_DECLARATION", "doc", "", lambda n: "typedef int t0;" + "".join("typedef t%d t%d;" % (k, k + 1) for k in range(n))),
    "decl_range_nest": ("part", "S_DECLARATION", "doc", "", lambda n: "int" + "[0," * n + "1" + "]" * n + " a;"),
    "func_many_stmts": ("part", "S_DECLARATION", "doc", "int a;", lambda n: "void g(){" + "a=1;" * n + "}"),
    "func_many_funcs": ("part", "S_DECLARATION", "doc", "int a;", lambda n: "".join("void g%d(){a=1;}" % k for k in range(n + 1))),
    "func_block_nest": ("part", "S_DECLARATION", "doc", "int a;", lambda n: "void g(){" + "{" * n + "}" * n + "}"),
    "func_block_open": ("part", "S_DECLARATION", "doc", "int a;", lambda n: "void g(){" + "{" * n),
    "func_if_nest": ("part", "S_DECLARATION", "doc", "int a; bool p;", lambda n: "void g(){" + "if(p)" * n + ";}"),
    "func_if_else_chain": ("part", "S_DECLARATION", "doc", "int a; bool p;", lambda n: "void g(){" + "if(p) a=1; else " * n + ";}"),
    "func_while_nest": ("part", "S_DECLARATION", "doc", "int a; bool p;", lambda n: "void g(){" + "while(p)" * n + ";}"),
    "func_for_nest": ("part", "S_DECLARATION", "doc", "int a; bool p;", lambda n: "void g(){" + "for(k:int[0,1])" * n + ";}"),
    "func_do_nest": ("part", "S_DECLARATION", "doc", "int a; bool p;", lambda n: "void g(){" + "do " * n + ";" + "while(p);" * n + "}"),
    "func_params": ("part", "S_DECLARATION", "doc", "", lambda n: "void g(" + ",".join("int p%d" % k for k in range(n + 1)) + "){}"),
    "func_return_plus": ("part", "S_DECLARATION", "doc", "", lambda n: "int g(){ return 1" + "+1" * n + ";}"),
    "params_list": ("part", "S_PARAMETERS", "doc", "", lambda n: ",".join("int p%d" % k for k in range(n + 1))),
    "comment_long": ("part", "S_DECLARATION", "doc", "", lambda n: "/*" + "x" * n + "*/ int a;"),
    "comment_unterminated": ("part", "S_DECLARATION", "doc", "", lambda n: "int a; /*" + "x" * n),
    "comment_lines": ("part", "S_DECLARATION", "doc", "", lambda n: "// x\n" * n + "int a;"),
    "string_unterminated": ("part", "S_DECLARATION", "doc", "", lambda n: 'string s = "' + "x" * n),
    "string_long": ("part", "S_DECLARATION", "doc", "", lambda n: 'string s = "' + "x" * n + '";'),
    "ident_long": ("part", "S_DECLARATION", "doc", "", lambda n: "int " + "a" * n + ";"),
    "number_long": ("part", "S_DECLARATION", "doc", "", lambda n: "int a = " + "9" * n + ";"),
    "float_long": ("part", "S_DECLARATION", "doc", "", lambda n: "double a = 1." + "0" * n + "1;"),
    "newlines": ("part", "S_DECLARATION", "doc", "", lambda n: "\n" * n + "int a;"),
    "garbage_tokens": ("part", "S_DECLARATION", "doc", "", lambda n: "int a; " + "} ) ] " * n),
    "error_semicolons": ("part", "S_DECLARATION", "doc", "", lambda n: "int ; " * n),
    "chan_priority_chain": ("part", "S_DECLARATION", "doc", "", lambda n: "chan c; chan priority " + "c<" * n + "c;"),
    # nested calls: every level must be checked once (a checker that re-checks arguments is exponential in the depth)
    "call_nest": ("part", "S_DECLARATION", "doc", "", lambda n: "int f(int x){return x;} int v = " + "f(" * n + "1" + ")" * n + ";"),
    "call_nest_args": ("part", "S_DECLARATION", "doc", "", lambda n: "int f(int x,int y){return x;} int v = " + "f(1," * n + "1" + ")" * n + ";"),
    # a DAG of constant initialisers (a_k = a_0 + ... + a_{k-1}) reaching a template-local array size: the dependency closure must visit each
    # constant once, not once per path
    "const_dag": ("xta", "-", "doc", "", lambda n: "const int a0 = 1;\n" + "".join(
        "const int a%d = %s;\n" % (k, " + ".join("a%d" % j for j in range(k))) for k in range(1, n + 1)) +
        "process P() { int arr[a%d]; state s; init s; }\nQ(const int[0,1] q) = P();\nsystem Q;" % n),
    "system_list": ("xta", "-", "doc", "", lambda n: "process P(){state A;init A;} system P" + ",P" * n + ";"),
    "system_priority": ("xta", "-", "doc", "", lambda n: "process P(){state A;init A;} system P" + "<P" * n + ";"),
    "xta_states": ("xta", "-", "doc", "", lambda n: "process P(){state " + ",".join("A%d" % k for k in range(n + 1)) + ";init A0;} system P;"),
    "xta_trans": ("xta", "-", "doc", "", lambda n: "process P(){state A;init A;trans " + ",".join(["A->A{}"] * (n + 1)) + ";} system P;"),
    "xta_procs": ("xta", "-", "doc", "", lambda n: "".join("process P%d(){state A;init A;}" % k for k in range(n + 1)) + " system P0;"),
    "xta_old_guard": ("xta", "-", "doc", "", lambda n: "clock x; process P{state A;init A;trans A->A{guard " + "x>1," * n + "x>1;};} system P;"),
    "xta_pretty_trans": ("xta", "-", "pretty", "", lambda n: "process P(){state A;init A;trans " + ",".join(["A->A{}"] * (n + 1)) + ";} system P;"),
    "inst_list": ("part", "S_INST", "doc", "", lambda n: "".join("P%d = T();" % k for k in range(n + 1))),
    "gantt_list": ("part", "S_SYSTEM", "doc", "int v;", lambda n: "system Q; gantt { " + "".join("G%d : true -> 1;" % k for k in range(n + 1)) + "}"),
    "progress_list": ("part", "S_SYSTEM", "doc", "int v;", lambda n: "system Q; progress { " + "v;" * n + "}"),
    "prop_lines": ("prop", "-", "tiga", "@model", lambda n: "A[] n >= 0\n" * n + "E<> n > 1"),
    "prop_and_chain": ("prop", "-", "tiga", "@model", lambda n: "A[] " + "n>=0 && " * n + "true"),
    "prop_parens": ("prop", "-", "tiga", "@model", lambda n: "E<> " + "(" * n + "n>0" + ")" * n),
    "prop_not_chain": ("prop", "-", "tiga", "@model", lambda n: "A[] " + "not " * n + "Q.B"),
    "prop_simulate_list": ("prop", "-", "tiga", "@model", lambda n: "simulate [<=1] {" + "n," * n + "n}"),
    "prop_sup_list": ("prop", "-", "tiga", "@model", lambda n: "sup: " + "n," * n + "n"),
    "prop_mitl_nest": ("prop", "-", "tiga", "@model", lambda n: "Pr " + "(<>[0,1] " * n + "Q.B" + ")" * n),
    "prop_imply_chain": ("prop", "-", "tiga", "@model", lambda n: "A[] " + "Q.B imply " * n + "true"),
    "prop_pretty_plus": ("part", "S_PROPERTY", "pretty", "", lambda n: "A[] 1" + "+1" * n + " > 0"),
    "xml_templates": ("xmlbuf", "-", "doc", "", lambda n: _xml("".join(_tmpl("T%d" % k) for k in range(n + 1)), "system T0;")),
    "xml_locations": ("xmlbuf", "-", "doc", "", lambda n: _xml(_tmpl(locs="".join('<location id="id%d"/>' % k for k in range(n + 1))))),
    "xml_transitions": ("xmlbuf", "-", "doc", "", lambda n: _xml(_tmpl(trans='<transition><source ref="id0"/><target ref="id0"/></transition>' * n))),
    "xml_nails": ("xmlbuf", "-", "doc", "", lambda n: _xml(_tmpl(trans='<transition><source ref="id0"/><target ref="id0"/>' + '<nail x="1" y="2"/>' * n + "</transition>"))),
    "xml_labels": ("xmlbuf", "-", "doc", "", lambda n: _xml(_tmpl(trans='<transition><source ref="id0"/><target ref="id0"/>' + '<label kind="guard">v&gt;0</label>' * n + "</transition>"))),
    "xml_branchpoints": ("xmlbuf", "-", "doc", "", lambda n: _xml(_tmpl(locs='<location id="id0"/>' + "".join('<branchpoint id="b%d"/>' % k for k in range(n))))),
    "xml_unknown_nest": ("xmlbuf", "-", "doc", "", lambda n: _xml("<zz>" * n + "</zz>" * n + _tmpl())),
    "xml_unknown_siblings": ("xmlbuf", "-", "doc", "", lambda n: _xml("<zz/>" * n + _tmpl())),
    "xml_template_nest": ("xmlbuf", "-", "doc", "", lambda n: _xml("<template>" * n + "</template>" * n)),
    "xml_name_nest": ("xmlbuf", "-", "doc", "", lambda n: _xml("<template>" + "<name>" * n + "T" + "</name>" * n + '<location id="id0"/><init ref="id0"/></template>')),
    "xml_queries": ("xmlbuf", "-", "doc", "", lambda n: _xml(_tmpl(), "system T;</system><queries>" + "<query><formula>A[] v&gt;=0</formula><comment/></query>" * n + "</queries><system>")),
    "xml_options": ("xmlbuf", "-", "doc", "", lambda n: _xml(_tmpl(), "system T;</system><queries><query><formula>A[] true</formula>" + '<option key="k" value="v"/>' * n + "</query></queries><system>")),
    "xml_long_attr": ("xmlbuf", "-", "doc", "", lambda n: _xml(_tmpl(locs='<location id="%s"/>' % ("i" * n), init='<init ref="%s"/>' % ("i" * n)))),
    "xml_long_decl": ("xmlbuf", "-", "doc", "", lambda n: _xml("<declaration>int w0;" + " " * n + "</declaration>" + _tmpl())),
    "xml_entities": ("xmlbuf", "-", "doc", "", lambda n: _xml(_tmpl(locs='<location id="id0"><label kind="invariant">v' + "&lt;1&amp;&amp;v" * n + "&lt;1</label></location>"))),
    # general entities declared in the document itself, nested n deep (each one names the one before it twice), referenced once from the
    # text of a block: whether the reader skips the reference or substitutes it, time and memory stay proportional to the DOCUMENT
    "xml_entity_nest_decl": ("xmlbuf", "-", "doc", "", lambda n: _xml_entities(n, "decl")),
    "xml_entity_nest_label": ("xmlbuf", "-", "doc", "", lambda n: _xml_entities(n, "label")),
    "xml_entity_nest_system": ("xmlbuf", "-", "pretty", "", lambda n: _xml_entities(n, "system")),
    "xmlfile_entity_nest": ("xmlfile", "-", "doc", "", lambda n: _xml_entities(n, "decl")),
    "xml_entity_nest_attr": ("xmlbuf", "-", "doc", "", lambda n: _xml_entities(n, "attr")),
    "xml_unclosed": ("xmlbuf", "-", "doc", "", lambda n: '<?xml version="1.0"?><nta>' + "<template><name>" * n),
    "xml_pretty_templates": ("xmlbuf", "-", "pretty", "", lambda n: _xml("".join(_tmpl("T%d" % k) for k in range(n + 1)), "system T0;")),
    "xmlfile_locations": ("xmlfile", "-", "doc", "", lambda n: _xml(_tmpl(locs="".join('<location id="id%d"/>' % k for k in range(n + 1))))),
}


def deep_triple(name, thorough):
    """n such that n, 2n, 4n are measured for growth: the largest `round` n whose 4n-input stays below a byte budget.
    The PrettyPrinter families are quadratic (string concatenation): their sizes stay either far below or far above the
    point where the CPU budget is reached (about 45 000 operands), so that the verdict never depends on machine load."""
    if name == "const_dag":
        return []              # its text is quadratic in n by construction: the fixed sizes of deep_sizes are the test
    if "entity_nest" in name:
        return [6]             # 6, 12, 24 levels: 24 levels are 10 * 2^24 characters if substituted -- seconds, not hours (see deep_sizes)
    unit = max(1.0, len(DEEP[name][4](200)) / 200.0)
    if DEEP[name][2] == "pretty":
        return [2500]
    out = []
    for cap in ((64e3, 1600e3) if thorough else (64e3,)):
        n = 25
        for cand in (25, 50, 100, 250, 500, 1000, 2500, 5000, 10000, 25000, 50000, 100000):
            if 4 * cand * unit <= cap:
                n = cand
        out.append(n)
    return out


def deep_sizes(name, thorough):
    unit = max(1.0, len(DEEP[name][4](200)) / 200.0)
    pretty = DEEP[name][2] == "pretty"
    sizes = {100, 1000}
    if name == "const_dag":
        return [10, 20, 30, 40, 56, 80]      # the text grows quadratically; path counting would need 2^n steps
    if "entity_nest" in name:
        # documents of 0.3 .. 1 KB.  Substituting the reference doubles the work with every level: 24 levels are measurable within the
        # budget, 30 levels (10 GB of text) cannot finish -- the child is then stopped by its CPU budget or by the harness's cap on the
        # resident set (2 GB for inputs of this size), whichever comes first, so the machine is never at risk
        return [6, 12, 24, 30]
    if name.startswith("call_nest"):
        sizes |= {10, 20, 30, 40, 60}      # beyond about 90 levels the parser gives up, so exponential checking shows only below that
    for n in deep_triple(name, thorough):
        sizes |= {n, 2 * n, 4 * n}
    if pretty:
        if thorough:
            sizes |= {200000, 400000}
        return sorted(sizes)
    if unit * 1e5 <= 450e3:
        sizes.add(100000)
    if thorough:
        if unit * 1e5 <= 3e6:
            sizes.add(100000)
        if unit * 1e6 <= 4.5e6:
            sizes.add(1000000)
    return sorted(sizes)


def deep_job(name, n, model_ctx_bytes, newxta=1):
    entry, part, builder, ctx, gen = DEEP[name]
    if ctx == "@model":
        ctx = model_ctx_bytes
    return Job("deep", entry, newxta, builder, part, ctx, gen(n), tag="%s:%d" % (name, n))


# ------------------------------------------------------------------------------------------------
# sub-sampling for the quick tier
# ------------------------------------------------------------------------------------------------

def take(items, target, offset):
    """every k-th item (deterministic stride with a seed-dependent offset) so that about `target` remain"""
    if target is None or len(items) <= target:
        return list(items)
    if target <= 0:
        return []
    k = -(-len(items) // target)
    return [it for n, it in enumerate(items) if n % k == offset % k]


# ------------------------------------------------------------------------------------------------
# building the stream
# ------------------------------------------------------------------------------------------------

def build_stream(ctx, log):
    rng = random.Random("c01-stream-%d" % ctx.seed)
    seed = ctx.seed
    T = ctx.thorough
    models = load_seed_models()
    snippets = load_snippets()
    jobs = []
    ctx_model = b""
    for nm, data in models:
        if nm == "q_expect.xml":
            ctx_model = data
    small = [m for m in models if len(m[1]) <= 1800]

    # ---- seeds in every configuration --------------------------------------------------------
    for nm, data in models:
        for e, nx, bld in XML_CFGS:
            jobs.append(Job("seed", e, nx, bld, "-", b"", data, tag=nm))
    for entry, part, syn, text in snippets:
        for nx in ((1, 0) if syn == "both" or T else ((1,) if syn == "new" else (0,))):
            cd = CTX_DECL if nx else CTX_DECL_OLD
            if entry == "part":
                for bld in ("doc", "pretty", "tiga"):
                    jobs.append(Job("seed", "part", nx, bld, part, cd if bld != "tiga" else ctx_model, text))
            elif entry == "xta":
                for bld in ("doc", "pretty", "tiga"):
                    jobs.append(Job("seed", "xta", nx, bld, "-", b"" if bld != "tiga" else ctx_model, text))
            else:
                jobs.append(Job("seed", "prop", nx, "tiga", "-", ctx_model, text))
                jobs.append(Job("seed", "prop", nx, "tiga", "-", b"", text))
                jobs.append(Job("seed", "prop", nx, "pretty", "-", b"", text))
                jobs.append(Job("seed", "prop", nx, "doc", "-", b"", text))
                jobs.append(Job("seed", "part", nx, "tiga", "S_PROPERTY", ctx_model, text))
                jobs.append(Job("seed", "part", nx, "doc", "S_PROPERTY", CTX_DECL, text))
    # every part x builder x syntax on a handful of generic texts (all xta_part_t values are exercised)
    generic = ["", "x", "x > 1", "i = 1", "c!", "int k", "k : int[0,1]", "system P;", "P1 = P();", "A[] true", "(", "1 : 2"]
    if T:
        generic += [" ", "int v; process P(){state A; init A;} system P;", ";", "{", "}", "i++", "x' == 1", "\"s\""]
    for part in PARTS:
        for nx in (1, 0):
            for bld in ("doc", "pretty", "tiga"):
                for g in generic:
                    jobs.append(Job("seed", "part", nx, bld, part, (CTX_DECL if nx else CTX_DECL_OLD) if bld != "tiga" else ctx_model, g))
            # the same entry point on a fresh builder (no enclosing template / edge / instance line)
            for bld in ("doc", "pretty"):
                for g in generic:
                    jobs.append(Job("seed", "partraw", nx, bld, part, b"", g))
    for entry, part, syn, text in snippets:
        if entry == "part":
            nx = 0 if syn == "old" else 1
            jobs.append(Job("seed", "partraw", nx, "doc", part, CTX_DECL if nx else CTX_DECL_OLD, text))

    # ---- (a) XML structure mutation ------------------------------------------------------------
    xm = []
    for nm, data in models:
        muts = list(xml_mutants(nm, data))
        if not T and len(data) > 3000:
            muts = take(muts, 700, seed)
        xm += muts
    log("xmlmut: %d single mutations of %d models" % (len(xm), len(models)))
    for k, (tag, data) in enumerate(xm):
        jobs.append(Job("xmlmut", "xmlbuf", 1, "doc", "-", b"", data, tag=tag))
        if T:
            for e, nx, bld in XML_CFGS[1:]:
                jobs.append(Job("xmlmut", e, nx, bld, "-", b"", data, tag=tag))
        elif (k + seed) % 4 == 0:
            e, nx, bld = XML_CFGS[1 + (k // 4 + seed) % (len(XML_CFGS) - 1)]
            jobs.append(Job("xmlmut", e, nx, bld, "-", b"", data, tag=tag))

    # ---- (b) token mutation -----------------------------------------------------------------------
    blocks = []  # (origin, entry, part, syntaxes, ctx, text, embed function)
    for nm, data in models:
        root = parse_model(data)
        if root is None:
            continue
        mctx = model_ctx(root)
        idx = {el: k for k, el in enumerate(root.iter())}
        for el, kind in text_blocks(root):
            def emb(newtext, data=data, k=idx[el]):
                r = ET.fromstring(data)
                list(r.iter())[k].text = newtext
                return serialize(r)
            if kind == "prop":
                blocks.append((nm, "prop", "-", (1,), data, el.text, emb))
            else:
                c = "" if kind in ("S_DECLARATION",) else mctx
                blocks.append((nm, "part", kind, (1, 0) if (kind in OLD_OK or T) else (1,), c, el.text, emb))
    for entry, part, syn, text in snippets:
        nxs = (1, 0) if syn == "both" else ((1,) if syn == "new" else (0,))
        def emb2(newtext, entry=entry, part=part):
            return embed_snippet(entry, part, newtext)
        if entry == "prop":
            blocks.append(("snippet", "prop", "-", (1,), ctx_model, text, emb2))
        elif entry == "xta":
            blocks.append(("snippet", "xta", "-", nxs, b"", text, emb2))
        else:
            blocks.append(("snippet", "part", part, nxs, (CTX_DECL if nxs[0] else CTX_DECL_OLD) if part != "S_DECLARATION" else "", text, emb2))
    tm, tx = [], []
    seen_text = set()
    for origin, entry, part, nxs, c, text, emb in blocks:
        key = (entry, part, text)
        if key in seen_text:
            continue
        seen_text.add(key)
        for op, pos, mt in token_mutants(text):
            for nx in nxs:
                bld = "tiga" if entry == "prop" else "doc"
                tm.append((op, Job("tokmut", entry, nx, bld, part, c, mt, tag="%s:%s@%d" % (origin, op, pos))))
            tx.append((op, emb, mt, nxs[0], "%s:%s@%d" % (origin, op, pos)))
    log("tokmut: %d blocks, %d token mutants (+%d re-embeddable)" % (len(seen_text), len(tm), len(tx)))
    if not T:
        must = [j for op, j in tm if op in ("del",)]
        rest = [j for op, j in tm if op not in ("del",)]
        tm_jobs = must + take(rest, 3500, seed)
        tx = [t for t in tx if t[0] == "del"][seed % 2::2] + take([t for t in tx if t[0] != "del"], 1200, seed + 1)
    else:
        tm_jobs = [j for _, j in tm]
        tx = [t for t in tx if t[0] == "del"] + take([t for t in tx if t[0] != "del"], 24000, seed + 1)
    jobs += tm_jobs
    # a share of the mutants also through the other builders
    for k, j in enumerate(tm_jobs):
        if T or (k + seed) % 8 == 0:
            if j.entry == "prop":
                jobs.append(Job("tokmut", "part", j.newxta, "pretty", "S_PROPERTY", b"", j.input, tag=j.tag))
            else:
                jobs.append(Job("tokmut", j.entry, j.newxta, "pretty", j.part, j.ctx, j.input, tag=j.tag))
    for op, emb, mt, nx, tag in tx:
        data = emb(mt)
        if data is None:
            continue
        jobs.append(Job("tokxml", "xmlbuf", nx, "doc", "-", b"", data, tag=tag))

    # ---- (c) truncation ----------------------------------------------------------------------------
    tr = []
    for nm, data in models:
        step = 1 if (T or len(data) <= 1000) else (2 if len(data) <= 1800 else 7)
        off = seed % step
        for cut in range(off, len(data), step):
            tr.append(Job("trunc", "xmlbuf", 1, "doc", "-", b"", data[:cut], tag="%s:%d" % (nm, cut)))
            if T:
                tr.append(Job("trunc", "xmlfile" if cut % 2 else "xmlbuf", 0, "doc" if cut % 4 < 2 else "pretty", "-", b"", data[:cut],
                              tag="%s:%d" % (nm, cut)))
            elif cut % 5 == seed % 5:
                tr.append(Job("trunc", "xmlfile", 0, "pretty", "-", b"", data[:cut], tag="%s:%d" % (nm, cut)))
    for origin, entry, part, nxs, c, text, emb in blocks:
        if origin != "snippet" and entry != "prop":
            continue
        tb = text.encode()
        for cut in range(len(tb)):
            for nx in nxs:
                bld = "tiga" if entry == "prop" else "doc"
                tr.append(Job("trunc", entry, nx, bld, part, c, tb[:cut], tag="%s:%d" % (origin, cut)))
            if T or cut % 4 == seed % 4:
                if entry == "prop":
                    tr.append(Job("trunc", "part", 1, "pretty", "S_PROPERTY", b"", tb[:cut]))
                else:
                    tr.append(Job("trunc", entry, nxs[0], "pretty", part, c, tb[:cut]))
    if not T:
        tr = take(tr, 3500, seed)
    jobs += tr

    # ---- (d) random byte noise -------------------------------------------------------------------------
    special = [0, 0xFF, ord("<"), ord("&"), ord('"'), ord("'"), ord("\n"), ord(">"), ord("/"), ord(";"), ord("{"), ord("("), 0x80, 0xC3]
    n_noise = 40000 if T else 2000

    def noisy(b):
        b = bytearray(b)
        for _ in range(rng.choice((1, 1, 1, 2, 3, 5))):
            op = rng.randrange(4)
            pos = rng.randrange(len(b) + 1) if b else 0
            val = rng.choice(special) if rng.random() < 0.6 else rng.randrange(256)
            if op == 0 and b:
                b[min(pos, len(b) - 1)] = val
            elif op == 1:
                b.insert(pos, val)
            elif op == 2 and b:
                del b[min(pos, len(b) - 1)]
            elif b:
                p = min(pos, len(b) - 1)
                b[p] ^= 1 << rng.randrange(8)
        return bytes(b)

    snip_jobs = [(entry, part, nxs, c, text) for origin, entry, part, nxs, c, text, emb in blocks if origin == "snippet"]
    for k in range(n_noise):
        r = rng.random()
        if r < 0.45:
            nm, data = models[rng.randrange(len(models))]
            e, nx, bld = XML_CFGS[rng.randrange(len(XML_CFGS))]
            jobs.append(Job("noise", e, nx, bld, "-", b"", noisy(data), tag=nm))
        elif r < 0.8:
            entry, part, nxs, c, text = snip_jobs[rng.randrange(len(snip_jobs))]
            bld = rng.choice(("doc", "doc", "pretty", "tiga")) if entry != "prop" else rng.choice(("tiga", "tiga", "pretty"))
            cc = ctx_model if bld == "tiga" else (c if entry != "prop" else b"")
            jobs.append(Job("noise", entry, rng.choice(nxs), bld, part, cc, noisy(text.encode())))
        else:
            ln = rng.randrange(201)
            data = bytes(rng.randrange(256) if rng.random() < 0.5 else rng.choice(b" \n<>&;(){}[]=+-*/!?:,.'\"aAxX019_#") for _ in range(ln))
            which = rng.randrange(5)
            if which == 0:
                e, nx, bld = XML_CFGS[rng.randrange(len(XML_CFGS))]
                jobs.append(Job("noise", e, nx, bld, "-", b"", data))
            elif which == 1:
                jobs.append(Job("noise", "xta", rng.randrange(2), rng.choice(("doc", "pretty", "tiga")), "-", b"", data))
            elif which == 2:
                jobs.append(Job("noise", "prop", 1, rng.choice(("tiga", "pretty", "doc")), "-", b"", data))
            else:
                bld = rng.choice(("doc", "pretty", "tiga"))
                jobs.append(Job("noise", "part", rng.randrange(2), bld, PARTS[rng.randrange(len(PARTS))],
                                CTX_DECL if bld != "tiga" else b"", data))

    # ---- (e) long chains / deep nesting ---------------------------------------------------------------
    for name in sorted(DEEP):
        for n in deep_sizes(name, T):
            jobs.append(deep_job(name, n, ctx_model, 1))
        if DEEP[name][0] != "prop":
            for n in deep_sizes(name, T)[1:4:2]:
                jobs.append(deep_job(name, n, ctx_model, 0))

    # ---- (f) a call after an earlier call that ended at an arbitrary point -----------------------------------
    # the parser and the lexer keep file-scope state (`types`, `rootTransId`, the start condition, the position counter): a parse that
    # ends inside a production must not leave anything behind that makes the NEXT call of the process unsafe
    probe = (b"const int N = 3; typedef int[0,N-1] id_t;\nint buf[N], head, tail; int grid[id_t][2]; /* c */ clock z;\n"
             b"process P(id_t i, int &r[2]) { state A, B, C; init A; trans A -> B { guard z > 1 && buf[i] == head; assign buf[i] = 1, z = 0; }, "
             b"-> C { assign tail = 2; }, B -> A { }, -> C { }; }\nint m[2]; Q = P(1, m);\nsystem Q;")
    probe2 = b"int b[2] = {0, 0};\nprocess P(int &a[2]) { state s; init s; }\nQ = P(b);\nsystem Q;"
    earlier = [b"typedef int[0,3] id_t;\nint m[id_t][3]; int k[2][id_t]; /* note */ int w;",
               b"process Q() { state A, B, C; init A; trans A -> B { guard 1 > 0; }, -> C { assign w = 1; }, B -> C { }; } // end\nsystem Q;",
               b"int f(int a[2], int b) { int loc[3]; for (i : int[0,2]) { loc[i] = a[0] /* c */ + b; } return loc[0]; }",
               b"struct { int u[2]; int v; } s = { {1, 2}, 3 }; int x = (1 ? 2 : 3);"]
    for t in earlier:
        cuts = list(range(1, len(t) + 1))      # every cut: the interesting ones are few and specific (inside a dimension list, a chain ...)
        for c in cuts:
            # the earlier text ends there (end of input inside a production), or goes on after a stray `;` (error recovery abandons the production)
            for form, e in (("eof", t[:c]), ("recover", t[:c] + b";\nint zz9;\nprocess R9() { state s; init s; }\nsystem R9;")):
                for pi, pr in enumerate((probe, probe2)):
                    jobs.append(Job("after-abort", "xta", 1, "doc", "-", e, pr, tag="%s@%d/p%d" % (form, c, pi)))

    # ---- de-duplicate, drop `import` ----------------------------------------------------------------------
    out, seen = [], set()
    dropped = 0
    for j in jobs:
        if b"import" in j.input or b"import" in j.ctx:
            dropped += 1
            continue
        idt = j.ident()
        if idt in seen:
            continue
        seen.add(idt)
        out.append(j)
    return out, {"generated": len(jobs), "dropped_import": dropped, "seed_models": [m[0] for m in models], "snippets": len(snippets)}


# ------------------------------------------------------------------------------------------------
# shrinking (delta debugging on tokens / bytes)
# ------------------------------------------------------------------------------------------------

SHRINK_TOK = re.compile(rb"<[^<>]{0,200}>|[A-Za-z_][A-Za-z0-9_]*|\d+|\s+|.", re.S)


def shrink(runner, job, key, seconds=30.0, nproc=None):
    """smallest input (ddmin over tokens) that still produces the same key; bounded by `seconds`"""
    t_end = time.time() + seconds
    parts = SHRINK_TOK.findall(job.input)
    best = job

    def same(cands):
        js = [Job(job.family, job.entry, job.newxta, job.builder, job.part, job.ctx, b"".join(c)) for c in cands]
        js = [j for j in js if b"import" not in j.input]
        rs = runner.run(js, nproc=nproc)
        for j, r, c in zip(js, rs, cands):
            if r.failed and triage(runner, r, j).key == key:
                return j, c
        return None, None

    n = 2
    while len(parts) >= 2 and time.time() < t_end:
        chunk = -(-len(parts) // n)
        cands = [parts[:i] + parts[i + chunk:] for i in range(0, len(parts), chunk)]
        cands = [c for c in cands if len(c) < len(parts)]
        cands.sort(key=lambda c: sum(len(x) for x in c))
        j, c = same(cands[:64])
        if j is not None:
            parts, best = c, j
            n = max(n - 1, 2)
        else:
            if chunk == 1:
                break
            n = min(n * 2, len(parts))
    # drop the context too if it is not needed
    if best.ctx and time.time() < t_end:
        j2 = Job(best.family, best.entry, best.newxta, best.builder, best.part, b"", best.input)
        r = runner.run([j2], nproc=1)[0]
        if r.failed and triage(runner, r, j2).key == key:
            best = j2
    return best


# ------------------------------------------------------------------------------------------------
# the stream
# ------------------------------------------------------------------------------------------------

def _what(job, cr):
    shape = "%s input (%d bytes, family %s)" % (job.entry_name(), len(job.input), job.family)
    where = ""
    if cr.top and cr.top[1]:
        where = " at %s" % cr.top[1].replace(core.REPO + "/", "")
    cfg = "newxta=%s builder=%s" % (bool(job.newxta), job.builder)
    if cr.kind == "hang":
        return ("%s [%s] exceeded its CPU budget (%d ms + %d us/byte) and again with %dx the budget when run alone; loop in %s%s"
                % (shape, cfg, CPU_BASE_MS, CPU_US_PER_BYTE, RERUN_MULT, short_name(cr.top[0]) if cr.top else "?", where))
    if cr.kind == "nonstd-exception":
        return "%s [%s] threw an object not derived from std::exception" % (shape, cfg)
    if cr.kind == "memory":
        return "%s [%s] needs memory out of proportion to the input: %s, in %s%s" % (shape, cfg, cr.san, short_name(cr.top[0]) if cr.top else "?", where)
    fn = short_name(cr.top[0]) if cr.top else "?"
    return "%s [%s]: %s in %s%s" % (shape, cfg, cr.san, fn, where)


def _observed(res, cr):
    head = "%s wall=%dms cpu=%dms" % (res.outcome, res.wall, res.cpu)
    body = "\n".join(cr.report.split("\n")[:30]) if cr.report else ""
    return head + ("\n" + body if body else "")


def run_stream(ctx, b):
    t0 = time.time()
    log = ctx.log
    runner = Runner(b, log)
    cov = {}
    try:
        jobs, meta = build_stream(ctx, log)
        fam = {}
        for j in jobs:
            fam[j.family] = fam.get(j.family, 0) + 1
        log("c01 stream: %d inputs %r (generation %.1fs)" % (len(jobs), fam, time.time() - t0))
        t1 = time.time()
        # the deep family is what the growth measurement is about: it runs once, with the 5x budget right away
        results = runner.run(jobs, mult=[RERUN_MULT if j.family == "deep" else 1 for j in jobs])
        t_run = time.time() - t1
        log("c01 stream: executed in %.1fs" % t_run)

        # -- timeouts: re-run alone with 5x the budget (the two smallest inputs per hang site) ----------------
        tmo = [i for i, r in enumerate(results) if r.outcome.startswith("timeout") and jobs[i].family != "deep"]
        first_timeouts = len(tmo)
        slow_ok = 0
        if tmo:
            groups = {}
            for i in tmo:
                groups.setdefault(triage_hang(runner, results[i], jobs[i]).key, []).append(i)
            rerun, later = [], {}
            for k in sorted(groups):
                g = sorted(groups[k], key=lambda i: (len(jobs[i].input), i))
                rerun += g[:2]
                later[k] = g
            rr = runner.run([jobs[i] for i in rerun], mult=RERUN_MULT, nproc=max(2, core.NCPU // 2), batch=1)
            for i, r in zip(rerun, rr):
                results[i] = r
            # a site whose representatives did not hang again: its other inputs are re-run as well (they are merely slow);
            # a site that is confirmed is reported once, its other inputs stay counted as time outs of that site
            more = []
            for k, g in later.items():
                if not any(results[i].outcome.startswith("timeout") for i in g[:2]):
                    more += g[2:]
            if more:
                rr = runner.run([jobs[i] for i in more], mult=RERUN_MULT, nproc=max(2, core.NCPU // 2), batch=1)
                for i, r in zip(more, rr):
                    results[i] = r
            slow_ok = sum(1 for i in tmo if not results[i].failed)
        # -- triage ----------------------------------------------------------------------------------------
        by_key = {}
        oom = 0
        outcomes, exc = {}, {}
        for i, (j, r) in enumerate(zip(jobs, results)):
            if r.outcome == "ok":
                outcomes["ok"] = outcomes.get("ok", 0) + 1
            elif r.outcome.startswith("exception:"):
                outcomes["exception"] = outcomes.get("exception", 0) + 1
                c = r.outcome[10:]
                exc[c] = exc.get(c, 0) + 1
            else:
                cr = triage(runner, r, j)
                if cr.kind == "oom":
                    oom += 1
                    outcomes["oom(ignored)"] = outcomes.get("oom(ignored)", 0) + 1
                    continue
                outcomes[cr.kind] = outcomes.get(cr.kind, 0) + 1
                if j.family == "after-abort":
                    # the input itself is a fixed accepted model: the failure needs the EARLIER call of the same process, which makes it a
                    # different defect from one with the same crash site that a single input triggers
                    cr.prefix = "after-earlier-call:"
                by_key.setdefault(cr.key, []).append((len(j.input) + len(j.ctx), i, cr))
        # -- super-linear growth (n, 2n, 4n) ----------------------------------------------------------------
        tag_idx = {j.tag: i for i, j in enumerate(jobs) if j.family == "deep" and j.newxta == 1}
        growth = {}
        superlin = []
        for name in sorted(DEEP):
            for base in deep_triple(name, ctx.thorough):
                idx = [tag_idx.get("%s:%d" % (name, base * m)) for m in (1, 2, 4)]
                if None in idx or any(results[i].failed for i in idx):
                    continue
                c1, c2, c4 = [max(results[i].cpu, 1) for i in idx]
                growth["%s@%d" % (name, base)] = [c1, c2, c4]
                if c4 > 2000 and c4 / c1 > 40:
                    superlin.append((name, base, idx))
        for name, base, idx in superlin:
            rr = runner.run([jobs[i] for i in idx], mult=RERUN_MULT, nproc=1, batch=1)  # measure again, alone
            if any(r.failed for r in rr):
                continue
            c1, c4 = max(rr[0].cpu, 1), rr[2].cpu
            if c4 > 2000 and c4 / c1 > 40:
                j = jobs[idx[2]]
                ro = j.replay_obj("cpu ms at n,2n,4n (n=%d): %r" % (base, [r.cpu for r in rr]))
                ro["kind"] = "superlinear"
                ro["deep_family"] = name
                ro["n"] = base
                ctx.finding("superlinear:" + name, "family %s: CPU time grows from %d ms at n=%d to %d ms at 4n (factor %.0f > 40)"
                            % (name, c1, base, c4, c4 / c1), ro)
        # -- report each distinct key once (smallest witness, shrunk unless the key is already listed) -------
        known = {k["key"] for k in ctx.known_db if k.get("status") == "known"}
        findings = {}
        shrink_deadline = time.time() + 150.0   # all unknown keys together
        for key in sorted(by_key):
            lst = sorted(by_key[key], key=lambda t: (t[0], t[1]))
            ln, i, cr = lst[0]
            j, r = jobs[i], results[i]
            if key not in known and cr.kind in ("crash", "stack-overflow") and len(j.input) > 8 and time.time() < shrink_deadline:
                try:
                    j2 = shrink(runner, j, key, min(30.0, shrink_deadline - time.time()))
                    if j2 is not j:
                        r2 = runner.run([j2], nproc=1)[0]
                        cr2 = triage(runner, r2, j2)
                        if r2.failed and cr2.key == key:
                            j, r, cr = j2, r2, cr2
                except Exception as ex:  # noqa -- shrinking is best effort
                    log("shrink failed for %s: %r" % (key, ex))
            findings[key] = {"count": len(lst), "witness_len": len(j.input), "families": sorted({jobs[x[1]].family for x in lst}),
                             "san": cr.san}
            ctx.finding(key, _what(j, cr), j.replay_obj(_observed(r, cr)))
        # -- coverage ---------------------------------------------------------------------------------------
        def count(fn):
            d = {}
            for j in jobs:
                k = fn(j)
                d[k] = d.get(k, 0) + 1
            return dict(sorted(d.items()))
        cpus = sorted(r.cpu for r in results)
        cov = {
            "inputs": len(jobs), "distinct_input_texts": len({hashlib.sha1(j.input).digest() for j in jobs}),
            "generated_before_dedup": meta["generated"], "dropped_containing_import": meta["dropped_import"],
            "per_family": count(lambda j: j.family), "per_entry": count(lambda j: j.entry_name()),
            "per_builder": count(lambda j: j.builder), "per_newxta": count(lambda j: "newxta=%d" % j.newxta),
            "per_entry_builder": count(lambda j: "%s/%s" % (j.entry, j.builder)),
            "outcomes": dict(sorted(outcomes.items())), "exceptions_by_class": dict(sorted(exc.items())),
            "timeouts_first_pass": first_timeouts, "timeouts_within_5x_budget": slow_ok,
            "hang_keys": sum(1 for k in by_key if k.startswith("hang:")),
            "oom_ignored": oom, "failure_keys": findings,
            "growth_cpu_ms_n_2n_4n": growth,
            "seed_models": meta["seed_models"], "snippets": meta["snippets"], "deep_families": len(DEEP),
            "stack_limit_bytes": runner.stack_limit,
            "time": {"generate_s": round(t1 - t0, 1), "execute_s": round(t_run, 1), "total_s": round(time.time() - t0, 1),
                     "cpu_ms_sum": sum(cpus), "cpu_ms_median": cpus[len(cpus) // 2] if cpus else 0,
                     "cpu_ms_p99": cpus[int(len(cpus) * 0.99)] if cpus else 0, "cpu_ms_max": cpus[-1] if cpus else 0},
            "budget": "cpu %d ms + %d us/byte per call, x%d when re-run alone; stack 8 MB" % (CPU_BASE_MS, CPU_US_PER_BYTE, RERUN_MULT),
            "samples": [{"family": jobs[i].family, "entry": jobs[i].entry_name(), "builder": jobs[i].builder, "newxta": jobs[i].newxta,
                         "input": jobs[i].input[:120].decode("utf-8", "replace"), "outcome": results[i].outcome, "cpu_ms": results[i].cpu}
                        for i in sorted({0, len(jobs) // 5, 2 * len(jobs) // 5, 3 * len(jobs) // 5, 4 * len(jobs) // 5, len(jobs) - 1})
                        if 0 <= i < len(jobs)],
        }
        log("c01 stream: outcomes %r, %d failure keys, total %.1fs" % (cov["outcomes"], len(findings), time.time() - t0))
        return cov
    finally:
        runner.close()


def triage_inputs(ctx, b, items):
    """Run inputs found elsewhere (e.g. by the stack-discipline tracing of part A) through this harness and report every
    failing one through ctx.finding with the keying of this module.  items: [{"entry": "parse_XTA" | "parse_XTA_part"
    (fresh builder, exactly parse_XTA(str, builder, newxta, part, xpath)) | "parse_XTA_part_in_context" | "parseProperty" |
    "parse_XML_buffer" | "parse_XML_file" (or the short names of this module), "newxta": bool, "builder": "doc"|"tiga"|"pretty",
    "part": name or None, "input_text": str (or "input_b64"), "family": str, optional "ctx_text"}].
    Returns [(key or None, outcome)] aligned with items."""
    runner = Runner(b, ctx.log)
    try:
        jobs = [job_from_replay(it) for it in items]
        idx = [i for i, j in enumerate(jobs) if b"import" not in j.input and b"import" not in j.ctx]
        rs = runner.run([jobs[i] for i in idx])
        out = [(None, "skipped:import")] * len(jobs)
        for i, r in zip(idx, rs):
            j = jobs[i]
            if r.outcome.startswith("timeout"):
                r = runner.run([j], mult=RERUN_MULT, nproc=1)[0]
            if not r.failed:
                out[i] = (None, r.outcome)
                continue
            cr = triage(runner, r, j)
            if cr.kind == "oom":
                out[i] = (None, "oom(ignored)")
                continue
            ctx.finding(cr.key, _what(j, cr), j.replay_obj(_observed(r, cr)))
            out[i] = (cr.key, r.outcome.split(" ")[0])
        return out
    finally:
        runner.close()


def replay_one(ctx, b, replay_obj):
    """Re-run one replay object of run_stream.  Returns 1 if it still fails, else 0."""
    o = replay_obj.get("replay", replay_obj)
    runner = Runner(b)
    try:
        if o.get("kind") == "superlinear":
            name, n = o["deep_family"], int(o["n"])
            js = [deep_job(name, n * m, base64.b64decode(o.get("ctx_b64", "")), 1) for m in (1, 2, 4)]
            rr = runner.run(js, mult=RERUN_MULT, nproc=1, batch=1)
            print("superlinear replay %s n=%d: %r" % (name, n, [(r.outcome, r.cpu) for r in rr]))
            if any(r.failed for r in rr):
                return 1
            c1, c4 = max(rr[0].cpu, 1), rr[2].cpu
            return 1 if (c4 > 2000 and c4 / c1 > 40) else 0
        j = job_from_replay(o)
        if b"import" in j.input:
            print("replay refused: input contains `import`")
            return 0
        r = runner.run([j], nproc=1)[0]
        if r.outcome.startswith("timeout"):
            print("first run: %s; re-running alone with %dx the budget" % (r.outcome, RERUN_MULT))
            r = runner.run([j], mult=RERUN_MULT, nproc=1)[0]
        if not r.failed:
            print("replay: %s %s newxta=%d builder=%s -> %s (cpu %d ms): PASS" % (j.entry_name(), j.family, j.newxta, j.builder, r.outcome, r.cpu))
            return 0
        cr = triage(runner, r, j)
        if cr.kind == "oom":
            print("replay: out of memory (not part of the property): ignored")
            return 0
        print("replay: %s newxta=%d builder=%s -> FAIL key=%s" % (j.entry_name(), j.newxta, j.builder, cr.key))
        print(_what(j, cr))
        print(_observed(r, cr))
        return 1
    finally:
        runner.close()
