/-
C19 — expression cloning, substitution and equality obey their algebraic laws.

Objects (Model/Heap.lean): trees with node identities (`node id attr children`; `id` = identity of the C++ node object),
`equal`, `clone`, `cloneDeeper`/`cloneDeeperWith` (the three overloads), `subst`, `getSize`/`sizeOfAttr` mirrored from
src/expression.cpp; `arityOf` is regenerated from the `switch` of `expression_t::get_size` on every run
(translate/arity.py → Gen/Arity.lean).  All theorems are for trees of any size and shape (induction, no bounds).

Hypotheses that appear below:
* `parseBuilt e`   every node has the number of children its kind is built with (Model/Heap.lean `builtArity`, read off
                   the builders; checked against every parsed node by the correspondence run);
* `noNaN e`        no floating-point constant is a NaN (`equal` uses IEEE `==`; the parser cannot produce one);
* `Coherent U`     one identity = one node object among the trees considered (what a heap is);
* fresh supply     identities `≥ n` are unused (`∀ i ∈ ids e, i < n`).

Full strength: reflexive / symmetric / transitive, deep clone, independence, subst exact / frame / self, distinguishes,
get_size.  NOT provable at full strength — and false of the library:
    theorem equal_implies_same_text (a b) : equal a b = true → text a = text b
because `equal` compares the value variant but not the constant's type, while `print` chooses `true/false` vs `1/0` by the
type.  Proved instead: `equal_implies_same_text_partial` (outside the exception shape "corresponding constants of different
type class") and the negation on the witness `b == true` / `b == 1` (`equal_text_witness`).
-/
import UtapModel.Lemmas.HeapOps

namespace UtapModel.C19
open UtapModel UtapModel.Heap

/-! ### sample trees for the `example`s -/
def cst (id : Nat) (v : Int) (ty : Ty) : HExpr := .node id { kind := .kCONSTANT, val := .int v, sym := none, ty := ty } []
def idt (id sym : Nat) : HExpr := .node id { kind := .kIDENTIFIER, val := .int 0, sym := some sym, ty := .bool } []
def bin (id : Nat) (k : Kind) (a b : HExpr) : HExpr := .node id { kind := k, val := .int 0, sym := none, ty := .other } [a, b]
/-- `b + (b + 7)` with node identities 0..4 -/
def sample : HExpr := bin 0 .kPLUS (idt 1 5) (bin 2 .kPLUS (idt 3 5) (cst 4 7 .int))

/-! ### structural equality is an equivalence -/

theorem equal_refl (e : HExpr) : equal e e = true := Heap.equal_refl e

theorem equal_symm (a b : HExpr) : equal a b = equal b a := Heap.equal_symm a b

/-- transitive on any heap (a set of trees in which one identity denotes one node) -/
theorem equal_trans (a b c : HExpr) (hco : Coherent (subtreesL [a, b, c]))
    (h1 : equal a b = true) (h2 : equal b c = true) : equal a c = true := by
  have ma : a ∈ subtreesL [a, b, c] := by
    simp only [subtreesL, List.mem_append]; exact Or.inl (subtrees_self a)
  have mb : b ∈ subtreesL [a, b, c] := by
    simp only [subtreesL, List.mem_append]; exact Or.inr (Or.inl (subtrees_self b))
  have mc : c ∈ subtreesL [a, b, c] := by
    simp only [subtreesL, List.mem_append]; exact Or.inr (Or.inr (Or.inl (subtrees_self c)))
  exact equal_trans_in _ (closed_subtreesL _) hco a b c ma mb mc h1 h2

example : ∃ a b c : HExpr, equal a b = true ∧ equal b c = true ∧ a.id? ≠ c.id? :=
  ⟨sample, (cloneDeeper 10 sample).1, (cloneDeeper 20 sample).1, by decide⟩

/-! ### deep clone: equal, shares no node, independent under later changes -/

theorem clone_deeper_equal (n : Nat) (e : HExpr) (hn : noNaN e = true) (hb : parseBuilt e = true) :
    equal (cloneDeeper n e).1 e = true ∧ equal e (cloneDeeper n e).1 = true := by
  have h := equal_cloneDeeper n e hn (wellBuilt_of_parseBuilt e hb)
  exact ⟨h, by rw [Heap.equal_symm]; exact h⟩

example : noNaN sample = true ∧ parseBuilt sample = true := by decide

/-- the deep clone is the same tree up to node identities — also through the other two overloads, with the symbols mapped -/
theorem clone_deeper_same (n : Nat) (e : HExpr) : same (cloneDeeper n e).1 e = true := same_cloneDeeper n e

/-- … and shares no node with the original: every identity in it is fresh -/
theorem clone_deeper_shares_no_node (g : Option Nat → Option Nat) (n : Nat) (e : HExpr) (hf : ∀ i ∈ ids e, i < n) :
    ∀ i ∈ ids (cloneDeeperWith g n e).1, i ∉ ids e := by
  intro i hi hmem
  have := (cloneDeeperWith_ids g n e).2 i hi
  have := hf i hmem
  omega

example : ∀ i ∈ ids sample, i < 10 := by decide

/-- a later in-place change of any node of the original is not seen through the clone, and vice versa -/
theorem mutate_independent (g : Option Nat → Option Nat) (n : Nat) (e : HExpr) (hf : ∀ i ∈ ids e, i < n)
    (k : Nat) (f : Attr → List HExpr → Attr × List HExpr) :
    (k ∈ ids e → mutate k f (cloneDeeperWith g n e).1 = (cloneDeeperWith g n e).1) ∧
    (k ∈ ids (cloneDeeperWith g n e).1 → mutate k f e = e) := by
  refine ⟨fun hk => mutate_of_not_mem k f _ (fun hc => ?_), fun hk => mutate_of_not_mem k f _ (fun hc => ?_)⟩
  · exact clone_deeper_shares_no_node g n e hf k hc hk
  · exact clone_deeper_shares_no_node g n e hf k hk hc

/-- the shallow `clone()` by contrast shares its children: a change below the root IS seen (documented behaviour) -/
example : same (mutate 2 (fun a _ => (a, [])) (clone 10 sample).1) (clone 10 sample).1 = false := by decide

/-! ### subst -/

/-- replaces exactly the identifier occurrences of the symbol (`substSpec` is the declarative substitution) -/
theorem subst_exact (s : Nat) (r : HExpr) (n : Nat) (e : HExpr) (hb : parseBuilt e = true) :
    same (subst s r n e).1 (substSpec s r e) = true :=
  subst_same_spec s r n e (wellBuilt_of_parseBuilt e hb)

/-- leaves the source unchanged: identities are allocated from `n` upwards, and every node of the result that carries an
    older identity is a node of `e` or of `r`, exactly as it was -/
theorem subst_preserves_source (s : Nat) (r : HExpr) (n : Nat) (e : HExpr) :
    ∀ i a sub, HExpr.node i a sub ∈ subtrees (subst s r n e).1 → i < n →
      (HExpr.node i a sub ∈ subtrees e ∨ HExpr.node i a sub ∈ subtrees r) :=
  (subst_frame s r n e).2

/-- substituting a symbol by itself is the identity (`r` = any expression `equal` to the occurrences, e.g.
    `create_identifier(s)`) -/
theorem subst_self (s : Nat) (r : HExpr) (n : Nat) (e : HExpr) (hn : noNaN e = true) (hb : parseBuilt e = true)
    (hr : ∀ i a sub, HExpr.node i a sub ∈ subtrees e → isIdentOf s a = true → equal r (HExpr.node i a sub) = true) :
    equal (subst s r n e).1 e = true :=
  subst_self_equal s r n e hn (wellBuilt_of_parseBuilt e hb) hr

example : (subtrees sample).all (fun x => match x with
    | .node _ a _ => !isIdentOf 5 a || equal (idt 99 5) x
    | .null => true) = true := by decide

/-! ### equal distinguishes single-node perturbations -/

theorem equal_kind_differs (i j : Nat) (a b : Attr) (s t : List HExpr) (hij : i ≠ j) (h : a.kind ≠ b.kind) :
    equal (.node i a s) (.node j b t) = false := by
  have e1 : (i == j) = false := by simpa using hij
  have : attrDiff a b = true := by simp [attrDiff, h]
  simp [equal, e1, this]

theorem equal_symbol_differs (i j : Nat) (a b : Attr) (s t : List HExpr) (hij : i ≠ j) (h : a.sym ≠ b.sym) :
    equal (.node i a s) (.node j b t) = false := by
  have e1 : (i == j) = false := by simpa using hij
  have : attrDiff a b = true := by simp [attrDiff, h]
  simp [equal, e1, this]

theorem equal_constant_differs (i j : Nat) (a b : Attr) (s t : List HExpr) (hij : i ≠ j) (h : valEq a.val b.val = false) :
    equal (.node i a s) (.node j b t) = false := by
  have e1 : (i == j) = false := by simpa using hij
  have : attrDiff a b = true := by simp [attrDiff, h]
  simp [equal, e1, this]

/-- operand order: exchanging two children that are not `equal` -/
theorem equal_order_differs (i j : Nat) (a : Attr) (x y : HExpr) (pre mid post : List HExpr) (hij : i ≠ j)
    (hsz : sizeOfAttr a = (pre ++ x :: mid ++ y :: post).length) (h : equal x y = false) :
    equal (.node i a (pre ++ x :: mid ++ y :: post)) (.node j a (pre ++ y :: mid ++ x :: post)) = false := by
  have e1 : (i == j) = false := by simpa using hij
  unfold equal
  simp only [e1, Bool.false_eq_true, if_false]
  cases hd : attrDiff a a with
  | true => simp
  | false =>
    simp only [Bool.false_eq_true, if_false]
    refine equalL_false_at _ pre.length _ _ ?_ ?_ ?_ ?_
    · rw [hsz]; simp
    · simpa [List.getD_eq_getElem?_getD, List.getElem?_append_right] using h
    · simp
    · simp

/-- **any** single-node perturbation: rebuild the path to the node (fresh ancestors, as `clone()` + assignment does) and put a
    tree that is not `equal` to the old sub-tree in its place — the whole trees are not `equal` -/
theorem equal_distinguishes (new : HExpr) (path : List Nat) (n : Nat) (e : HExpr) (hb : parseBuilt e = true)
    (hf : ∀ i ∈ ids e, i < n) (hv : validPath path e = true) (h : equal (subAt path e) new = false) :
    equal e (replaceAt new path n e).1 = false ∧ equal (replaceAt new path n e).1 e = false := by
  have := equal_replaceAt new path n e (wellBuilt_of_parseBuilt e hb) hf hv h
  exact ⟨this, by rw [Heap.equal_symm]; exact this⟩

example : validPath [1, 1] sample = true ∧ equal (subAt [1, 1] sample) (cst 50 8 .int) = false := by decide

/-! ### the number of children reported equals the number accessible -/

/-- `get_size` (generated table) against the arity every kind is built with: one closed evaluation per kind -/
theorem arity_table (k : Kind) : builtArity k = none ∨ builtArity k = some (arityOf k) := builtArity_table k

/-- at every node of a tree the builders made, `get_size()` is the number of children -/
theorem arity_accessible (e : HExpr) (hb : parseBuilt e = true) : wellBuilt e = true := wellBuilt_of_parseBuilt e hb

/-! ### equal implies equal text — outside the exception shape -/

/-- for every printer that lays a node out from its kind, its payload and its children's texts: two `equal` trees whose
    corresponding constants have the same type class and value print the same -/
theorem equal_implies_same_text_partial (symName : Nat → String) (fmtDouble : Nat → String)
    (lay : Kind → String → List String → String) (a b : HExpr) (hco : Coherent (subtreesL [a, b]))
    (ha : parseBuilt a = true) (hb : parseBuilt b = true) (h : equal a b = true) (hc : constCompat a b = true) :
    text symName fmtDouble lay a = text symName fmtDouble lay b := by
  have ma : a ∈ subtreesL [a, b] := by
    simp only [subtreesL, List.mem_append]; exact Or.inl (subtrees_self a)
  have mb : b ∈ subtreesL [a, b] := by
    simp only [subtreesL, List.mem_append]; exact Or.inr (Or.inl (subtrees_self b))
  exact text_eq_of_equal _ (closed_subtreesL _) hco symName fmtDouble lay a b ma mb
    (wellBuilt_of_parseBuilt a ha) (wellBuilt_of_parseBuilt b hb) h hc

/-- the exception shape is real: `b == true` and `b == 1` are `equal` and print differently -/
def witT : HExpr := bin 10 .kEQ (idt 11 5) (cst 12 1 .bool)
def wit1 : HExpr := bin 20 .kEQ (idt 21 5) (cst 22 1 .int)
def layout (k : Kind) (p : String) (cs : List String) : String := k.name ++ "[" ++ p ++ "](" ++ " ".intercalate cs ++ ")"

theorem equal_text_witness :
    equal witT wit1 = true ∧ parseBuilt witT = true ∧ parseBuilt wit1 = true ∧ constCompat witT wit1 = false ∧
    text (fun _ => "b") (fun _ => "") layout witT ≠ text (fun _ => "b") (fun _ => "") layout wit1 := by decide

/-- the computed exception set: pairs of type classes whose same-valued constants (`valEq`) print differently -/
def textExceptions : List (Ty × Ty) :=
  ([Ty.bool, Ty.int, Ty.other].flatMap fun t1 => [Ty.bool, Ty.int, Ty.other].map fun t2 => (t1, t2)).filter fun p =>
    [0, 1].any fun v =>
      payload (fun _ => "") (fun _ => "") { kind := .kCONSTANT, val := .int v, sym := none, ty := p.1 }
        != payload (fun _ => "") (fun _ => "") { kind := .kCONSTANT, val := .int v, sym := none, ty := p.2 }

theorem textExceptions_eq : textExceptions = [(.bool, .int), (.int, .bool), (.int, .other), (.other, .int)] := by decide

end UtapModel.C19
