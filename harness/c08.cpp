// C08 harness: parse inputs with the real library, run the Document invariant walker (oracle on the implementation),
// and (optionally) log the ParserBuilder callback trace plus a structural dump for the replay through the Lean model.
//
//   c08 batch      stdin: one case per line  "<id> <xml|xta> <newxta 0|1> <flags> <base64 input>"
//                  flags: w = walker on the public entry point, t = traced parse (trace + struct dump + walker)
//   stdout per case:
//     BEGIN <id>
//     PUB rc=<n|EXC:class> errors=<n> warnings=<n> clean=<0|1> objs=<counts>
//     WALK <clause> <where>            (one per violated invariant, public entry point)
//     TR rc=<...> errors=<n> clean=<0|1>
//     TWALK <clause> <where>           (violations seen on the traced parse)
//     C <depth> <callback> <args> | t=<thrown> F=<fragments> R=<frames> E=<errors> W=<warnings>
//     D <struct dump line>
//     END <id>
#include "c08_trace.hpp"
#include "c08_walker.hpp"

#include <typeinfo>

using namespace UTAP;

namespace c08 {
inline std::string structDump(Document& doc)
{
    std::ostringstream os;
    os << "globals";
    structDecls(os, doc.get_globals());
    os << "\n";
    for (auto& t : doc.get_templates()) structTemplate(os, t);
    for (auto& t : DocPeek::dynTempls(doc)) structTemplate(os, t);
    for (auto& i : DocPeek::insts(doc)) structInstance(os, "instance", i);
    for (auto& i : DocPeek::lscInsts(doc)) structInstance(os, "lscinstance", i);
    for (auto& p : doc.get_processes()) structInstance(os, "process", p);
    return os.str();
}
}  // namespace c08

static std::string b64dec(const std::string& s)
{
    static int T[256];
    static bool init = false;
    if (!init) {
        for (int& x : T) x = -1;
        const char* a = "ABCDEFGHIJKLMNOPQRSTUVWXYZabcdefghijklmnopqrstuvwxyz0123456789+/";
        for (int i = 0; i < 64; ++i) T[(unsigned char)a[i]] = i;
        init = true;
    }
    std::string o;
    unsigned val = 0;
    int bits = -8;
    for (unsigned char c : s) {
        if (T[c] < 0) continue;
        val = ((val << 6) | (unsigned)T[c]) & 0xFFFFFFu;
        bits += 6;
        if (bits >= 0) { o += char((val >> bits) & 0xFF); bits -= 8; }
    }
    return o;
}

static std::string excName(const std::exception& e)
{
    std::string n = typeid(e).name();
    // strip the mangling to a readable class name (digits + name components)
    std::string o;
    for (char c : n) if (!(c >= '0' && c <= '9')) o += c;
    return o;
}

static void staticAnalysis(Document& doc)
{
    if (!doc.has_errors()) {
        auto checker = TypeChecker{doc};
        doc.accept(checker);
        auto fchecker = FeatureChecker{doc};
        doc.set_supported_methods(fchecker.get_supported_methods());
    }
}

static std::string counts(const c08::Walk& w)
{
    std::ostringstream os;
    os << "v" << w.variables << ",f" << w.functions << ",l" << w.locations << ",b" << w.branchpoints << ",e" << w.edges << ",t" << w.templates
       << ",i" << w.instances << ",p" << w.processes << ",u" << w.partial << ",d" << w.dupnames;
    return os.str();
}

int main(int argc, char** argv)
{
    std::ios::sync_with_stdio(false);
    std::string line;
    while (std::getline(std::cin, line)) {
        std::istringstream is(line);
        std::string id, fmt, flags, b64;
        int newxta = 1;
        if (!(is >> id >> fmt >> newxta >> flags >> b64)) continue;
        std::string input = b64dec(b64);
        std::string queries;
        if (auto mk = input.find("\n%%QUERIES%%\n"); mk != std::string::npos) {
            queries = input.substr(mk + 13);
            input = input.substr(0, mk);
        }
        std::cout << "BEGIN " << id << "\n";
        if (flags.find('w') != std::string::npos) {
            auto doc = std::make_unique<Document>();
            std::string rc;
            bool normal = false;
            try {
                if (fmt == "xml") rc = std::to_string(parse_XML_buffer(input.c_str(), doc.get(), newxta != 0));
                else rc = std::to_string((int)parse_XTA(input.c_str(), doc.get(), newxta != 0));
                normal = true;
            } catch (const std::exception& e) {
                rc = "EXC:" + excName(e);
            }
            bool clean = normal && !doc->has_errors() && (fmt != "xml" || rc == "0");
            auto w = c08::walk(*doc, clean);
            std::cout << "PUB rc=" << rc << " errors=" << doc->get_errors().size() << " warnings=" << doc->get_warnings().size() << " clean=" << clean
                      << " objs=" << counts(w) << "\n";
            for (auto& v : w.viol) std::cout << "WALK " << v << "\n";
            if (flags.find('q') != std::string::npos) {
                // queries against the document just built ("after any parse": a query parse reads the document, it must leave it intact)
                std::istringstream qs(queries);
                std::string q;
                int nq = 0, nexc = 0;
                while (std::getline(qs, q)) {
                    if (q.empty()) continue;
                    ++nq;
                    try {
                        TigaPropertyBuilder pb(*doc);
                        parseProperty(q.c_str(), &pb);
                    } catch (const std::exception&) {
                        ++nexc;
                    }
                }
                auto w2 = c08::walk(*doc, false);
                std::cout << "QRY n=" << nq << " exceptions=" << nexc << " errors=" << doc->get_errors().size() << "\n";
                for (auto& v : w2.viol) std::cout << "QWALK " << v << "\n";
            }
            if (flags.find('e') != std::string::npos)
                for (auto& e : doc->get_errors()) std::cout << "ERR " << vh::quote(e.msg) << "\n";
        }
        if (flags.find('t') != std::string::npos) {
            auto doc = std::make_unique<Document>();
            c08::TraceBuilder tb(*doc);
            std::string rc, dump;
            bool normal = false;
            try {
                int err = 0;
                try {
                    if (fmt == "xml") err = parse_XML_buffer(input.c_str(), &tb, newxta != 0);
                    else parse_XTA(input.c_str(), &tb, newxta != 0);
                } catch (...) {
                    dump = c08::structDump(*doc);
                    throw;
                }
                rc = std::to_string(err);
                dump = c08::structDump(*doc);  // the document *as built* (before the type checker rewrites labels)
                if (!err) staticAnalysis(*doc);
                normal = true;
            } catch (const std::exception& e) {
                rc = "EXC:" + excName(e);
            }
            bool clean = normal && !doc->has_errors() && (fmt != "xml" || rc == "0");
            auto w = c08::walk(*doc, clean);
            std::cout << "TR rc=" << rc << " errors=" << doc->get_errors().size() << " clean=" << clean << " objs=" << counts(w) << "\n";
            for (auto& v : w.viol) std::cout << "TWALK " << v << "\n";
            for (auto& l : tb.log) std::cout << l << "\n";
            std::istringstream ds(dump);
            std::string dl;
            while (std::getline(ds, dl)) std::cout << "D " << dl << "\n";
        }
        std::cout << "END " << id << "\n";
        std::cout.flush();
    }
    return 0;
}
