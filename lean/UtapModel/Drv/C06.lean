/- stub: line-protocol driver for C06 (to be written) -/
def main : IO Unit := pure ()
