/-
C09 — helper lemmas of the scope and alias theorems (core Lean only).
-/
import UtapModel.Model.C09Scope
import UtapModel.Model.C09Ops
namespace UtapModel.C09

theorem find_go_ren (ρ : List Ch → List Ch) (hinj : ∀ a b, ρ a = ρ b → a = b) (x : List Ch) :
    ∀ (f : Frame) (i : Nat) (acc : Option (Nat × Bool)),
      Frame.find.go (ρ x) (renFrame ρ f) i acc = Frame.find.go x f i acc := by
  intro f
  induction f with
  | nil => intro i acc; rfl
  | cons a f ih =>
    intro i acc
    obtain ⟨n, t⟩ := a
    simp only [renFrame, List.map_cons, Frame.find.go]
    have : (ρ n == ρ x) = (n == x) := by
      by_cases e : n = x
      · simp [e]
      · have h2 : ρ n ≠ ρ x := fun h => e (hinj _ _ h)
        rw [beq_eq_false_iff_ne.mpr h2, beq_eq_false_iff_ne.mpr e]
    rw [this]
    exact ih (i + 1) _

theorem mapM_map_info (T : Tables) (f : Tok → Tok) (h : ∀ t, tokInfo T (f t) = tokInfo T t) (toks : List Tok) :
    (toks.map f).mapM (tokInfo T) = toks.mapM (tokInfo T) := by
  induction toks with
  | nil => rfl
  | cons a rest ih => simp only [List.map_cons, List.mapM_cons, h a, ih]

end UtapModel.C09
