#!/bin/bash
# Mutant test in an isolated slot (own worktree of /repo, own copy of /verif, own cache), so that several can run at once and
# /verif's Gen/*.lean files are never rewritten from a mutated tree.
#   tools/mt.sh <slot> <seed-dir with patch.diff [demo.cpp]> <PROP> [<PROP> ...]      (env: TIER=quick|thorough, SEED=n, NODEMO=1)
# Prints: tests pass? demo with / without the change? and for every property the VIOLATION lines of ./check.
set -u
SLOT=$1; D=$(readlink -f $2); shift 2
R=/var/tmp/mt/$SLOT; WT=$R/wt; B=$R/build; V=$R/verif
mkdir -p $R
if [ ! -d $WT ]; then git -C /repo worktree add --detach $WT HEAD >/dev/null 2>&1 || { echo "cannot create worktree"; exit 2; }; fi
cd $WT && git checkout -q --detach $(git -C /repo rev-parse HEAD) && git checkout -q -- . && git clean -qfd
git apply $D/patch.diff || { echo "PATCH DOES NOT APPLY"; exit 2; }
if [ -z "${NODEMO:-}" ]; then
  [ -d $B ] || cmake -S $WT -B $B -G Ninja -DCMAKE_BUILD_TYPE=RelWithDebInfo > $R/cmake.log 2>&1
  cmake --build $B 2>&1 | tail -1
  echo "unit tests WITH change: $(ctest --test-dir $B -j8 2>&1 | grep 'tests passed\|tests failed')"
  if [ -f $D/demo.cpp ]; then
    (cd $D && g++ -std=c++17 demo.cpp -I $WT/include -I $WT/src -I $B/src/include $B/src/libUTAP.a -lxml2 -ldl -o $R/demo 2>&1 | tail -3)
    (cd $D && timeout 120 $R/demo > $R/demo.out 2>&1; echo "demo rc WITH change = $?"; tail -2 $R/demo.out | cut -c1-200)
  fi
fi
rsync -a --delete --exclude .git --exclude replays --exclude seeded /verif/ $V/
cd $V
for P in "$@"; do
  VERIF_SEED=${SEED:-1} VERIF_REPO=$WT VERIF_CACHE=$R/cache timeout 3000 ./check $P --tier ${TIER:-quick} > $R/check-$P.log 2>&1
  echo "check $P rc=$? : $(grep -c '^VIOLATION' $R/check-$P.log) violation line(s)"
  grep -A2 '^VIOLATION' $R/check-$P.log | cut -c1-400 | head -12
done
if [ -z "${NODEMO:-}" ]; then
  cd $WT && git checkout -q -- . && cmake --build $B 2>&1 | tail -1
  if [ -f $D/demo.cpp ]; then
    (cd $D && g++ -std=c++17 demo.cpp -I $WT/include -I $WT/src -I $B/src/include $B/src/libUTAP.a -lxml2 -ldl -o $R/demo 2>&1 | tail -3; timeout 120 $R/demo > $R/demo.out 2>&1; echo "demo rc WITHOUT change = $?")
  fi
else
  cd $WT && git checkout -q -- .
fi
