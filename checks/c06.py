"""C06 -- every diagnostic points into the element, line and columns that caused it (DESIGN.md section 4, C06).

 1 translate   lexer.l / libparser.h / position.cpp / document.cpp / xmlreader.cpp -> Gen/{LexRules,PosGen,PathTable}.lean
 2 prove       UtapModel.Props.C06: line table = reference line/column for every text (outside newlines in string
               literals), binary search = last entry <= pos, XPath printer selects exactly the current node, ranges
 3 correspond  (a) lexer line accounting: model (drv_c06) vs Document::find_position on every offset of generated blocks
               (b) Path model vs the XPath strings of real diagnostics
 4 oracle      independent DOM of the same XML (libxml2 tree API): every reported XPath selects exactly one element,
               line / columns inside that element's text;  fault injection at every token position of every block of
               the seed models (seven fault kinds x layouts): >= 1 error inside the faulted block, all errors inside it
               for non-select labels, exact range for an undeclared identifier.  Layouts include banner / box comments (lines
               ending in `*`); one rendering of the XML layer puts elements unknown to the reader between indexed siblings.
               The queries of the <queries> element are
               blocks too: after the model is read every stored query goes through PropertyBuilder::parse(formula,
               location, options), the way a verifier runs them, and its diagnostics are judged like all others
"""
import json
import os
import re
import sys

from vlib import core

sys.path.insert(0, os.path.join(core.VERIF, "translate"))
import pos_tables  # noqa: E402

sys.path.insert(0, os.path.join(core.VERIF, "checks"))
import c06_models as M  # noqa: E402

MODULE = "UtapModel.Props.C06"
GEN_PARSE_GLOBALS = os.path.join(core.LEAN_DIR, "UtapModel", "Gen", "ParseGlobals.lean")


def hexs(b):
    if isinstance(b, str):
        b = b.encode("utf-8", "surrogateescape")
    return b.hex()


# ---------------------------------------------------------------------------------------------------------------------
# (a) lexer line accounting
# ---------------------------------------------------------------------------------------------------------------------

IDS = ["a", "b1", "x_y", "int", "bool", "clock", "const", "A", "E", "U", "location", "forall", "i", "chan", "return", "zz$", "q#"]
NUMS = ["0", "1", "42", "007", "2147483647", "2147483648", "99999999999", "1.5", "2e3", "1.e", "3.14e-2", "1e+", "12."]
OPS = [".", ",", ";", ":", "{", "}", "[", "]", "(", ")", "?", "'", "!", "\\", "->", "-u->", "=", ":=", "+=", "-=", "*=", "/=", "%=",
       "|=", "&=", "^=", "<<=", ">>=", "<?", ">?", "+", "-", "*", "/", "%", "**", "|", "&", "^", "<<", ">>", "||", "&&", "/\\", "\\/",
       "<=", ">=", "=<", "=>", "<", ">", "==", "!=", "++", "--", "A<>", "A[]", "E<>", "E[]", "-->", "A[]+", "E<>+", "A[]*", "E<>*",
       "[]", "<>", "#"]
STRAY = ["@", "$", "~", "`", "\r", "\x7f", "é", "€", "\x01"]
NEWLINES = ["\n", "\n\n", "\n\n\n", "\r\n", "\r\n\r\n", "\n\r\n", "\r\n\n", "\r\r\n", "\n\r"]
CONTIN = ["\\\n", "\\ \n", "\\\t \n", "\\\r\n", "\\ x", "\\\\\n"]
STRINGS = ['"abc"', '"a b"', '""', '"', '"a\nb"', '"x\n\ny"', '"//"', '"/*"', '"\r\n"', '"a\\"', '"\\\n"']
COMMENTS = ["/* c */", "/**/", "/* a\nb */", "/* a\r\nb\n\n*/", "/* * / ** /*/", "// c\n", "// c\\\n", "//\n", "// x\r\n", "/* EXPECT:foo */",
            "/* EXPECT:foo*/ still */", "/*/ x */", "/* \"q */", "//\"\n", "/* // */",
            # banner / box styles: a star (or a row of stars) directly in front of a line end inside the comment
            "/*******\n * box *\n *******/", "/* a *\n b */", "/**\n*/", "/* a **\r\n * b\n\n **/", "/* EXPECT:foo *\n*/", "/*\n*\n*/", "/* E*\n E */"]
DECLS = ["int a = 1;", "const int N = 3;", "bool b;", "int f(int x) { return x + 1; }", "typedef int[0,3] t_t;", "clock c;", "chan d;",
         "int arr[3] = {1,2,3};", "struct { int u; } s;"]
PARTS_FOR_LEX = [1, 1, 1, 1, 2, 3, 12, 13, 9, 11, 6, 5, 10]   # xta_part_t values; S_DECLARATION most often (S_SELECT outside an edge crashes: C01)


def gen_lex_text(r, big):
    n = r.randint(1, 40 if not big else 160)
    out = []
    for _ in range(n):
        k = r.random()
        if k < 0.16:
            out.append(r.choice(IDS))
        elif k < 0.24:
            out.append(r.choice(NUMS))
        elif k < 0.40:
            out.append(r.choice(OPS))
        elif k < 0.44:
            out.append(r.choice(STRAY))
        elif k < 0.60:
            out.append(r.choice(NEWLINES))
        elif k < 0.66:
            out.append(r.choice(CONTIN))
        elif k < 0.72:
            out.append(r.choice(STRINGS))
        elif k < 0.82:
            out.append(r.choice(COMMENTS))
        elif k < 0.92:
            out.append(r.choice(DECLS))
        else:
            out.append(r.choice([" ", "  ", "\t", " \t "]))
        if r.random() < 0.5:
            out.append(" ")
    if r.random() < 0.1:
        out.append(r.choice(["/* open", "/* open\n\n", "/*", "// end", "\"", "\\"]))
    return "".join(out)


def ref_line_col(tb, off):
    """reference: 1 + newlines before the offset, bytes after the last newline"""
    pre = tb[:off]
    return (pre.count(b"\n") + 1, len(pre) - (pre.rfind(b"\n") + 1))


def lex_cases(ctx):
    r = ctx.rng
    cases = []
    # fixed corner cases first
    fixed = ["", "\n", "\n\n\nint a;", "int a;\r\n\r\nint b;\r\n", "/* x\n y */ @ b\r\n\r\nc \\ \nd // e\n/* open", "int a; /* EXPECT:foo*/ int @;\n*/ @",
             "\\// not a comment\n@", "a\\/b // c\n@", "int a;\n\n\n@\n", "\r@", "/*\n\n*/@", "//\\\n@", "int a = 1 \\\n + 2;\n@",
             '"s\nt" @', 'int a; "q\n\n" @ \n@', "@\n@\r\n@\n\n@", "=<\n=>", "1.e5\n@", "A[]*//x\n@", "int x; /* a */ /* b\n */ int y;\n@",
             "/*****\n * a *\n *****/\nint a;\n@", "int a; /* b *\n * c **\n */ @\n@", "/**\r\n*\r\n*/ @"]
    for t in fixed:
        for nx in (1, 0):
            cases.append((nx, 1, t))
    n = 2500 if not ctx.thorough else 30000
    for i in range(n):
        cases.append((1 if r.random() < 0.8 else 0, r.choice(PARTS_FOR_LEX), gen_lex_text(r, ctx.thorough and i % 4 == 0)))
    return cases


def run_lex_correspondence(ctx, exe):
    cov = ctx.coverage
    cases = lex_cases(ctx)
    text = "".join("L %d %d %s\n" % (nx, part, hexs(t)) for nx, part, t in cases)
    rc, out, err, dt = core.run_exe(exe, [], stdin_text=text, timeout=900)
    lines = out.split("\n")
    if rc != 0 or len(lines) < len(cases):
        # a crash / sanitizer report of the real library: find the op
        k = max(0, len([l for l in lines if l.strip()]))
        nx, part, t = cases[min(k, len(cases) - 1)]
        ctx.finding("crash:lex", "harness died (rc=%s) on parse_XTA part=%d" % (rc, part),
                    {"op": "L", "newxta": nx, "part": part, "text_hex": hexs(t), "stderr": err[-3000:]})
        return
    impl = [json.loads(l) for l in lines[:len(cases)]]
    drv_in = "".join("L %d %d %s\n" % (cases[i][0], impl[i]["c"], hexs(cases[i][2])) for i in range(len(cases)))
    rc2, out2, err2, dt2 = core.run_exe(core.lean_exe("drv_c06"), [], stdin_text=drv_in, timeout=900)
    model = out2.split("\n")
    dis, nl_in_str, full, with_nl, multi, ndiag, nref = [], 0, 0, 0, 0, 0, 0
    strnl = []
    for i, (nx, part, t) in enumerate(cases):
        im = impl[i]
        got = "c=%d tab=%s errs=%s" % (im["c"], im["tab"], im["errs"])
        exp = model[i] if i < len(model) else "<missing>"
        tb = t.encode("utf-8", "surrogateescape")
        if im["c"] == len(tb):
            full += 1
        if im["tab"].count(",") >= 1:
            with_nl += 1
        if im["tab"].count(",") >= 3:
            multi += 1
        if got != exp:
            dis.append({"newxta": nx, "part": part, "text_hex": hexs(t), "impl": got, "model": exp})
        # every diagnostic of a non-empty block lies inside the block, start <= end (C06 (4), observed on the real library)
        for msg, ps, pe, sl, sc, el, ec, path in im["all"]:
            ndiag += 1
            if len(tb) > 0 and not (0 <= ps <= pe <= len(tb)):
                ctx.finding("diag-outside-block:" + msg_class(msg), "diagnostic %r of a block of %d bytes has the range [%d,%d) relative to the block"
                            % (msg, len(tb), ps, pe), {"op": "L", "newxta": nx, "part": part, "text_hex": hexs(t), "result": im})
            elif len(tb) > 0 and b'"' not in tb:
                # the reference of the theorem, applied to the real library: count the newlines before each end of the range
                # (texts with string literals are left to the string-newline witness)
                nref += 1
                want = ref_line_col(tb, ps) + ref_line_col(tb, pe)
                if want != (sl, sc, el, ec):
                    ctx.finding("linecol:" + msg_class(msg), "diagnostic %r over bytes [%d,%d) of a plain-text block is reported at %d:%d-%d:%d, "
                                "counting newlines gives %d:%d-%d:%d" % ((msg, ps, pe, sl, sc, el, ec) + want),
                                {"op": "L", "newxta": nx, "part": part, "text_hex": hexs(t), "result": im})
    cov["lex_cases"] = len(cases)
    cov["lex_disagreements"] = len(dis)
    cov["lex_fully_consumed"] = full
    cov["lex_with_newline_entries"] = with_nl
    cov["lex_with_3plus_entries"] = multi
    cov["lex_diagnostics_range_checked"] = ndiag
    cov["lex_diagnostics_checked_against_reference"] = nref
    cov["lex_samples"] = [{"text": cases[i][2][:80], "impl": "c=%d tab=%s errs=%s" % (impl[i]["c"], impl[i]["tab"], impl[i]["errs"]),
                           "model": model[i]} for i in (4, len(cases) // 2, len(cases) - 1)]
    if dis:
        ctx.proof_broken("correspondence:lexer-line-table",
                         "lexer line model and Document::find_position disagree on %d of %d blocks; first: %s" % (len(dis), len(cases), json.dumps(dis[0])),
                         "see first disagreement")
    return cases, impl



# ---------------------------------------------------------------------------------------------------------------------
# (4) fault injection with the DOM oracle, (b) Path model, lexer-level predictions
# ---------------------------------------------------------------------------------------------------------------------

def msg_class(msg):
    m = re.match(r"^\$?[A-Za-z_]+", msg)
    return m.group(0) if m else msg[:20]


def verdict_class(d):
    v = d["oracle"]
    if v.startswith("XPath selects"):
        if "/lscTemplate" in d["path"]:
            return "xpath-name:LSC"
        return "xpath-selects-" + v.split()[2]
    if "outside 1.." in v:
        return "line-outside-text"
    if "outside line" in v:
        return "column-outside-line"
    if v == "start after end":
        return "start-after-end"
    if v.startswith("start and end resolve"):
        return "range-spans-elements"
    if v.startswith("empty path"):
        return "empty-path"
    return "other"


def crash_site(err):
    """shape of a crash: the first frame inside the library of a sanitizer report, or the failed assertion"""
    m = re.search(r"Assertion '([^']*)' failed", err)
    if m:
        cont = re.search(r"\[with _Tp = ([\w:]+)", err)
        return "glibcxx-assert:%s:%s" % (m.group(1).replace(" ", ""), cont.group(1) if cont else "?")
    for m in re.finditer(r"#\d+ 0x[0-9a-f]+ in ([^\n]+?) (?:/|\()", err):
        fn = m.group(1)
        if "UTAP" in fn or "utap_" in fn:
            return re.sub(r"\(.*", "", fn)[:60]
    m = re.search(r"(SEGV|stack-overflow|heap-buffer-overflow|heap-use-after-free|runtime error: [^\n]{0,60})", err)
    return m.group(1).replace(" ", "_") if m else "unknown"


def opcode(d):
    return ("XFT" if d.get("entry") == "file" else "XT") + ("Q" if d.get("queries") else "")


ENTRY_Q = ("parse_XML_buffer(xml, Document*, newxta=true), then TigaPropertyBuilder::parse(q.formula, q.location, q.options) for every "
           "query of Document::get_queries()")


def run_batch(exe, ops):
    """One harness process for many ops; a crash (signal, sanitizer report, glibcxx assertion) is recorded for the op that
    caused it and the batch continues with the next op in a new process.  Returns (result lines, [(index, rc, stderr)])."""
    lines, start, crashes = [], 0, []
    while start < len(ops):
        stdin = "".join("%s 1 %s\n" % (opcode(d), hexs(x)) for d, x in ops[start:])
        rc, out, err, dt = core.run_exe(exe, [], stdin_text=stdin, timeout=1500, env={"VERIF_C06_DIR": core.CACHE})
        got = [l for l in out.split("\n") if l.strip()][:len(ops) - start]
        lines += got
        start += len(got)
        if start < len(ops):
            crashes.append((start, rc, err[-3000:]))
            lines.append(json.dumps({"rc": rc, "exc": "", "crashed": True, "diags": [], "has_errors": True}))
            start += 1
            if len(crashes) > 80:
                break
    return lines, crashes


def fault_ops(ctx):
    """(description, xml) for every (seed, block, token position, fault kind); layouts rotate in the quick tier."""
    ops = []
    seeds = M.seeds()
    for mi, m in enumerate(seeds):
        blocks = M.blocks_of(m)
        # the layouts alone must be neutral: no diagnostics at all
        for li, layout in enumerate(M.LAYOUTS):
            ov = {b.key: M.relayout(b.text, layout, li, b.kind) for b in blocks}
            ops.append(({"seed": mi, "what": "layout-only", "layout": layout, "queries": True}, M.render(m, ov)))
        # structural faults: diagnostics attached to elements; only the per-diagnostic oracle applies
        # each in every rendering of the XML layer, through the buffer and through the file entry point
        for desc, x, expect in M.structural_variants(m, M.render(m)):
            for layer in M.XML_LAYERS:
                for entry in ("buffer", "file"):
                    ops.append(({"seed": mi, "what": "structural", "kind": desc, "xml_layer": layer, "entry": entry, "expect": expect},
                                M.xml_layer(x, layer)))
        for layer in M.XML_LAYERS[1:]:
            for entry in ("buffer", "file"):
                ops.append(({"seed": mi, "what": "layout-only", "layout": "xml-" + layer, "entry": entry, "queries": True},
                            M.xml_layer(M.render(m), layer)))
        for bi, blk in enumerate(blocks):
            for li, layout in enumerate(M.LAYOUTS):
                text0 = M.relayout(blk.text, layout, bi, blk.kind)
                toks = M.tokenize(text0)
                for i in range(len(toks) + 1):
                    for ki, kind in enumerate(M.FAULT_KINDS):
                        if not ctx.thorough and (i + ki + bi + ctx.seed) % M.ROTATED != li % M.ROTATED:
                            continue
                        for t2, info in M.faults_at(blk, text0, toks, i, kind):
                            d = {"seed": mi, "what": "fault", "kind": kind, "layout": layout, "block": blk.key, "canon": blk.canon,
                                 "block_kind": blk.kind, "label_kind": blk.label_kind, "token": i, "text": t2}
                            d.update(info)
                            if blk.kind == "query":
                                d["queries"] = True      # the fault only shows when the stored queries are parsed
                            # every fifth faulted block is written as a CDATA section (the same characters reach the grammar)
                            # (not combined with the CRLF layout: inside a CDATA section libxml2's reader API keeps a raw CR that its tree API,
                            # which the oracle uses, drops -- the two views of "the element's text" differ there for reasons outside libutap)
                            as_cdata = (len(ops) % 5 == 4) and layout != "crlf" and "\r" not in t2
                            if as_cdata:
                                d["xml_text"] = "cdata"
                            x = M.render(m, {blk.key: t2}, cdata=(blk.key,) if as_cdata else ())
                            # every seventh faulted model carries elements unknown to the reader between its indexed siblings (labels of
                            # one edge, locations, transitions, templates, queries): the block and its diagnostics keep their element
                            if len(ops) % 7 == 3:
                                d["xml_layer"] = "foreign"
                                x = M.xml_layer(x, "foreign")
                            ops.append((d, x))
    return ops


STRING_NEWLINE_WITNESS = "const string zstr = \"a\nb\";\nint zq = zzq7;\n"


def run_faults(ctx, exe, exe_asan=None):
    cov = ctx.coverage
    ops = fault_ops(ctx)
    # witness of the exception shape string-newline (replayed on the real library every run)
    seeds = M.seeds()
    w = M.render(seeds[1], {("decl",): seeds[1]["decl"] + STRING_NEWLINE_WITNESS})
    wtext = seeds[1]["decl"] + STRING_NEWLINE_WITNESS
    ops.append(({"seed": 1, "what": "witness:string-newline", "canon": "/nta[1]/declaration[1]", "text": wtext, "ident": "zzq7",
                 "off": wtext.index("zzq7"), "block_kind": "declaration", "kind": "undeclared"}, w))
    # witness of xpath-name:LSC: the LSC test model of the repository with an undeclared identifier in a condition label
    lsc_path = os.path.join(core.REPO, "test", "models", "lsc_example.xml")
    if os.path.exists(lsc_path):
        lsc = open(lsc_path, encoding="utf-8").read()
        if "x &gt;= a</label>" in lsc:
            ops.append(({"what": "witness:lsc", "seed": "lsc_example.xml", "kind": "undeclared", "ident": "zzq9"},
                        lsc.replace("x &gt;= a</label>", "x &gt;= zzq9</label>", 1)))
    lines, crashes = run_batch(exe, ops)
    for k, rc, err in crashes:
        d = ops[k][0]
        # the site of the crash comes from the sanitizer build (the bulk run uses the plain build)
        if exe_asan and exe_asan != exe:
            rc_a, _, err_a, _ = core.run_exe(exe_asan, [], stdin_text="XT 1 %s\n" % hexs(ops[k][1]), timeout=120)
            if rc_a != 0:
                rc, err = rc_a, err_a[-3000:]
        ctx.finding("crash:" + crash_site(err),
                    "the library crashed (rc=%s) on a model with a single %s fault in %s" % (rc, d.get("kind", d["what"]), d.get("canon")),
                    {"op": d, "xml_hex": hexs(ops[k][1]), "stderr": err, "entry": "parse_XML_buffer(xml, Document*, newxta=true)"})
    if len(lines) < len(ops):
        ctx.proof_broken("fault-injection", "too many crashes (%d), run abandoned" % len(crashes), "fault injection")
        return
    # a seeded sample of the same ops under ASan+UBSan+_GLIBCXX_ASSERTIONS: memory errors are results too
    if exe_asan and exe_asan != exe:
        step = max(1, len(ops) // (150 if not ctx.thorough else 1500))
        sample = ops[ctx.seed % step::step]
        _, crashes_a = run_batch(exe_asan, sample)
        for k, rc, err in crashes_a:
            d = sample[k][0]
            ctx.finding("crash:" + crash_site(err),
                        "the library crashed under the sanitizers (rc=%s) on a model with a single %s fault in %s" % (rc, d.get("kind", d["what"]), d.get("canon")),
                        {"op": d, "xml_hex": hexs(sample[k][1]), "stderr": err, "entry": "parse_XML_buffer(xml, Document*, newxta=true)"})
        cov["asan_sample_ops"] = len(sample)
        cov["asan_sample_crashes"] = len(crashes_a)
    res = [json.loads(l) for l in lines[:len(ops)]]
    stats = {"ops": len(ops), "benign": 0, "faults_with_errors": 0, "diags": 0, "diags_oracle_ok": 0, "by_kind": {}, "by_layout": {},
             "by_block_kind": {}, "messages": {}, "typechecker_diags": 0, "exact_ranges_checked": 0, "query_parses": 0,
             "query_parse_exceptions": 0}
    path_cases = {}
    lexpred = []
    for (d, xml), r in zip(ops, res):
        what = d["what"]
        errs = [x for x in r["diags"] if x["k"] == "E"]
        if r.get("crashed"):
            continue
        stats["query_parses"] += r.get("nq", 0)
        if r.get("qexc"):
            stats["query_parse_exceptions"] += 1
        if r["exc"] and what == "structural":
            stats["structural_exceptions"] = stats.get("structural_exceptions", 0) + 1
        elif r["exc"]:
            ctx.finding("exception:" + r["exc"].split(":")[0] + ":" + str(d.get("kind", what)),
                        "parse_XML_buffer ended in %s for a single %s fault" % (r["exc"], d.get("kind", what)),
                        {"op": d, "xml_hex": hexs(xml), "result": r})
            continue
        # --- oracle on every diagnostic of every run ---------------------------------------------------------
        for x in r["diags"]:
            stats["diags"] += 1
            stats["messages"][msg_class(x["msg"])] = stats["messages"].get(msg_class(x["msg"]), 0) + 1
            if x["oracle"] == "":
                stats["diags_oracle_ok"] += 1
                if "addr" in x and "tree" in r:
                    path_cases.setdefault((r["tree"], x["addr"]), x["path"])
            else:
                vc = verdict_class(x)
                key = vc if vc.startswith("xpath-name:") else "oracle:%s:%s" % (vc, msg_class(x["msg"]))
                if what == "witness:string-newline":
                    key = "string-newline"
                ctx.finding(key, "diagnostic %r at %s %d:%d-%d:%d: %s" % (x["msg"], x["path"], x["sl"], x["sc"], x["el"], x["ec"], x["oracle"]),
                            {"op": d, "xml_hex": hexs(xml), "diagnostic": x,
                             "entry": ENTRY_Q if d.get("queries") else "parse_XML_buffer(xml, Document*, newxta=true)"})
        if what == "layout-only":
            if r["diags"] or r.get("qexc"):
                ctx.finding("layout-not-neutral:" + d["layout"], "a layout-only rewrite (%s) produced diagnostics: %s" % (
                    d["layout"], r["diags"][0]["msg"] if r["diags"] else "a query parse ended in " + r["qexc"]),
                            {"op": d, "xml_hex": hexs(xml), "result": r})
            continue
        if what in ("witness:lsc", "structural"):
            if what == "structural":
                stats["structural_ops"] = stats.get("structural_ops", 0) + 1
                stats["structural_diags"] = stats.get("structural_diags", 0) + len(r["diags"])
                if d.get("expect") and not r["exc"]:
                    # the diagnostic about an element is attached to that element (or to a child of it)
                    msg, where = d["expect"]
                    about = [x for x in errs if x["msg"].startswith(msg)]
                    stats["structural_attribution_checked"] = stats.get("structural_attribution_checked", 0) + 1
                    wrong = [x for x in about if not (x.get("canon") or "").startswith(where)]
                    if not about or wrong:
                        ctx.finding("structural-misplaced:%s" % d["kind"],
                                    "the %s fault concerns %s; %s" % (d["kind"], where, ("it is reported at %s (%s rendering, %s entry)" % (
                                        wrong[0]["path"], d["xml_layer"], d["entry"])) if wrong else "no `%s` diagnostic was produced" % msg),
                                    {"op": d, "xml_hex": hexs(xml), "errors": errs,
                                     "entry": "parse_XML_file" if d["entry"] == "file" else "parse_XML_buffer(xml, Document*, newxta=true)"})
            continue
        # --- the fault must be located ---------------------------------------------------------------------------
        kind = d["kind"]
        stats["by_kind"].setdefault(kind, [0, 0])
        stats["by_kind"][kind][0] += 1
        if not errs:
            stats["benign"] += 1
            continue
        stats["by_kind"][kind][1] += 1
        stats["faults_with_errors"] += 1
        stats["by_layout"][d.get("layout", "-")] = stats["by_layout"].get(d.get("layout", "-"), 0) + 1
        bk = d["block_kind"] + ("/" + d["label_kind"] if d.get("label_kind") else "")
        stats["by_block_kind"][bk] = stats["by_block_kind"].get(bk, 0) + 1
        inside = [x for x in errs if x.get("canon") == d["canon"]]
        outside = [x for x in errs if x.get("canon") != d["canon"]]
        replay = {"op": d, "xml_hex": hexs(xml), "errors": errs, "entry": ENTRY_Q if d.get("queries") else "parse_XML_buffer(xml, Document*, newxta=true)"}
        if not inside and what == "fault":
            ctx.finding("unlocated:%s:%s" % (kind, bk), "a single %s fault in %s produced errors only elsewhere: %s at %s"
                        % (kind, d["canon"], outside[0]["msg"], outside[0]["path"]), replay)
        if what == "fault" and d["block_kind"] == "label" and d["label_kind"] != "select" and outside:
            ctx.finding("label-leak:%s:%s:%s" % (kind, d["label_kind"], msg_class(outside[0]["msg"])),
                        "a %s fault in the %s label %s is also reported at %s (%s)" % (kind, d["label_kind"], d["canon"], outside[0]["path"], outside[0]["msg"]),
                        replay)
        if kind == "undeclared" and "ident" in d and d.get("block_kind") != "instantiation":
            stats["exact_ranges_checked"] += 1
            line, col = M.line_col(d["text"], d["off"])
            want = (line, col, line, col + len(d["ident"]))
            got = [(x["sl"], x["sc"], x["el"], x["ec"]) for x in inside]
            if want not in got:
                key = "string-newline" if what == "witness:string-newline" else "undeclared-range:%s" % bk
                ctx.finding(key, "undeclared identifier %s at line %d columns %d-%d of %s is reported at %s"
                            % (d["ident"], line, col, col + len(d["ident"]), d["canon"], got), replay)
        # lexer-level predictions of the model for this block
        if kind in ("stray-token", "unterminated-comment"):
            real = sorted("%s@%d:%d-%d:%d" % (x["msg"], x["sl"], x["sc"], x["el"], x["ec"]) for x in inside
                          if x["msg"] in ("$Unknown_symbol", "$Comment_not_closed"))
            if real:
                lexpred.append((d, xml, real))
    # --- Lean predictions ------------------------------------------------------------------------------------------
    drv = core.lean_exe("drv_c06")
    if lexpred:
        rc2, out2, _, _ = core.run_exe(drv, [], stdin_text="".join("L 1 -1 %s\n" % hexs(d["text"]) for d, _, _ in lexpred), timeout=600)
        ml = out2.split("\n")
        bad = 0
        for (d, xml, real), mline in zip(lexpred, ml):
            m = re.search(r"errs=(.*)$", mline)
            model = set(m.group(1).split(";")) if m and m.group(1) else set()
            if not set(real) <= model:
                bad += 1
                if bad == 1:
                    ctx.proof_broken("correspondence:lexer-diagnostics",
                                     "lexer-level diagnostics of a faulted block are not the ones the model predicts: real %r model %r block %r"
                                     % (real, sorted(model), d["text"]), json.dumps({"op": d, "xml_hex": hexs(xml)})[:3000])
        stats["lexer_level_predictions"] = len(lexpred)
        stats["lexer_level_mismatches"] = bad
    if path_cases:
        items = sorted(path_cases.items())
        rc3, out3, _, _ = core.run_exe(drv, [], stdin_text="".join("X - %s %s\n" % (addr, tree) for (tree, addr), _ in items), timeout=600)
        pl = out3.split("\n")
        bad = 0
        for ((tree, addr), real), mline in zip(items, pl):
            if mline != "%s selects=%s" % (real, addr):
                bad += 1
                if bad == 1:
                    ctx.proof_broken("correspondence:xpath-printer", "Path model prints %r for node %s, the library printed %r (tree %s)"
                                     % (mline, addr, real, tree[:300]), "all diagnostics of the fault-injection run")
        stats["xpath_cases"] = len(items)
        stats["xpath_mismatches"] = bad
    # computed exception set of the XPath theorem vs what the oracle saw
    rc4, out4, _, _ = core.run_exe(drv, [], stdin_text="B\n")
    cov["xpath_exception_rows"] = out4.strip()
    cov["fault_injection"] = stats
    return stats


def run(ctx):
    cov = ctx.coverage
    # 1 translate -----------------------------------------------------------------------------------------------
    tie_error = None
    try:
        cov["translated"] = pos_tables.generate_all(core.REPO, core.LEAN_DIR, core.write_if_changed)
    except pos_tables.TranslateError as ex:
        tie_error = str(ex)
        ctx.log("translator failed:", ex)
    b = core.build_repo("asan")
    exe = core.build_harness(b, "c06", ["c06.cpp"])
    bp = core.build_repo("plain")
    exe_plain = core.build_harness(bp, "c06p", ["c06.cpp"])
    # 2 prove ---------------------------------------------------------------------------------------------------
    ok, log = ctx.prove(MODULE, ["drv_c06"])
    if not ok:
        ctx.log("proof broken:", core.failing_theorems(log) or log[-1500:])
    if not ok:
        for path, thm, msg in (core.failing_theorems(log) or [("?", "lake build", log[-300:])]):
            ctx.proof_broken(thm, msg + "\n" + log[-1500:], "lexer correspondence + fault injection of this run")
    if tie_error:
        ctx.proof_broken("translate/pos_tables.py", tie_error, "lexer correspondence + fault injection of this run")
    if not os.path.exists(core.lean_exe("drv_c06")):
        return
    run_lex_correspondence(ctx, exe)
    stats = run_faults(ctx, exe_plain, exe) or {}
    cov["evaluations"] = cov.get("lex_cases", 0) + stats.get("ops", 0)
    cov["distinct_nontrivial"] = cov.get("lex_with_newline_entries", 0) + stats.get("faults_with_errors", 0)
    cov["samples"] = list(cov.get("lex_samples", []))[:4]
    cov["correspondence_cases"] = cov.get("lex_cases", 0) + stats.get("xpath_cases", 0) + stats.get("lexer_level_predictions", 0)
    cov["correspondence_disagreements"] = cov.get("lex_disagreements", 0) + stats.get("xpath_mismatches", 0) + stats.get("lexer_level_mismatches", 0)
    cov["rule"] = ("every diagnostic: XPath selects exactly one element of a DOM of the same bytes, line within that element's first text node, "
                   "columns within the line, start <= end; single fault: >=1 error in the faulted block, all errors in it for non-select labels, "
                   "undeclared identifier: exact range")
    ctx.assumptions += [
        "flex tokenises as the rule-table model says (longest match, first rule on ties): validated by the line-table correspondence, not proved",
        "bison's location stack: the slot below the first symbol holds the previous parse's last yylloc (C06_ranges_partial assumes it in range)",
        "positions are bytes; the DOM oracle uses libxml2's tree API with the same parser options as the library's xmlTextReader",
        "a mutated model that the library accepts without any diagnostic is counted as benign, not as an unlocated fault",
        "asserts are compiled out (the baseline configuration is RelWithDebInfo = -DNDEBUG)",
    ]


def replay(ctx, path):
    r = json.load(open(path))
    rep = r.get("replay", {})
    print(json.dumps({k: v for k, v in r.items() if k != "replay"}, indent=1))
    if not isinstance(rep, dict) or not ("xml_hex" in rep or "text_hex" in rep):
        print(json.dumps(rep, indent=1)[:6000])
        return 1
    b = core.build_repo("asan")
    exe = core.build_harness(b, "c06", ["c06.cpp"])
    if "xml_hex" in rep:
        line = "%s 1 %s\n" % (opcode(rep.get("op", {})), rep["xml_hex"])
    else:
        line = "L %d %d %s\n" % (rep.get("newxta", 1), rep.get("part", 1), rep["text_hex"])
    rc, out, err, _ = core.run_exe(exe, [], stdin_text=line, env={"VERIF_C06_DIR": core.CACHE})
    print(out[:6000])
    print(err[-3000:])
    try:
        res = json.loads(out.split("\n")[0])
    except Exception:
        return 1
    bad = [d for d in res.get("diags", []) if d.get("oracle")]
    exp = rep.get("op", {}).get("expect")
    if exp:
        about = [d for d in res.get("diags", []) if d["k"] == "E" and d["msg"].startswith(exp[0])]
        for d in about:
            if not (d.get("canon") or "").startswith(exp[1]):
                print("MISPLACED:", d["msg"], d["path"], "expected at", exp[1])
                bad.append(d)
        if not about:
            print("MISSING: no", exp[0], "diagnostic")
            return 1
    for d in bad:
        print("ORACLE:", d["msg"], d["path"], d["oracle"])
    return 1 if (bad or rc != 0 or res.get("exc")) else 0
