#!/usr/bin/env python3
"""Translator (tie T of C17): src/featurechecker.cpp + expression_t::uses_fp/uses_hybrid/uses_clock of src/expression.cpp
-> lean/UtapModel/Gen/FeatureCfg.lean, the *configuration* of the Lean FeatureChecker model (Model/Feature.lean):

  guardKinds   the `case` labels of FeatureChecker::visitGuard            (read from the source, any set of kinds)
  fpKinds      the `case` labels of expression_t::uses_fp                  (read from the source, any set of kinds)
  + one Boolean per structural decision the model is parameterised by (recursion into sub-expressions, invariants
    compared, arrays looked through, template frames scanned, ...).  Each Boolean is read off by matching the
    function body -- comments and white space removed, case labels abstracted -- against the *known* skeletons below.

Fails closed: a body that matches no known skeleton raises TranslateError (the check then reports the tie as broken and
lets the direct oracle decide whether the verdict is still sound)."""
import os
import re
import sys


class TranslateError(Exception):
    pass


def strip_comments(src):
    src = re.sub(r"/\*.*?\*/", " ", src, flags=re.S)
    src = re.sub(r"//[^\n]*", " ", src)
    return src


def function_body(src, header_re):
    m = re.search(header_re, src)
    if not m:
        raise TranslateError("function not found: %s" % header_re)
    i = src.index("{", m.end() - 1)
    depth, j = 0, i
    while j < len(src):
        if src[j] == "{":
            depth += 1
        elif src[j] == "}":
            depth -= 1
            if depth == 0:
                return src[i:j + 1]
        j += 1
    raise TranslateError("unbalanced braces after %s" % header_re)


def norm(body):
    return re.sub(r"\s+", "", body)


CASE = re.compile(r"case(?:Constants::)?([A-Z_0-9a-z]+):")


def split_cases(nbody):
    """returns (skeleton with every maximal run of case labels replaced by <CASES>, list of runs)"""
    runs = []

    def rep(m):
        runs.append(CASE.findall(m.group(0)))
        return "<CASES>"
    sk = re.sub(r"(?:case(?:Constants::)?[A-Z_0-9a-z]+:)+", rep, nbody)
    return sk, runs


# ---- known skeletons ---------------------------------------------------------------------------
CTOR = {
    "{document.accept(*this);visitFrame(document.get_globals().frame);if(document.has_dynamic_templates())"
    "supported_methods.symbolic=false;if(document.has_priority_declaration()){supported_methods.stochastic=false;"
    "supported_methods.concrete=false;}}": {},
}
TEMPLATE_BEFORE = {
    "{returntempl.is_instantiated;}": {"chanLocalFrames": False},
    "{if(templ.is_instantiated)visitFrame(templ.frame);returntempl.is_instantiated;}": {"chanLocalFrames": True},
}
VARIABLE = {
    "{if(var.uid.get_type().is_clock()&&!var.init.empty()&&var.init.uses_fp())supported_methods.symbolic=false;}":
        {"initThroughArrays": False},
    "{if(var.uid.get_type().strip_array().is_clock()&&!var.init.empty()&&var.init.uses_fp())supported_methods.symbolic=false;}":
        {"initThroughArrays": True},
}
EDGE = {"{visitAssignment(edge.assign);visitGuard(edge.guard);}": {}, "{visitGuard(edge.guard);visitAssignment(edge.assign);}": {}}
GUARD = {
    "{switch(guard.get_kind()){<CASES>for(size_ti=0;i<guard.get_size();++i){if(guard.get(i).uses_fp())"
    "supported_methods.symbolic=false;}default:break;}}": {"guardRecursive": False, "guardSkipsRates": False},
    "{if(guard.empty())return;switch(guard.get_kind()){<CASES>if(guard.get(0).get_kind()==Constants::RATE||"
    "guard.get(1).get_kind()==Constants::RATE)break;for(size_ti=0;i<guard.get_size();++i){if(guard.get(i).uses_fp())"
    "supported_methods.symbolic=false;}default:break;}for(size_ti=0;i<guard.get_size();++i)visitGuard(guard.get(i));}":
        {"guardRecursive": True, "guardSkipsRates": True},
}
ASSIGNMENT = {
    "{switch(ass.get_kind()){<CASES>if(ass.uses_fp()&&!ass.uses_hybrid())supported_methods.symbolic=false;break;"
    "<CASES>for(size_ti=0;i<ass.get_size();++i)visitAssignment(ass.get(i));break;default:break;}}":
        {"assignHybridTargetOnly": False},
    "{switch(ass.get_kind()){<CASES>if(ass.uses_fp()&&!ass.get(0).uses_hybrid())supported_methods.symbolic=false;break;"
    "<CASES>for(size_ti=0;i<ass.get_size();++i)visitAssignment(ass.get(i));break;default:break;}}":
        {"assignHybridTargetOnly": True},
}
LOCATION = {
    "{constauto&invariant=location.invariant;if(invariant.empty())return;if(isRateDisallowedInSymbolic(invariant))"
    "supported_methods.symbolic=false;}": {"invariantCompared": False},
    "{auto&invariant=location.invariant;if(invariant.empty())return;visitGuard(invariant);if(isRateDisallowedInSymbolic(invariant))"
    "supported_methods.symbolic=false;}": {"invariantCompared": True},
}
_RATE_HEAD = ("{if(e.get_kind()==Constants::EQ){assert(e.get_size()>=2);expression_trate;expression_tclock;"
              "if(e.get(0).get_kind()==Constants::RATE){clock=e.get(0);rate=e.get(1);}elseif(e.get(1).get_kind()==Constants::RATE)"
              "{clock=e.get(1);rate=e.get(0);}else{returnfalse;}")
# the rate of an expression without a symbol (reported by the type checker) restricts nothing: not a placement of the model
_RATE_NOSYM = "if(clock.get(0).get_symbol()==symbol_t())returnfalse;"
_RATE_HYB = ("if(clock.get(0).get_symbol().get_type().is(Constants::HYBRID))"
             "returnfalse;if(rate.get_kind()!=Constants::CONSTANT)returnfalse;")
_RATE_DBL = "if(rate.get_type().is(Constants::DOUBLE))returnrate.get_double_value()!=0.0&&rate.get_double_value()!=1.0;"
_RATE_MID = "if(rate.get_value()!=0&&rate.get_value()!=1)returntrue;returnfalse;}"
_RATE_TAIL = ("if(e.get_kind()==Constants::AND){for(size_ti=0;i<e.get_size();++i){if(isRateDisallowedInSymbolic(e.get(i)))"
              "returntrue;}returnfalse;}returnfalse;}")
RATE = {}
for _g in ("", _RATE_NOSYM):
    RATE[_RATE_HEAD + _g + _RATE_HYB + _RATE_MID + _RATE_TAIL] = {"rateDoubleHandled": False}
    RATE[_RATE_HEAD + _g + _RATE_HYB + _RATE_DBL + _RATE_MID + _RATE_TAIL] = {"rateDoubleHandled": True}
_FRAME_HEAD = "{for(size_ti=0;i<frame.get_size();++i){type_tt=frame.get_symbol(i).get_type();"
_FRAME_TAIL = "if(t.is_channel()&&!t.is(Constants::BROADCAST))supported_methods.stochastic=false;}}"
FRAME = {
    _FRAME_HEAD + _FRAME_TAIL: {"chanThroughArrays": False},
    _FRAME_HEAD + "if(t.get_kind()==Constants::TYPEDEF||t.is(Constants::REF))continue;while(t.is_array())t=t.get_sub();" + _FRAME_TAIL:
        {"chanThroughArrays": True},
}
USES_FP = {
    "{if(empty()){returnfalse;}if(data->type.is(Constants::DOUBLE)){returntrue;}switch(data->kind){<CASES>returntrue;default:;}"
    "size_tn=get_size();for(size_ti=0;i<n;++i){if(get(i).uses_fp()){returntrue;}}returnfalse;}": {},
}


def _uses(name, pred):
    return {"{if(empty()){returnfalse;}if(get_type().%s){returntrue;}size_tn=get_size();for(size_ti=0;i<n;++i){if(get(i).%s())"
            "{returntrue;}}returnfalse;}" % (pred, name): {}}


FLAGS = ["guardRecursive", "guardSkipsRates", "invariantCompared", "initThroughArrays", "assignHybridTargetOnly", "rateDoubleHandled",
         "chanThroughArrays", "chanLocalFrames"]


def classify(name, body, table, flags, want_cases=0):
    sk, runs = split_cases(norm(body))
    if sk not in table:
        raise TranslateError("%s: body matches no known skeleton:\n%s" % (name, sk))
    if len(runs) != want_cases:
        raise TranslateError("%s: expected %d case-label runs, found %d" % (name, want_cases, len(runs)))
    flags.update(table[sk])
    return runs


def read(repo="/repo"):
    fc = strip_comments(open(os.path.join(repo, "src", "featurechecker.cpp")).read())
    ex = strip_comments(open(os.path.join(repo, "src", "expression.cpp")).read())
    flags = {}
    F = lambda n: function_body(fc, r"FeatureChecker::%s\s*\([^)]*\)\s*\{" % n)
    classify("FeatureChecker", function_body(fc, r"FeatureChecker::FeatureChecker\s*\([^)]*\)\s*\{"), CTOR, flags)
    classify("visitTemplateBefore", F("visitTemplateBefore"), TEMPLATE_BEFORE, flags)
    classify("visitVariable", F("visitVariable"), VARIABLE, flags)
    classify("visitEdge", F("visitEdge"), EDGE, flags)
    (guard_kinds,) = classify("visitGuard", F("visitGuard"), GUARD, flags, 1)
    a1, a2 = classify("visitAssignment", F("visitAssignment"), ASSIGNMENT, flags, 2)
    if a1 != ["ASSIGN"] or a2 != ["COMMA"]:
        raise TranslateError("visitAssignment: unexpected case labels %r / %r" % (a1, a2))
    classify("visitLocation", F("visitLocation"), LOCATION, flags)
    classify("isRateDisallowedInSymbolic", F("isRateDisallowedInSymbolic"), RATE, flags)
    classify("visitFrame", F("visitFrame"), FRAME, flags)
    (fp_kinds,) = classify("uses_fp", function_body(ex, r"bool\s+expression_t::uses_fp\s*\(\s*\)\s*const\s*\{"), USES_FP, flags, 1)
    classify("uses_hybrid", function_body(ex, r"bool\s+expression_t::uses_hybrid\s*\(\s*\)\s*const\s*\{"),
             _uses("uses_hybrid", "is(HYBRID)"), flags)
    classify("uses_clock", function_body(ex, r"bool\s+expression_t::uses_clock\s*\(\s*\)\s*const\s*\{"),
             _uses("uses_clock", "is_clock()"), flags)
    # the document walk the checker relies on (Document::accept / visitTemplate): only the is_instantiated gate is read here
    dc = strip_comments(open(os.path.join(repo, "src", "document.cpp")).read())
    vt = norm(function_body(dc, r"void\s+visitTemplate\s*\([^)]*\)\s*\{"))
    if not vt.startswith("{if(visitor.visitTemplateBefore(t)){visit(visitor,t.frame);for(auto&edge:t.edges)visitor.visitEdge(edge);"):
        raise TranslateError("visitTemplate (document.cpp): unexpected shape:\n" + vt)
    missing = [f for f in FLAGS if f not in flags]
    if missing:
        raise TranslateError("flags not determined: %r" % missing)
    return guard_kinds, fp_kinds, flags


ORIGINAL_FLAGS = {f: False for f in FLAGS}
ORIGINAL_GUARD = ["LT", "LE", "EQ"]


def fallback(repo="/repo"):
    """configuration of the pinned commit (used only when `read` fails, so that the oracle's violations are classified
    against a defined baseline instead of whatever the previous run left in Gen/); uses_fp labels from the source if readable"""
    try:
        ex = strip_comments(open(os.path.join(repo, "src", "expression.cpp")).read())
        _, runs = split_cases(norm(function_body(ex, r"bool\s+expression_t::uses_fp\s*\(\s*\)\s*const\s*\{")))
        fp = max(runs, key=len) if runs else []
    except Exception:  # noqa
        fp = []
    return ORIGINAL_GUARD, fp, dict(ORIGINAL_FLAGS)


def lean_text(guard_kinds, fp_kinds, flags, known_kinds):
    for k in guard_kinds + fp_kinds:
        if k not in known_kinds:
            raise TranslateError("case label %s is not an enumerator of kind_t" % k)

    def klist(ks):
        rows = ["  " + ", ".join(".k" + k for k in ks[i:i + 8]) for i in range(0, len(ks), 8)]
        return "[\n" + ",\n".join(rows) + "]" if ks else "[]"
    L = ["/- GENERATED by translate/feature.py from src/featurechecker.cpp and src/expression.cpp (uses_fp) -- do not edit. -/",
         "import UtapModel.Gen.Kinds", "namespace UtapModel.FeatureCfg", "open UtapModel", "",
         "/-- `case` labels of FeatureChecker::visitGuard -/", "def guardKinds : List Kind := " + klist(guard_kinds), "",
         "/-- `case` labels of expression_t::uses_fp -/", "def fpKinds : List Kind := " + klist(fp_kinds), ""]
    for f in FLAGS:
        L.append("def %s : Bool := %s" % (f, "true" if flags[f] else "false"))
    L += ["", "end UtapModel.FeatureCfg", ""]
    return "\n".join(L)


if __name__ == "__main__":
    import kinds
    repo = sys.argv[1] if len(sys.argv) > 1 else "/repo"
    g, f, fl = read(repo)
    sys.stdout.write(lean_text(g, f, fl, [n for n, _ in kinds.kinds(repo)]))
