/-
C09 — accept/reject verdicts are invariant under meaning-preserving rewrites: PROPERTY THEOREMS
(models: Model/C09Lex, C09Render, C09Ops, C09Scope, C09Pratt; tables regenerated from /repo: Gen/C09Tables;
 helper lemmas: Lemmas/C09Lex, Lemmas/C09Pratt).

The verdict of libutap on a text is a function of (1) the token stream the lexer hands to the parser, (2) the callback
sequence the parser derives from it, (3) name resolution in the builder.  The four rewrite families are shown to leave
these unchanged (up to the renaming) on the models; the exception shapes where the unchanged code violates the property
are proved as negations on witnesses (`C09_witness_*`) and replayed on the real library by checks/c09.py.
-/
import UtapModel.Lemmas.C09Lex
import UtapModel.Lemmas.C09Pratt
import UtapModel.Lemmas.C09Misc
import UtapModel.Model.C09Ops
import UtapModel.Model.C09Scope
import UtapModel.Model.C09GenTbl
import UtapModel.Gen.C09Tables
namespace UtapModel.C09.Props
open UtapModel.C09

/-- the lexer configuration of the current source tree: generated rule table, keyword table, MAXLEN, syntax bits -/
def genCfg (mask : Nat) (isType : Nat → List Ch → Bool) : Cfg :=
  { rules := Gen.rules, kws := Gen.keywordTable, maxLen := Gen.maxLen, mask := mask,
    bitOld := Gen.bitOLD, bitProperty := Gen.bitPROPERTY, bitProb := Gen.bitPROB,
    tConst := Gen.T_CONST, tOldConst := Gen.T_OLDCONST, isType := isType, softLits := Gen.softLits,
    expectStops := Gen.expectStopsBeforeClose }

/-- `NEW | GUIDING`: the syntax of every text block of a model parsed with `newxta = true` -/
def maskNew : Nat := Gen.bitNEW ||| Gen.bitGUIDING

/-- `OLD | GUIDING`: the syntax of every text block of a model parsed with `newxta = false` (UPPAAL 3.x `.ta` files, XML read with
    `newxta = false`) -/
def maskOld : Nat := Gen.bitOLD ||| Gen.bitGUIDING

/-! ## 0. the generated tables satisfy what the general theorems assume -/

theorem C09_rules_wf : RulesWF Gen.rules = true := by decide
theorem C09_rules_ident_wf : IdentWF Gen.rules = true := by decide
theorem C09_maskNew_nonProperty (isType) : NonProperty (genCfg maskNew isType) := by
  show ((maskNew &&& Gen.bitPROPERTY != 0) = false)
  decide
/-- the trivia and renaming theorems (stated for every non-PROPERTY configuration) apply to the 3.x syntax as well -/
theorem C09_maskOld_nonProperty (isType) : NonProperty (genCfg maskOld isType) := by
  show ((maskOld &&& Gen.bitPROPERTY != 0) = false)
  decide

/-! ## 1. trivia -/

/-- **Trivia.**  Two texts made of the same lexemes (same texts, same rules), separated by ANY well-formed trivia
    (blank runs, newline runs, `//` comments, `/* */` comments, backslash-newline continuations; possibly none where
    the lexeme is `Closed` against its successor), have the same token stream.  Side conditions, precisely:
    `Renderable` = each lexeme alone is matched completely by its rule; each lexeme is `Closed` w.r.t. the ONE
    character following it (see `Closed`); each trivia item is maximal and well formed (`Triv.ok`: a comment body
    contains neither `*/` nor `EXPECT:`); the syntax is not PROPERTY (there a newline is a token). -/
theorem C09_trivia (cfg : Cfg) (hwf : RulesWF cfg.rules = true) (hnp : NonProperty cfg)
    (sep0 sep0' : List Triv) (items items' : List Item)
    (hsame : items.map (fun i => (i.w, i.r)) = items'.map (fun i => (i.w, i.r)))
    (h0 : sepOK sep0 (renderItems items) = true) (h : Renderable cfg items = true)
    (h0' : sepOK sep0' (renderItems items') = true) (h' : Renderable cfg items' = true) :
    lex cfg (sepText sep0 ++ renderItems items) = lex cfg (sepText sep0' ++ renderItems items') := by
  rw [lex_text cfg hwf hnp sep0 items h0 h, lex_text cfg hwf hnp sep0' items' h0' h', tokensOf_congr cfg items items' 0 hsame]

/-- **Trivia in any syntax, queries included** (in PROPERTY syntax a newline is a token, so it is no trivia there):
    the same statement without the `NonProperty` assumption for separators that contain no run of newlines. -/
theorem C09_trivia_query (cfg : Cfg) (hwf : RulesWF cfg.rules = true)
    (sep0 sep0' : List Triv) (items items' : List Item)
    (hsame : items.map (fun i => (i.w, i.r)) = items'.map (fun i => (i.w, i.r)))
    (hnl : noNewlines sep0 items = true) (hnl' : noNewlines sep0' items' = true)
    (h0 : sepOK sep0 (renderItems items) = true) (h : Renderable cfg items = true)
    (h0' : sepOK sep0' (renderItems items') = true) (h' : Renderable cfg items' = true) :
    lex cfg (sepText sep0 ++ renderItems items) = lex cfg (sepText sep0' ++ renderItems items') := by
  rw [lex_text_nonl cfg hwf sep0 items hnl h0 h, lex_text_nonl cfg hwf sep0' items' hnl' h0' h',
      tokensOf_congr cfg items items' 0 hsame]

/-- satisfiable in PROPERTY syntax: the query `E<> sup>1` and `E<> /* c */ sup > 1` (where `sup` is the keyword token
    that `NonTypeId` re-admits as an identifier) -/
example :
    let cfg := genCfg Gen.bitPROPERTY (fun _ _ => false)
    let ef : Item := ⟨[69, 60, 62], .lit [69, 60, 62] Gen.T_EF, [.blanks 32 []]⟩
    let a : List Item := [ef, ⟨[115, 117, 112], .ident, []⟩, ⟨[62], .lit [62] Gen.T_GT, []⟩, ⟨[49], .num, []⟩]
    let b : List Item := [{ ef with sep := [.blanks 32 [], .block [32, 99, 32], .blanks 32 []] },
                          ⟨[115, 117, 112], .ident, [.blanks 32 []]⟩, ⟨[62], .lit [62] Gen.T_GT, [.blanks 32 []]⟩, ⟨[49], .num, []⟩]
    Renderable cfg a = true ∧ Renderable cfg b = true ∧ noNewlines [] b = true ∧
    lex cfg (renderItems b) = [.lit Gen.T_EF, .lit Gen.T_SUP, .lit Gen.T_GT, .nat 1] := by
  decide +kernel

/-- the same for the lexer of the current source tree (model syntax) -/
theorem C09_trivia_utap (isType : Nat → List Ch → Bool) (sep0 sep0' : List Triv) (items items' : List Item)
    (hsame : items.map (fun i => (i.w, i.r)) = items'.map (fun i => (i.w, i.r)))
    (h0 : sepOK sep0 (renderItems items) = true) (h : Renderable (genCfg maskNew isType) items = true)
    (h0' : sepOK sep0' (renderItems items') = true) (h' : Renderable (genCfg maskNew isType) items' = true) :
    lex (genCfg maskNew isType) (sepText sep0 ++ renderItems items) = lex (genCfg maskNew isType) (sepText sep0' ++ renderItems items') :=
  C09_trivia _ C09_rules_wf (C09_maskNew_nonProperty isType) sep0 sep0' items items' hsame h0 h h0' h'

/-- the hypotheses are satisfiable: `x=1` and ` x /* c */ = // k⏎ 1 ` are two renderings of the same three lexemes -/
example :
    let noTypes : Nat → List Ch → Bool := fun _ _ => false
    let x : List Ch := [120]; let eq : List Ch := [61]; let one : List Ch := [49]
    let rEq : Rule := .lit [61] Gen.T_ASSIGNMENT
    let a : List Item := [⟨x, .ident, []⟩, ⟨eq, rEq, []⟩, ⟨one, .num, []⟩]
    let b : List Item := [⟨x, .ident, [.blanks 32 [], .block [32, 99, 32], .blanks 32 []]⟩,
                          ⟨eq, rEq, [.blanks 32 [], .line [32, 107], .newlines [], .blanks 32 []]⟩, ⟨one, .num, [.blanks 32 []]⟩]
    Renderable (genCfg maskNew noTypes) a = true ∧ Renderable (genCfg maskNew noTypes) b = true ∧
    sepOK [.blanks 32 []] (renderItems b) = true ∧
    lex (genCfg maskNew noTypes) (renderItems a) = [.id [120], .lit Gen.T_ASSIGNMENT, .nat 1] := by
  decide +kernel

/-! ### exception shape: a comment containing `EXPECT:` -/

/-- `/* EXPECT:k*/` violates `bodyOK` … -/
theorem C09_expect_not_bodyOK : bodyOK [32, 69, 88, 80, 69, 67, 84, 58, 107] = false := by decide

def notExpect : Tok → Bool
  | .expect _ => false
  | _ => true

/-- … and the negation of the property on the witness: replacing the comment text `note` by `EXPECT:k` (no blank before
    the closing `*/`) changes the token stream — the rule `"EXPECT:"[^\t \n]*` of the <comment> state swallows the `*/`.
    (`.expect` is the `handle_expect` callback, not a token.)  Stated against the generated flag: the token streams agree
    exactly when the source tree carries the repaired rule that stops before `*/`. -/
theorem C09_witness_expect :
    let cfg := genCfg maskNew (fun _ _ => false)
    -- "/*note*/ y"  vs  "/*EXPECT:k*/ y"
    lex cfg [47, 42, 110, 111, 116, 101, 42, 47, 32, 121] = [.id [121]] ∧
    (decide ((lex cfg [47, 42, 69, 88, 80, 69, 67, 84, 58, 107, 42, 47, 32, 121]).filter notExpect = [.id [121]]))
      = Gen.expectStopsBeforeClose := by
  decide +kernel

/-! ## 2. renaming -/

/-- **Renaming, lexer half.**  Replace every user-chosen name `w` (a lexeme of the identifier rule that is no keyword
    under the current syntax) by `ρ w`, and let the symbol table answer `is_type` for `ρ w` as it answered for `w`.
    (`hsoft`: no name of a repaired one-letter literal rule — `softLits`, empty on the unrepaired tree — is a type.)
    If the renamed text is still `Renderable` (each `ρ w` is matched by the identifier rule — see `C09_rename_lexeme`
    for when that holds — and the adjacency conditions still hold), no `ρ w` is a keyword and all names are shorter
    than MAXLEN, then the token stream of the renamed text is the renamed token stream. -/
theorem C09_rename_lex (cfg : Cfg) (hwf : RulesWF cfg.rules = true) (hnp : NonProperty cfg)
    (isType' : Nat → List Ch → Bool) (ρ : List Ch → List Ch) (sep0 : List Triv) (items : List Item)
    (htype : ∀ n w, isType' n (ρ w) = cfg.isType n w)
    (hsoft : ∀ n w, w ∈ cfg.softLits → cfg.isType n w = false ∧ isType' n w = false)
    (hρ : ∀ it ∈ items, isUserId cfg it = true →
        kwTok cfg (ρ it.w) = none ∧ (ρ it.w).length < cfg.maxLen ∧ it.w.length < cfg.maxLen)
    (h0 : sepOK sep0 (renderItems items) = true) (h : Renderable cfg items = true)
    (h0' : sepOK sep0 (renderItems (renItems cfg ρ items)) = true)
    (h' : Renderable { cfg with isType := isType' } (renItems cfg ρ items) = true) :
    lex { cfg with isType := isType' } (sepText sep0 ++ renderItems (renItems cfg ρ items)) =
      (lex cfg (sepText sep0 ++ renderItems items)).map (renTok ρ) := by
  rw [lex_text cfg hwf hnp sep0 items h0 h,
      lex_text { cfg with isType := isType' } hwf hnp sep0 _ h0' h',
      tokensOf_rename cfg isType' ρ htype hsoft items 0 hρ]

/-- the same in any syntax (queries included) for texts whose separators contain no run of newlines -/
theorem C09_rename_lex_query (cfg : Cfg) (hwf : RulesWF cfg.rules = true)
    (isType' : Nat → List Ch → Bool) (ρ : List Ch → List Ch) (sep0 : List Triv) (items : List Item)
    (htype : ∀ n w, isType' n (ρ w) = cfg.isType n w)
    (hsoft : ∀ n w, w ∈ cfg.softLits → cfg.isType n w = false ∧ isType' n w = false)
    (hρ : ∀ it ∈ items, isUserId cfg it = true →
        kwTok cfg (ρ it.w) = none ∧ (ρ it.w).length < cfg.maxLen ∧ it.w.length < cfg.maxLen)
    (hnl : noNewlines sep0 items = true) (hnl' : noNewlines sep0 (renItems cfg ρ items) = true)
    (h0 : sepOK sep0 (renderItems items) = true) (h : Renderable cfg items = true)
    (h0' : sepOK sep0 (renderItems (renItems cfg ρ items)) = true)
    (h' : Renderable { cfg with isType := isType' } (renItems cfg ρ items) = true) :
    lex { cfg with isType := isType' } (sepText sep0 ++ renderItems (renItems cfg ρ items)) =
      (lex cfg (sepText sep0 ++ renderItems items)).map (renTok ρ) := by
  rw [lex_text_nonl cfg hwf sep0 items hnl h0 h,
      lex_text_nonl { cfg with isType := isType' } hwf sep0 _ hnl' h0' h',
      tokensOf_rename cfg isType' ρ htype hsoft items 0 hρ]

/-- **The range of the renaming.**  A text of the shape `{alpha}{idchr}*` that is not the text of a literal rule of
    lexer.l, not a keyword under the current syntax and shorter than MAXLEN is matched by the identifier rule and
    comes out as T_ID / T_TYPENAME with exactly that spelling (so it satisfies the lexeme part of `Renderable`). -/
theorem C09_rename_lexeme (cfg : Cfg) (hiw : IdentWF cfg.rules = true) (x : List Ch) (hid : identShaped x = true)
    (hlit : x ∉ litTexts cfg.rules) (hk : kwTok cfg x = none) (hlen : x.length < cfg.maxLen) (n : Nat) :
    best cfg.rules x = some (.ident, x.length) ∧
    action cfg n .ident x = ([if cfg.isType n x then .typename x else .id x], false) :=
  ⟨best_ident cfg.rules hiw x hid hlit, action_ident cfg n x hk hlen⟩

/-- the hypotheses of `C09_rename_lexeme` are satisfiable (the name `sup`, a keyword only under PROPERTY syntax) -/
example : identShaped [115, 117, 112] = true ∧ [115, 117, 112] ∉ litTexts Gen.rules ∧
    kwTok (genCfg maskNew (fun _ _ => false)) [115, 117, 112] = none := by decide +kernel

/-- **Exception set of the renaming theorem (computed).**  The identifier-shaped spellings that are literal rules of
    lexer.l without being keywords — names a user may choose but that the identifier rule never sees: A U R W E. -/
def exceptionNames : List (List Ch) :=
  (litTexts Gen.rules).filter fun l => identShaped l && (kwFind Gen.keywordTable l).isNone

theorem C09_exception_names : exceptionNames = [[65], [85], [82], [87], [69]] := by decide +kernel

/-- every other name is covered: outside `exceptionNames`, a non-keyword identifier-shaped spelling is not a literal -/
theorem C09_rename_full_outside_exceptions (x : List Ch) (hid : identShaped x = true)
    (hk : kwFind Gen.keywordTable x = none) (hx : x ∉ exceptionNames) : x ∉ litTexts Gen.rules := by
  intro hm
  apply hx
  simp only [exceptionNames, List.mem_filter, Bool.and_eq_true, Option.isNone_iff_eq_none]
  exact ⟨hm, hid, hk⟩

/-- **Negation on the witnesses** (`rename:typedef-named-A` …): with a symbol table in which every name is a type,
    `B` is a T_TYPENAME; a name of the exception set is one exactly when its literal rule of lexer.l has been repaired to
    consult `is_type` first (`Gen.softLits`, regenerated from the source: empty on the unrepaired tree, where renaming the
    typedef `B` to `A` therefore changes the token stream beyond the renaming). -/
theorem C09_witness_typedef_named :
    let cfg := genCfg maskNew (fun _ _ => true)
    lex cfg [66] = [.typename [66]] ∧
    ∀ x ∈ exceptionNames, decide (lex cfg x = [.typename x]) = Gen.softLits.contains x := by
  decide +kernel

/-- what the grammar's `NonTypeId` makes of a token: the identifier spelling it stands for -/
def identView : Tok → Option (List Ch)
  | .id s => some s
  | .lit t => (lookup Gen.nonTypeId t).join
  | _ => none

/-- **Soft keywords as non-type names are fine**: every spelling that `NonTypeId` re-admits (A U W R E sup inf bounds
    simulation) lexes — in model syntax and in PROPERTY syntax — to a token that `NonTypeId` turns back into exactly
    that spelling (`M` has no lexer rule: the token 'M' is never produced, the spelling is an ordinary T_ID). -/
theorem C09_softid_roundtrip :
    ∀ p ∈ Gen.nonTypeId, ∀ s, p.2 = some s →
      (lex (genCfg maskNew (fun _ _ => false)) s).map identView = [some s] ∧
      (lex (genCfg Gen.bitPROPERTY (fun _ _ => false)) s).map identView = [some s] := by
  decide +kernel

/-- **Exception set in PROPERTY syntax (computed)**: the spellings `NonTypeId` re-admits that are keywords of a query —
    usable there as plain identifiers (`C09_softid_roundtrip`) but never as type names: sup inf bounds simulation. -/
def queryExceptionNames : List (List Ch) :=
  (Gen.nonTypeId.filterMap (·.2)).filter fun s => (kwTok (genCfg Gen.bitPROPERTY (fun _ _ => false)) s).isSome

theorem C09_query_exception_names :
    queryExceptionNames = [[115, 117, 112], [105, 110, 102], [98, 111, 117, 110, 100, 115],
                           [115, 105, 109, 117, 108, 97, 116, 105, 111, 110]] := by decide +kernel

/-- negation on the witnesses (`rename:query-typedef-named-*`): in a query, with a symbol table in which every name is
    a type, `idx` is a T_TYPENAME but neither the soft keywords nor the one-letter tokens are -/
theorem C09_witness_query_typedef_named :
    let cfg := genCfg Gen.bitPROPERTY (fun _ _ => true)
    lex cfg [105, 100, 120] = [.typename [105, 100, 120]] ∧
    ∀ x ∈ queryExceptionNames ++ exceptionNames, lex cfg x ≠ [.typename x] := by
  decide +kernel

/-! ### renaming, scope half -/

/-- **Renaming, scope half.**  For an injective renaming, a renamed name resolves in the renamed frame chain to the
    same declaration (same frame, same index, same typedef flag) — hence `is_type` answers equivariantly, which is the
    hypothesis `htype` of `C09_rename_lex`. -/
theorem C09_scope_equivariant (ρ : List Ch → List Ch) (hinj : ∀ a b, ρ a = ρ b → a = b) (chain : List Frame) (x : List Ch) :
    resolve (chain.map (renFrame ρ)) (ρ x) = resolve chain x ∧
    isTypeIn (chain.map (renFrame ρ)) (ρ x) = isTypeIn chain x := by
  have key : ∀ (chain : List Frame) (d : Nat), resolve.go (ρ x) (chain.map (renFrame ρ)) d = resolve.go x chain d := by
    intro chain
    induction chain with
    | nil => intro d; rfl
    | cons f rest ih =>
      intro d
      simp only [List.map_cons, resolve.go, Frame.find, find_go_ren ρ hinj x f 0 none]
      cases Frame.find.go x f 0 none with
      | none => exact ih (d + 1)
      | some p => rfl
  have h1 : resolve (chain.map (renFrame ρ)) (ρ x) = resolve chain x := key chain 0
  exact ⟨h1, by simp only [isTypeIn, h1]⟩

/-- injectivity is needed: a non-injective renaming can capture (`b` resolves to the inner declaration after a,b ↦ c) -/
example : ∃ (ρ : List Ch → List Ch) (chain : List Frame) (x : List Ch),
    resolve (chain.map (renFrame ρ)) (ρ x) ≠ resolve chain x :=
  ⟨fun _ => [99], [[([97], false)], [([98], true)]], [98], by decide⟩

/-! ## 3. keyword aliases -/

/-- the parser learns exactly the same about `and`/`&&`, `or`/`||`, `not`/`!`: same precedence line, same
    associativity, same production shape, same callback with the same kind -/
theorem C09_alias_and : litInfo genTables Gen.T_KW_AND = litInfo genTables Gen.T_BOOL_AND := by decide +kernel
theorem C09_alias_or : litInfo genTables Gen.T_KW_OR = litInfo genTables Gen.T_BOOL_OR := by decide +kernel
theorem C09_alias_not : litInfo genTables Gen.T_KW_NOT = litInfo genTables Gen.T_EXCLAM := by decide +kernel

/-- the grammar contexts of a token: every occurrence in ANY production of parser.y (regenerated), as
    `LHS: alternative with the occurrence written @` -/
def aliasCtx (t : TokId) : List String := ((Gen.aliasContexts.find? (fun p => p.1 == t)).map (·.2)).getD []

/-- the one grammar context in which `!` is not the negation operator: the send half of a synchronisation (`c!`);
    hand-written, independent of the generated table -/
def bangIsSend (c : String) : Bool := c.startsWith "SyncExpr: "

/-- **Aliases, whole grammar.**  Outside `Expression` too (query forms such as `A[] (p and A<> q)`), a keyword alias and its
    symbolic twin occur in exactly the same productions at the same positions with the same actions -- so replacing one by
    the other cannot change which production fires anywhere in the grammar. -/
theorem C09_alias_contexts :
    aliasCtx Gen.T_KW_AND = aliasCtx Gen.T_BOOL_AND ∧ aliasCtx Gen.T_KW_OR = aliasCtx Gen.T_BOOL_OR ∧
    aliasCtx Gen.T_KW_NOT = (aliasCtx Gen.T_EXCLAM).filter (fun c => !bangIsSend c) ∧
    aliasCtx Gen.T_KW_AND ≠ [] ∧ aliasCtx Gen.T_KW_OR ≠ [] ∧ aliasCtx Gen.T_KW_NOT ≠ [] := by decide +kernel

/-- `:=` and `=` are the same token already in the lexer -/
theorem C09_alias_assign :
    lex (genCfg maskNew (fun _ _ => false)) [58, 61] = lex (genCfg maskNew (fun _ _ => false)) [61] ∧
    lex (genCfg maskNew (fun _ _ => false)) [61] = [.lit Gen.T_ASSIGNMENT] := by decide +kernel

/-- the keyword spellings and the symbolic spellings lex to the tokens named above -/
theorem C09_alias_lex :
    let cfg := genCfg maskNew (fun _ _ => false)
    lex cfg [97, 110, 100] = [.lit Gen.T_KW_AND] ∧ lex cfg [38, 38] = [.lit Gen.T_BOOL_AND] ∧
    lex cfg [111, 114] = [.lit Gen.T_KW_OR] ∧ lex cfg [124, 124] = [.lit Gen.T_BOOL_OR] ∧
    lex cfg [110, 111, 116] = [.lit Gen.T_KW_NOT] ∧ lex cfg [33] = [.lit Gen.T_EXCLAM] := by decide +kernel

/-- **the keyword operators are operators in every syntax**: in the 3.x syntax (`newxta = false`) and in the property syntax the
    words `and`, `or`, `not` lex to the same tokens as in the 4.x syntax (and the symbolic spellings to theirs), so that
    `C09_alias_and/or/not`, `C09_alias_contexts` and `C09_alias_trace` -- statements about tokens -- speak about the texts of those
    syntaxes too.  (The keyword table carries one syntax mask per word; this is the statement that none of the three lacks a bit.) -/
theorem C09_alias_lex_old :
    let cfg := genCfg maskOld (fun _ _ => false)
    lex cfg [97, 110, 100] = [.lit Gen.T_KW_AND] ∧ lex cfg [38, 38] = [.lit Gen.T_BOOL_AND] ∧
    lex cfg [111, 114] = [.lit Gen.T_KW_OR] ∧ lex cfg [124, 124] = [.lit Gen.T_BOOL_OR] ∧
    lex cfg [110, 111, 116] = [.lit Gen.T_KW_NOT] ∧ lex cfg [33] = [.lit Gen.T_EXCLAM] := by decide +kernel
theorem C09_alias_lex_property :
    let cfg := genCfg Gen.bitPROPERTY (fun _ _ => false)
    lex cfg [97, 110, 100] = [.lit Gen.T_KW_AND] ∧ lex cfg [38, 38] = [.lit Gen.T_BOOL_AND] ∧
    lex cfg [111, 114] = [.lit Gen.T_KW_OR] ∧ lex cfg [124, 124] = [.lit Gen.T_BOOL_OR] ∧
    lex cfg [110, 111, 116] = [.lit Gen.T_KW_NOT] ∧ lex cfg [33] = [.lit Gen.T_EXCLAM] := by decide +kernel

/-- replace the alias tokens by their symbolic twins -/
def aliasSubst : Tok → Tok
  | .lit t => if t = Gen.T_KW_AND then .lit Gen.T_BOOL_AND else if t = Gen.T_KW_OR then .lit Gen.T_BOOL_OR
              else if t = Gen.T_KW_NOT then .lit Gen.T_EXCLAM else .lit t
  | t => t

/-- the same non-vacuity example in the 3.x syntax: `a and not b or c` lexes to the tokens of `a && !b || c` up to `aliasSubst` -/
example :
    let cfg := genCfg maskOld (fun _ _ => false)
    (lex cfg [97, 32, 97, 110, 100, 32, 110, 111, 116, 32, 98, 32, 111, 114, 32, 99]).map aliasSubst =
      lex cfg [97, 32, 38, 38, 32, 33, 98, 32, 124, 124, 32, 99] := by decide +kernel

/-- **Aliases.**  The operator parser sees a token only through its `Info`; a substitution of tokens that preserves
    `Info` therefore preserves the callback trace — for ANY token stream (complete expression or not). -/
theorem C09_alias_trace_general (T : Tables) (f : Tok → Tok) (h : ∀ t, tokInfo T (f t) = tokInfo T t) (toks : List Tok) :
    opsTraceT T (toks.map f) = opsTraceT T toks := by
  simp only [opsTraceT, mapM_map_info T f h toks]

theorem C09_alias_trace (toks : List Tok) : opsTraceT genTables (toks.map aliasSubst) = opsTraceT genTables toks := by
  apply C09_alias_trace_general
  intro t
  cases t with
  | lit t =>
    simp only [aliasSubst]
    split
    · rename_i e; subst e; simp only [tokInfo, C09_alias_and]
    · split
      · rename_i e; subst e; simp only [tokInfo, C09_alias_or]
      · split
        · rename_i e; subst e; simp only [tokInfo, C09_alias_not]
        · rfl
  | _ => rfl

/-- non-vacuity: `a and not b or c` and `a && !b || c` have the same, non-trivial, trace -/
example :
    let cfg := genCfg maskNew (fun _ _ => false)
    -- "a and not b or c"
    let t1 := lex cfg [97, 32, 97, 110, 100, 32, 110, 111, 116, 32, 98, 32, 111, 114, 32, 99]
    -- "a && !b || c"
    let t2 := lex cfg [97, 32, 38, 38, 32, 33, 98, 32, 124, 124, 32, 99]
    t1.map aliasSubst = t2 ∧
    opsTraceT genTables t1 = some ["expr_identifier a", "expr_identifier b", "expr_unary NOT", "expr_binary AND",
                                   "expr_identifier c", "expr_binary OR"] := by decide +kernel

/-! ## 4. redundant parentheses -/

open Pratt in
/-- **Parentheses.**  Let `t` be an expression tree that is well-formed for a precedence table (i.e. it is the tree the
    table assigns to its own token string), and `t'` the same tree with ANY number of additional parenthesis nodes
    around ANY sub-expressions.  Then the precedence-climbing parser yields the same callback trace `val t` for both
    token strings.  (Scope: atoms, prefix operators with a `%prec` level, binary operators of a `%left/%right` table,
    parentheses.  Postfix operators, `?:`, calls, indexing and quantifiers are covered for parentheses only by the
    metamorphic runs on the real library and the trace correspondence of the larger `C09Ops` model.) -/
theorem C09_paren (T : Tbl) (hT : T.Consistent) (t t' : PExpr) (hw : WF T 0 t) (hx : ParenExt t t') :
    ∃ f, ∀ g, f ≤ g → Pratt.parseE T g 0 (toks t') = some (val t, []) ∧ Pratt.parseE T g 0 (toks t) = some (val t, []) := by
  obtain ⟨f1, h1⟩ := roundtrip T hT t hw
  obtain ⟨f2, h2⟩ := roundtrip T hT t' (parenExt_wf T hx 0 hw)
  refine ⟨max f1 f2, fun g hg => ⟨?_, h1 g (by omega)⟩⟩
  rw [← parenExt_val hx]
  exact h2 g (by omega)

/- `genTbl` (Model/C09GenTbl.lean): the table of the current parser.y as a `Pratt.Tbl` — level = index of the
   `%left/%right` line, associativity = that line's. -/
theorem genTbl_consistent : genTbl.Consistent := by
  constructor
  · intro o o' h
    simp only [genTbl] at h ⊢
    rw [h]
  · intro o p h
    simp only [genTbl] at h ⊢
    rw [h]

/-- `genTbl.rassoc` is the associativity bison uses for every token of every precedence line -/
theorem genTbl_faithful :
    ∀ la ∈ Gen.precLevels, ∀ t ∈ la.2, levelOf Gen.precLevels t = some (genTbl.bp t, la.1) ∧
      genTbl.rassoc t = (la.1 == .right) ∧ genTbl.prassoc t = true ∧ levelNo Gen.UOPERATOR = 21 := by
  decide +kernel

/-- the production `'(' Expression ')'` fires no callback (the translator refuses any action there) -/
theorem C09_paren_production_silent : Gen.parenCallbacks = [] := rfl

theorem C09_paren_utap (t t' : Pratt.PExpr) (hw : Pratt.WF genTbl 0 t) (hx : Pratt.ParenExt t t') :
    ∃ f, ∀ g, f ≤ g → Pratt.parseE genTbl g 0 (Pratt.toks t') = some (Pratt.val t, []) ∧
      Pratt.parseE genTbl g 0 (Pratt.toks t) = some (Pratt.val t, []) :=
  C09_paren genTbl genTbl_consistent t t' hw hx

open Pratt in
/-- the hypotheses are satisfiable by a non-trivial value: `a + b * c` and `((a) + (b * (c)))` -/
example :
    let t : PExpr := .bin Gen.T_PLUS (.atom 1) (.bin Gen.T_MULT (.atom 2) (.atom 3))
    let t' : PExpr := .paren (.bin Gen.T_PLUS (.paren (.atom 1)) (.paren (.bin Gen.T_MULT (.atom 2) (.paren (.atom 3)))))
    WF genTbl 0 t ∧ ParenExt t t' ∧ val t = [.at 1, .at 2, .at 3, .bi Gen.T_MULT, .bi Gen.T_PLUS] := by
  refine ⟨?_, ?_, rfl⟩
  · simp only [WF]; decide +kernel
  · exact .wrap (.bin _ (.wrap (.atom 1)) (.wrap (.bin _ (.atom 2) (.wrap (.atom 3)))))

end UtapModel.C09.Props
