/- Helper lemmas for Props/C14.lean and Props/C10.lean: finite quantification over `TK`, `type_t::is` on leaf kinds is
   a function of the terminal kind, symmetry of the regenerated recursive rules (by induction on the fuel). -/
import UtapModel.Lemmas.TypeBasics
namespace UtapModel.C14
open UtapModel.Types UtapModel.TypeClauses UtapModel.TypeBasics

set_option linter.unusedSimpArgs false


/-! ### `isSameScalarType` is symmetric (strong induction on the fuel)

`W t` is the wrapper test both operands are supposed to get: kind REF, CONSTANT or SYSTEM_META.  `body_W2` is where
the unfixed tree fails (it tests `EF` -- a kind no type node carries -- instead of `REF` for the second operand). -/
def W (t : Ty) : Bool := t.kind == .REF || t.kind == .CONSTANT || t.kind == .SYSTEM_META

theorem body_W1 (self) (t1 t2) (h : W t1 = true) : isSameScalarTypeBody self t1 t2 = self (t1.child 0) t2 := by
  simp only [W] at h
  simp only [isSameScalarTypeBody, h, if_true]

theorem body_W2 (self) (t1 t2) (h1 : W t1 = false) (h : W t2 = true) :
    isSameScalarTypeBody self t1 t2 = self t1 (t2.child 0) := by
  simp only [W] at h h1
  simp only [isSameScalarTypeBody, h, h1, if_true]
  simp

theorem body_W0 (self) (hs : ∀ x y, self x y = self y x) (t1 t2) (h1 : W t1 = false) (h2 : W t2 = false) :
    isSameScalarTypeBody self t1 t2 = isSameScalarTypeBody self t2 t1 := by
  simp only [W] at h1 h2
  simp only [isSameScalarTypeBody, h1, h2]
  simp only [hs (t2.child 0) (t1.child 0), Bool.and_comm (t2.kind == _), Bool.false_eq_true, if_false,
    BEq.comm (a := t2.getLabel 0), BEq.comm (a := (t2.getRange).1), BEq.comm (a := (t2.getRange).2)]

theorem sstF_symm : ∀ n, ∀ m, m ≤ n → ∀ t1 t2, isSameScalarTypeF m t1 t2 = isSameScalarTypeF m t2 t1 := by
  intro n
  induction n with
  | zero => intro m hm t1 t2; have : m = 0 := by omega
            subst this; rfl
  | succ n ih =>
    intro m hm t1 t2
    cases m with
    | zero => rfl
    | succ m =>
      have ihm := ih m (by omega)
      simp only [isSameScalarTypeF]
      cases h1 : W t1 <;> cases h2 : W t2
      · exact body_W0 _ (ihm) t1 t2 h1 h2
      · rw [body_W2 _ t1 t2 h1 h2, body_W1 _ t2 t1 h2]; exact ihm _ _
      · rw [body_W1 _ t1 t2 h1, body_W2 _ t2 t1 h2 h1]; exact ihm _ _
      · rw [body_W1 _ t1 t2 h1, body_W1 _ t2 t1 h2, ihm (t1.child 0) t2]
        cases m with
        | zero => rfl
        | succ k =>
          have ihk := ih k (by omega)
          simp only [isSameScalarTypeF]
          rw [body_W1 _ t2 _ h2]
          have := ihm (t2.child 0) t1
          simp only [isSameScalarTypeF] at this
          rw [this, body_W1 _ t1 _ h1]
          exact ihk _ _

theorem isSameScalarType_symm' (t1 t2 : Ty) : isSameScalarType t1 t2 = isSameScalarType t2 t1 := by
  simp only [isSameScalarType, Nat.add_comm t2.size]
  exact sstF_symm _ _ (Nat.le_refl _) t1 t2

/-! ### `areEquivalent` is symmetric -/
theorem areEquivalentBody_symm (self) (hs : ∀ x y, self x y = self y x) (a b : Ty) :
    areEquivalentBody self a b = areEquivalentBody self b a := by
  have hss := isSameScalarType_symm'
  simp only [areEquivalentBody]
  simp only [Bool.and_comm (ty_is_integer b), Bool.and_comm (ty_isBoolean b), Bool.and_comm (ty_is_clock b), Bool.and_comm (ty_is_channel b),
    Bool.and_comm (ty_is_record b), Bool.and_comm (ty_is_array b), Bool.and_comm (ty_is_scalar b), Bool.and_comm (ty_is_double b),
    Bool.and_comm (ty_is_string b), Bool.and_comm (ty_is_integer b.getArraySize), Bool.and_comm (ty_is_scalar b.getArraySize),
    hs (b.getSub) (a.getSub), hss b a, hss b.getArraySize a.getArraySize, hs (b.getSubI _) (a.getSubI _),
    BEq.comm (a := b.getRange.1), BEq.comm (a := b.getRange.2), BEq.comm (a := b.getArraySize.getRange.1), BEq.comm (a := b.getArraySize.getRange.2),
    BEq.comm (a := channelCapability b), BEq.comm (a := b.getRecordSize), bne_comm (a := b.getRecordLabel _),
    Bool.or_comm (!b.is TK.RANGE)]
  by_cases hsz : a.getRecordSize = b.getRecordSize
  · rw [hsz]
  · simp [hsz]

theorem areEquivalentF_symm : ∀ n a b, areEquivalentF n a b = areEquivalentF n b a := by
  intro n
  induction n with
  | zero => intro a b; rfl
  | succ n ih => intro a b; simp only [areEquivalentF]; exact areEquivalentBody_symm _ ih a b

theorem areEquivalent_symm' (a b : Ty) : areEquivalent a b = areEquivalent b a := by
  simp only [areEquivalent, Nat.add_comm b.size]
  exact areEquivalentF_symm _ a b

theorem areEqCompatible_symm' (a b : Ty) : areEqCompatible a b = areEqCompatible b a := by
  simp only [areEqCompatible, areEquivalent_symm' b a, Bool.and_comm (ty_is_integral b), Bool.and_comm (b.is _)]


/-! ### facts about `areEquivalent` used by the inline-if theorem -/
theorem areEquivalent_double_left (a : Ty) : areEquivalent (.prim .DOUBLE) a = (a.term == .DOUBLE) := by
  simp only [areEquivalent, Ty.size, Nat.add_comm 1, areEquivalentF, areEquivalentBody]
  unfold_type_preds
  simp (disch := decide) only [is_term, term_prim]
  simp
  generalize a.term = k; cases k <;> rfl

theorem areEquivalent_unknown_left (a : Ty) : areEquivalent Ty.unknown a = false := by
  simp only [areEquivalent, Ty.unknown, Ty.size, Nat.add_comm 1, areEquivalentF, areEquivalentBody]
  unfold_type_preds
  simp (disch := decide) only [is_term, term_prim]
  simp

theorem kind_unknown_term (a : Ty) (h : a.kind = .UNKNOWN) : a.term = .UNKNOWN := by
  cases a <;> simp_all [Ty.kind, Ty.term]
  rename_i p t; cases p <;> simp_all [Pfx.toTK]

/-- an inline-if whose result type has been chosen -/
def chk (T a b : Ty) : Option Ty := if (!(areInlineIfCompatible T a b)) then none else finish T false

theorem inlineIf_eq (c a b : Ty) :
    inlineIf c a b = if (!((h_is_integral c) || (h_is_guard c))) then none else chk (getInlineIfCommonType a b) a b := by
  rfl



def eqCls : TK → Bool
  | .INT | .BOOL | .CLOCK | .CHANNEL | .RECORD | .ARRAY | .SCALAR | .DOUBLE | .STRING => true
  | _ => false

def intK (k : TK) : Bool := ty_is_integral (.prim k)
/-- `areAssignmentCompatible x y false` as a function of the two terminal kinds and of `areEquivalent x y` -/
def acK (kx ky : TK) (e : Bool) : Bool :=
  ((kx == .CLOCK || kx == .DOUBLE) && (intK ky || ky == .DOUBLE || ky == .CLOCK)) || (intK kx && intK ky) || e

theorem AC_term (x y : Ty) : areAssignmentCompatible x y false = acK x.term y.term (areEquivalent x y) := by
  simp only [areAssignmentCompatible, acK, intK]
  unfold_type_preds
  simp (disch := decide) only [is_term, term_prim]
  generalize x.term = kx; generalize y.term = ky; generalize areEquivalent x y = e
  revert kx ky e; decide

theorem areEquivalentBody_term (self) (a b : Ty) (h : areEquivalentBody self a b = true) :
    a.term = b.term ∧ eqCls a.term = true := by
  simp only [areEquivalentBody] at h
  unfold_type_preds at h
  simp (disch := decide) only [is_term] at h
  repeat' split at h
  all_goals first
    | (exfalso; simp at h; done)
    | (simp_all [eqCls]; done)

theorem areEquivalent_term (a b : Ty) (h : areEquivalent a b = true) : a.term = b.term ∧ eqCls a.term = true := by
  unfold areEquivalent at h
  generalize a.size + b.size = n at h
  cases n with
  | zero => simp [areEquivalentF] at h
  | succ n => exact areEquivalentBody_term _ a b h

def obs (r : Option Ty) : Option TK := r.map Ty.term


/-- result-kind pairs on which the unchanged rules are NOT symmetric: two different integral kinds (the common type of
    an inline-if with two integral branches is the type of its *first* branch) -/
def kindExceptions : List (TK × TK) :=
  (TK.all.filter intK).flatMap fun k1 => ((TK.all.filter intK).filter (· != k1)).map fun k2 => (k1, k2)

/-- EXCEPTION SET (computed from the regenerated rules, on primitive branch types): ordered pairs of result kinds
    (k1, k2), k1 ≠ k2, such that `b ? <k1> : <k2>` and `b ? <k2> : <k1>` are both accepted with result kinds k1' ≠ k2'. -/
def exactKindExceptions : List (TK × TK) :=
  TK.all.flatMap fun ka => (TK.all.filterMap fun kb =>
    match obs (inlineIf (.prim .BOOL) (.prim ka) (.prim kb)), obs (inlineIf (.prim .BOOL) (.prim kb) (.prim ka)) with
    | some r1, some r2 => if r1 != r2 then some (r1, r2) else none
    | _, _ => none)

def agree (x y : Option TK) : Bool :=
  x == y || (match x, y with
    | some k1, some k2 => kindExceptions.contains (k1, k2)
    | _, _ => false)

theorem obs_some (t : Ty) : obs (some t) = some t.term := rfl
theorem obs_none : obs none = none := rfl

theorem isUnknown_term (a : Ty) (h : a.isUnknown = true) : a.term = .UNKNOWN := by
  apply kind_unknown_term; simpa [Ty.isUnknown] using h

set_option maxRecDepth 100000 in
theorem iif_core (a b : Ty) :
    agree (obs (chk (getInlineIfCommonType a b) a b)) (obs (chk (getInlineIfCommonType b a) b a)) = true := by
  have hE : areEquivalent a b = true → a.term = b.term ∧ eqCls a.term = true := areEquivalent_term a b
  have hua := isUnknown_term a
  have hub := isUnknown_term b
  simp only [getInlineIfCommonType, apply_ite (fun T => chk T a b), apply_ite (fun T => chk T b a)]
  simp only [chk, areInlineIfCompatible, AC_term, finish, areEquivalent_symm' b a,
    areEquivalent_double_left, areEquivalent_unknown_left, ty_is_record, ty_is_clock]
  simp (disch := decide) only [is_term, term_prim]
  simp only [apply_ite obs, obs_some, obs_none, term_prim]
  have hd : (Ty.prim TK.DOUBLE).isUnknown = false := rfl
  have hu : Ty.unknown.isUnknown = true := rfl
  have hut : Ty.unknown.term = .UNKNOWN := rfl
  rw [hd, hu, hut]
  generalize a.term = ka at *
  generalize b.term = kb at *
  generalize areEquivalent a b = eab at *
  generalize areEquivalent a a = eaa at *
  generalize areEquivalent b b = ebb at *
  generalize a.isUnknown = ua at *
  generalize b.isUnknown = ub at *
  revert ka kb eab eaa ebb ua ub
  decide +kernel

/-! ### binary operators: outside EQ / NEQ the verdict depends on the terminal kinds only -/
theorem typeBin_prims (op : BinOp) (h : op ≠ .EQ ∧ op ≠ .NEQ) (a b : Ty) :
    typeBin op a b = typeBin op (.prim a.term) (.prim b.term) := by
  cases op <;> first
    | (exfalso; simp at h; done)
    | (unfold_type_cases; unfold_type_preds; simp (disch := decide) only [is_term, term_prim])

theorem typeUn_prims (op : UnOp) (a : Ty) : typeUn op a = typeUn op (.prim a.term) := by
  cases op <;> (unfold_type_cases; unfold_type_preds; simp (disch := decide) only [is_term, term_prim])

theorem typeQuant_prims (op : QOp) (a : Ty) : typeQuant op a = typeQuant op (.prim a.term) := by
  cases op <;> (unfold_type_cases; unfold_type_preds; simp (disch := decide) only [is_term, term_prim])

theorem typeBin_EQ_symm (a b : Ty) : typeBin .EQ a b = typeBin .EQ b a := by
  unfold_type_cases; unfold_type_preds
  simp (disch := decide) only [is_term, areEqCompatible_symm' b a]
  generalize a.term = ka; generalize b.term = kb; generalize areEqCompatible a b = e
  revert ka kb e; decide

theorem typeBin_NEQ_symm (a b : Ty) : typeBin .NEQ a b = typeBin .NEQ b a := by
  unfold_type_cases; unfold_type_preds
  simp (disch := decide) only [is_term, areEqCompatible_symm' b a]
  generalize a.term = ka; generalize b.term = kb; generalize areEqCompatible a b = e
  revert ka kb e; decide

/-! ### well-formed types, sizes -/
mutual
  /-- a childless node carries a kind that has no children in `type_t` either -/
  def wfTy : Ty → Bool
    | .prim k => TK.leaf k && k != .ARRAY && k != .RECORD
    | .pfx _ t => wfTy t
    | .ref t => wfTy t
    | .label _ t => wfTy t
    | .range t _ _ => wfTy t
    | .array e s => wfTy e && wfTy s
    | .record fs => wfFields fs
  def wfFields : Fields → Bool
    | .nil => true
    | .cons _ t r => wfTy t && wfFields r
end

theorem size_pos (t : Ty) : 0 < t.size := by cases t <;> simp [Ty.size] <;> omega

theorem fieldTy_wf : ∀ (fs : Fields) (i : Nat), wfFields fs = true → wfTy (Ty.fieldTy fs i) = true
  | .nil, _, _ => by simp [Ty.fieldTy, Ty.unknown, wfTy, TK.leaf]
  | .cons _ t _, 0, h => by simp only [wfFields, Bool.and_eq_true] at h; simpa [Ty.fieldTy] using h.1
  | .cons _ _ r, i + 1, h => by
      simp only [wfFields, Bool.and_eq_true] at h
      simpa [Ty.fieldTy] using fieldTy_wf r i h.2

theorem fieldTy_lt : ∀ (fs : Fields) (i : Nat), i < fs.length → (Ty.fieldTy fs i).size < Ty.fieldsSize fs + 1
  | .nil, _, h => by simp [Fields.length] at h
  | .cons _ t r, 0, _ => by simp [Ty.fieldTy, Ty.fieldsSize]; omega
  | .cons _ t r, i + 1, h => by
      have := fieldTy_lt r i (by simpa [Fields.length] using h)
      simp [Ty.fieldTy, Ty.fieldsSize]; omega

theorem unknown_wf : wfTy Ty.unknown = true := by decide

theorem child0_wf (t : Ty) (h : wfTy t = true) : wfTy (t.child 0) = true := by
  cases t with
  | prim k => exact unknown_wf
  | pfx p t => simpa [Ty.child, wfTy] using h
  | ref t => simpa [Ty.child, wfTy] using h
  | label n t => simpa [Ty.child, wfTy] using h
  | range t lo hi => simpa [Ty.child, wfTy] using h
  | array e s => simp only [wfTy, Bool.and_eq_true] at h; simpa [Ty.child] using h.1
  | record fs => simpa [Ty.child] using fieldTy_wf fs 0 (by simpa [wfTy] using h)

/-- the kinds `isSameScalarType` recurses through all have a (smaller) first child -/
theorem child0_lt (t : Ty) (hwf : wfTy t = true)
    (hk : t.kind = .REF ∨ t.kind = .CONSTANT ∨ t.kind = .SYSTEM_META ∨ t.kind = .LABEL ∨ t.kind = .RANGE) :
    (t.child 0).size < t.size := by
  cases t with
  | prim k =>
    simp only [Ty.kind] at hk
    simp only [wfTy, Bool.and_eq_true] at hwf
    rcases hk with h | h | h | h | h <;> (subst h; simp [TK.leaf] at hwf)
  | pfx p t => simp [Ty.child, Ty.size]
  | ref t => simp [Ty.child, Ty.size]
  | label n t => simp [Ty.child, Ty.size]
  | range t lo hi => simp [Ty.child, Ty.size]
  | array e s => simp [Ty.kind] at hk
  | record fs => simp [Ty.kind] at hk

theorem W_kind (t : Ty) (h : W t = true) : t.kind = .REF ∨ t.kind = .CONSTANT ∨ t.kind = .SYSTEM_META ∨ t.kind = .LABEL ∨ t.kind = .RANGE := by
  simp only [W, Bool.or_eq_true, beq_iff_eq] at h
  rcases h with (h | h) | h
  · exact Or.inl h
  · exact Or.inr (Or.inl h)
  · exact Or.inr (Or.inr (Or.inl h))

/-! ### the fuel of `isSameScalarType` is adequate -/
theorem sstBody_congr (r r' : Ty → Ty → Bool) (t1 t2 : Ty) (w1 : wfTy t1 = true) (w2 : wfTy t2 = true)
    (h : ∀ x y, wfTy x = true → wfTy y = true → x.size + y.size < t1.size + t2.size → r x y = r' x y) :
    isSameScalarTypeBody r t1 t2 = isSameScalarTypeBody r' t1 t2 := by
  cases h1 : W t1
  · cases h2 : W t2
    · simp only [W] at h1 h2
      simp only [isSameScalarTypeBody, h1, h2, Bool.false_eq_true, if_false]
      by_cases hl : (t1.kind == TK.LABEL && t2.kind == TK.LABEL) = true
      · simp only [hl, if_true]
        simp only [Bool.and_eq_true, beq_iff_eq] at hl
        have a1 := child0_lt t1 w1 (by simp [hl.1])
        have a2 := child0_lt t2 w2 (by simp [hl.2])
        rw [h _ _ (child0_wf t1 w1) (child0_wf t2 w2) (by omega)]
      · simp only [hl, Bool.false_eq_true, if_false]
        by_cases hr : (t1.kind == TK.RANGE && t2.kind == TK.RANGE) = true
        · simp only [hr, if_true]
          simp only [Bool.and_eq_true, beq_iff_eq] at hr
          have a1 := child0_lt t1 w1 (by simp [hr.1])
          have a2 := child0_lt t2 w2 (by simp [hr.2])
          rw [h _ _ (child0_wf t1 w1) (child0_wf t2 w2) (by omega)]
        · simp only [hr, Bool.false_eq_true, if_false]
    · rw [body_W2 _ t1 t2 h1 h2, body_W2 _ t1 t2 h1 h2]
      have a2 := child0_lt t2 w2 (W_kind t2 h2)
      exact h _ _ w1 (child0_wf t2 w2) (by omega)
  · rw [body_W1 _ t1 t2 h1, body_W1 _ t1 t2 h1]
    have a1 := child0_lt t1 w1 (W_kind t1 h1)
    exact h _ _ (child0_wf t1 w1) w2 (by omega)

theorem sstF_adequate : ∀ n m t1 t2, wfTy t1 = true → wfTy t2 = true → t1.size + t2.size ≤ n → n ≤ m →
    isSameScalarTypeF n t1 t2 = isSameScalarTypeF m t1 t2 := by
  intro n
  induction n with
  | zero => intro m t1 t2 _ _ hs _; have := size_pos t1; omega
  | succ n ih =>
    intro m t1 t2 w1 w2 hs hm
    cases m with
    | zero => omega
    | succ m =>
      simp only [isSameScalarTypeF]
      exact sstBody_congr _ _ t1 t2 w1 w2 (fun x y wx wy hlt => ih m x y wx wy (by omega) (by omega))

/-! ### ... and so is the fuel of `areEquivalent` -/
theorem getSubI_wf : ∀ (t : Ty) (i : Nat), wfTy t = true → wfTy (t.getSubI i) = true
  | .prim _, _, _ => unknown_wf
  | .pfx p t, i, h => by simpa [Ty.getSubI, wfTy] using getSubI_wf t i (by simpa [wfTy] using h)
  | .ref t, i, h => by simpa [Ty.getSubI] using getSubI_wf t i (by simpa [wfTy] using h)
  | .label _ t, i, h => by simpa [Ty.getSubI] using getSubI_wf t i (by simpa [wfTy] using h)
  | .range t lo hi, i, h => by
      cases i with
      | zero => simpa [Ty.getSubI, Ty.child, wfTy] using h
      | succ i => simpa [Ty.getSubI, Ty.child] using unknown_wf
  | .array e s, i, h => by
      simp only [wfTy, Bool.and_eq_true] at h
      match i with
      | 0 => simpa [Ty.getSubI, Ty.child] using h.1
      | 1 => simpa [Ty.getSubI, Ty.child] using h.2
      | _ + 2 => simpa [Ty.getSubI, Ty.child] using unknown_wf
  | .record fs, i, h => by simpa [Ty.getSubI] using fieldTy_wf fs i (by simpa [wfTy] using h)

theorem getSub_wf : ∀ (t : Ty), wfTy t = true → wfTy t.getSub = true
  | .prim _, _ => unknown_wf
  | .pfx p t, h => by simpa [Ty.getSub, wfTy] using getSub_wf t (by simpa [wfTy] using h)
  | .ref t, h => by simpa [Ty.getSub] using getSub_wf t (by simpa [wfTy] using h)
  | .label _ t, h => by simpa [Ty.getSub] using getSub_wf t (by simpa [wfTy] using h)
  | .range t _ _, h => by simpa [Ty.getSub, wfTy] using h
  | .array e s, h => by simp only [wfTy, Bool.and_eq_true] at h; simpa [Ty.getSub] using h.1
  | .record fs, h => by simpa [Ty.getSub] using fieldTy_wf fs 0 (by simpa [wfTy] using h)

theorem getArraySize_wf : ∀ (t : Ty), wfTy t = true → wfTy t.getArraySize = true
  | .prim _, _ => unknown_wf
  | .pfx p t, h => by simpa [Ty.getArraySize] using getArraySize_wf t (by simpa [wfTy] using h)
  | .ref t, h => by simpa [Ty.getArraySize] using getArraySize_wf t (by simpa [wfTy] using h)
  | .label _ t, h => by simpa [Ty.getArraySize] using getArraySize_wf t (by simpa [wfTy] using h)
  | .range _ _ _, _ => unknown_wf
  | .array e s, h => by simp only [wfTy, Bool.and_eq_true] at h; simpa [Ty.getArraySize] using h.2
  | .record fs, h => by simpa [Ty.getArraySize] using fieldTy_wf fs 1 (by simpa [wfTy] using h)

theorem getSubI_lt : ∀ (t : Ty) (i : Nat), wfTy t = true → t.is .RECORD = true → i < t.getRecordSize →
    (t.getSubI i).size < t.size
  | .prim k, i, _, _, hi => by simp [Ty.getRecordSize] at hi
  | .pfx p t, i, w, hr, hi => by
      have hr' : t.is .RECORD = true := by
        cases p <;> simpa [Ty.is, Pfx.toTK] using hr
      have := getSubI_lt t i (by simpa [wfTy] using w) hr' (by simpa [Ty.getRecordSize] using hi)
      simp [Ty.getSubI, Ty.size]; omega
  | .ref t, i, w, hr, hi => by
      have := getSubI_lt t i (by simpa [wfTy] using w) (by simpa [Ty.is] using hr) (by simpa [Ty.getRecordSize] using hi)
      simp [Ty.getSubI, Ty.size]; omega
  | .label _ t, i, w, hr, hi => by
      have := getSubI_lt t i (by simpa [wfTy] using w) (by simpa [Ty.is] using hr) (by simpa [Ty.getRecordSize] using hi)
      simp [Ty.getSubI, Ty.size]; omega
  | .range t lo hi', i, w, hr, hi => by
      have := size_pos t
      cases i with
      | zero => simp [Ty.getSubI, Ty.child, Ty.size]
      | succ i => simp [Ty.getSubI, Ty.child, Ty.size, Ty.unknown]; omega
  | .array e s, i, _, hr, _ => by simp [Ty.is] at hr
  | .record fs, i, _, _, hi => by
      have := fieldTy_lt fs i (by simpa [Ty.getRecordSize] using hi)
      simpa [Ty.getSubI, Ty.size] using this

theorem getSub_lt : ∀ (t : Ty), wfTy t = true → t.is .ARRAY = true → t.getSub.size < t.size
  | .prim k, w, ha => by
      simp only [Ty.is, beq_iff_eq] at ha
      subst ha
      simp [wfTy] at w
  | .pfx p t, w, ha => by
      have ha' : t.is .ARRAY = true := by
        cases p <;> simpa [Ty.is, Pfx.toTK] using ha
      have := getSub_lt t (by simpa [wfTy] using w) ha'
      simp [Ty.getSub, Ty.size]; omega
  | .ref t, w, ha => by
      have := getSub_lt t (by simpa [wfTy] using w) (by simpa [Ty.is] using ha)
      simp [Ty.getSub, Ty.size]; omega
  | .label _ t, w, ha => by
      have := getSub_lt t (by simpa [wfTy] using w) (by simpa [Ty.is] using ha)
      simp [Ty.getSub, Ty.size]; omega
  | .range t _ _, _, _ => by simp [Ty.getSub, Ty.size]
  | .array e s, _, _ => by simp [Ty.getSub, Ty.size]; omega
  | .record fs, _, ha => by simp [Ty.is] at ha

theorem any_congr' {α : Type} (l : List α) (f g : α → Bool) (h : ∀ x ∈ l, f x = g x) : l.any f = l.any g := by
  induction l with
  | nil => rfl
  | cons x xs ih =>
    simp only [List.any_cons, h x (by simp)]
    rw [ih (fun y hy => h y (by simp [hy]))]

theorem aeBody_congr (r r' : Ty → Ty → Bool) (a b : Ty) (wa : wfTy a = true) (wb : wfTy b = true)
    (h : ∀ x y, wfTy x = true → wfTy y = true → x.size + y.size < a.size + b.size → r x y = r' x y) :
    areEquivalentBody r a b = areEquivalentBody r' a b := by
  simp only [areEquivalentBody]
  by_cases hrec : (ty_is_record a && ty_is_record b) = true
  · have hra : a.is .RECORD = true := by simp only [Bool.and_eq_true, ty_is_record] at hrec; exact hrec.1
    have hrb : b.is .RECORD = true := by simp only [Bool.and_eq_true, ty_is_record] at hrec; exact hrec.2
    by_cases hsz : a.getRecordSize = b.getRecordSize
    · have hany : ((List.range a.getRecordSize).any fun i_i =>
            (a.getRecordLabel i_i != b.getRecordLabel i_i || !r (a.getSubI i_i) (b.getSubI i_i))) =
          ((List.range a.getRecordSize).any fun i_i =>
            (a.getRecordLabel i_i != b.getRecordLabel i_i || !r' (a.getSubI i_i) (b.getSubI i_i))) := by
        apply any_congr'
        intro i hi
        have hia : i < a.getRecordSize := List.mem_range.mp hi
        have l1 := getSubI_lt a i wa hra hia
        have l2 := getSubI_lt b i wb hrb (by omega)
        rw [h _ _ (getSubI_wf a i wa) (getSubI_wf b i wb) (by omega)]
      simp only [hrec, if_true, hany]
    · have : (a.getRecordSize == b.getRecordSize) = false := by simpa using hsz
      simp only [hrec, if_true, this, Bool.false_eq_true, if_false]
  · have hrec' : (ty_is_record a && ty_is_record b) = false := by simpa using hrec
    by_cases harr : (ty_is_array a && ty_is_array b) = true
    · have haa : a.is .ARRAY = true := by simp only [Bool.and_eq_true, ty_is_array] at harr; exact harr.1
      have hab : b.is .ARRAY = true := by simp only [Bool.and_eq_true, ty_is_array] at harr; exact harr.2
      have l1 := getSub_lt a wa haa
      have l2 := getSub_lt b wb hab
      simp only [hrec', Bool.false_eq_true, if_false, h _ _ (getSub_wf a wa) (getSub_wf b wb) (show a.getSub.size + b.getSub.size < a.size + b.size by omega)]
    · have harr' : (ty_is_array a && ty_is_array b) = false := by simpa using harr
      simp only [hrec', harr', Bool.false_eq_true, if_false]

theorem aeF_adequate : ∀ n m a b, wfTy a = true → wfTy b = true → a.size + b.size ≤ n → n ≤ m →
    areEquivalentF n a b = areEquivalentF m a b := by
  intro n
  induction n with
  | zero => intro m a b _ _ hs _; have := size_pos a; omega
  | succ n ih =>
    intro m a b wa wb hs hm
    cases m with
    | zero => omega
    | succ m =>
      simp only [areEquivalentF]
      exact aeBody_congr _ _ a b wa wb (fun x y wx wy hlt => ih m x y wx wy (by omega) (by omega))

/-! ### REF and CONSTANT wrappers do not matter for equivalence -/
theorem sst_ref_left (a b : Ty) : isSameScalarType (.ref a) b = isSameScalarType a b := by
  simp only [isSameScalarType, Ty.size]
  rw [show a.size + 1 + b.size = (a.size + b.size) + 1 by omega]
  simp only [isSameScalarTypeF]
  rw [body_W1 _ _ _ (by simp [W, Ty.kind])]
  simp [Ty.child]

theorem sst_const_left (a b : Ty) : isSameScalarType (.pfx .CONSTANT a) b = isSameScalarType a b := by
  simp only [isSameScalarType, Ty.size]
  rw [show a.size + 1 + b.size = (a.size + b.size) + 1 by omega]
  simp only [isSameScalarTypeF]
  rw [body_W1 _ _ _ (by simp [W, Ty.kind, Pfx.toTK])]
  simp [Ty.child]

theorem is_ref (a : Ty) (k : TK) (h : (k == TK.REF) = false) : (Ty.ref a).is k = a.is k := by simp [Ty.is, h]
theorem is_const (a : Ty) (k : TK) (h : (TK.CONSTANT == k) = false) : (Ty.pfx .CONSTANT a).is k = a.is k := by
  simp [Ty.is, Pfx.toTK, h]

theorem aeBody_ref_left (r : Ty → Ty → Bool) (a b : Ty) : areEquivalentBody r (.ref a) b = areEquivalentBody r a b := by
  simp only [areEquivalentBody, sst_ref_left, channelCapability]
  unfold_type_preds
  simp (disch := decide) only [is_ref]
  simp only [Ty.getRange, Ty.getRecordSize, Ty.getRecordLabel, Ty.getSubI, Ty.getSub, Ty.getArraySize]
  rfl

theorem aeBody_const_left (r r' : Ty → Ty → Bool) (a b : Ty) (h : ∀ x y, r (.pfx .CONSTANT x) y = r' x y) :
    areEquivalentBody r (.pfx .CONSTANT a) b = areEquivalentBody r' a b := by
  simp only [areEquivalentBody, sst_const_left, channelCapability]
  unfold_type_preds
  simp (disch := decide) only [is_const]
  simp only [Ty.getRange, Ty.getRecordSize, Ty.getRecordLabel, Ty.getSubI, Ty.getSub, Ty.getArraySize, h]
  rfl

theorem aeF_ref_left (n : Nat) (a b : Ty) : areEquivalentF n (.ref a) b = areEquivalentF n a b := by
  cases n with
  | zero => rfl
  | succ n => simp only [areEquivalentF]; exact aeBody_ref_left _ a b

theorem aeF_const_left : ∀ (n : Nat) (a b : Ty), areEquivalentF n (.pfx .CONSTANT a) b = areEquivalentF n a b := by
  intro n
  induction n with
  | zero => intro a b; rfl
  | succ n ih => intro a b; simp only [areEquivalentF]; exact aeBody_const_left _ _ a b ih

theorem areEquivalent_ref_left' (a b : Ty) (wa : wfTy a = true) (wb : wfTy b = true) :
    areEquivalent (.ref a) b = areEquivalent a b := by
  simp only [areEquivalent, Ty.size, aeF_ref_left]
  exact (aeF_adequate _ _ a b wa wb (Nat.le_refl _) (by omega)).symm

theorem areEquivalent_const_left' (a b : Ty) (wa : wfTy a = true) (wb : wfTy b = true) :
    areEquivalent (.pfx .CONSTANT a) b = areEquivalent a b := by
  simp only [areEquivalent, Ty.size, aeF_const_left]
  exact (aeF_adequate _ _ a b wa wb (Nat.le_refl _) (by omega)).symm


end UtapModel.C14
