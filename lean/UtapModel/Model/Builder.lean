/- M-BUILD: the state machine behind `ParserBuilder` (ExpressionBuilder ⊂ StatementBuilder ⊂ DocumentBuilder) and the
   abstract document it builds (src/DocumentBuilder.cpp, src/StatementBuilder.cpp, src/ExpressionBuilder.cpp,
   src/document.cpp).  One `Call` per callback that touches the document, the symbol heap, the frame stack or the type
   stack; callbacks that only rearrange the expression stack are `frag pop push`.  Expressions are opaque identities.
   `step` is total: where the C++ would dereference a null `currentTemplate`/`currentEdge` the model does nothing for
   that part (such states are never reached by the readers; C01 is the property about that).
   A callback that throws a TypeException leaves the state exactly as the C++ leaves it at the `throw`; the diagnostic
   itself is recorded by whoever catches (parser.y `CALL`, xmlreader.cpp), which is the separate call `handleError`.
   Core Lean only. -/
import UtapModel.Model.Scope

namespace UtapModel.Builder

abbrev Expr := Nat   -- opaque expression identity; 0 = the empty expression_t

structure Var where
  uid : SymId
  owner : VOwner
  deriving Repr, Inhabited

structure Func where
  uid : SymId
  owner : DRef
  deriving Repr, Inhabited

structure Loc where
  uid : SymId
  templ : Nat
  nr : Nat
  hasInv : Bool
  hasEr : Bool
  deriving Repr, Inhabited

structure Bp where
  uid : SymId
  templ : Nat
  nr : Nat
  deriving Repr, Inhabited

structure Edge where
  nr : Nat
  src : Option Obj     -- location_t* src
  srcb : Option Obj    -- branchpoint_t* srcb
  dst : Option Obj
  dstb : Option Obj
  control : Bool
  select : FrameId
  guard : Expr
  assign : Expr
  sync : Expr
  prob : Expr
  deriving Repr, Inhabited

inductive IKind where
  | templ | inst | lsc | proc
  deriving Repr, DecidableEq, Inhabited

/-- `instance_t` (also the base of `template_t`). `params` is the content of the `parameters` frame. -/
structure Inst where
  kind : IKind
  uid : SymId
  params : List SymId
  mapping : List (SymId × Expr)
  arguments : Nat
  unbound : Nat
  templ : Option Nat
  deriving Repr, Inhabited

structure Templ where
  inst : Inst
  frame : FrameId            -- declarations_t::frame of the template (parameters, then locals, locations, branchpoints)
  init : Option SymId
  edges : List Edge
  isTA : Bool
  dynamic : Bool
  isDefined : Bool
  deriving Repr, Inhabited

/-- The document.  Objects of one kind live in one creation-ordered list tagged with their owner (see `Obj`):
    `template_t::locations` of template t is `locs.filter (·.templ = t)`, `declarations_t::variables` of a block d is
    `vars.filter (·.owner = .decl d)`, `function_t::variables` of function f is `vars.filter (·.owner = .func f)`. -/
structure Doc where
  globalsFrame : FrameId
  templates : List Templ     -- static and dynamic templates (flag `dynamic`), in creation order
  vars : List Var
  funs : List Func
  locs : List Loc
  bps : List Bp
  insts : List Inst          -- partial instances, LSC instances and processes (tagged), in creation order
  deriving Repr, Inhabited

structure BState where
  syms : List Symbol
  store : List Frame
  frames : List FrameId        -- head = top of the stack
  fragments : List Expr        -- head = fragments[0]
  typeFragments : List Ty      -- head = typeFragments[0]
  params : FrameId
  currentTemplate : Option Nat
  currentEdge : Option (Nat × Nat)
  currentFun : Option Nat
  doc : Doc
  diags : Nat                  -- number of handle_error calls
  warns : Nat
  binds : List (String × Option SymId)   -- every expr_identifier with what it resolved to (newest first)
  nextExpr : Nat
  deriving Repr, Inhabited

/-- state after `Document::Document()` + `ExpressionBuilder(doc)`: the global frame is frame 0 and is pushed,
    `params` is frame 1. -/
def BState.init : BState :=
  { syms := [], store := [⟨none, []⟩, ⟨none, []⟩], frames := [0], fragments := [], typeFragments := [], params := 1,
    currentTemplate := none, currentEdge := none, currentFun := none,
    doc := { globalsFrame := 0, templates := [], vars := [], funs := [], locs := [], bps := [], insts := [] },
    diags := 0, warns := 0, binds := [], nextExpr := 1 }

/-! ### frames and symbols -/

def BState.top (s : BState) : FrameId := s.frames.headD 0

def BState.frameD (s : BState) (fid : FrameId) : Frame := s.store.getD fid ⟨none, []⟩

def BState.resolve (s : BState) (name : String) : Option SymId :=
  resolveIn s.syms s.store (s.store.length + 1) s.top name

def BState.sym? (s : BState) (sid : SymId) : Option Symbol := s.syms[sid]?

/-- resolve and fetch the symbol -/
def BState.resolveSym (s : BState) (name : String) : Option (SymId × Symbol) :=
  match s.resolve name with
  | none => none
  | some sid => match s.sym? sid with
    | none => none
    | some sym => some (sid, sym)

/-- `resolve(name, id) && (id.type.is_location() || id.type.is_branchpoint())` of proc_edge_begin -/
def BState.resolveEndpoint (s : BState) (name : String) : Option Symbol :=
  match s.resolveSym name with
  | some (_, sym) => if sym.ty.isLocation || sym.ty.isBranchpoint then some sym else none
  | none => none

def BState.topContains (s : BState) (name : String) : Bool := (s.frameD s.top).contains s.syms name

def BState.frameContains (s : BState) (fid : FrameId) (name : String) : Bool := (s.frameD fid).contains s.syms name

/-- `frame_t::create(parent)` -/
def BState.newFrame (s : BState) (parent : Option FrameId) (syms : List SymId := []) : BState × FrameId :=
  ({ s with store := s.store ++ [⟨parent, syms⟩] }, s.store.length)

def BState.pushFrame (s : BState) (fid : FrameId) : BState := { s with frames := fid :: s.frames }

def BState.popFrame (s : BState) : BState := { s with frames := s.frames.tail }

def BState.pushNewFrame (s : BState) : BState :=
  let (s1, f) := s.newFrame (some s.top)
  s1.pushFrame f

def addToFrame (store : List Frame) (fid : FrameId) (sids : List SymId) : List Frame :=
  store.modify fid (fun f => { f with syms := f.syms ++ sids })

/-- `frame_t::add_symbol(name, type, pos, user)` on frame `fid`: a new symbol object appended to the frame. -/
def BState.addSymbol (s : BState) (fid : FrameId) (name : String) (ty : STy) (user : Option Obj) : BState × SymId :=
  ({ s with syms := s.syms ++ [⟨name, ty, user⟩], store := addToFrame s.store fid [s.syms.length] }, s.syms.length)

/-- `symbol_t::set_type` -/
def BState.setSymTy (s : BState) (sid : SymId) (ty : STy) : BState :=
  { s with syms := s.syms.modify sid (fun sym => { sym with ty := ty }) }

def BState.error (s : BState) : BState := { s with diags := s.diags + 1 }
def BState.warning (s : BState) : BState := { s with warns := s.warns + 1 }
def BState.errorIf (s : BState) (b : Bool) : BState := { s with diags := s.diags + (if b then 1 else 0) }

/-! ### stacks -/

def BState.popFrag (s : BState) (n : Nat := 1) : BState := { s with fragments := s.fragments.drop n }
def BState.frag0 (s : BState) : Expr := s.fragments.headD 0
def BState.pushFresh (s : BState) : BState :=
  { s with fragments := s.nextExpr :: s.fragments, nextExpr := s.nextExpr + 1 }
def BState.fresh (s : BState) : BState × Expr := ({ s with nextExpr := s.nextExpr + 1 }, s.nextExpr)
def BState.popType (s : BState) : BState × Ty :=
  ({ s with typeFragments := s.typeFragments.tail }, s.typeFragments.headD ⟨false⟩)
def BState.pushType (s : BState) (t : Ty) : BState := { s with typeFragments := t :: s.typeFragments }

/-! ### the document -/

def Doc.modifyTempl (d : Doc) (t : Nat) (f : Templ → Templ) : Doc :=
  { d with templates := d.templates.modify t f }

/-- the `instance_t` an object reference denotes when used as `static_cast<instance_t*>(sym.get_data())` -/
def Doc.inst? (d : Doc) : Obj → Option Inst
  | .templ t => (d.templates[t]?).map (·.inst)
  | .inst i => d.insts[i]?
  | _ => none

def BState.declBlock (s : BState) : DRef :=
  match s.currentTemplate with
  | some t => .templ t
  | none => .glob

/-- `declarations_t::frame` of a declaration block -/
def BState.declFrame (s : BState) (r : DRef) : FrameId :=
  match r with
  | .glob => s.doc.globalsFrame
  | .templ t => match s.doc.templates[t]? with
    | some T => T.frame
    | none => 0

/-- `Document::add_variable(list, frame, type, name, pos)`: the variable is appended and its symbol registered with the
    variable as user data; returns whether the name was a duplicate (the C++ then throws, after having added).
    Inside a function (`currentFun`) the list is the function's and the frame is `frames.top()`. -/
def BState.addVariable (s : BState) (ty : Ty) (name : String) : BState × Bool :=
  let (fr, owner) : FrameId × VOwner :=
    match s.currentFun with
    | some f => (s.top, .func f)
    | none => (s.declFrame s.declBlock, .decl s.declBlock)
  let dup := s.frameContains fr name
  let (s1, sid) := s.addSymbol fr name (.var ty) (some (.var s.doc.vars.length))
  ({ s1 with doc := { s1.doc with vars := s1.doc.vars ++ [⟨sid, owner⟩] } }, dup)

/-- `declarations_t::add_function` -/
def BState.addFunction (s : BState) (name : String) : BState × Bool :=
  let d := s.declBlock
  let fr := s.declFrame d
  let dup := s.frameContains fr name
  let (s1, sid) := s.addSymbol fr name .func (some (.func s.doc.funs.length))
  ({ s1 with doc := { s1.doc with funs := s1.doc.funs ++ [⟨sid, d⟩] }, currentFun := some s.doc.funs.length }, dup)

/-- `template_t::add_location` (the duplicate check result is returned; the object is added in any case);
    `loc.nr = locations.size() - 1` -/
def BState.addLocation (s : BState) (t : Nat) (name : String) (hasInv hasEr : Bool) : BState × Bool :=
  match s.doc.templates[t]? with
  | none => (s, false)        -- (null currentTemplate in the C++)
  | some T =>
    let dup := s.frameContains T.frame name
    let (s1, sid) := s.addSymbol T.frame name (.location false false) (some (.loc s.doc.locs.length))
    ({ s1 with doc := { s1.doc with locs := s1.doc.locs ++ [⟨sid, t, (s.doc.locs.filter (·.templ = t)).length, hasInv, hasEr⟩] } }, dup)

def BState.addBranchpoint (s : BState) (t : Nat) (name : String) : BState × Bool :=
  match s.doc.templates[t]? with
  | none => (s, false)
  | some T =>
    let dup := s.frameContains T.frame name
    let (s1, sid) := s.addSymbol T.frame name .branchpoint (some (.bp s.doc.bps.length))
    ({ s1 with doc := { s1.doc with bps := s1.doc.bps ++ [⟨sid, t, (s.doc.bps.filter (·.templ = t)).length⟩] } }, dup)

/-- `template_t::add_edge(src, dst, control, actname)`; `nr = edges.empty() ? 0 : edges.back().nr + 1` -/
def mkEdge (edges : List Edge) (fsym tsym : Symbol) (control : Bool) (select : FrameId) (g a p : Expr) : Edge :=
  { nr := match edges.getLast? with
      | some e => e.nr + 1
      | none => 0,
    src := if fsym.ty.isLocation then fsym.user else none,
    srcb := if fsym.ty.isLocation then none else fsym.user,
    dst := if tsym.ty.isLocation then tsym.user else none,
    dstb := if tsym.ty.isLocation then none else tsym.user,
    control := control, select := select, guard := g, assign := a, sync := 0, prob := p }

def mkTemplInst (sid : SymId) (ps : List SymId) (idx : Nat) : Inst :=
  { kind := .templ, uid := sid, params := ps, mapping := [], arguments := 0, unbound := ps.length, templ := some idx }

def mkTempl (sid : SymId) (ps : List SymId) (idx : Nat) (fr : FrameId) (isTA dynamic : Bool) : Templ :=
  { inst := mkTemplInst sid ps idx, frame := fr, init := none, edges := [], isTA := isTA, dynamic := dynamic, isDefined := false }

/-- `Document::add_template` / `add_dynamic_template` -/
def BState.addTemplate (s : BState) (name : String) (isTA dynamic : Bool) : BState × Nat :=
  let ps := (s.frameD s.params).syms
  let idx := s.doc.templates.length
  let (s1, fr) := s.newFrame (some s.doc.globalsFrame) ps
  let ty : STy := if isTA then .inst ps.length else .lscInst ps.length
  let (s2, sid) := s1.addSymbol s.doc.globalsFrame name ty (some (.templ idx))
  ({ s2 with doc := { s2.doc with templates := s2.doc.templates ++ [mkTempl sid ps idx fr isTA dynamic] } }, idx)

def mapInsert (m : List (SymId × Expr)) (k : SymId) (v : Expr) : List (SymId × Expr) :=
  if m.any (fun kv => kv.1 = k) then m.map (fun kv => if kv.1 = k then (k, v) else kv) else m ++ [(k, v)]

def bindArgs : List (SymId × Expr) → List SymId → List Expr → List (SymId × Expr)
  | m, p :: ps, e :: es => bindArgs (mapInsert m p e) ps es
  | m, _, _ => m

/-- `Document::add_instance` / `add_LSC_instance` -/
def BState.addInstance (s : BState) (lsc : Bool) (name : String) (old : Inst) (ps : List SymId) (exprs : List Expr) : BState :=
  let idx := s.doc.insts.length
  let ty : STy := if lsc then .lscInst ps.length else .inst ps.length
  let (s1, sid) := s.addSymbol s.doc.globalsFrame name ty (some (.inst idx))
  let I : Inst := { kind := if lsc then .lsc else .inst, uid := sid, params := ps ++ old.params,
                    mapping := bindArgs old.mapping old.params exprs, arguments := exprs.length, unbound := ps.length, templ := old.templ }
  { s1 with doc := { s1.doc with insts := s1.doc.insts ++ [I] } }

/-- `Document::add_process`: a *copy* of the instance with its own symbol -/
def BState.addProcess (s : BState) (inst : Inst) : BState :=
  let idx := s.doc.insts.length
  let ty : STy :=
    if inst.unbound = 0 then
      .process (match inst.templ.bind (fun t => s.doc.templates[t]?) with
        | some T => (s.frameD T.frame).syms.length
        | none => 0)
    else .processSet (match s.sym? inst.uid with
        | some sym => (match sym.ty with
          | .inst a => a
          | .lscInst a => a
          | _ => 0)
        | none => 0)
  let (s1, sid) := s.addSymbol s.doc.globalsFrame (symName s.syms inst.uid) ty (some (.inst idx))
  { s1 with doc := { s1.doc with insts := s1.doc.insts ++ [{ inst with kind := .proc, uid := sid }] } }

/-! ### callbacks -/

inductive Call where
  | handleError | handleWarning
  -- expression stack only: pops `pop`, pushes `push` fresh expressions
  | frag (pop push : Nat)
  | exprIdentifier (name : String)
  | quantBegin (name : String)          -- expr_forall_begin / exists / sum
  | quantEnd                            -- expr_forall_end / exists / sum
  | dynQuantBegin (name : String)       -- expr_*_dynamic_begin
  | dynQuantEnd
  -- types
  | typeDuplicate | typePop
  | typePrim (selOk : Bool) (fragPop : Nat) (throws : Bool)   -- type_int/bool/double/clock/channel/void/string/bounded_int/scalar
  | typeName (name : String)
  | typeArrayOfSize (n : Nat) | typeArrayOfType (n : Nat)
  | typeStruct | structField
  -- declarations
  | declTypedef (name : String)
  | declVar (name : String) (hasInit : Bool)
  | declParameter (name : String)
  | declFuncBegin (name : String) | declFuncEnd
  | declExternalFunc (alias : String)
  | declDynamicTemplate (name : String)
  | blockBegin | blockEnd
  | iterationBegin (name : String) | iterationEnd
  | returnStatement (args : Bool)
  -- templates
  | procBegin (name : String) (isTA : Bool)
  | procEnd
  | procLocation (name : String) (hasInv hasEr : Bool)
  | procLocationCommit (name : String) | procLocationUrgent (name : String)
  | procLocationInit (name : String)
  | procBranchpoint (name : String)
  | procEdgeBegin (src dst : String) (control : Bool)
  | procEdgeEnd
  | procSelect (name : String)
  | procGuard | procSync | procUpdate | procProb
  -- gantt / LSC instance lines (frames only)
  | ganttDeclBegin | ganttSelect (name : String) | ganttDeclEnd | ganttEntryBegin | ganttEntryEnd
  | instanceNameBegin | instanceNameEnd (arguments : Nat)
  -- system
  | instantiationBegin (name templ : String)
  | instantiationEnd (name templ : String) (arguments : Nat)
  | process (name : String)
  deriving Repr, Inhabited

def BState.findDynamicTemplate (s : BState) (name : String) : Option Nat :=
  s.doc.templates.findIdx? (fun T => T.dynamic && symName s.syms T.inst.uid = name)

/-- `addSelectSymbolToFrame(id, frame, pos)`; `frame = none` models the null `currentEdge` (nothing is added) -/
def BState.addSelectSymbol (s : BState) (name : String) (frame : Option FrameId) : BState :=
  let (s1, ty) := s.popType
  if !ty.selOk then s1.error
  else
    let s2 := if (s1.resolve name).isSome then s1.warning else s1
    match frame with
    | some f => (s2.addSymbol f name (.var ty) none).1
    | none => s2

def BState.setEdge (s : BState) (f : Edge → Expr → Edge) : BState :=
  match s.currentEdge with
  | none => s.error
  | some (t, i) =>
    let e := s.frag0
    { s.popFrag with doc := s.doc.modifyTempl t (fun T => { T with edges := T.edges.modify i (fun ed => f ed e) }) }

def step (s : BState) : Call → BState
  | .handleError => s.error
  | .handleWarning => s.warning
  | .frag pop push =>
    let s1 := s.popFrag pop
    { s1 with fragments := (List.range push).map (fun i => s1.nextExpr + i) ++ s1.fragments, nextExpr := s1.nextExpr + push }
  | .exprIdentifier name =>
    let r := s.resolve name
    { s.pushFresh with binds := (name, r) :: s.binds }     -- found: identifier pushed; unknown: `false` pushed, then throw
  | .quantBegin name =>
    let (s1, ty) := s.popType
    let s2 := s1.pushNewFrame
    let (s3, _) := s2.addSymbol s2.top name (.var ty) none
    s3.errorIf (!ty.selOk)     -- "$Quantifier_must_range_over_integer_or_scalar_set" (handle_error inside the callback)
  | .quantEnd =>
    (s.popFrag.pushFresh).popFrame
  | .dynQuantBegin name =>
    let s2 := s.pushNewFrame
    (s2.addSymbol s2.top name .processVar none).1
  | .dynQuantEnd => ((s.popFrag 2).pushFresh).popFrame
  | .typeDuplicate => s.pushType (s.typeFragments.headD ⟨false⟩)
  | .typePop => s.popType.1
  | .typePrim selOk fragPop _ => (s.popFrag fragPop).pushType ⟨selOk⟩
  | .typeName name =>
    match s.resolveSym name with
    | some (_, ⟨_, .typedef t, _⟩) => s.pushType t
    | _ => s.pushType ⟨false⟩               -- VOID pushed, then throw
  | .typeArrayOfSize n =>
    -- pops the size expression, builds int[0,size-1] and calls type_array_of_type(n+1)
    let s1 := (s.popFrag).pushType ⟨true⟩
    let (s2, _) := s1.popType
    { s2 with typeFragments := s2.typeFragments.set n ⟨false⟩ }
  | .typeArrayOfType n =>
    let (s2, _) := s.popType
    { s2 with typeFragments := s2.typeFragments.set (n - 1) ⟨false⟩ }
  | .typeStruct => s.pushType ⟨false⟩
  | .structField => s.popType.1
  | .declTypedef name =>
    let dup := s.topContains name
    let (s1, ty) := s.popType
    if dup then s1 else (s1.addSymbol s1.top name (.typedef ty) none).1
  | .declVar name hasInit =>
    let s1 := if hasInit then s.popFrag else s
    let (s2, ty) := s1.popType
    (s2.addVariable ty name).1
  | .declParameter name =>
    let (s1, ty) := s.popType
    (s1.addSymbol s1.params name (.var ty) none).1
  | .declFuncBegin name =>
    let s0 := { s with currentFun := none }
    let (s1, _) := s0.popType
    let (s2, dup) := s1.addFunction name
    let s3 := if dup then s2.error else s2
    let s4 := s3.pushNewFrame
    -- params.move_to(frames.top())
    let ps := (s4.frameD s4.params).syms
    { s4 with store := (addToFrame s4.store s4.top ps).modify s4.params (fun f => { f with syms := [] }) }
  | .declFuncEnd => { s.popFrame with currentFun := none }
  | .declExternalFunc alias =>
    let s0 := s
    let (s1, _) := s0.popType
    let (s2, dup) := s1.addFunction alias
    let s3 := if dup then s2.error else s2
    let s4 := s3.pushNewFrame
    let ps := (s4.frameD s4.params).syms
    let s5 := { s4 with store := (addToFrame s4.store s4.top ps).modify s4.params (fun f => { f with syms := [] }) }
    { s5.popFrame with currentFun := none }
  | .declDynamicTemplate name =>
    let s0 := { s with currentTemplate := none }
    let s1 := if s0.topContains name then s0.error else s0
    let (s2, _) := s1.addTemplate name true true
    let (s3, f) := s2.newFrame none
    { s3 with params := f }
  | .blockBegin => s.pushNewFrame
  | .blockEnd => s.popFrame
  | .iterationBegin name =>
    let (s1, ty) := s.popType
    let s2 := s1.pushNewFrame
    (s2.addVariable ty name).1
  | .iterationEnd => s.popFrame
  | .returnStatement args =>
    match s.currentFun with
    | none => s.error
    | some _ => if args then s.popFrag else s
  | .procBegin name isTA =>
    let (s1, t) : BState × Nat :=
      match s.findDynamicTemplate name with
      | some t => ({ s with doc := s.doc.modifyTempl t (fun T => { T with isDefined := true }) }, t)
      | none =>
        let s0 := if s.topContains name then s.error else s
        s0.addTemplate name isTA false
    let s2 := { s1 with currentTemplate := some t }.pushFrame (s1.declFrame (.templ t))
    let (s3, f) := s2.newFrame none
    { s3 with params := f }
  | .procEnd => { s.popFrame with currentTemplate := none }
  | .procLocation name hasInv hasEr =>
    let s1 := if hasEr then s.popFrag else s
    let s2 := if hasInv then s1.popFrag else s1
    match s2.currentTemplate with
    | none => s2
    | some t => (s2.addLocation t name hasInv hasEr).1
  | .procLocationCommit name =>
    match s.resolveSym name with
    | some (sid, ⟨_, .location u _, _⟩) => if u then s.error else s.setSymTy sid (.location u true)
    | _ => s.error
  | .procLocationUrgent name =>
    match s.resolveSym name with
    | some (sid, ⟨_, .location _ c, _⟩) => if c then s.error else s.setSymTy sid (.location true c)
    | _ => s.error
  | .procLocationInit name =>
    match s.resolveSym name with
    | some (sid, ⟨_, .location _ _, _⟩) =>
      (match s.currentTemplate with
       | some t => { s with doc := s.doc.modifyTempl t (fun T => { T with init := some sid }) }
       | none => s)
    | _ => s.error
  | .procBranchpoint name =>
    match s.currentTemplate with
    | none => s
    | some t => (s.addBranchpoint t name).1
  | .procEdgeBegin src dst control =>
    match s.resolveEndpoint src, s.resolveEndpoint dst, s.currentTemplate with
    | some fs, some ts, some t =>
      let (s1, g) := s.fresh
      let (s2, a) := s1.fresh
      let (s3, p) := s2.fresh
      let (s4, fr) := s3.newFrame (some s3.top)
      let idx := match s4.doc.templates[t]? with
        | some T => T.edges.length
        | none => 0
      { s4 with doc := s4.doc.modifyTempl t (fun T => { T with edges := T.edges ++ [mkEdge T.edges fs ts control fr g a p] }),
                currentEdge := some (t, idx) }.pushFrame fr
    | some _, some _, none => s.pushNewFrame
    | _, _, _ => { s.error with currentEdge := none }.pushNewFrame   -- the labels of this edge must not land on the previous one
  | .procEdgeEnd => s.popFrame
  | .procSelect name =>
    match s.currentEdge with
    | none => s.error                                               -- "Must be declared inside of an edge"; the type stays pushed
    | some (t, i) => s.addSelectSymbol name (((s.doc.templates[t]?).bind (·.edges[i]?)).map (·.select))
  | .procGuard => s.setEdge (fun ed e => { ed with guard := e })
  | .procSync =>
    match s.currentEdge with
    | none => s.error
    | some _ => let (s1, e) := s.fresh
                (s1.setEdge (fun ed _ => { ed with sync := e }))
  | .procUpdate => s.setEdge (fun ed e => { ed with assign := e })
  | .procProb => s.setEdge (fun ed e => { ed with prob := e })
  | .ganttDeclBegin => s.pushNewFrame
  | .ganttSelect name => s.addSelectSymbol name (some s.top)
  | .ganttDeclEnd => s.popFrame
  | .ganttEntryBegin => s.pushNewFrame
  | .ganttEntryEnd => (s.popFrag 2).popFrame
  | .instanceNameBegin =>
    let ps := (s.frameD s.params).syms
    let (s1, fr) := s.newFrame (some s.top) ps
    let s2 := s1.pushFrame fr
    let (s3, f) := s2.newFrame none
    { s3 with params := f }
  | .instanceNameEnd arguments => (s.popFrame).popFrag arguments
  | .instantiationBegin name templ =>
    let s0 := if s.topContains name then s.error else s
    let s1 := match s0.resolveSym templ with
      | some (_, ⟨_, .inst _, _⟩) => s0
      | some (_, ⟨_, .lscInst _, _⟩) => s0
      | _ => s0.error
    let ps := (s1.frameD s1.params).syms
    let (s2, fr) := s1.newFrame (some s1.top) ps
    let s3 := s2.pushFrame fr
    let (s4, f) := s3.newFrame none
    { s4 with params := f }
  | .instantiationEnd name templ arguments =>
    let ps := (s.frameD s.top).syms
    let s1 := s.popFrame
    let create (lsc : Bool) (expected : Nat) (user : Option Obj) : BState :=
      if arguments < expected then s1.error.popFrag arguments
      else if arguments > expected then s1.error.popFrag arguments
      else
        let exprs := (List.range arguments).map (fun i => s1.fragments.getD (arguments - 1 - i) 0)   -- exprs[i] = fragments[arguments-1-i]
        let s2 := s1.popFrag arguments
        match user.bind s1.doc.inst? with
        | some old => s2.addInstance lsc name old ps exprs
        | none => s2
    match s1.resolveSym templ with
    | some (_, ⟨_, .inst a, user⟩) => create false a user
    | some (_, ⟨_, .lscInst a, user⟩) => create true a user
    | _ => s1.popFrag arguments
  | .process name =>
    match s.resolveSym name with
    | some (_, ⟨_, .inst _, user⟩) =>
      (match user.bind s.doc.inst? with
       | some inst => s.addProcess inst
       | none => s)
    | _ => s          -- NoSuchProcessError / NotATemplateError thrown

def run (s : BState) (cs : List Call) : BState := cs.foldl step s

end UtapModel.Builder
