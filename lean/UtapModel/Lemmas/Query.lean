/- Helper lemmas for the query layer (Props/C03Query.lean): how an operand printed by the expression printer is read back when more
   query text follows, and what the first token of a printed expression can be. -/
import UtapModel.Model.Query
import UtapModel.Lemmas.PrintLemmas

namespace UtapModel.Query
open UtapModel.Pratt UtapModel.ExprTable UtapModel.PrintModel UtapModel.QueryTables

abbrev P := lprint genData mt

theorem tern_le_quest : utapT.ternL ≤ utapT.questL := by decide

/-- a token that the expression grammar never consumes after a complete operand -/
def NonOp (t : Nat) : Prop := utapT.isBin t = false ∧ utapT.isPost t = false

/-- `rest` cannot continue an expression: the operand parser stops in front of it -/
def QStop (rest : List Tok) : Prop := contAt utapT 0 rest = false ∧ Safe utapT 0 rest

theorem qstop_nil : QStop [] := ⟨rfl, safe_nil utapT 0⟩
theorem qstop_rb (r) : QStop (.rb :: r) := ⟨rfl, safe_rb utapT 0 r⟩
theorem qstop_rp (r) : QStop (.rp :: r) := ⟨rfl, safe_rp utapT 0 r⟩
theorem qstop_comma (r) : QStop (.comma :: r) := ⟨rfl, safe_comma utapT 0 r⟩
theorem qstop_colon (r) : QStop (.colon :: r) := ⟨rfl, safe_colon utapT 0 r⟩
theorem qstop_sym {t} (h : NonOp t) (r) : QStop (.sym t :: r) := by
  refine ⟨?_, fun p _ => ?_⟩ <;> simp [contAt, h.1, h.2]

/-- **an operand printed by the library is read back, and exactly it**, whatever query text follows -/
theorem pE_print (e : Expr) (h : goodE e = true) (rest : List Tok) (hs : QStop rest) :
    pE (P e ++ rest) = some (e, rest) := by
  have hR := (lprint_R genData mt e).1 h 0 (bareOK_zero _ _)
  have hm := main utapT mt tern_le_quest hR
  simp only [Goal] at hm
  exact hm 0 rest (e, rest) (Nat.le_refl 0) hs.2 (stopAll utapT 0 e rest hs.1) _ (Nat.le_refl _)

/-- first token of an admissible rendering -/
def StartTok : Tok → Prop
  | .sym t => utapT.isPre t = true
  | .atom _ => True
  | .quant _ _ _ => True
  | .lp => True
  | .fn _ _ => True
  | _ => False

theorem R_head {b ctx e ts} (h : R utapT mt b ctx e ts) : b = false → ∃ hd tl, ts = hd :: tl ∧ StartTok hd := by
  induction h with
  | paren _ _ => intro _; exact ⟨.lp, _, rfl, trivial⟩
  | atom _ => intro _; exact ⟨_, [], rfl, trivial⟩
  | intMin h1 _ => intro _; exact ⟨_, _, rfl, h1⟩
  | pre h1 _ _ _ _ => intro _; exact ⟨_, _, rfl, h1⟩
  | quant _ _ _ => intro _; exact ⟨_, _, rfl, trivial⟩
  | post _ _ _ _ ih => intro _; obtain ⟨hd, tl, h, hs⟩ := ih rfl; subst h; exact ⟨hd, _, rfl, hs⟩
  | dot _ _ ih => intro _; obtain ⟨hd, tl, h, hs⟩ := ih rfl; subst h; exact ⟨hd, _, rfl, hs⟩
  | dotLoc _ _ ih => intro _; obtain ⟨hd, tl, h, hs⟩ := ih rfl; subst h; exact ⟨hd, _, rfl, hs⟩
  | bin _ _ _ _ _ _ ihl _ => intro _; obtain ⟨hd, tl, h, hs⟩ := ihl rfl; subst h; exact ⟨hd, _, rfl, hs⟩
  | tern _ _ _ _ ihc _ _ => intro _; obtain ⟨hd, tl, h, hs⟩ := ihc rfl; subst h; exact ⟨hd, _, rfl, hs⟩
  | index _ _ _ iha _ => intro _; obtain ⟨hd, tl, h, hs⟩ := iha rfl; subst h; exact ⟨hd, _, rfl, hs⟩
  | fn1 _ _ => intro _; exact ⟨_, _, rfl, trivial⟩
  | fn2 _ _ _ _ => intro _; exact ⟨_, _, rfl, trivial⟩
  | fn3 _ _ _ _ _ _ => intro _; exact ⟨_, _, rfl, trivial⟩
  | call _ _ _ ihf _ => intro _; obtain ⟨hd, tl, h, hs⟩ := ihf rfl; subst h; exact ⟨hd, _, rfl, hs⟩
  | anil => intro h; cases h
  | aone _ _ => intro h; cases h
  | acons _ _ _ _ _ => intro h; cases h

/-- a printed operand starts with a token that can start an expression -/
theorem P_head (e : Expr) (h : goodE e = true) : ∃ hd tl, P e = hd :: tl ∧ StartTok hd :=
  R_head ((lprint_R genData mt e).1 h 0 (bareOK_zero _ _)) rfl


/-! ### facts about the generated tables (kernel evaluation), printed forms, and the parser on printed forms -/

/-- the terminals of the query layer -/
def QN : List String := ["T_AF", "T_AG", "T_EF", "T_EG", "'A'", "'U'", "'W'", "T_LEADS_TO", "T_CONTROL", "T_CONTROL_T", "'{'", "'}'",
  "T_SUP", "T_INF", "T_BOUNDS", "T_MULT"]

theorem qid_inj_tbl : ∀ x ∈ QN, ∀ y ∈ QN, (qid x == qid y) = (x == y) := by decide +kernel
theorem qtok_tbl : ∀ x ∈ QN, qtok x = .sym (qid x) := by decide +kernel
theorem nonop_tbl : ∀ x ∈ QN, x ≠ "T_MULT" → (utapT.isBin (qid x) = false ∧ utapT.isPost (qid x) = false ∧ utapT.isPre (qid x) = false) := by decide +kernel

theorem isTok_qid (x y : String) (hx : x ∈ QN) (hy : y ∈ QN) : isTok (qid x) y = (x == y) := qid_inj_tbl x hx y hy

theorem isTok_pre (t : Nat) (y : String) (hp : utapT.isPre t = true) (hy : y ∈ QN) (hm : y ≠ "T_MULT") : isTok t y = false := by
  have h := (nonop_tbl y hy hm).2.2
  simp only [isTok, beq_eq_false_iff_ne]
  intro he; subst he; rw [hp] at h; cases h

theorem qtok_punct : qtok "'['" = .lb ∧ qtok "']'" = .rb ∧ qtok "'('" = .lp ∧ qtok "')'" = .rp ∧ qtok "','" = .comma ∧ qtok "':'" = .colon := by
  decide +kernel
theorem nonop (x : String) (hx : x ∈ QN) (hm : x ≠ "T_MULT") : NonOp (qid x) := ⟨(nonop_tbl x hx hm).1, (nonop_tbl x hx hm).2.1⟩

theorem lay_tbl : [layout "AF", layout "AG", layout "EF", layout "EG", layout "LEADS_TO", layout "A_UNTIL", layout "A_WEAK_UNTIL"] =
  [[.lit "" ["T_AF"], .arg 0], [.lit "" ["T_AG"], .arg 0], [.lit "" ["T_EF"], .arg 0], [.lit "" ["T_EG"], .arg 0],
   [.arg 0, .lit "" ["T_LEADS_TO"], .arg 1],
   [.lit "" ["'A'", "'['"], .arg 0, .lit "" ["'U'"], .arg 1, .lit "" ["']'"]],
   [.lit "" ["'A'", "'['"], .arg 0, .lit "" ["'W'"], .arg 1, .lit "" ["']'"]]] := by decide +kernel

theorem printSub_path (k : Nat) (hk : k < 4) (e : Expr) : printSub P (.path k e) = .sym (qid (pathTokName k)) :: P e := by
  have h := lay_tbl
  simp only [List.cons.injEq, and_true] at h
  obtain ⟨h0, h1, h2, h3, _⟩ := h
  match k, hk with
  | 0, _ => simp [printSub, pathKind, pathTokName, h0, renderQ, qtok_tbl "T_AF" (by decide)]
  | 1, _ => simp [printSub, pathKind, pathTokName, h1, renderQ, qtok_tbl "T_AG" (by decide)]
  | 2, _ => simp [printSub, pathKind, pathTokName, h2, renderQ, qtok_tbl "T_EF" (by decide)]
  | 3, _ => simp [printSub, pathKind, pathTokName, h3, renderQ, qtok_tbl "T_EG" (by decide)]

theorem printSub_leads (a b : Expr) : printSub P (.leadsTo a b) = P a ++ .sym (qid "T_LEADS_TO") :: P b := by
  have h := lay_tbl
  simp only [List.cons.injEq, and_true] at h
  simp [printSub, h.2.2.2.2.1, renderQ, qtok_tbl "T_LEADS_TO" (by decide)]

theorem printSub_until (w : Bool) (a b : Expr) :
    printSub P (.until w a b) = .sym (qid "'A'") :: .lb :: (P a ++ .sym (qid (if w then "'W'" else "'U'")) :: (P b ++ [.rb])) := by
  have h := lay_tbl
  simp only [List.cons.injEq, and_true] at h
  cases w
  · simp [printSub, h.2.2.2.2.2.1, renderQ, qtok_tbl "'A'" (by decide), qtok_tbl "'U'" (by decide), qtok_punct]
  · simp [printSub, h.2.2.2.2.2.2, renderQ, qtok_tbl "'A'" (by decide), qtok_tbl "'W'" (by decide), qtok_punct]

theorem leads_print (a b : Expr) (ha : goodE a = true) (hb : goodE b = true) (rest : List Tok) (hs : QStop rest) :
    leads (P a ++ .sym (qid "T_LEADS_TO") :: (P b ++ rest)) = some (.leadsTo a b, rest) := by
  have h1 := pE_print a ha (.sym (qid "T_LEADS_TO") :: (P b ++ rest)) (qstop_sym (nonop _ (by decide) (by decide)) _)
  have h2 := pE_print b hb rest hs
  simp only [leads, h1, h2, isTok_qid "T_LEADS_TO" "T_LEADS_TO" (by decide) (by decide)]
  simp

theorem parseSub_print (s : Sub) (h : s.wf = true) (rest : List Tok) (hs : QStop rest) :
    parseSub (printSub P s ++ rest) = some (s, rest) := by
  cases s with
  | path k e =>
    simp only [Sub.wf, Bool.and_eq_true, decide_eq_true_eq] at h
    rw [printSub_path k h.1]
    have h2 := pE_print e h.2 rest hs
    match k, h.1 with
    | 0, _ => simp (disch := decide) [parseSub, pathTokName, isTok_qid, h2]
    | 1, _ => simp (disch := decide) [parseSub, pathTokName, isTok_qid, h2]
    | 2, _ => simp (disch := decide) [parseSub, pathTokName, isTok_qid, h2]
    | 3, _ => simp (disch := decide) [parseSub, pathTokName, isTok_qid, h2]
  | leadsTo a b =>
    simp only [Sub.wf, Bool.and_eq_true] at h
    rw [printSub_leads]
    have e1 : (P a ++ Tok.sym (qid "T_LEADS_TO") :: P b) ++ rest = P a ++ Tok.sym (qid "T_LEADS_TO") :: (P b ++ rest) := by simp
    rw [e1]
    have hl := leads_print a b h.1 h.2 rest hs
    obtain ⟨hd, tl, hp, hst⟩ := P_head a h.1
    rw [hp] at hl ⊢
    cases hd with
    | sym t =>
      have hpre : utapT.isPre t = true := hst
      simp (disch := first | decide | assumption) [parseSub, isTok_pre] 
      exact hl
    | atom _ => simpa [parseSub] using hl
    | quant _ _ _ => simpa [parseSub] using hl
    | lp => simpa [parseSub] using hl
    | fn _ _ => simpa [parseSub] using hl
    | _ => exact absurd hst (by simp [StartTok])
  | «until» w a b =>
    simp only [Sub.wf, Bool.and_eq_true] at h
    rw [printSub_until]
    have e1 : (Tok.sym (qid "'A'") :: Tok.lb :: (P a ++ Tok.sym (qid (if w then "'W'" else "'U'")) :: (P b ++ [Tok.rb]))) ++ rest =
        Tok.sym (qid "'A'") :: Tok.lb :: (P a ++ Tok.sym (qid (if w then "'W'" else "'U'")) :: (P b ++ Tok.rb :: rest)) := by simp
    rw [e1]
    have h2 := pE_print b h.2 (.rb :: rest) (qstop_rb rest)
    cases w
    · have h1 := pE_print a h.1 (.sym (qid "'U'") :: (P b ++ Tok.rb :: rest)) (qstop_sym (nonop _ (by decide) (by decide)) _)
      simp (disch := decide) [parseSub, untilTail, isTok_qid, h1, h2]
    · have h1 := pE_print a h.1 (.sym (qid "'W'") :: (P b ++ Tok.rb :: rest)) (qstop_sym (nonop _ (by decide) (by decide)) _)
      simp (disch := decide) [parseSub, untilTail, isTok_qid, h1, h2]

theorem printList_cons2 (e e2 : Expr) (r : List Expr) : printList P (e :: e2 :: r) = P e ++ .comma :: printList P (e2 :: r) := rfl

theorem printList_length (l : List Expr) (hg : l.all goodE = true) : l.length ≤ (printList P l).length := by
  induction l with
  | nil => simp
  | cons e r ih =>
    simp only [List.all_cons, Bool.and_eq_true] at hg
    obtain ⟨hd, tl, hp, _⟩ := P_head e hg.1
    cases r with
    | nil => simp [printList, hp]
    | cons e2 r2 =>
      have := ih hg.2
      rw [printList_cons2]
      simp only [List.length_append, List.length_cons, hp] at this ⊢
      omega

theorem parseList_print (l : List Expr) (hl : l ≠ []) (hg : l.all goodE = true) (rest : List Tok) (hs : QStop rest)
    (hc : ∀ r, rest ≠ .comma :: r) : ∀ f, l.length ≤ f → parseList f (printList P l ++ rest) = some (l, rest) := by
  induction l with
  | nil => exact absurd rfl hl
  | cons e r ih =>
    intro f hf
    simp only [List.all_cons, Bool.and_eq_true] at hg
    obtain ⟨f', rfl⟩ : ∃ f', f = f' + 1 := ⟨f - 1, by simp only [List.length_cons] at hf; omega⟩
    cases r with
    | nil =>
      have h1 := pE_print e hg.1 rest hs
      simp only [printList, parseList, h1]
    | cons e2 r2 =>
      rw [printList_cons2]
      have e1 : (P e ++ Tok.comma :: printList P (e2 :: r2)) ++ rest = P e ++ Tok.comma :: (printList P (e2 :: r2) ++ rest) := by simp
      have h1 := pE_print e hg.1 (Tok.comma :: (printList P (e2 :: r2) ++ rest)) (qstop_comma _)
      have h2 := ih (by simp) hg.2 f' (by simp only [List.length_cons] at hf ⊢; omega)
      simp only [e1, parseList, h1, h2]

theorem lay_tbl2 : [layout "CONTROL", layout "EF_CONTROL", layout "CONTROL_TOPT", layout "CONTROL_TOPT_DEF1", layout "CONTROL_TOPT_DEF2",
    layout "PO_CONTROL", layout "SUP_VAR", layout "INF_VAR", layout "BOUNDS_VAR"] =
  [[.lit "" ["T_CONTROL", "':'"], .arg 0],
   [.lit "" ["T_EF"], .lit "" ["T_CONTROL", "':'"], .arg 0],
   [.lit "" ["T_CONTROL_T", "T_MULT", "'('"], .arg 0, .lit "" ["','"], .arg 1, .lit "" ["')'", "':'"], .arg 2],
   [.lit "" ["T_CONTROL_T", "T_MULT", "'('"], .arg 0, .lit "" ["')'", "':'"], .arg 1],
   [.lit "" ["T_CONTROL_T", "T_MULT", "':'"], .arg 0],
   [.lit "" ["'{'"], .arg 0, .lit "" ["'}'", "T_CONTROL", "':'"], .arg 1],
   [.lit "" ["T_SUP", "'{'"], .arg 0, .lit "" ["'}'", "':'"], .arg 1],
   [.lit "" ["T_INF", "'{'"], .arg 0, .lit "" ["'}'", "':'"], .arg 1],
   [.lit "" ["T_BOUNDS", "'{'"], .arg 0, .lit "" ["'}'", "':'"], .arg 1]] := by decide +kernel

theorem printQ_forms (x a b l p : List Tok) :
    renderQ (layout "CONTROL") [x] = .sym (qid "T_CONTROL") :: .colon :: x ∧
    renderQ (layout "EF_CONTROL") [x] = .sym (qid "T_EF") :: .sym (qid "T_CONTROL") :: .colon :: x ∧
    renderQ (layout "CONTROL_TOPT") [a, b, x] = .sym (qid "T_CONTROL_T") :: .sym (qid "T_MULT") :: .lp :: (a ++ .comma :: (b ++ .rp :: .colon :: x)) ∧
    renderQ (layout "CONTROL_TOPT_DEF1") [a, x] = .sym (qid "T_CONTROL_T") :: .sym (qid "T_MULT") :: .lp :: (a ++ .rp :: .colon :: x) ∧
    renderQ (layout "CONTROL_TOPT_DEF2") [x] = .sym (qid "T_CONTROL_T") :: .sym (qid "T_MULT") :: .colon :: x ∧
    renderQ (layout "PO_CONTROL") [l, x] = .sym (qid "'{'") :: (l ++ .sym (qid "'}'") :: .sym (qid "T_CONTROL") :: .colon :: x) ∧
    renderQ (layout "SUP_VAR") [p, l] = .sym (qid "T_SUP") :: .sym (qid "'{'") :: (p ++ .sym (qid "'}'") :: .colon :: l) ∧
    renderQ (layout "INF_VAR") [p, l] = .sym (qid "T_INF") :: .sym (qid "'{'") :: (p ++ .sym (qid "'}'") :: .colon :: l) ∧
    renderQ (layout "BOUNDS_VAR") [p, l] = .sym (qid "T_BOUNDS") :: .sym (qid "'{'") :: (p ++ .sym (qid "'}'") :: .colon :: l) := by
  have h := lay_tbl2
  simp only [List.cons.injEq, and_true] at h
  obtain ⟨h1, h2, h3, h4, h5, h6, h7, h8, h9⟩ := h
  simp [h1, h2, h3, h4, h5, h6, h7, h8, h9, renderQ, qtok_punct, qtok_tbl "T_CONTROL" (by decide), qtok_tbl "T_EF" (by decide),
    qtok_tbl "T_CONTROL_T" (by decide), qtok_tbl "T_MULT" (by decide), qtok_tbl "'{'" (by decide), qtok_tbl "'}'" (by decide),
    qtok_tbl "T_SUP" (by decide), qtok_tbl "T_INF" (by decide), qtok_tbl "T_BOUNDS" (by decide)]

theorem subEnd_print (s : Sub) (h : s.wf = true) (mk : Sub → Query) : subEnd (printSub P s) mk = some (mk s) := by
  have := parseSub_print s h [] qstop_nil
  simp only [List.append_nil] at this
  simp only [subEnd, this]

/-- a query that is a plain `SubProperty` is not taken for one of the `control` / `sup` forms -/
theorem parseQ_sub (s : Sub) (h : s.wf = true) : parseQ (printSub P s) = some (.sub s) := by
  have hse := subEnd_print s h .sub
  cases s with
  | path k e =>
    simp only [Sub.wf, Bool.and_eq_true, decide_eq_true_eq] at h
    rw [printSub_path k h.1] at hse ⊢
    match k, h.1 with
    | 0, _ => simpa (disch := decide) [parseQ, optOf, pathTokName, isTok_qid] using hse
    | 1, _ => simpa (disch := decide) [parseQ, optOf, pathTokName, isTok_qid] using hse
    | 3, _ => simpa (disch := decide) [parseQ, optOf, pathTokName, isTok_qid] using hse
    | 2, _ =>
      obtain ⟨hd, tl, hp, hst⟩ := P_head e h.2
      rw [hp] at hse ⊢
      cases hd with
      | sym t =>
        have hpre : utapT.isPre t = true := hst
        simp (disch := first | decide | assumption) [parseQ, optOf, pathTokName, isTok_qid, isTok_pre] at hse ⊢
        exact hse
      | atom _ => simpa (disch := decide) [parseQ, optOf, pathTokName, isTok_qid] using hse
      | quant _ _ _ => simpa (disch := decide) [parseQ, optOf, pathTokName, isTok_qid] using hse
      | lp => simpa (disch := decide) [parseQ, optOf, pathTokName, isTok_qid] using hse
      | fn _ _ => simpa (disch := decide) [parseQ, optOf, pathTokName, isTok_qid] using hse
      | _ => exact absurd hst (by simp [StartTok])
  | leadsTo a b =>
    simp only [Sub.wf, Bool.and_eq_true] at h
    rw [printSub_leads] at hse ⊢
    obtain ⟨hd, tl, hp, hst⟩ := P_head a h.1
    rw [hp] at hse ⊢
    cases hd with
    | sym t =>
      have hpre : utapT.isPre t = true := hst
      simp (disch := first | decide | assumption) [parseQ, optOf, isTok_pre] at hse ⊢
      exact hse
    | atom _ => simpa [parseQ] using hse
    | quant _ _ _ => simpa [parseQ] using hse
    | lp => simpa [parseQ] using hse
    | fn _ _ => simpa [parseQ] using hse
    | _ => exact absurd hst (by simp [StartTok])
  | «until» w a b =>
    rw [printSub_until] at hse ⊢
    simpa (disch := decide) [parseQ, optOf, isTok_qid] using hse

theorem listEnd_print (w : Nat) (p : Expr) (l : List Expr) (hl : l ≠ []) (hg : l.all goodE = true) :
    listEnd w p (printList P l) = some (.opt w p l) := by
  have h := parseList_print l hl hg [] qstop_nil (by intro r h; cases h) ((printList P l).length + 1)
    (by have := printList_length l hg; omega)
  simp only [List.append_nil] at h
  simp only [listEnd, h]


/-- the case analysis behind `C03_query_roundtrip` -/
theorem query_roundtrip (q : Query) (h : q.wf = true) : parseQ (qprint q) = some q := by
  unfold qprint
  cases q with
  | sub s => exact parseQ_sub s h
  | control s =>
    have hs := subEnd_print s h .control
    simp only [printQ, (printQ_forms (printSub P s) [] [] [] []).1]
    simpa (disch := decide) [parseQ, isTok_qid] using hs
  | efControl s =>
    have hs := subEnd_print s h .efControl
    simp only [printQ, (printQ_forms (printSub P s) [] [] [] []).2.1]
    simpa (disch := decide) [parseQ, optOf, isTok_qid] using hs
  | ct2 a b s =>
    simp only [Query.wf, Bool.and_eq_true] at h
    have hs := subEnd_print s h.2 (.ct2 a b)
    have h1 := pE_print a h.1.1 (.comma :: (P b ++ .rp :: .colon :: printSub P s)) (qstop_comma _)
    have h2 := pE_print b h.1.2 (.rp :: .colon :: printSub P s) (qstop_rp _)
    simp only [printQ, (printQ_forms (printSub P s) (P a) (P b) [] []).2.2.1]
    simp (disch := decide) [parseQ, ctTail, isTok_qid, h1, h2, hs]
  | ct1 a s =>
    simp only [Query.wf, Bool.and_eq_true] at h
    have hs := subEnd_print s h.2 (.ct1 a)
    have h1 := pE_print a h.1 (.rp :: .colon :: printSub P s) (qstop_rp _)
    simp only [printQ, (printQ_forms (printSub P s) (P a) [] [] []).2.2.2.1]
    simp (disch := decide) [parseQ, ctTail, isTok_qid, h1, hs]
  | ct0 s =>
    have hs := subEnd_print s h .ct0
    simp only [printQ, (printQ_forms (printSub P s) [] [] [] []).2.2.2.2.1]
    simp (disch := decide) [parseQ, ctTail, isTok_qid, hs]
  | po l s =>
    simp only [Query.wf, Bool.and_eq_true] at h
    have hs := subEnd_print s h.2 (.po l)
    simp only [printQ, (printQ_forms (printSub P s) [] [] (printList P l) []).2.2.2.2.2.1]
    cases l with
    | nil => simp (disch := decide) [parseQ, poTail, printList, isTok_qid, hs]
    | cons e r =>
      have hst : QStop (Tok.sym (qid "'}'") :: Tok.sym (qid "T_CONTROL") :: Tok.colon :: printSub P s) :=
        qstop_sym (nonop _ (by decide) (by decide)) _
      have hpo : poList (printList P (e :: r) ++ Tok.sym (qid "'}'") :: Tok.sym (qid "T_CONTROL") :: Tok.colon :: printSub P s) =
          some (.po (e :: r) s) := by
        unfold poList
        rw [parseList_print (e :: r) (by simp) h.1 _ hst (by intro r h; cases h) _
          (by have := printList_length (e :: r) h.1; simp only [List.length_append]; omega)]
        simp (disch := decide) [poTail, isTok_qid, hs]
      -- the first token of the list is not `}`
      have hg1 : goodE e = true := by simp only [List.all_cons, Bool.and_eq_true] at h; exact h.1.1
      obtain ⟨hd, tl, hp, hstart⟩ := P_head e hg1
      have hhead : ∃ tl', printList P (e :: r) = hd :: tl' := by
        cases r with
        | nil => exact ⟨tl, by simp [printList, hp]⟩
        | cons e2 r2 => exact ⟨tl ++ .comma :: printList P (e2 :: r2), by rw [printList_cons2, hp]; rfl⟩
      obtain ⟨tl', hp'⟩ := hhead
      rw [hp'] at hpo ⊢
      cases hd with
      | sym t =>
        have hpre : utapT.isPre t = true := hstart
        simp (disch := first | decide | assumption) [parseQ, isTok_qid, isTok_pre]
        exact hpo
      | atom _ => simpa (disch := decide) [parseQ, isTok_qid] using hpo
      | quant _ _ _ => simpa (disch := decide) [parseQ, isTok_qid] using hpo
      | lp => simpa (disch := decide) [parseQ, isTok_qid] using hpo
      | fn _ _ => simpa (disch := decide) [parseQ, isTok_qid] using hpo
      | _ => exact absurd hstart (by simp [StartTok])
  | opt w p l =>
    simp only [Query.wf, Bool.and_eq_true, decide_eq_true_eq, Bool.not_eq_true', List.isEmpty_eq_false_iff] at h
    have hle := listEnd_print w p l h.2 h.1.2
    have h1 := pE_print p h.1.1.2 (.sym (qid "'}'") :: .colon :: printList P l) (qstop_sym (nonop _ (by decide) (by decide)) _)
    match w, h.1.1.1 with
    | 0, _ =>
      simp only [printQ, optKind, (printQ_forms [] [] [] (printList P l) (P p)).2.2.2.2.2.2.1]
      simp (disch := decide) [parseQ, optOf, optTail, isTok_qid, h1, hle]
    | 1, _ =>
      simp only [printQ, optKind, (printQ_forms [] [] [] (printList P l) (P p)).2.2.2.2.2.2.2.1]
      simp (disch := decide) [parseQ, optOf, optTail, isTok_qid, h1, hle]
    | 2, _ =>
      simp only [printQ, optKind, (printQ_forms [] [] [] (printList P l) (P p)).2.2.2.2.2.2.2.2]
      simp (disch := decide) [parseQ, optOf, optTail, isTok_qid, h1, hle]


end UtapModel.Query
