/-
C03 — printing an expression and re-parsing it reproduces the same tree.

`lprint` (Model/PrintModel.lean) is the token stream of `expression_t::str()`: per-kind layout with each operand wrapped
by `embrace`, `embrace_strict` or nothing, as prescribed by tables that translate/printer.py regenerates from
src/expression.cpp (`get_precedence`, `print`) on every run.  The parser is the grammar model of C02 with the table
regenerated from parser.y.  `good` is the *computed* criterion: it fails exactly at a (parent kind, operand position,
child kind) where the printer omits parentheses that the grammar needs — today: an assignment or inline-if as the left
operand of an assignment (`(a = b) = c` is printed `a = b = c`), and non-primary operands of `'` and of a call, which
no accepted expression contains.  The check enumerates all such combinations from the generated tables (driver
command `B`), proves the negation on each witness (Gen/PrinterWitness.lean, regenerated) and replays them on the library.

Full statement (not provable, because the unchanged library violates it at the shapes above):
  ∀ e, wf e → parseTop utapT (lprint e) = some e.
-/
import UtapModel.Lemmas.PrintLemmas
import UtapModel.Lemmas.StrLit
import UtapModel.Props.C02

namespace UtapModel.C03
open UtapModel.Pratt UtapModel.ExprTable UtapModel.PrintModel UtapModel.Spec

/-- **parse (str e) = e** for every tree (all operator pairs and positions, unbounded size) outside the computed
exception set -/
theorem C03_partial (e : Expr) (h : good genData mt false e = true) :
    parseTop utapT (lprint genData mt e) = some e :=
  print_parse genData mt UtapModel.C02.utapT_tern_le_quest e h

/-- **str (parse (str e)) = str e**: the second conversion gives the identical token stream -/
theorem C03_idempotent (e e' : Expr) (h : good genData mt false e = true)
    (hp : parseTop utapT (lprint genData mt e) = some e') : lprint genData mt e' = lprint genData mt e := by
  rw [C03_partial e h] at hp
  injection hp with hp
  rw [← hp]

/-- the criterion is not stronger than the fragment needs at the root: every well-formed tree whose operands are all
atoms is good (so each operator occurs in good trees) -/
theorem good_of_atoms_bin (t : Nat) (x y : Atom) (hx : x ≠ .intMin) (hy : y ≠ .intMin)
    (h : wf utapT mt false (.bin t (.atom x) (.atom y)) = true) : good genData mt false (.bin t (.atom x) (.atom y)) = true := by
  simp only [wf, Bool.and_eq_true, Bool.not_eq_true', hx, hy, if_false] at h
  simp only [good, opOK, bareOK, lvlOf, Bool.or_true, Bool.and_true, hx, hy, if_false, Bool.and_eq_true, Bool.not_eq_true']
  exact ⟨⟨h.1.1.1.1, h.1.1.1.2⟩, h.1.1.2⟩

/-! ### non-vacuity and the known exception, on concrete trees -/
example : good genData mt false
    (.bin (tokOfText "*") (.bin (tokOfText "+") (.atom (.ident "a")) (.atom (.ident "b")))
      (.pre (tokOfText "-") (.tern (.atom (.ident "p")) (.atom (.nat 1)) (.index (.atom (.ident "c")) (.atom (.nat 2)))))) = true := by
  decide +kernel
example : toksText (lprint genData mt
    (.bin (tokOfText "*") (.bin (tokOfText "+") (.atom (.ident "a")) (.atom (.ident "b"))) (.atom (.ident "c")))) = "( a + b ) * c" := by
  decide +kernel

/-! ### string constants at the text level

`expression_t::print` writes a string constant with `std::quoted`; the lexer rule `\"[^\"]+\"` takes the token back and
`make_constant` reads its value with `std::quoted` again (Model/StrLit.lean). -/

open UtapModel.StrLit in
/-- **a printed string constant reads back as the same value**, with whatever follows it left in the input -- for every non-empty
    value without a double quote (the values the lexer can produce), backslashes and everything else included -/
theorem C03_string_roundtrip (s rest : List Char) (hne : s ≠ []) (hq : NoQuote s) : roundTrip s rest = some (s, rest) := by
  have hsp := spanNoQuote_append (escape s) rest (noQuote_escape s hq)
  have hne' : (escape s).isEmpty = false := by
    cases h : escape s with
    | nil => exact absurd h (escape_ne_nil s hne)
    | cons _ _ => rfl
  have htxt : quote s ++ rest = dq :: (escape s ++ dq :: rest) := by simp [quote]
  have hun : unquote (dq :: (escape s ++ [dq])) = s := by
    simp only [unquote, beq_self_eq_true, if_true]
    exact unescape_escape s []
  simp only [roundTrip, htxt, lexStr, beq_self_eq_true, if_true, hsp, hne', Bool.false_eq_true, if_false, Option.map_some, hun]

open UtapModel.StrLit in
/-- reading back never depends on what the value contains (`std::quoted` is its own inverse); the hypothesis above is the lexer's -/
theorem C03_quoted_inverse (s : List Char) : unquote (quote s) = s := by
  simp only [unquote, quote, beq_self_eq_true, if_true]
  exact unescape_escape s []

open UtapModel.StrLit in
/-- the hypotheses cannot be dropped: a value containing a double quote, and the empty value, do not come back -/
theorem C03_string_witness :
    roundTrip "a\"b".toList [] ≠ some ("a\"b".toList, []) ∧ roundTrip [] [] = none := by decide

open UtapModel.StrLit in
example : NoQuote "C:\\dir\\f.json".toList ∧ "C:\\dir\\f.json".toList ≠ [] := by
  refine ⟨?_, by decide⟩
  intro c hc; revert c; decide

end UtapModel.C03
