/-
The UPPAAL operator table, written by hand and *not* derived from parser.y: it is the reference the generated grammar
table is compared with (Props/C02.lean `utap_matches_spec`), so that an edit to the %left/%right block or to a %prec
annotation changes the model but not the specification.

Source: UPPAAL language reference, "Expressions" (operators listed by decreasing precedence):
  () [] .   |   ! not ++ -- unary- unary+   |   * / %   |   - +   |   << >>   |   <? >?   |   < <= >= >   |   == !=
  |   &   |   ^   |   |   |   && and   |   || or imply (and xor)   |   ?: (right)   |   = := += -= … (right)   |
  forall exists sum;  `**` (power) binds tighter than `*` and looser than the unary operators; `'` (rate) is a
  postfix of the top level; all binary levels associate to the left.
Operators are given by their *text*; the lexer tables (generated) turn text into tokens.
-/
import UtapModel.Model.ExprTable

namespace UtapModel.Spec
open UtapModel.ExprTable UtapModel.ExprGrammar

/-- rows from lowest to highest precedence: (right associative?, entries (role, text, kind)) -/
def table : List (Bool × List (String × String × String)) := [
  (true,  [("quant", "forall", "FORALL"), ("quant", "exists", "EXISTS"), ("quant", "sum", "SUM")]),
  (true,  [("bin", "=", "ASSIGN"), ("bin", ":=", "ASSIGN"), ("bin", "+=", "ASS_PLUS"), ("bin", "-=", "ASS_MINUS"),
           ("bin", "*=", "ASS_MULT"), ("bin", "/=", "ASS_DIV"), ("bin", "%=", "ASS_MOD"), ("bin", "|=", "ASS_OR"),
           ("bin", "&=", "ASS_AND"), ("bin", "^=", "ASS_XOR"), ("bin", "<<=", "ASS_LSHIFT"), ("bin", ">>=", "ASS_RSHIFT"),
           ("tern", "?", "INLINE_IF")]),     -- the inline-if *production* reduces like an assignment (right operand maximal)
  (true,  [("quest", "?", "INLINE_IF")]),    -- the token `?` itself binds tighter than the assignment operators
  (false, [("bin", "||", "OR"), ("bin", "or", "OR"), ("bin", "xor", "XOR"), ("imply", "imply", "OR")]),
  (false, [("bin", "&&", "AND"), ("bin", "and", "AND")]),
  (false, [("bin", "|", "BIT_OR")]),
  (false, [("bin", "^", "BIT_XOR")]),
  (false, [("bin", "&", "BIT_AND")]),
  (false, [("bin", "==", "EQ"), ("bin", "!=", "NEQ")]),
  (false, [("bin", "<", "LT"), ("bin", "<=", "LE"), ("bin", ">=", "GE"), ("bin", ">", "GT")]),
  (false, [("bin", "<?", "MIN"), ("bin", ">?", "MAX")]),
  (false, [("bin", "<<", "BIT_LSHIFT"), ("bin", ">>", "BIT_RSHIFT")]),
  (false, [("bin", "+", "PLUS"), ("bin", "-", "MINUS")]),
  (false, [("bin", "*", "MULT"), ("bin", "/", "DIV"), ("bin", "%", "MOD")]),
  (false, [("bin", "**", "POW")]),
  (true,  [("pre", "!", "NOT"), ("pre", "not", "NOT"), ("pre", "-", "UNARY_MINUS"), ("pre", "+", "")]),
  (true,  [("pre", "++", "PRE_INCREMENT"), ("pre", "--", "PRE_DECREMENT"),
           ("post", "++", "POST_INCREMENT"), ("post", "--", "POST_DECREMENT")]),
  (false, [("post", "'", "RATE"), ("top", "(", ""), ("top", "[", ""), ("top", ".", "")])
]

/-- the comma of an expression list (`a = 1, b = 2, c = 3` in an update, the clauses of a `for`) is the operator of lowest
precedence and groups to the left like every other binary level: `(a = 1, b = 2), c = 3` -/
def commaLeftAssoc : Bool := true

/-- token of an operator text according to the (generated) lexer tables -/
def tokOfText (s : String) : Nat :=
  match literals.find? (fun x => x.1 == s) with
  | some (_, tn) => tokId tn
  | none =>
    match keywordsNew.find? (fun x => x.1 == s) with
    | some (_, tn) => tokId tn
    | none => 9999

def entries (role : String) : List (Nat × Nat × String) :=
  (table.zipIdx.map (fun (row, i) => (row.2.filter (fun e => e.1 == role)).map (fun e => (tokOfText e.2.1, i + 1, e.2.2)))).flatten

def levelOfRole (role : String) : Nat := match entries role with | (_, l, _) :: _ => l | [] => 0

/-- the reference table in the same format as the generated one.  Two texts of one token (`=` and `:=`) give one entry. -/
def specData : Data :=
  { bins := (entries "bin").eraseDups
    imply := (entries "imply").headD (0, 0, "")
    pres := entries "pre"
    posts := entries "post"
    quants := entries "quant"
    levels := table.map (fun row => (row.1, []))
    quest := levelOfRole "quest"
    tern := levelOfRole "tern"
    top := levelOfRole "top"
    minus := tokOfText "-" }

def specT : UtapModel.Pratt.Tbl := specData.tbl

/-! ### comparison of two tables up to renumbering of levels -/

def insertSorted (x : String × Nat × String) : List (String × Nat × String) → List (String × Nat × String)
  | [] => [x]
  | y :: ys => if x.1 < y.1 || (x.1 == y.1 && x.2.1 ≤ y.2.1) then x :: y :: ys else y :: insertSorted x ys

def sortRow (l : List (String × Nat × String)) : List (String × Nat × String) := l.foldr insertSorted []

def rowAt (D : Data) (lvl : Nat) : List (String × Nat × String) :=
  sortRow (
    (D.bins.filter (fun x => x.2.1 == lvl)).map (fun x => ("bin", x.1, x.2.2)) ++
    (if D.imply.2.1 == lvl then [("imply", D.imply.1, D.imply.2.2)] else []) ++
    (D.pres.filter (fun x => x.2.1 == lvl)).map (fun x => ("pre", x.1, x.2.2)) ++
    (D.posts.filter (fun x => x.2.1 == lvl)).map (fun x => ("post", x.1, x.2.2)) ++
    (D.quants.filter (fun x => x.2.1 == lvl)).map (fun x => ("quant", x.1, x.2.2)) ++
    (if D.quest == lvl then [("quest", 0, "")] else []) ++
    (if D.tern == lvl then [("tern", 0, "")] else []) ++
    (if D.top == lvl then [("top", 0, "")] else []))

/-- the table as rows of operators from lowest to highest level, empty levels dropped: the level *order*, the
associativity of each level and the role/kind of each operator — but not bison's numbering -/
def rows (D : Data) : List (Bool × List (String × Nat × String)) :=
  ((List.range (D.levels.length + 1)).map (fun l => (D.tbl.ra l, rowAt D l))).filter (fun r => !r.2.isEmpty)

/-! ### builtin functions (hand-written from the UPPAAL language reference: name, kind of the node, number of arguments) -/

def builtinSpec : List (String × String × Nat) := [
  ("abs", "ABS_F", 1), ("fabs", "FABS_F", 1), ("exp", "EXP_F", 1), ("exp2", "EXP2_F", 1),
  ("expm1", "EXPM1_F", 1), ("ln", "LN_F", 1), ("log", "LOG_F", 1), ("log10", "LOG10_F", 1),
  ("log2", "LOG2_F", 1), ("log1p", "LOG1P_F", 1), ("sqrt", "SQRT_F", 1), ("cbrt", "CBRT_F", 1),
  ("sin", "SIN_F", 1), ("cos", "COS_F", 1), ("tan", "TAN_F", 1), ("asin", "ASIN_F", 1),
  ("acos", "ACOS_F", 1), ("atan", "ATAN_F", 1), ("sinh", "SINH_F", 1), ("cosh", "COSH_F", 1),
  ("tanh", "TANH_F", 1), ("asinh", "ASINH_F", 1), ("acosh", "ACOSH_F", 1), ("atanh", "ATANH_F", 1),
  ("erf", "ERF_F", 1), ("erfc", "ERFC_F", 1), ("tgamma", "TGAMMA_F", 1), ("lgamma", "LGAMMA_F", 1),
  ("ceil", "CEIL_F", 1), ("floor", "FLOOR_F", 1), ("trunc", "TRUNC_F", 1), ("round", "ROUND_F", 1),
  ("fint", "FINT_F", 1), ("ilogb", "ILOGB_F", 1), ("logb", "LOGB_F", 1), ("fpclassify", "FP_CLASSIFY_F", 1),
  ("isfinite", "IS_FINITE_F", 1), ("isinf", "IS_INF_F", 1), ("isnan", "IS_NAN_F", 1), ("isnormal", "IS_NORMAL_F", 1),
  ("signbit", "SIGNBIT_F", 1), ("isunordered", "IS_UNORDERED_F", 1), ("random", "RANDOM_F", 1), ("random_poisson", "RANDOM_POISSON_F", 1),
  ("fmod", "FMOD_F", 2), ("fmax", "FMAX_F", 2), ("fmin", "FMIN_F", 2), ("fdim", "FDIM_F", 2),
  ("pow", "POW_F", 2), ("hypot", "HYPOT_F", 2), ("atan2", "ATAN2_F", 2), ("ldexp", "LDEXP_F", 2),
  ("nextafter", "NEXT_AFTER_F", 2), ("copysign", "COPY_SIGN_F", 2), ("random_arcsine", "RANDOM_ARCSINE_F", 2), ("random_beta", "RANDOM_BETA_F", 2),
  ("random_gamma", "RANDOM_GAMMA_F", 2), ("random_normal", "RANDOM_NORMAL_F", 2), ("random_weibull", "RANDOM_WEIBULL_F", 2), ("fma", "FMA_F", 3),
  ("random_tri", "RANDOM_TRI_F", 3)]

end UtapModel.Spec
