/- Line-protocol driver for the constness model (property C12).  One query per input line, one canonical answer per line;
   `harness/c12.cpp` produces the same facts from the real library (see the header of that file for the term syntax).

     ex <EX>                      -> mod= lv= uniq= tmut= tconst= rooted= mutt= pure= sites= ty=<TY>
     ty <TY>                      -> mut= const= cdecl= clean= isC= isRef= sub=<TY> strip=<TY>
     field <i> <TY>               -> <TY>                      (get_sub(i))
     write <KIND> <EX>            -> refused=
     arg <PARAM-TY> <EX>          -> ref= const= refused=
     inst <0|1> <PARAM-TY> <EX>   -> refused=                  (first argument: isCompileTimeComputable(arg))
     binder <site> <TY>           -> mod= ty=<TY>
     decl <DECL>                  -> const= free= ty=<TY>     (DECL = (base b prefix [label]) | (named prefix name DECL)
                                                               | (struct prefix {name DECL}) | (array DECL) | (ref DECL))
     declbinder <site> <DECL>     -> mod= ty=<TY>
-/
import UtapModel.Model.Const
import UtapModel.Model.ConstDecl
open UtapModel UtapModel.Const UtapModel.ConstGen

inductive Tok where
  | lp | rp | atom (s : String)
deriving Repr, BEq

def tokenize (s : String) : List Tok := Id.run do
  let mut out : Array Tok := #[]
  let mut cur : String := ""
  for c in s.toList do
    if c == '(' || c == ')' || c == ' ' || c == '\t' || c == '\n' || c == '\r' then
      if cur != "" then
        out := out.push (.atom cur)
        cur := ""
      if c == '(' then out := out.push .lp
      if c == ')' then out := out.push .rp
    else
      cur := cur.push c
  if cur != "" then out := out.push (.atom cur)
  return out.toList

mutual
  partial def parseTy : List Tok → Option (Ty × List Tok)
    | .lp :: .atom k :: rest =>
      match Kind.ofName? k with
      | none => none
      | some kind =>
        match parseChildren rest with
        | some (cs, rest') => some (.mk kind cs, rest')
        | none => none
    | _ => none
  partial def parseChildren : List Tok → Option (Children × List Tok)
    | .rp :: rest => some (.nil, rest)
    | .atom l :: rest =>
      match parseTy rest with
      | some (t, rest') =>
        match parseChildren rest' with
        | some (cs, rest'') => some (.cons l t cs, rest'')
        | none => none
      | none => none
    | toks@(.lp :: _) =>
      match parseTy toks with
      | some (t, rest') =>
        match parseChildren rest' with
        | some (cs, rest'') => some (.cons "" t cs, rest'')
        | none => none
      | none => none
    | [] => none
end

mutual
  partial def showTy : Ty → String
    | .mk k cs => "(" ++ k.name ++ showChildren cs ++ ")"
  partial def showChildren : Children → String
    | .nil => ""
    | .cons l t r => " " ++ (if l == "" then "" else l ++ " ") ++ showTy t ++ showChildren r
end

def expectRp : List Tok → Option (List Tok)
  | .rp :: rest => some rest
  | _ => none

partial def parseEx : List Tok → Option (Ex × List Tok)
  | .lp :: .atom "id" :: .atom name :: rest => do
    let (t, r) ← parseTy rest
    let r ← expectRp r
    pure (.ident name t, r)
  | .lp :: .atom "dot" :: .atom i :: rest => do
    let n ← i.toNat?
    let (e, r) ← parseEx rest
    let r ← expectRp r
    pure (.dot e n, r)
  | .lp :: .atom "idx" :: .atom c :: rest => do
    let (e, r) ← parseEx rest
    let r ← expectRp r
    pure (.index e (c == "1"), r)
  | .lp :: .atom "n1" :: .atom k :: rest => do
    let kind ← Kind.ofName? k
    let (e, r) ← parseEx rest
    let r ← expectRp r
    pure (.unary kind e, r)
  | .lp :: .atom "n2" :: .atom k :: rest => do
    let kind ← Kind.ofName? k
    let (a, r) ← parseEx rest
    let (b, r) ← parseEx r
    let r ← expectRp r
    pure (.binary kind a b, r)
  | .lp :: .atom "iif" :: .atom eq :: rest => do
    let (t, r) ← parseTy rest
    let (c, r) ← parseEx r
    let (a, r) ← parseEx r
    let (b, r) ← parseEx r
    let r ← expectRp r
    pure (.iif (eq == "1") t c a b, r)
  | .lp :: .atom "op" :: .atom k :: rest => do
    let kind ← Kind.ofName? k
    let (t, r) ← parseTy rest
    let r ← expectRp r
    pure (.opaque kind t, r)
  | _ => none

def b (x : Bool) : String := if x then "1" else "0"

def siteOf : String → Option BinderSite
  | "forall" => some .forallQ
  | "exists" => some .existsQ
  | "sum" => some .sumQ
  | "iteration" => some .iteration
  | "select" => some .select
  | _ => none

def exInfo (e : Ex) : String :=
  let t := typeOf e
  s!"mod={b (isModLv e)} lv={b (isLv e)} uniq={b (isUniq e)} tmut={b t.isMutable} tconst={b t.isConstant} " ++
  s!"rooted={b (constRooted e)} mutt={b (mutTarget e)} pure={b (purePath e)} sites={b (sitesOk e)} ty={showTy t}"

def prefixOf : String → Option Prefix
  | "none" => some .none
  | "const" => some .const
  | "urgent" => some .urgent
  | "broadcast" => some .broadcast
  | "urgentBroadcast" => some .urgentBroadcast
  | "systemMeta" => some .systemMeta
  | "hybrid" => some .hybrid
  | _ => none

mutual
  partial def parseDecl : List Tok → Option (Decl × List Tok)
    | .lp :: .atom "base" :: .atom "scalar" :: .atom p :: .atom l :: .rp :: rest => do
      pure (.base (.scalar l) (← prefixOf p), rest)
    | .lp :: .atom "base" :: .atom b :: .atom p :: .rp :: rest => do
      let bt ← match b with
        | "bool" => some BaseType.bool
        | "int" => some .int
        | "double" => some .double
        | "boundedInt" => some .boundedInt
        | "clock" => some .clock
        | _ => none
      pure (.base bt (← prefixOf p), rest)
    | .lp :: .atom "named" :: .atom p :: .atom n :: rest => do
      let (d, r) ← parseDecl rest
      let r ← expectRp r
      pure (.named (← prefixOf p) n d, r)
    | .lp :: .atom "struct" :: .atom p :: rest => do
      let (fs, r) ← parseFields rest
      pure (.struct (← prefixOf p) fs, r)
    | .lp :: .atom "array" :: rest => do
      let (d, r) ← parseDecl rest
      let r ← expectRp r
      pure (.array d, r)
    | .lp :: .atom "ref" :: rest => do
      let (d, r) ← parseDecl rest
      let r ← expectRp r
      pure (.ref d, r)
    | _ => none
  partial def parseFields : List Tok → Option (DeclFields × List Tok)
    | .rp :: rest => some (.nil, rest)
    | .atom n :: rest => do
      let (d, r) ← parseDecl rest
      let (fs, r) ← parseFields r
      pure (.cons n d fs, r)
    | _ => none
end

def stepLine (line : String) : String :=
  match tokenize line with
  | .atom "ex" :: rest =>
    match parseEx rest with
    | some (e, []) => exInfo e
    | _ => "bad-ex"
  | .atom "ty" :: rest =>
    match parseTy rest with
    | some (t, []) =>
      s!"mut={b t.isMutable} const={b t.isConstant} cdecl={b t.constDeclared} clean={b t.clean} isC={b (t.is .kCONSTANT)} " ++
      s!"isRef={b (t.is .kREF)} sub={showTy t.getSub} strip={showTy t.strip}"
    | _ => "bad-ty"
  | .atom "field" :: .atom i :: rest =>
    match i.toNat?, parseTy rest with
    | some n, some (t, []) => showTy (t.getSubField n)
    | _, _ => "bad-field"
  | .atom "write" :: .atom k :: rest =>
    match Kind.ofName? k, parseEx rest with
    | some kind, some (e, []) => s!"refused={b (writeRefused kind e)}"
    | _, _ => "bad-write"
  | .atom "arg" :: rest =>
    match parseTy rest with
    | some (p, rest') =>
      match parseEx rest' with
      | some (e, []) => s!"ref={b (p.is .kREF)} const={b p.isConstant} refused={b (argRefused p e)}"
      | _ => "bad-arg"
    | none => "bad-arg"
  | .atom "inst" :: .atom c :: rest =>
    match parseTy rest with
    | some (p, rest') =>
      match parseEx rest' with
      | some (e, []) => s!"refused={b (instArgRefused p e (c == "1"))}"
      | _ => "bad-inst"
    | none => "bad-inst"
  | .atom "binder" :: .atom s :: rest =>
    match siteOf s, parseTy rest with
    | some site, some (t, []) =>
      let bt := binderType site t
      s!"mod={b (isModLv (.ident "x" bt))} ty={showTy bt}"
    | _, _ => "bad-binder"
  | .atom "decl" :: rest =>
    match parseDecl rest with
    | some (d, []) => s!"const={b d.isConst} free={b d.constFree} ty={showTy d.elab}"
    | _ => "bad-decl"
  | .atom "declbinder" :: .atom s :: rest =>
    match siteOf s, parseDecl rest with
    | some site, some (d, []) =>
      let bt := binderType site d.elab
      s!"mod={b (isModLv (.ident "x" bt))} ty={showTy bt}"
    | _, _ => "bad-declbinder"
  | _ => "bad-op"

partial def loop (h : IO.FS.Stream) (out : IO.FS.Stream) : IO Unit := do
  let line ← h.getLine
  if line.isEmpty then return ()
  out.putStrLn (stepLine line)
  loop h out

def main : IO Unit := do
  let out ← IO.getStdout
  loop (← IO.getStdin) out
