/- C08: parsed documents satisfy the structural invariants clients rely on.

   Model: `UtapModel.Model.Builder` (state machine behind ParserBuilder, abstract document with explicit object
   identities standing for the `void*` user data of symbols).  `Inv` (Model/BuilderInv.lean) is the conjunction the
   property lists:
     own       every variable / location / branchpoint / function / template / instance / process is the user object
               of its own symbol;
     backLoc/backBp/backInst  conversely a location / branchpoint / instance symbol points at an object of that kind
               that names it (this is what makes `static_cast<location_t*>(sym.get_data())` in add_edge,
               instantiation_end and process meaningful);
     edges     every edge has exactly one source and exactly one target pointer, of the right kinds;
     numLoc/numBp/numEdge  numbers are dense and in creation (= source) order within each template;
     insts     unbound parameters first, type arity = #unbound, mapping = exactly the bound parameters.
   The theorems hold for EVERY callback sequence (no assumption that it comes from a valid input): all error and
   throw branches of the callbacks are part of `step`.
   Helper lemmas: UtapModel/Lemmas/C08.lean.  This file: property theorems only. -/
import UtapModel.Lemmas.C08

namespace UtapModel.Builder

/-- the freshly constructed Document + DocumentBuilder -/
theorem C08_init : Inv BState.init := by
  unfold Inv
  constructor
  · intro r sid h; cases r <;> simp [BState.init, Doc.uidOf] at h
  · intro sid sym h; simp [BState.init] at h
  · intro sid sym h; simp [BState.init] at h
  · intro sid sym a h; simp [BState.init] at h
  · intro i l h; simp [BState.init] at h
  · intro i b h; simp [BState.init] at h
  · intro t T i e h; simp [BState.init] at h
  · intro t T i e h; simp [BState.init] at h
  · intro r I h; cases r <;> simp [BState.init, Doc.inst?] at h

/-- every ParserBuilder callback, in every state, on every branch (diagnostic recorded / exception thrown included),
    preserves the invariant -/
theorem C08_step (s : BState) (c : Call) (h : Inv s) : Inv (step s c) := by
  cases c
  case handleError => exact h
  case handleWarning => exact h
  case frag => exact h
  case exprIdentifier => exact h
  case quantBegin name =>
    exact inv_of_eq (inv_addSymbol_plain (s := s.popType.1.pushNewFrame) (f := s.popType.1.pushNewFrame.top) (name := name)
      (ty := .var s.popType.2) h (plain_var _)) rfl rfl
  case quantEnd => exact h
  case dynQuantBegin name => simp only [step]; inv_plain
  case dynQuantEnd => exact h
  case typeDuplicate => exact h
  case typePop => exact h
  case typePrim => exact h
  case typeName name =>
    simp only [step]
    split <;> exact h
  case typeArrayOfSize => exact h
  case typeArrayOfType => exact h
  case typeStruct => exact h
  case structField => exact h
  case declTypedef name =>
    simp only [step, BState.popType]
    refine inv_ite ?_ ?_
    · exact h
    · inv_plain
  case declVar name hasInit =>
    simp only [step]
    cases hasInit <;> exact inv_addVariable h
  case declParameter name => simp only [step]; inv_plain
  case declFuncBegin name =>
    simp only [step]
    refine inv_of_eq (inv_addFunction (name := name) (s := ({ s with currentFun := none } : BState).popType.1) h) ?_ ?_ <;> simp
  case declFuncEnd => exact h
  case declExternalFunc name =>
    simp only [step]
    refine inv_of_eq (inv_addFunction (name := name) (s := s.popType.1) h) ?_ ?_ <;> simp
  case declDynamicTemplate name =>
    simp only [step]
    refine inv_of_eq (inv_addTemplate (name := name) (isTA := true) (dyn := true) (s := (if ({ s with currentTemplate := none } : BState).topContains name then ({ s with currentTemplate := none } : BState).error else ({ s with currentTemplate := none } : BState))) ?_) rfl rfl
    exact inv_ite h h
  case blockBegin => exact h
  case blockEnd => exact h
  case iterationBegin name => simp only [step]; exact inv_addVariable h
  case iterationEnd => exact h
  case returnStatement args =>
    simp only [step]
    split
    · exact h
    · split <;> exact h
  case procBegin name isTA =>
    simp only [step]
    cases hd : s.findDynamicTemplate name with
    | some t =>
      refine inv_of_eq (s := { s with doc := s.doc.modifyTempl t (fun T => { T with isDefined := true }) }) ?_ rfl rfl
      exact inv_modifyTempl h t _ (fun T => rfl) (fun T hT i e he => ⟨h.numEdge t T i e hT he, h.edges t T i e hT he⟩)
    | none =>
      refine inv_of_eq (inv_addTemplate (name := name) (isTA := isTA) (dyn := false) (s := (if s.topContains name then s.error else s)) ?_) rfl rfl
      exact inv_ite h h
  case procEnd => exact h
  case procLocation name hasInv hasEr =>
    cases hasEr <;> cases hasInv <;> (simp only [step]; try simp only [if_true, if_false, Bool.false_eq_true]) <;> split <;> first | exact h | exact inv_addLocation h
  case procLocationCommit name =>
    simp only [step]
    split
    · rename_i sid x u c usr hr
      refine inv_ite h ?_
      exact inv_setSymTy_loc h sid _ (resolveSym_sym hr) rfl _ _
    · exact h
  case procLocationUrgent name =>
    simp only [step]
    split
    · rename_i sid x u c usr hr
      refine inv_ite h ?_
      exact inv_setSymTy_loc h sid _ (resolveSym_sym hr) rfl _ _
    · exact h
  case procLocationInit name =>
    simp only [step]
    split
    · split
      · rename_i t _
        exact inv_modifyTempl h t _ (fun T => rfl) (fun T hT i e he => ⟨h.numEdge t T i e hT he, h.edges t T i e hT he⟩)
      · exact h
    · exact h
  case procBranchpoint name =>
    simp only [step]
    split
    · exact h
    · exact inv_addBranchpoint h
  case procEdgeBegin src dst control =>
    simp only [step]
    split
    · rename_i fs ts t hf ht _
      exact inv_addEdge (s := s) h t fs ts control _ _ _ _ (resolveEndpoint_sym hf) (resolveEndpoint_sym ht)
    · exact h
    · exact h
  case procEdgeEnd => exact h
  case procSelect name => exact inv_addSelectSymbol h _ _
  case procGuard => exact inv_setEdge h _ (fun _ _ => ⟨rfl, rfl, rfl, rfl, rfl⟩)
  case procSync =>
    simp only [step]
    split
    · exact h
    · exact inv_setEdge (s := s.fresh.1) h _ (fun _ _ => ⟨rfl, rfl, rfl, rfl, rfl⟩)
  case procUpdate => exact inv_setEdge h _ (fun _ _ => ⟨rfl, rfl, rfl, rfl, rfl⟩)
  case procProb => exact inv_setEdge h _ (fun _ _ => ⟨rfl, rfl, rfl, rfl, rfl⟩)
  case ganttDeclBegin => exact h
  case ganttSelect name => exact inv_addSelectSymbol h _ _
  case ganttDeclEnd => exact h
  case ganttEntryBegin => exact h
  case ganttEntryEnd => exact h
  case instanceNameBegin => exact h
  case instanceNameEnd => exact h
  case instantiationBegin name templ =>
    simp only [step]
    refine inv_of_eq (s := s) h ?_ ?_ <;> (simp; split <;> simp)
  case instantiationEnd name templ arguments =>
    simp only [step]
    split
    · rename_i sid nm a user hr
      split
      · exact h
      · split
        · exact h
        · rename_i h1 h2
          split
          · rename_i old hold
            have hs := resolveSym_sym hr
            obtain ⟨r, I, hu, hi, _, hun⟩ := h.backInst sid _ a hs (Or.inl rfl)
            simp only at hu
            subst hu
            have hoi : old = I := by
              have : s.doc.inst? r = some old := hold
              rw [hi] at this; cases this; rfl
            subst hoi
            refine inv_addInstance (s := s.popFrame.popFrag arguments) h false name old _ _ (h.insts r old hi) ?_
            simp; omega
          · exact h
    · rename_i sid nm a user hr
      split
      · exact h
      · split
        · exact h
        · rename_i h1 h2
          split
          · rename_i old hold
            have hs := resolveSym_sym hr
            obtain ⟨r, I, hu, hi, _, hun⟩ := h.backInst sid _ a hs (Or.inr rfl)
            simp only at hu
            subst hu
            have hoi : old = I := by
              have : s.doc.inst? r = some old := hold
              rw [hi] at this; cases this; rfl
            subst hoi
            refine inv_addInstance (s := s.popFrame.popFrag arguments) h true name old _ _ (h.insts r old hi) ?_
            simp; omega
          · exact h
    · exact h
  case process name =>
    simp only [step]
    split
    · rename_i sid nm a user hr
      split
      · rename_i inst hold
        have hs := resolveSym_sym hr
        obtain ⟨r, I, hu, hi, _, hun⟩ := h.backInst sid _ a hs (Or.inl rfl)
        simp only at hu
        subst hu
        have hoi : inst = I := by
          have : s.doc.inst? r = some inst := hold
          rw [hi] at this; cases this; rfl
        subst hoi
        exact inv_addProcess h inst (h.insts r inst hi)
      · exact h
    · exact h

/-- hence every state reachable by ANY callback sequence satisfies the invariant -/
theorem C08_reachable (cs : List Call) : Inv (run BState.init cs) := by
  have : ∀ (s : BState), Inv s → Inv (run s cs) := by
    induction cs with
    | nil => intro s h; exact h
    | cons c cs ih => intro s h; exact ih (step s c) (C08_step s c h)
  exact this _ C08_init

-- the hypothesis of C08_step is satisfiable by a non-trivial state (a template with two locations, an edge, an instance and a process):
example : let s := run BState.init [.procBegin "P" true, .procLocation "A" false false, .procLocation "A" false false,
      .procLocationInit "A", .procEdgeBegin "A" "A" true, .procEdgeEnd, .procEnd,
      .instantiationBegin "Q" "P", .instantiationEnd "Q" "P" 0, .process "Q"]
    Inv s ∧ s.doc.locs.length = 2 ∧ (s.doc.templates.map (·.edges.length)) = [1] ∧ s.doc.insts.length = 2 :=
  ⟨C08_reachable _, by decide, by decide, by decide⟩

/-- reading of `own` for the object kinds the property names: in every reachable state the symbol of the i-th
    location (variable, branchpoint, function, template, instance/process) has that very object as user data -/
theorem C08_user_object (cs : List Call) (r : Obj) (sid : SymId) (h : (run BState.init cs).doc.uidOf r = some sid) :
    symUser (run BState.init cs).syms sid = some r :=
  (C08_reachable cs).own r sid h

/-- every edge of every reachable document has exactly one source and one target, a location or a branchpoint -/
theorem C08_edge_endpoints (cs : List Call) (t : Nat) (T : Templ) (i : Nat) (e : Edge)
    (hT : (run BState.init cs).doc.templates[t]? = some T) (he : T.edges[i]? = some e) : EdgeOk e ∧ e.nr = i :=
  ⟨(C08_reachable cs).edges t T i e hT he, (C08_reachable cs).numEdge t T i e hT he⟩

/-- instances: unbound parameters first, arity = #unbound, mapping domain = bound parameters -/
theorem C08_instances (cs : List Call) (r : Obj) (I : Inst) (h : (run BState.init cs).doc.inst? r = some I) :
    InstOk (run BState.init cs).syms I :=
  (C08_reachable cs).insts r I h

/- Not proved here (full statements, kept for the record):

   theorem C08_own_template (cs) (hsafe : SafeRun BState.init cs) : every edge endpoint `.loc i` / `.bp i` of an edge of
     template t has `locs[i].templ = t` / `bps[i].templ = t`, and `T.init = some sid → ∃ i, user sid = .loc i ∧ locs[i].templ = t`
   theorem C08_init_location (cs) (hsafe) (hclean : (run init cs).diags = 0) (hshape : ReaderShape cs) :
     every TA template has `init = some _`

   Both need the scope discipline of the callers (`safeCall`: no pop below the frame of the template being parsed, the
   C01 stack-safety statement) and an invariant on parent chains in the frame store.  They are covered by evaluation, not
   by proof: `ownTemplateB` (Model/BuilderInv.lean) is evaluated by drv_c08 on the model state of every replayed real
   trace together with `safeCall` on every call, and the walker checks both clauses on the real Document.  The unchanged
   library violates C08_init_location for the empty process body (known finding walker:init:missing-empty-template). -/

end UtapModel.Builder
