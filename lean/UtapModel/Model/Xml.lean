/- XML at tree level: `renderXml : AModel → Xml` and `readXml : Xml → List Call`, a model of the recursive descent of
   src/xmlreader.cpp (`project / templ / location / branchpoint / init / transition / label / instantiation / system`,
   the `names` id ↦ name map, `begin()`'s skipping of text and unknown elements).  Core Lean only.

   The text layer (libxml2: entities, CDATA, whitespace, comments, attribute order) is below this model; the
   correspondence run varies it and checks that it does not matter. -/
import UtapModel.Model.XmlBuild
namespace UtapModel.AM

/-- text content: identifiers are strings, everything handed to the bison grammar is opaque but typed by its shape -/
inductive Txt
  | str (s : String)
  | decls (ds : List Decl)
  | params (ps : List Param)
  | expr (k : Key)
  | select (bs : List (String × Key))
  | sync (k : Key) (d : Dir)
  | system (insts : List AInst) (procs : List (String × Bool))
  deriving Repr, Inhabited

inductive Xml
  | elem (tag : String) (attrs : List (String × String)) (kids : List Xml)
  | text (t : Txt)
  deriving Inhabited

/-! ### Rendering -/

def locLabelKind : LocKind → String
  | .invariant => "invariant"
  | .exponentialrate => "exponentialrate"

def locLabelAttrs (l : LocKind × Key) : List (String × String) := [("kind", locLabelKind l.1)]
def locLabelKids (l : LocKind × Key) : List Xml := [.text (.expr l.2)]

def locAttrs (l : ALoc) : List (String × String) := [("id", l.id)]
def locKids (l : ALoc) : List Xml :=
  (match l.name with | some n => [Xml.elem "name" [] [.text (.str n)]] | none => []) ++
  l.labels.map (fun x => Xml.elem "label" (locLabelAttrs x) (locLabelKids x)) ++
  (if l.urgent then [Xml.elem "urgent" [] []] else []) ++
  (if l.committed then [Xml.elem "committed" [] []] else [])

def bpAttrs (id : String) : List (String × String) := [("id", id)]

def elabelKind : ELabel → String
  | .select _ => "select"
  | .guard _ => "guard"
  | .sync _ _ => "synchronisation"
  | .assign _ => "assignment"
  | .prob _ => "probability"

def elabelTxt : ELabel → Txt
  | .select bs => .select bs
  | .guard k => .expr k
  | .sync k d => .sync k d
  | .assign k => .expr k
  | .prob k => .expr k

def elabelAttrs (l : ELabel) : List (String × String) := [("kind", elabelKind l)]
def elabelKids (l : ELabel) : List Xml := [.text (elabelTxt l)]

def ctrlAttr : Option Bool → List (String × String)
  | none => []
  | some true => [("controllable", "true")]
  | some false => [("controllable", "false")]

def edgeAttrs (e : AEdge) : List (String × String) := ctrlAttr e.ctrl
def edgeKids (e : AEdge) : List Xml :=
  [Xml.elem "source" [("ref", e.src)] [], Xml.elem "target" [("ref", e.tgt)] []] ++
  e.labels.map (fun x => Xml.elem "label" (elabelAttrs x) (elabelKids x))

def renderInit : Option String → List Xml
  | some r => [.elem "init" [("ref", r)] []]
  | none => []

def templKids (t : ATempl) : List Xml :=
  [Xml.elem "name" [] [.text (.str t.name)], Xml.elem "parameter" [] [.text (.params t.params)],
   Xml.elem "declaration" [] [.text (.decls t.decls)]] ++
  (t.locs.map (fun x => Xml.elem "location" (locAttrs x) (locKids x)) ++
   (t.bps.map (fun x => Xml.elem "branchpoint" (bpAttrs x) []) ++
    (renderInit t.init ++ t.edges.map (fun x => Xml.elem "transition" (edgeAttrs x) (edgeKids x)))))

def ntaKids (M : AModel) : List Xml :=
  [Xml.elem "declaration" [] [.text (.decls M.gdecls)]] ++
  (M.templates.map (fun x => Xml.elem "template" [] (templKids x)) ++
   [Xml.elem "system" [] [.text (.system M.insts M.procs)]])

def renderXml (M : AModel) : Xml := .elem "nta" [] (ntaKids M)

/-! ### The grammar's entry points on opaque texts -/

inductive Part | declaration | parameters | invariant | exprate | select | guard | sync | assign | probability | system | inst
  deriving DecidableEq, Repr

def instCalls (i : AInst) : List Call :=
  i.params.map .declParam ++ [.instBegin i.name i.params.length i.templ] ++ i.args.map .pushExpr ++
  [.instEnd i.name i.params.length i.templ i.args.length]

def procCalls (p : String × Bool) : List Call :=
  (if p.2 then [Call.priorityInc] else []) ++ [.process p.1]

/-- callbacks of `parse_XTA(text, builder, newxta, part, xpath)` for an opaque text of the matching shape;
    a text of another shape is a syntax error -/
def parseCalls : Part → Txt → List Call
  | .declaration, .decls ds => ds.map .declItem
  | .parameters, .params ps => ps.map .declParam
  | .invariant, .expr k => [.pushExpr k]
  | .exprate, .expr k => [.pushExpr k]
  | .select, .select bs => bs.map (fun b => .procSelect b.1 b.2)
  | .guard, .expr k => [.pushExpr k, .procGuard]
  | .sync, .sync k d => [.pushExpr k, .procSync d]
  | .assign, .expr k => [.pushExpr k, .procUpdate]
  | .probability, .expr k => [.pushExpr k, .procProb]
  | .system, .system insts procs =>
    insts.flatMap instCalls ++
    (if procs.isEmpty then [Call.error "syntax error: unexpected end"] else procs.flatMap procCalls ++ [.processListEnd])
  | .inst, .system insts _ => insts.flatMap instCalls
  | _, _ => [.error "syntax error"]

/-! ### The reader -/

/-- the element names of `tag_map` (src/xmlreader.cpp); elements with other names are skipped by `begin()` -/
def knownTags : List String :=
  ["nta", "project", "imports", "declaration", "template", "instantiation", "system", "name", "parameter", "location",
   "init", "transition", "urgent", "committed", "branchpoint", "source", "target", "label", "nail", "lsc", "type", "mode",
   "yloccoord", "lsclocation", "prechart", "instance", "temperature", "message", "condition", "update", "anchor",
   "queries", "query", "formula", "comment", "option", "resource", "expect", "result", "details", "samples", "plot", "series"]

def known (t : String) : Bool := knownTags.contains t

/-- `begin(tag)` followed by processing and `read()`, at most once: skips text and unknown elements -/
def opt (tag : String) : List Xml → Option (List (String × String) × List Xml) × List Xml
  | [] => (none, [])
  | .text _ :: r => opt tag r
  | .elem t a k :: r =>
    if t = tag then (some (a, k), r) else if known t then (none, .elem t a k :: r) else opt tag r

/-- `while (begin(tag)) { ... }` -/
def scan {σ} (tag : String) (f : σ → List (String × String) → List Xml → σ) : σ → List Xml → σ × List Xml
  | s, [] => (s, [])
  | s, .text _ :: r => scan tag f s r
  | s, .elem t a k :: r =>
    if t = tag then scan tag f (f s a k) r else if known t then (s, .elem t a k :: r) else scan tag f s r

/-- the node right after the start tag is a text node -/
def firstText : List Xml → Option Txt
  | .text t :: _ => some t
  | _ => none

def firstStr (k : List Xml) : String :=
  match firstText k with
  | some (.str s) => s
  | _ => ""

structure RS where
  names : List (String × String) := []      -- XMLReader::names, most recent first
  out : List Call := []

def RS.emit (s : RS) (cs : List Call) : RS := { s with out := s.out ++ cs }

def attr (a : List (String × String)) (n : String) : Option String := a.lookup n

/-- `XMLReader::invariant()` for one label of a location: (calls, invariant seen, rate seen) -/
def readLocLabel (acc : List Call × Bool × Bool) (a : List (String × String)) (k : List Xml) : List Call × Bool × Bool :=
  match attr a "kind", firstText k with
  | some "invariant", some t => (acc.1 ++ parseCalls .invariant t, true, acc.2.2)
  | some "exponentialrate", some t => (acc.1 ++ parseCalls .exprate t, acc.2.1, true)
  | _, _ => acc

def readLocation (s : RS) (a : List (String × String)) (k : List Xml) : RS :=
  let id := (attr a "id").getD ""
  let (nm, k1) := opt "name" k
  let name := match nm with | some (_, nk) => firstStr nk | none => ""
  let (lab, k2) := scan "label" readLocLabel ([], false, false) k1
  let (u, k3) := opt "urgent" k2
  let (c, _) := opt "committed" k3
  let name := if name = "" then "_" ++ id else name
  { names := (id, name) :: s.names,
    out := s.out ++ lab.1 ++ [.procLocation name lab.2.1 lab.2.2] ++
           (if c.isSome then [.procLocationCommit name] else []) ++ (if u.isSome then [.procLocationUrgent name] else []) }

def readBranchpoint (s : RS) (a : List (String × String)) (_k : List Xml) : RS :=
  let id := (attr a "id").getD ""
  { names := (id, "_" ++ id) :: s.names, out := s.out ++ [.procBranchpoint ("_" ++ id)] }

def labelPart : String → Option Part
  | "invariant" => some .invariant
  | "select" => some .select
  | "guard" => some .guard
  | "synchronisation" => some .sync
  | "assignment" => some .assign
  | "probability" => some .probability
  | _ => none

/-- `XMLReader::label()` inside a transition -/
def readELabel (acc : List Call) (a : List (String × String)) (k : List Xml) : List Call :=
  match attr a "kind", firstText k with
  | some kind, some t =>
    match labelPart kind with
    | some p => acc ++ parseCalls p t
    | none => acc
  | _, _ => acc

def refName (names : List (String × String)) (a : List (String × String)) : Option String :=
  match attr a "ref" with
  | some r => names.lookup r
  | none => none

def readTransition (s : RS) (a : List (String × String)) (k : List Xml) : RS :=
  let ctrl := match attr a "controllable" with | none => true | some v => v = "true"
  let (src, k1) := opt "source" k
  let (tgt, k2) := opt "target" k1
  match src, tgt with
  | some (sa, _), some (ta, _) =>
    match refName s.names sa, refName s.names ta with
    | some f, some t =>
      let (labs, _) := scan "label" readELabel [] k2
      s.emit ([.procEdgeBegin f t ctrl] ++ labs ++ [.procEdgeEnd f t])
    | _, _ => s.emit [.error "Missing reference"]
  | none, _ => s.emit [.error "Missing source element"]
  | _, none => s.emit [.error "Missing target element"]

def readDeclaration (s : RS) (xs : List Xml) : RS × List Xml :=
  match opt "declaration" xs with
  | (some (_, k), r) => (match firstText k with | some t => s.emit (parseCalls .declaration t) | none => s, r)
  | (none, r) => (s, r)

def readInit (s : RS) (xs : List Xml) : RS × List Xml :=
  match opt "init" xs with
  | (some (a, _), r) =>
    (match attr a "ref" with
     | some ref => (match s.names.lookup ref with
                    | some n => s.emit [.procLocationInit n]
                    | none => s.emit [.error "Missing reference"])
     | none => s.emit [.error "Missing initial location"], r)
  | (none, r) => (s.emit [.error "Missing initial location"], r)

def readTemplate (s : RS) (_a : List (String × String)) (k : List Xml) : RS :=
  let (nm, k1) := opt "name" k
  let name := match nm with | some (_, nk) => firstStr nk | none => ""
  let (pm, k2) := opt "parameter" k1
  let s1 := match pm with
    | some (_, pk) => (match firstText pk with | some t => s.emit (parseCalls .parameters t) | none => s)
    | none => s
  let s2 := s1.emit [.procBegin name]
  let (s3, k3) := readDeclaration s2 k2
  let (s4, k4) := scan "location" readLocation s3 k3
  let (s5, k5) := scan "branchpoint" readBranchpoint s4 k4
  let (s6, k6) := readInit s5 k5
  let (s7, _) := scan "transition" readTransition s6 k6
  s7.emit [.procEnd]

def readSystem (s : RS) (xs : List Xml) : RS :=
  match opt "system" xs with
  | (some (_, k), _) =>
    (match firstText k with
     | some t => s.emit (parseCalls .system t)
     | none => s.emit [.error "syntax error: unexpected end"])
  | (none, _) => s.emit [.error "Missing system tag"]

/-- `XMLReader::project()` (the built-in declarations parsed first are not part of the trace) -/
def readXml : Xml → List Call
  | .elem tag _ kids =>
    if tag = "nta" ∨ tag = "project" then
      let (s1, k1) := readDeclaration {} kids
      let (s2, k2) := scan "template" readTemplate s1 k1
      -- (LSC templates are not modelled; `renderXml` puts the instantiations into the system text, an
      --  <instantiation> element is parsed with the same grammar part minus the process list)
      let s3 := match opt "instantiation" k2 with
        | (some (_, ik), _) => (match firstText ik with | some t => s2.emit (parseCalls .inst t) | none => s2)
        | (none, _) => s2
      let k3 := (opt "instantiation" k2).2
      (readSystem s3 k3).out ++ [.done]
    else [.error "Missing nta or project tag"]
  | .text _ => [.error "Missing nta or project tag"]

end UtapModel.AM
