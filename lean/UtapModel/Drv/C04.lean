/- stub: line-protocol driver for C04 (to be written) -/
def main : IO Unit := pure ()
