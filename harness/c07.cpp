// C07 harness (queries): parse a model with the public entry point, then parse query texts in the scope of the built
// document and report how every identifier and every process-qualified name P.x was bound.
//   c07 batch   stdin: "<id> <base64 xml> <base64 of newline-separated queries>"
//   stdout:  BEGIN id / RC n errors=k / Q <i> <binding tokens...> / END id
//   binding tokens:  ID:<name>:<type>   for an identifier,   DOT:<process>.<member label>#<index>:<type of P.x>   for P.x
#include "common.hpp"

#include <typeinfo>

using namespace UTAP;
using namespace UTAP::Constants;

static std::string b64dec(const std::string& s)
{
    static int T[256];
    static bool init = false;
    if (!init) {
        for (int& x : T) x = -1;
        const char* a = "ABCDEFGHIJKLMNOPQRSTUVWXYZabcdefghijklmnopqrstuvwxyz0123456789+/";
        for (int i = 0; i < 64; ++i) T[(unsigned char)a[i]] = i;
        init = true;
    }
    std::string o;
    unsigned val = 0;
    int bits = -8;
    for (unsigned char c : s) {
        if (T[c] < 0) continue;
        val = ((val << 6) | (unsigned)T[c]) & 0xFFFFFFu;
        bits += 6;
        if (bits >= 0) { o += char((val >> bits) & 0xFF); bits -= 8; }
    }
    return o;
}

static std::string nosp(std::string s)
{
    for (char& c : s) if (c == ' ') c = '_';
    return s;
}

static void bindings(const expression_t& e, std::ostream& os)
{
    if (e.empty()) return;
    auto k = e.get_kind();
    if (k == DOT && e.get_size() == 1 && e[0].get_kind() == IDENTIFIER && e[0].get_type().is_process()) {
        type_t pt = e[0].get_type();
        int idx = e.get_index();
        std::string label = (idx >= 0 && (uint32_t)idx < pt.size()) ? pt.get_label(idx) : std::string("?");
        os << " DOT:" << e[0].get_symbol().get_name() << "." << label << "#" << idx << ":" << nosp(vh::tsexp(e.get_type()));
        return;
    }
    if (k == IDENTIFIER) os << " ID:" << e.get_symbol().get_name() << ":" << nosp(vh::tsexp(e.get_symbol().get_type()));
    for (size_t i = 0; i < e.get_size(); ++i) bindings(e[i], os);
}

int main(int, char**)
{
    std::ios::sync_with_stdio(false);
    std::string line;
    while (std::getline(std::cin, line)) {
        std::istringstream is(line);
        std::string id, b64, qb64;
        if (!(is >> id >> b64 >> qb64)) continue;
        std::string input = b64dec(b64), queries = b64dec(qb64);
        std::cout << "BEGIN " << id << "\n";
        auto doc = std::make_unique<Document>();
        std::string rc;
        try {
            rc = std::to_string(parse_XML_buffer(input.c_str(), doc.get(), true));
        } catch (const std::exception& e) {
            rc = std::string("EXC:") + typeid(e).name();
        }
        std::cout << "RC " << rc << " errors=" << doc->get_errors().size() << "\n";
        std::istringstream qs(queries);
        std::string q;
        int i = 0;
        while (std::getline(qs, q)) {
            if (q.empty()) continue;
            size_t nerr = doc->get_errors().size();
            std::ostringstream os;
            try {
                expression_t e = vh::parseQuery(*doc, q);
                if (e.empty()) os << " EMPTY";
                bindings(e, os);
            } catch (const std::exception& ex) {
                os << " EXC:" << typeid(ex).name();
            }
            std::cout << "Q " << i << os.str();
            for (size_t k = nerr; k < doc->get_errors().size(); ++k) std::cout << " ERR:" << nosp(doc->get_errors()[k].msg);
            std::cout << "\n";
            ++i;
        }
        std::cout << "END " << id << "\n";
        std::cout.flush();
    }
    return 0;
}
