/- stub: line-protocol driver for C10 (to be written) -/
def main : IO Unit := pure ()
