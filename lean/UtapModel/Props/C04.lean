/- C04 -- the document built from an XML model mirrors the XML's structure exactly.

   Model: `renderXml : AModel → Xml` (Model/Xml.lean), `readXml : Xml → List Call` (tree-level model of
   src/xmlreader.cpp), `build : List Call → BState` (model of the DocumentBuilder / document.cpp callbacks,
   Model/XmlBuild.lean), specification `docOf : AModel → Doc` (Model/AModel.lean).  Helper lemmas:
   Lemmas/C04Reader.lean, Lemmas/C04Builder.lean.  The tie to /repo is the correspondence run of checks/c04.py. -/
import UtapModel.Lemmas.C04Builder
import UtapModel.Model.AModelIO
import UtapModel.Gen.XmlTables
namespace UtapModel.AM

/-- a small model using every feature: parameters, local declarations, named and anonymous locations, both location
    labels, urgent / committed, a branchpoint, all edge labels in a non-standard order, a self loop, parallel edges,
    a partial and a full instantiation, priorities -/
def sampleModel : AModel :=
  { gdecls := [{ cat := .var, name := "gn", key := "d0", trace := ["decl_var gn"] }],
    templates := [
      { name := "T", params := [{ name := "a", ref := false, key := "p0" }, { name := "b", ref := true, key := "p1" }],
        decls := [{ cat := .var, name := "x", key := "d1", trace := ["decl_var x"] }],
        locs := [{ id := "id0", name := some "L0", labels := [(.invariant, "e0"), (.exponentialrate, "e1")], urgent := false, committed := false },
                 { id := "id1", name := none, labels := [(.exponentialrate, "e2")], urgent := true, committed := false },
                 { id := "id2", name := some "L2", labels := [], urgent := false, committed := true }],
        bps := ["id3"], init := some "id0",
        edges := [{ src := "id0", tgt := "id1", ctrl := some false,
                    labels := [.select [("i", "t0"), ("j", "t1")], .assign "e5", .guard "e3", .sync "e4" .bang] },
                  { src := "id1", tgt := "id3", ctrl := none, labels := [] },
                  { src := "id3", tgt := "id2", ctrl := some true, labels := [.prob "e6"] },
                  { src := "id3", tgt := "id2", ctrl := none, labels := [.prob "e7", .assign "e8"] },
                  { src := "id2", tgt := "id2", ctrl := none, labels := [.sync "e9" .que] }] }],
    insts := [{ name := "P", params := [{ name := "q", ref := false, key := "p2" }], templ := "T", args := ["e10", "e11"] },
              { name := "Q", params := [], templ := "P", args := ["e12"] }],
    procs := [("Q", false), ("P", true)] }

example : sampleModel.wf = true := by decide

/-- **Reader.**  On the rendering of a well-formed model the recursive descent emits exactly the closed-form callback
    sequence `xmlCalls M`: per template its parameters, `proc_begin`, the declarations, per location the label
    expressions in document order followed by `proc_location name hasInvariant hasRate` (+ commit / urgent), the
    branchpoints, the init reference and per transition `proc_edge_begin` with the *names* the ids denote, the labels
    in document order and `proc_edge_end`. -/
theorem C04_reader (M : AModel) (h : M.wf = true) : readXml (renderXml M) = xmlCalls M := by
  apply readXml_render
  intro t ht
  have : t.wf = true := by
    simp only [AModel.wf, List.all_eq_true] at h
    exact h t ht
  exact (templWf_of t this).reader

/-- **C04, structure.**  For every well-formed abstract model (any number of templates, locations, branchpoints, edges,
    labels, instantiations, processes) the document built from its XML rendering is the document the model denotes --
    nothing added, dropped, duplicated or attached to another element -- and the builder ends with an empty expression
    stack, no open template and no open edge. -/
theorem C04_roundtrip (M : AModel) (h : M.wf = true) :
    (build (readXml (renderXml M))).doc = docOf M ∧ (build (readXml (renderXml M))).frags = [] ∧
    (build (readXml (renderXml M))).cur = none ∧ (build (readXml (renderXml M))).edge = none := by
  have hw : ∀ t ∈ M.templates, TemplWf t := by
    intro t ht
    simp only [AModel.wf, List.all_eq_true] at h
    exact templWf_of t (h t ht)
  rw [C04_reader M h]
  simp only [build, xmlCalls, run_append, parseCalls]
  rw [run_gdecls _ _ rfl]
  rw [run_templs _ M.templates rfl rfl rfl rfl hw]
  obtain ⟨es1, h1⟩ := run_insts
    { doc := { gdecls := [] ++ M.gdecls, templates := [] ++ M.templates.map templOf }, frags := [], params := [], pending := [],
      cur := none, edge := none, prio := 0, errs := [] } M.insts rfl rfl rfl
  simp only [List.nil_append] at h1 ⊢
  rw [h1]
  by_cases hp : M.procs.isEmpty = true
  · have hnil : M.procs = [] := by simpa using hp
    simp [hp, run, step, err, docOf, hnil, addProcs]
  · obtain ⟨es2, p, h2⟩ := run_procs
      { doc := M.insts.foldl addInst { gdecls := M.gdecls, templates := M.templates.map templOf }, frags := [], params := [],
        pending := [], cur := none, edge := none, prio := 0, errs := es1 } M.procs
    simp only [hp, Bool.false_eq_true, ↓reduceIte, run_append]
    rw [h2]
    simp [run, step, docOf]

/-- **C04, diagnostics.**  The templates of a well-formed model are built without any builder diagnostic (no duplicate
    definition, no unresolved location, no label outside an edge). -/
theorem C04_templates_no_errors (M : AModel) (h : M.wf = true) :
    (run {} (M.gdecls.map .declItem ++ M.templates.flatMap templCallsX)).errs = [] := by
  have hw : ∀ t ∈ M.templates, TemplWf t := by
    intro t ht
    simp only [AModel.wf, List.all_eq_true] at h
    exact templWf_of t (h t ht)
  rw [run_append, run_gdecls _ _ rfl, run_templs _ M.templates rfl rfl rfl rfl hw]

/-! ### the same statement with the exception set made explicit -/

/-- **C04 (outside the exception set).**  For every well-formed model (`wf0`: ids unique per template, references
    resolve in their template, distinct names, at most one label of each kind) none of whose locations has the computed
    exception shape, the document built from the XML is the document the model denotes.

    Full-strength statement -- NOT provable, `C04_witness_rate_before_invariant` refutes it:
      theorem C04_full (M : AModel) (h : M.wf0 = true) : (build (readXml (renderXml M))).doc = docOf M            -/
theorem C04_partial (M : AModel) (h : M.wf0 = true) (hx : M.exceptionShapes = []) :
    (build (readXml (renderXml M))).doc = docOf M :=
  (C04_roundtrip M (wf_of M h hx)).1

example : sampleModel.wf0 = true ∧ sampleModel.exceptionShapes = [] := by decide

/-! ### nothing added, nothing dropped -/

def BTempl.objectCount (t : BTempl) : Nat × Nat × Nat × Nat × Nat :=
  (t.params.length, t.decls.length, t.locs.length, t.bps.length, t.edges.length)

def ATempl.objectCount (t : ATempl) : Nat × Nat × Nat × Nat × Nat :=
  (t.params.length, t.decls.length, t.locs.length, t.bps.length, t.edges.length)

/-- **C04, counts.**  The built document has one template per `<template>`, and each has exactly as many parameters,
    declaration items, locations, branchpoints and edges as the XML. -/
theorem C04_no_extra (M : AModel) (h : M.wf = true) :
    (build (readXml (renderXml M))).doc.gdecls = M.gdecls ∧
    (build (readXml (renderXml M))).doc.templates.map BTempl.objectCount = M.templates.map ATempl.objectCount := by
  have hw : ∀ t ∈ M.templates, TemplWf t := by
    intro t ht
    simp only [AModel.wf, List.all_eq_true] at h
    exact templWf_of t (h t ht)
  rw [(C04_roundtrip M h).1]
  have hd : (docOf M).gdecls = M.gdecls ∧ (docOf M).templates = M.templates.map templOf := by
    simp only [docOf]
    generalize hd0 : ({ gdecls := M.gdecls, templates := M.templates.map templOf } : Doc) = d0
    have hfold : ∀ (is : List AInst) (d : Doc), (is.foldl addInst d).gdecls = d.gdecls ∧ (is.foldl addInst d).templates = d.templates := by
      intro is
      induction is with
      | nil => intro d; exact ⟨rfl, rfl⟩
      | cons i r ih =>
        intro d
        have hstep : (addInst d i).gdecls = d.gdecls ∧ (addInst d i).templates = d.templates := by
          unfold addInst
          cases findInst d i.templ with
          | none => exact ⟨rfl, rfl⟩
          | some old => by_cases hn : i.args.length = old.unbound <;> simp [hn]
        rw [List.foldl_cons, (ih _).1, (ih _).2]; exact hstep
    have hprocs : ∀ (ps : List (String × Bool)) (d : Doc) (n : Nat),
        (addProcs d n ps).gdecls = d.gdecls ∧ (addProcs d n ps).templates = d.templates := by
      intro ps
      induction ps with
      | nil => intro d n; exact ⟨rfl, rfl⟩
      | cons x r ih =>
        intro d n
        obtain ⟨nm, lt⟩ := x
        unfold addProcs
        cases findInst d nm with
        | none => exact ih _ _
        | some i => simp only []; rw [(ih _ _).1, (ih _ _).2]; exact ⟨rfl, rfl⟩
    rw [(hprocs _ _ _).1, (hprocs _ _ _).2, (hfold _ _).1, (hfold _ _).2, ← hd0]
    exact ⟨rfl, rfl⟩
  refine ⟨hd.1, ?_⟩
  rw [hd.2, List.map_map]
  apply List.map_congr_left
  intro t ht
  simp only [Function.comp, BTempl.objectCount, ATempl.objectCount, templOf, List.length_map]
  rw [filterMap_length_of_isSome _ _ (edgeOf_isSome t (hw t ht))]

/-! ### arguments are bound positionally -/

/-- **C04, arguments.**  `bindFirst` (the loop `mapping[inst.parameters[i]] = arguments[i]` of `Document::add_instance`)
    binds the i-th argument to the i-th parameter of the instantiated (partial) instance and leaves the others alone. -/
theorem C04_args_positional (args : List Key) (bs : List (Param × Option Key)) (h : args.length ≤ bs.length) :
    bindFirst args bs = List.zipWith (fun a b => (b.1, some a)) args bs ++ bs.drop args.length := by
  induction args generalizing bs with
  | nil => simp [bindFirst]
  | cons a r ih =>
    cases bs with
    | nil => simp at h
    | cons b bs =>
      obtain ⟨p, v⟩ := b
      simp only [bindFirst, List.zipWith_cons_cons, List.length_cons, List.drop_succ_cons, List.cons_append]
      rw [ih bs (by simpa using h)]

/-- what an instantiation `name(newParams) = templ(args)` adds to the document: the new instance lists its own
    parameters (unbound) followed by those of the instantiated instance, the first `args.length` of which are bound to
    the arguments in order -/
theorem C04_instance_binding (d : Doc) (i : AInst) (old : BInst) (hf : findInst d i.templ = some old)
    (hn : i.args.length = old.unbound) (hu : old.unbound ≤ old.bparams.length) :
    (addInst d i).instances = d.instances ++
      [{ name := i.name, templ := old.templ, unbound := i.params.length, arguments := i.args.length,
         bparams := i.params.map (·, none) ++
                    (List.zipWith (fun a b => (b.1, some a)) i.args old.bparams ++ old.bparams.drop i.args.length) }] := by
  have hb := C04_args_positional i.args old.bparams (by omega)
  simp only [addInst, hf, hn, ↓reduceIte, mkInst, hb]

example : (docOf sampleModel).processes.map (fun p => (p.name, p.bparams.map (fun b => (b.1.name, b.2)))) =
    [("Q", [("q", some "e12"), ("a", some "e10"), ("b", some "e11")]), ("P", [("q", none), ("a", some "e10"), ("b", some "e11")])] := by
  decide

/-! ### exception shape: the rate label before the invariant label (DESIGN F-C04-1) -/

/-- the hypothesis `labelsOrdered` of `ALoc.wf` cannot be dropped: with the `exponentialrate` label *before* the
    `invariant` label the reader pushes the rate first, and `proc_location` pops "the rate" from the top of the stack --
    which is the invariant -/
def rateFirstModel : AModel :=
  { gdecls := [],
    templates := [{ name := "T", params := [], decls := [],
                    locs := [{ id := "id0", name := some "L0", labels := [(.exponentialrate, "RATE"), (.invariant, "INV")],
                               urgent := false, committed := false }],
                    bps := [], init := some "id0", edges := [] }],
    insts := [], procs := [("T", false)] }

example : rateFirstModel.wf0 = true ∧ rateFirstModel.exceptionShapes = [.rateBeforeInvariant] := by decide

theorem C04_witness_rate_before_invariant :
    (build (readXml (renderXml rateFirstModel))).doc.templates.map (·.locs) =
      [[{ name := "L0", inv := some "RATE", rate := some "INV", urgent := false, committed := false }]] ∧
    (docOf rateFirstModel).templates.map (·.locs) =
      [[{ name := "L0", inv := some "INV", rate := some "RATE", urgent := false, committed := false }]] := by
  decide

/-! ### tie to the current source (tables generated by translate/xml_tables.py) -/

open Gen.XmlTables in
/-- **tie, reader tables.**  The element names `begin()` knows, the label kind → grammar entry point map of
    `XMLReader::label`, the two kinds and result codes of `XMLReader::invariant`, the id-derived names, the
    most-recent-wins `names` map and the default of `controllable` in the model are those of the current source. -/
theorem C04_tables_reader :
    knownTags = Gen.XmlTables.knownTags ∧
    (["invariant", "select", "guard", "synchronisation", "assignment", "probability"].map
        fun k => (k, match labelPart k with
                     | some .invariant => "S_INVARIANT" | some .select => "S_SELECT" | some .guard => "S_GUARD"
                     | some .sync => "S_SYNC" | some .assign => "S_ASSIGN" | some .probability => "S_PROBABILITY"
                     | _ => "?")) = edgeLabelKinds.take 6 ∧
    (edgeLabelKinds.drop 6).map (·.1) = ["message", "update", "condition"] ∧
    locLabelKinds = [("invariant", "S_INVARIANT", "0"), ("exponentialrate", "S_EXPONENTIAL_RATE", "1")] ∧
    locResultCodes = [("invariant", "0"), ("exponentialrate", "1")] ∧
    controllableDefaultTrue = true ∧ anonymousLocationPrefix = "_" ∧ branchpointPrefix = "_" ∧ namesLastWins = true := by
  decide

open Gen.XmlTables in
/-- **tie, reader order.**  The callbacks of `XMLReader::location` and their order, the order of the parts of
    `XMLReader::templ` and of `XMLReader::transition` are those of the model. -/
theorem C04_tables_order :
    (readLocation {} [("id", "i")] [.elem "urgent" [] [], .elem "committed" [] []]).out.map callName = readerLocationCallbacks ∧
    readerTemplateOrder = ["name", "parameter", "proc_begin", "declaration", "location", "branchpoint", "init", "transition", "proc_end"] ∧
    readerTransitionOrder = ["source", "target", "proc_edge_begin", "label", "proc_edge_end"] ∧
    ((xmlCalls sampleModel).map callName).eraseDups.filter
        (fun n => n ∈ ["decl_parameter", "proc_begin", "proc_location", "proc_branchpoint", "proc_location_init", "proc_edge_begin", "proc_end"])
      = ["decl_parameter", "proc_begin", "proc_location", "proc_branchpoint", "proc_location_init", "proc_edge_begin", "proc_end"] := by
  decide

open Gen.XmlTables in
/-- **tie, builder.**  `DocumentBuilder::proc_location` pops the rate first and hands (invariant, rate) to `add_location` in
    that order; each label callback writes the edge field of the model; `add_edge` stores source as source and target
    as target; `add_instance` binds `arguments[i]` to `parameters[i]`. -/
theorem C04_tables_builder :
    procLocationPops = [("rate", "er"), ("invariant", "inv")] ∧
    ((step { frags := ["top", "below"], cur := some { name := "T", params := [], decls := [], locs := [], bps := [], init := none, edges := [] } }
        (.procLocation "L" true true)).cur.map (fun t => t.locs.map (fun l => (l.rate, l.inv)))) = some [(some "top", some "below")] ∧
    edgeLabelFields = [("proc_guard", "guard"), ("proc_sync", "sync"), ("proc_update", "assign"), ("proc_prob", "prob")] ∧
    addEdgeEndpoints = [("src", "src"), ("dst", "dst")] ∧ addInstanceBinding = ["i", "i"] := by
  decide

end UtapModel.AM
