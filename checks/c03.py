"""C03 -- printing an expression and re-parsing it reproduces the same tree (DESIGN.md section 4, C03).

 1 translate   parser.y -> Gen/ExprGrammar.lean ; expression.cpp (get_precedence, print) -> Gen/PrinterTable.lean    (tie T)
 2 exceptions  driver `B`: every (parent, position, child) of the fragment where the computed criterion `good` fails;
               for those whose model re-parse really differs a witness theorem is regenerated (Gen/PrinterWitness.lean)
 3 prove       UtapModel.Props.C03 (parse(str e) = e outside the exception set, idempotence) + the witness negations
 4 correspond  real str() vs the printer model (token streams), real parse(str(e)).equal(e) and str(parse(str e)) == str e
               on random accepted trees; every exception witness replayed on the library                       (tie C)
 Queries (A[] E<> Pr[..] simulate control ...) are exercised by the same oracle on the real library (stage Q); they are
 outside the Lean model and labelled as testing in the evidence.
"""
import json
import os
import re
import struct
import sys

from vlib import core

sys.path.insert(0, os.path.join(core.VERIF, "translate"))
sys.path.insert(0, os.path.join(core.VERIF, "checks"))
import query_tables  # noqa: E402
import exprgrammar  # noqa: E402
import printer  # noqa: E402
import c02  # noqa: E402

GEN_G = os.path.join(core.LEAN_DIR, "UtapModel", "Gen", "ExprGrammar.lean")
GEN_P = os.path.join(core.LEAN_DIR, "UtapModel", "Gen", "PrinterTable.lean")
GEN_W = os.path.join(core.LEAN_DIR, "UtapModel", "Gen", "PrinterWitness.lean")
MODULE = "UtapModel.Props.C03"
QMODULE = "UtapModel.Props.C03Query"
GEN_Q = os.path.join(core.LEAN_DIR, "UtapModel", "Gen", "QueryTables.lean")
WMODULE = "UtapModel.Gen.PrinterWitness"


# ---------------------------------------------------------------------------------------------- kind tree -> surface sexp
def parse_sexp(s):
    toks = re.findall(r"\(|\)|[^\s()]+", s)
    pos = 0

    def rd():
        nonlocal pos
        t = toks[pos]
        pos += 1
        if t == "(":
            l = []
            while toks[pos] != ")":
                l.append(rd())
            pos += 1
            return l
        return t
    return rd()


class Conv:
    def __init__(self, G, optext):
        lit2tok = {}
        for l, t in G["literals"]:
            lit2tok.setdefault(l, t)
        self.bin = {}
        for t, _p, k in G["bin"]:
            self.bin.setdefault(k, t)
        for k, txt in optext.items():
            if k in self.bin and txt in lit2tok:
                self.bin[k] = lit2tok[txt]          # the printer's spelling (`&&`, not `and`)
        self.pre = {}
        for t, _p, k in G["pre"]:
            if k and t != "T_KW_NOT":
                self.pre.setdefault(k, t)
        self.post = {k: t for t, k in G["post"]}
        self.quant = {k: t for t, _p, k in G["quant"]}
        self.fn = {k: t for t, k, _a in G["fn"]}

    lossy = False

    def conv(self, k):
        """kind tree (nested lists) -> surface sexp text, or None when the tree is outside the model's fragment"""
        if not isinstance(k, list) or not k:
            return None
        h = k[0]
        if h == "IDENTIFIER":
            return "(id %s)" % k[1]
        if h == "CONSTANT":
            if k[1] == "int":
                n = int(k[2])
                return "(intmin)" if n == -2147483648 else ("(nat %d)" % n if n >= 0 else None)
            if k[1] == "bool":
                return "true" if k[2] == "1" else "false"
            if k[1] == "double":
                v = struct.unpack("<d", struct.pack("<Q", int(k[2], 16)))[0]
                t = cpp_shortest(v)                      # print_double: the shortest text that reads back as the same value
                if not re.fullmatch(r"[0-9]+(\.[0-9]+)?([eE][+-]?[0-9]+)?", t) or float(t) != v or re.fullmatch(r"[0-9]+", t):
                    self.lossy = True                    # not a literal of the language (negative, inf, nan): cannot come from a parse
                return "(dbl %s)" % t
            if k[1] == "string":
                return "(str %s)" % (k[2] if len(k) > 2 else "")
            return None
        sub = None
        if h in self.bin and len(k) == 3:
            sub = [self.conv(x) for x in k[1:]]
            return None if None in sub else "(bin %s %s %s)" % (self.bin[h], sub[0], sub[1])
        if h in self.pre and len(k) == 2:
            s = self.conv(k[1])
            return None if s is None else "(pre %s %s)" % (self.pre[h], s)
        if h in self.post and len(k) == 2:
            s = self.conv(k[1])
            return None if s is None else "(post %s %s)" % (self.post[h], s)
        if h in self.quant and len(k) == 3:
            s = self.conv(k[2])
            return None if s is None else "(quant %s %s int[0,3] %s)" % (self.quant[h], k[1][1], s)
        if h == "INLINE_IF" and len(k) == 4:
            sub = [self.conv(x) for x in k[1:]]
            return None if None in sub else "(tern %s)" % " ".join(sub)
        if h == "ARRAY" and len(k) == 3:
            sub = [self.conv(x) for x in k[1:]]
            return None if None in sub else "(index %s %s)" % (sub[0], sub[1])
        if h == "DOT" and len(k) == 3:
            s = self.conv(k[2])
            return None if s is None else "(dot %s %s)" % (k[1], s)
        if h == "FUN_CALL":
            sub = [self.conv(x) for x in k[1:]]
            return None if None in sub else "(call %s)" % " ".join(sub)
        if h in self.fn:
            sub = [self.conv(x) for x in k[1:]]
            return None if None in sub else "(fn %s %s)" % (self.fn[h], " ".join(sub))
        return None


def family(kind):
    return "ASSIGN*" if kind == "ASSIGN" or kind.startswith("ASS_") else kind


def triple_key(t):
    p, i, c = t.split("/")
    return "triple:%s/%s/%s" % (family(p), i, family(c))


def kinds_in(k, acc):
    if isinstance(k, list) and k:
        acc.add(k[0])
        for x in k[1:]:
            kinds_in(x, acc)
    return acc


def cpp_shortest(v):
    """std::to_chars(double) of libstdc++ (shortest digits; fixed or scientific, whichever is shorter; integers >= 2^53 with their exact
    digits), with the ".0" print_double appends to a text that has neither fraction nor exponent"""
    from decimal import Decimal
    if v != v or v in (float("inf"), float("-inf")):
        return repr(v)
    if v == 0:
        return "0.0"
    sign, digits, exp = Decimal(repr(abs(v))).as_tuple()
    digits = "".join(map(str, digits)).lstrip("0") or "0"
    while len(digits) > 1 and digits.endswith("0"):
        digits, exp = digits[:-1], exp + 1
    n = len(digits)
    se = exp + n - 1
    sci = digits[0] + ("." + digits[1:] if n > 1 else "") + "e" + ("-" if se < 0 else "+") + "%02d" % abs(se)
    if exp >= 0:
        fixed = str(int(abs(v)))
    elif -exp < n:
        fixed = digits[:n + exp] + "." + digits[n + exp:]
    else:
        fixed = "0." + "0" * (-exp - n) + digits
    t = fixed if len(fixed) <= len(sci) else sci
    if not any(c in t for c in ".en"):
        t += ".0"
    return ("-" if v < 0 else "") + t


def text_key(ktree, s1):
    """identity of a printer/lexer-level deviation (text produced by str() does not lex to the model's token stream)"""
    ks = kinds_in(ktree, set())
    if ks & {"FORALL", "EXISTS", "SUM"}:
        return "binder:quantifier-type-printed-with-type_t::str"
    if re.search(r"string", json.dumps(ktree)) and "string" in [x[1] for x in flat_consts(ktree)]:
        return "literal:string-printed-without-quotes"
    if "double" in [x[1] for x in flat_consts(ktree)]:
        return "literal:double-printed-with-6-digits"
    if "--2147483648" in s1.replace(" ", ""):
        return "text:minus-minus-2147483648"
    return "print-mismatch:" + "+".join(sorted(ks))[:60]


def flat_consts(k, acc=None):
    acc = [] if acc is None else acc
    if isinstance(k, list) and k:
        if k[0] == "CONSTANT":
            acc.append(k)
        for x in k[1:]:
            flat_consts(x, acc)
    return acc


# ---------------------------------------------------------------------------------------------- queries (testing only)
QUERY_TEMPLATES = [
    "A[] {B1}", "E<> {B1}", "A<> {B1}", "E[] {B1}", "{B1} --> {B2}", "A[] {B1} or {B2}",
    "sup: {I1}", "inf: {I1}, {I2}", "sup{{{B1}}}: {I1}", "inf{{{B1}}}: {I1}", "bounds: {I1}", "bounds{{{B1}}}: {I1}, {I2}",
    "Pr[<={N1}](<> {B1})", "Pr[<={N1}]([] {B1})", "Pr[#<={N1}](<> {B1})", "Pr[cl<={N1}](<> {B1})", "Pr[<={N1}; {R}](<> {B1})",
    "Pr[<={N1}]({B1} U {B2})", "Pr[#<={N1}]({B1} U {B2})",
    "Pr[<={N1}](<> {B1}) >= {F}", "Pr[<={N1}]([] {B1}) >= {F}", "Pr[<={N1}](<> {B1}) <= {F}", "Pr[<={N1}]([] {B1}) <= {F}",
    "Pr[<={N1}](<> {B1}) >= Pr[<={N2}](<> {B2})", "Pr[<={N1}]([] {B1}) >= Pr[#<={N2}](<> {B2})",
    "E[<={N1}; {R}](max: {I1})", "E[<={N1}; {R}](min: {I1})", "E[#<={N1}; {R}](max: {I1})", "E[<={N1}](max: {I1})", "E[cl<={N1}; {R}](min: {I1})",
    "simulate[<={N1}]{{{I1}, {I2}}}", "simulate[<={N1}; {R}]{{{I1}}}", "simulate[#<={N1}]{{{I1}, {B1}}}",
    "simulate[<={N1}; {R}]{{{I1}}} : {N3} : {B1}", "simulate[<={N1}; {R}]{{{I1}, {I2}}} : {B1}",
    "control: A[] {B1}", "control: A<> {B1}", "control: A[{B1} U {B2}]", "control: A[{B1} W {B2}]", "E<> control: A[] {B1}",
    "control_t*({N1}, {N2}): A<> {B1}", "control_t*({N1}): A<> {B1}", "control_t*: A<> {B1}", "{{{I1}, {I2}}} control: A[] {B1}",
    "control_t*({N1}, {N2}): A[{B1} U {B2}]",
    "minE({I1})[<={N1}] : <> {B1}", "maxE({I1})[<={N1}] : <> {B1}", "minE({I1})[#<={N1}] : <> {B1}", "maxE({I1})[<={N1}] {{a}} -> {{x}} : <> {B1}",
    "minPr[<={N1}] : <> {B1}", "maxPr[<={N1}] : <> {B1}",
    "strategy S1 = control: A[] {B1}", "saveStrategy(\"f.json\", S1)", "strategy S2 = loadStrategy{{a}}->{{x}}(\"f.json\")",
    "strategy S1 = control: A[] {B1}", "saveStrategy({PATH}, S1)", "strategy S3 = loadStrategy{{a}}->{{x}}({PATH})",
    "E<> {B1} under S1", "Pr[<={N1}](<> {B1}) under S1",
    "A[] forall (i : int[0,3]) arr[i] >= {I1}", "E<> exists (i : int[0,3]) arr[i] == {I1}", "A[] sum (i : int[0,3]) arr[i] < {I1}",
    "A[] P.s0 imply {B1}", "E<> P.s0 && {B1}", "A[] not deadlock", "E<> deadlock && {B1}",
    # members of processes of a process set: `T(i).x`
    "E<> T(1).v == {I1}", "A[] T({I1}).t0 imply {B1}", "E<> T2(2, 1).w[1] > T({I2}).v", "A[] T2({I1}, 0).t1 || T2(0, {I2}).v < {N1}",
    "E<> T2(1, 0).w[T(3).v] == {I1}", "sup: T(0).v, T2(3, 1).v + {I1}",
]


def make_queries(ctx, tgen):
    """fill the query templates with distinct, accepted sub-expressions so that swapped or dropped operands are visible"""
    r = ctx.rng
    out = []
    reps = 4 if not ctx.thorough else 60
    for t in QUERY_TEMPLATES:
        for _ in range(reps):
            ints = r.sample(["a", "b", "c", "d", "e", "a + b", "c * d", "e - 1", "arr[1]", "a + 2 * b", "(c + d) * e", "-a", "b % 3 + 1"], 2)
            bools = r.sample(["p", "q", "a < b", "c >= 2", "d == e", "p && a > 1", "q || b < 3", "!(p && q)", "a + b <= c", "e != 0",
                              "x > 0.00001", "y < 1000000.0", "x >= 2e20 || p", "y + 0.5 < x"], 2)
            n1, n2, n3 = r.sample(range(2, 60), 3)
            # doubles whose text has an exponent and no fraction (1e-05), none (0.5), both (2.5e-07); explicit run counts incl. 0 and 1;
            # file names with characters the printer escapes
            f = r.choice(["0.5", "0.25", "0.75", "0.125", "0.9", "0.00001", "0.000001", "0.00000025", "1e-05", "2.5e-07"])
            runs = r.choice([0, 0, 1, 1, 7, r.randint(2, 60)])
            path = r.choice(['"f.json"', '"dir/sub dir/f.json"', '"C:\\\\strategies\\\\safe.json"', '"..\\\\reach.json"', '"a\\\\b"'])
            out.append(t.format(B1=bools[0], B2=bools[1], I1=ints[0], I2=ints[1], N1=n1, N2=n2, N3=n3, F=f, R=runs, PATH=path))
    return out


# ---------------------------------------------------------------------------------------------- the check
def run(ctx):
    cov = ctx.coverage
    tie_err = None
    G = None
    optext = {}
    try:
        G = exprgrammar.extract(core.REPO)
        core.write_if_changed(GEN_G, exprgrammar.emit(G))
        prec, modes, optext = printer.extract(core.REPO)
        core.write_if_changed(GEN_P, printer.emit(prec, modes, optext))
    except (exprgrammar.TranslateError, printer.TranslateError) as ex:
        tie_err = str(ex)
        ctx.log("translator failed:", ex)
    try:
        qtext, qsum = query_tables.translate(core.REPO)
        core.write_if_changed(GEN_Q, qtext)
        cov["translated_query_layer"] = qsum
    except exprgrammar.TranslateError as ex:
        tie_err = (tie_err + "; " if tie_err else "") + "query layer: " + str(ex)
        ctx.log("translator (query layer) failed:", ex)
    okd, logd = core.lake_build(["drv_c02", "drv_c03"])
    if not okd:
        ctx.proof_broken("drv_c03", logd[-3000:], "drivers do not build against the regenerated tables; nothing could be compared")
        cov.update({"obligations": 1, "discharged": 0, "checker_cmd": "lake build", "trusted_base": core.TRUSTED_BASE})
        return
    drv2, drv3 = core.lean_exe("drv_c02"), core.lean_exe("drv_c03")
    b = core.build_repo("asan")
    har = core.build_harness(b, "c02", ["c02.cpp"])
    # 2 exception set ------------------------------------------------------------------------------
    rc, bl, err = c02.run_lines(drv3, ["B"])
    bl = [l for l in bl if l != "END"]
    triples = []
    for l in bl:
        f = l.split("\t")
        if len(f) == 9:
            triples.append(dict(parent=f[0], pos=f[1], child=f[2], sexp=f[3], mintext=f[4], printed=f[5], reparse=f[6], expected=f[7], lean=f[8]))
    failing_all = [t for t in triples if t["reparse"] != t["expected"]]
    # one witness theorem per (parent family, position, child family): the assignment operators form one family
    seen, failing = set(), []
    for t in failing_all:
        key = (family(t["parent"]), t["pos"], family(t["child"]))
        if key not in seen:
            seen.add(key)
            failing.append(t)
    conservative = len(triples) - len(failing)
    # the exception classes of the pinned tree, none of which has an instance the type checker accepts (the callee of a call, the operand of
    # `.` or `'` ... must be a name there); a class that is not on this list means the printer lost parentheses somewhere new
    class_keys = sorted("%s/%s/%s" % (family(t["parent"]), t["pos"], family(t["child"])) for t in failing)
    base_classes = {l.strip() for l in open(os.path.join(core.VERIF, "corpus", "c03", "exception_classes.txt")) if l.strip() and not l.startswith("#")}
    new_classes = [k for k in class_keys if k not in base_classes]
    cov["exception_class_keys"] = class_keys
    cov["exception_classes_not_on_the_pinned_list"] = new_classes
    wl = ["/- GENERATED by checks/c03.py on every run: for each (parent, position, child) combination of today's tables where the",
          "   printer omits parentheses the grammar needs, the printed witness does NOT parse back to the witness. -/",
          "import UtapModel.Model.PrintModel", "namespace UtapModel.C03W",
          "open UtapModel.Pratt UtapModel.ExprTable UtapModel.PrintModel", ""]
    for n, t in enumerate(failing):
        wl.append("/-- %s, operand %s = %s :  `%s`  is printed  `%s` -/" % (t["parent"], t["pos"], t["child"], t["mintext"], t["printed"]))
        wl.append("theorem witness_%d : good genData mt false %s = false ∧\n    parseTop utapT (lprint genData mt %s) ≠ some %s := by decide +kernel"
                  % (n, t["lean"], t["lean"], t["lean"]))
    wl += ["", "end UtapModel.C03W", ""]
    core.write_if_changed(GEN_W, "\n".join(wl))
    # 3 prove --------------------------------------------------------------------------------------
    ok, log = ctx.prove([MODULE, QMODULE], [])
    broken = []
    if not ok:
        broken = core.failing_theorems(log) or [("?", "lake build", log[-400:])]
        ctx.log("proof broken:", broken)
    okw, logw = core.lake_build([WMODULE])
    wax = {}
    if okw:
        try:
            wax = core.axiom_audit(WMODULE)
        except Exception as ex:  # noqa
            okw, logw = False, str(ex)
    badax = {n: a for n, a in wax.items() if set(a) - core.ALLOWED_AXIOMS}
    cov["witness_theorems"] = len(failing)
    cov["witness_theorems_discharged"] = len(wax) if okw and not badax else 0
    cov["obligations"] = cov.get("obligations", 0) + len(failing)
    cov["discharged"] = cov.get("discharged", 0) + (len(wax) if okw and not badax else 0)
    cov["exception_triples_computed"] = len(failing_all)
    cov["exception_triple_classes"] = len(failing)
    cov["criterion_conservative_triples"] = conservative
    if not okw or badax:
        broken.append((GEN_W, "witness theorems", (logw or repr(badax))[-600:]))
    # 4 correspondence -----------------------------------------------------------------------------
    conv = Conv(G, optext) if G else None
    gen = c02.Gen(G, ctx.rng) if G else None
    tgen = c02.TypedGen(G, ctx.rng) if G else None
    n_trees = (3000 if not ctx.thorough else 40000) if gen else 0
    trees = [gen.tree(ctx.rng.choice([1, 2, 2, 3, 3, 4, 5])) for _ in range(n_trees)]
    trees += [tgen.tree(ctx.rng.choice([1, 2, 2, 3, 3, 4, 5, 6])) for _ in range(n_trees)]     # accepted by the type checker
    for t in failing:
        trees.append(t["sexp"])              # every exception witness is replayed on the library
    # hand-picked literal / text-level cases
    trees += ["(pre T_MINUS (intmin))", "(bin T_MINUS (id a) (pre T_MINUS (intmin)))", "(dbl 0.1234567891)", "(dbl 1e300)", "(dbl 123456789.5)",
              "(dbl 0.5)", "(bin T_PLUS (dbl 2.5) (dbl 1e-7))", "(bin T_EQ (id p) true)", "(bin T_EQ (id a) (nat 1))"]
    rc, tout, err = c02.run_lines(drv2, ["T\t" + t for t in trees])
    texts = []
    for t, line in zip(trees, tout):
        f = line.split("\t")
        if len(f) == 6 and f[0] == "true":
            texts.append(f[1])
    rc, hq, err = c02.run_lines(har, ["Q\t" + t for t in texts])
    if rc != 0 or len(hq) != len(texts):
        bad = texts[len(hq)] if len(hq) < len(texts) else "?"
        ctx.finding("crash:str-or-reparse", "the library died while printing / re-parsing %r" % bad,
                    {"text": bad, "stderr": err[-3000:], "entry": "expression_t::str(), parse_XTA(S_EXPRESSION)"})
        return
    cases = []
    for text, h in zip(texts, hq):
        f = h.split("\t")
        if len(f) != 6 or not f[0].startswith("("):
            continue          # rejected / semantic error at parse time: not an expression "that parses without diagnostics"
        k, s1, k2, eq, s2, typeok = f
        kt = parse_sexp(k)
        if conv:
            conv.lossy = False
        sx = conv.conv(kt) if conv else None
        cases.append(dict(text=text, k=k, kt=kt, s1=s1, k2=k2, eq=(eq == "equal"), s2=s2, typeok=(typeok == "typeok"), sexp=sx,
                          lossy=bool(conv and conv.lossy)))
    cases.sort(key=lambda c: (len(c["text"].split()), c["text"]))      # smallest witness first: it becomes the replay
    inmodel = [c for c in cases if c["sexp"] is not None]
    rc, cout, err = c02.run_lines(drv3, ["C\t%s\t%s" % (c["sexp"], c["s1"]) for c in inmodel])
    stats = dict(cases=len(cases), in_model=len(inmodel), accepted_by_typechecker=sum(1 for c in cases if c["typeok"]),
                 impl_roundtrip_ok=0, impl_roundtrip_fail_typeok=0, impl_roundtrip_fail_typeerr=0, lex_mismatch=0, good=0, notgood=0,
                 str_exception=0)
    model_bugs = []
    for c, line in zip(inmodel, cout):
        f = line.split("\t")
        if len(f) != 5:
            model_bugs.append(("driver output", c["text"], line[:200]))
            continue
        good, bad, mtext, lexeq, re_k = f[0] == "true", f[1], f[2], f[3] == "true", f[4]
        impl_ok = c["eq"] and c["s1"] == c["s2"]
        stats["good" if good else "notgood"] += 1
        if c["k2"].startswith("STR-EXCEPTION"):
            stats["str_exception"] += 1
            ctx.finding("str-throws:" + "+".join(sorted(kinds_in(c["kt"], set())))[:50], "str() threw on %r: %s" % (c["text"], c["k2"]),
                        {"text": c["text"], "tree": c["k"], "observed": c["k2"]})
            continue
        if impl_ok:
            stats["impl_roundtrip_ok"] += 1
        elif c["typeok"]:
            stats["impl_roundtrip_fail_typeok"] += 1
        else:
            stats["impl_roundtrip_fail_typeerr"] += 1
        replay = {"entry": "parse_XTA(text, S_EXPRESSION) -> str() -> parse -> equal -> str() in the scope of harness/c02.cpp", "text": c["text"],
                  "tree": c["k"], "str": c["s1"], "reparsed": c["k2"], "equal": c["eq"], "second_str": c["s2"], "accepted_by_typechecker": c["typeok"]}
        if c["lossy"]:
            # a double constant that no literal denotes (it cannot come from a parse): the token-level model cannot represent the tree
            if not impl_ok and c["typeok"]:
                ctx.finding("literal:double-printed-with-6-digits", "str() of %r is %r: the double constant does not survive" % (c["text"], c["s1"]), replay)
            continue
        if not lexeq:
            stats["lex_mismatch"] += 1
            if not impl_ok:
                if c["typeok"]:
                    ctx.finding(text_key(c["kt"], c["s1"]), "str() of %r is %r, which does not parse back to an equal tree / identical text" % (c["text"], c["s1"]), replay)
            elif good:
                # the library round-trips although its text is not the model's token stream: harmless difference of spelling?
                model_bugs.append(("printer model differs from str() although the library round trip is fine", c["text"], "model=%r real=%r" % (mtext, c["s1"])))
            continue
        if good and not impl_ok:
            ctx.finding("roundtrip:" + "+".join(sorted(kinds_in(c["kt"], set())))[:60],
                        "theorem C03_partial covers %r but the library does not round-trip it" % c["text"], replay)
        if not good and not impl_ok and c["typeok"]:
            ctx.finding(triple_key(bad), "str() of %r is %r: parentheses the grammar needs are omitted (%s)" % (c["text"], c["s1"], bad), replay)
    for c in cases:
        if c["sexp"] is None and c["typeok"] and not (c["eq"] and c["s1"] == c["s2"]):
            ctx.finding("outside-model:" + "+".join(sorted(kinds_in(c["kt"], set())))[:60], "str() round trip fails for %r" % c["text"],
                        {"text": c["text"], "str": c["s1"], "reparsed": c["k2"]})
    # stage S: string constants at the text level (Model/StrLit.lean, theorem C03_string_roundtrip) -----------------------------------
    sstats = run_strings(ctx, har, drv3)
    # stage Q: queries on the real library (testing only; outside the Lean model) ----------------------------------------
    qstats = run_queries(ctx, b)
    qstats["strings"] = sstats
    # stage QL: the query layer of the Lean model (Model/Query.lean, theorem C03_query_roundtrip) against the real query parser / printer
    qstats["query_layer"] = run_query_layer(ctx, b, drv3, texts, model_bugs)
    # verdict ------------------------------------------------------------------------------------------------------------
    reported = {v[0] for v in ctx.violations}
    for k in new_classes:
        if ("triple:" + k) in reported:
            continue                # a type-correct instance failed on the library: reported with that input
        t = [x for x in failing if "%s/%s/%s" % (family(x["parent"]), x["pos"], family(x["child"])) == k][0]
        ctx.proof_broken("exception-class:triple:" + k,
                         "the printer model read from expression.cpp omits parentheses the grammar needs in a combination that the pinned tree "
                         "printed correctly: operand %s (%s) of %s, e.g. `%s` is printed `%s` (C03_partial no longer covers such trees)"
                         % (t["pos"], t["child"], t["parent"], t["mintext"], t["printed"]),
                         "%d trees round-tripped on the library; this witness itself is rejected by the type checker" % len(cases))
    if model_bugs:
        ctx.proof_broken("correspondence:printer-model", repr(model_bugs[:3]), "library round trip is fine on those inputs")
    if tie_err and not ctx.violations:
        ctx.proof_broken("translate/printer.py|exprgrammar.py", tie_err, "%d trees round-tripped on the library" % len(cases))
    if broken and not ctx.violations:
        for path, thm, msg in broken:
            ctx.proof_broken(thm, msg + "\n" + (log or "")[-1500:], "%d trees round-tripped on the library, exception witnesses replayed" % len(cases))
    cov["evaluations"] = len(texts) + qstats.get("queries", 0)
    cov["distinct_nontrivial"] = len({c["text"] for c in cases if len(c["text"].split()) >= 3})
    cov["rule"] = ("random well-scoped trees rendered minimally, parsed by the library, printed, re-parsed, compared (equal, identical second text); "
                   "every computed exception witness; literal corner cases; distinct texts with >= 3 tokens counted")
    cov["correspondence_cases"] = len(inmodel)
    cov["correspondence_disagreements"] = len(model_bugs)
    cov["traces_validated_against_impl"] = len(inmodel)
    cov["distribution"] = dict(stats, tree_nodes=gen.stats if gen else {}, typed_tree_nodes=tgen.stats if tgen else {}, queries=qstats)
    cov["samples"] = [{"text": c["text"], "str": c["s1"], "equal": c["eq"], "typeok": c["typeok"]} for c in cases[:: max(1, len(cases) // 5)][:6]]
    ctx.assumptions += [
        "the theorem is at token level; that lexing the text of str() gives the model's token stream is checked on every case (not proved)",
        "query layer of the Lean model (C03_query_roundtrip): A<> A[] E<> E[] --> A[U] A[W], control / E<> control / control_t* / {..} control, "
        "sup / inf / bounds; its printer is driven by layouts regenerated from expression_t::print, its parser's productions are proved to be "
        "productions of parser.y (C03_query_tables); bison's LALR automaton on these productions is represented by a hand-written parser, "
        "validated by comparing trees with the real parser on every generated query",
        "the Buchi form, the statistical queries (Pr[..], E[..], simulate), minE/maxE, strategies and `under` are outside the Lean model: the same "
        "parse/str/parse/equal/str oracle runs on the real library for a fixed list of query forms (testing)",
        "witnesses whose expression the type checker rejects (e.g. `(a + b)'`) are computed and proved but are not violations of the property, "
        "which speaks about accepted expressions",
    ]


def run_strings(ctx, har, drv):
    """values -> the text the model's printer writes (drv_c03 STR) -> the real parser's constant and the real str() of it"""
    r = ctx.rng
    alpha = "abcXYZ019 _./\\\\\\:-+*(){}#'?,;=<>&|!%^~[]@$"
    vals = ["a", "abc", "C:\\dir\\f.json", "\\", "\\\\", "a\\", "\\a", "x y", "/* c */", "// c", "a'b", "1e5"]
    for _ in range(300 if not ctx.thorough else 5000):
        vals.append("".join(r.choice(alpha) for _ in range(r.randint(1, 12))))
    _, mo, _ = c02.run_lines(drv, ["STR\t" + v.encode().hex() for v in vals])
    texts = [m.split("\t")[0] if "\t" in m else None for m in mo]
    _, ho, _ = c02.run_lines(har, ["Q\t" + (t or '"x"') for t in texts])
    st = {"values": len(vals), "with_backslash": sum(1 for v in vals if "\\" in v), "disagreements": 0}
    for v, m, t, h in zip(vals, mo, texts, ho):
        f = h.split("\t")
        ok_model = m.endswith("\tVALUE " + v)
        ok_lib = len(f) >= 5 and f[0] == "(CONSTANT string %s)" % v and f[1] == t and f[3] == "equal" and f[4] == t
        if ok_model and ok_lib:
            continue
        st["disagreements"] += 1
        if not ok_model:
            ctx.proof_broken("C03_string_roundtrip", "the model does not read %r back from %r: %s" % (v, t, m), "library: %s" % h[:200])
        else:
            ctx.finding("literal:string-roundtrip", "string constant %r: the model's printer writes %s and reads it back; the library gives %s" % (v, t, h[:300]),
                        {"text": t, "value": v, "observed": h, "model": m})
    return st


def run_queries(ctx, b):
    har = core.build_harness(b, "c03q", ["c03q.cpp"])
    QUERIES = make_queries(ctx, None)
    rc, out, err = c02.run_lines(har, QUERIES)
    st = dict(queries=len(QUERIES), templates=len(QUERY_TEMPLATES), parsed=0, roundtrip_ok=0, rejected_templates=[])
    if rc != 0 or len(out) != len(QUERIES):
        bad = QUERIES[len(out)] if len(out) < len(QUERIES) else "?"
        ctx.finding("crash:query-str", "the library died while printing / re-parsing the query %r" % bad, {"query": bad, "stderr": err[-3000:]})
        return st
    for q, line in zip(QUERIES, out):
        f = line.split("\t")
        if f[0] != "OK":
            st["rejected_templates"] = sorted(set(st["rejected_templates"] + [q.split("(")[0].split("[")[0][:24]]))[:20]
            continue             # not accepted by the query parser in this scope: outside the property's quantifier
        st["parsed"] += 1
        kind, s1, status, s2 = f[1], f[2], f[3], f[4] if len(f) > 4 else ""
        if status == "equal" and s1 == s2:
            st["roundtrip_ok"] += 1
        elif status == "notequal" and s1 == s2 and re.search(r"[0-9]\.[0-9]", s1):
            # the two trees print identically but differ: a double constant that its 6-digit text does not determine
            ctx.finding("literal:double-printed-with-6-digits", "query %r: str() gives %r, whose double constant re-parses to another value" % (q, s1),
                        {"query": q, "str": s1, "status": status})
        elif "$expecting T_FLOATING" in status and re.search(r"[<>]= [0-9]+$", s1):
            # the same defect seen where the grammar insists on a floating-point literal: a probability bound such as 0.99999975 is
            # printed with 6 significant digits, i.e. as the integer text `1`
            ctx.finding("literal:double-printed-with-6-digits", "query %r: str() gives %r, whose probability bound is printed as an integer (%s)" % (q, s1, status),
                        {"query": q, "str": s1, "status": status})
        elif re.search(r"\b(forall|exists|sum)\(\w+:\(", s1):
            ctx.finding("binder:quantifier-type-printed-with-type_t::str", "query %r: str() gives %r" % (q, s1), {"query": q, "str": s1, "status": status})
        else:
            ctx.finding("query:" + kind, "query %r: str() gives %r; re-parse: %s%s" % (q, s1, status, (" second str " + repr(s2)) if s2 and s2 != s1 else ""),
                        {"entry": "parseProperty(query) -> str() -> parseProperty -> equal -> str()", "query": q, "str": s1, "status": status, "second_str": s2})
    return st


QL_FORMS = ["A<> {0}", "A[] {0}", "E<> {0}", "E[] {0}", "{0} --> {1}", "A[{0} U {1}]", "A[{0} W {1}]"]
QL_WRAP = ["{S}", "control: {S}", "E<> control: {S}", "control_t*({2}, {3}): {S}", "control_t*({2}): {S}", "control_t*: {S}",
           "{{{L}}} control: {S}", "{{ }} control: {S}"]
QL_OPT = ["sup: {L}", "inf: {L}", "bounds: {L}", "sup{{{0}}}: {L}", "inf{{{0}}}: {L}", "bounds{{{0}}}: {L}"]
# the statistical forms: bound type x optional run count x body
QL_SMC = ["Pr[{B}](<> {0})", "Pr[{B}]([] {0})", "Pr[{B}]({0} U {1})", "E[{B}](max: {0})", "E[{B}](min: {0})", "simulate[{B}]{{{L}}}"]
QL_BOUNDS = ["<={2}", "#<={2}", "cl<={2}", "<={2}; {R}", "#<={2}; {R}", "cl<={2}; {R}"]
# hypothesis tests, comparisons of probabilities, filtered simulations (Model/QuerySmc2.lean); `<= p` is outside the model (the builder negates
# the predicate and computes 1 - p): the library's own round trip is still checked
QL_SMC2 = ["Pr[{B}](<> {0}) >= {D}", "Pr[{B}]([] {0}) >= {D}", "Pr[{B}](<> {0}) <= {D}", "Pr[{B}]([] {0}) <= {D}",
           "simulate[{B}]{{{L}}} : {0}", "simulate[{B}]{{{L}}} : {R} : {0}"]
QL_CMP = ["Pr[{B}](<> {0}) >= Pr[{C}]([] {1})", "Pr[{B}]([] {0}) >= Pr[{C}](<> {1})", "Pr[{B}](<> {0}) >= Pr[{C}](<> {1})"]
QL_PROBS = ["0.5", "0.25", "0.125", "0.75", "0.1234567", "0.7", "0.3", "1e-05", "0.9999999"]
QL_KINDS = {"PROBA_MIN_BOX", "PROBA_MIN_DIAMOND", "PROBA_CMP", "SIMULATEREACH", "AF", "AG", "EF", "EG", "LEADS_TO", "A_UNTIL", "A_WEAK_UNTIL", "CONTROL", "EF_CONTROL", "CONTROL_TOPT", "CONTROL_TOPT_DEF1",
            "CONTROL_TOPT_DEF2", "PO_CONTROL", "SUP_VAR", "INF_VAR", "BOUNDS_VAR", "PROBA_BOX", "PROBA_DIAMOND", "PROBA_EXP", "SIMULATE"}


def leq_twin(qq):
    return re.sub(r"\)\s*<=\s*([0-9.e+-]+)$", r") >= \1", qq)


def run_query_layer(ctx, b, drv, texts, model_bugs):
    """every form of the query layer x random operand expressions (the minimal renderings of this run's trees): the real parser's kind tree
    and str() against the model's parse and print (driver op QRY); and the property itself on the library (equal tree, identical text)"""
    r = ctx.rng
    har = core.build_harness(b, "c03q", ["c03q.cpp"])
    ok_ids = set("a b c d e i j k arr p q x y cl true false".split())
    pool = [t for t in texts if len(t) < 120 and all(w in ok_ids or not w[0].isalpha() or "(" in w for w in re.findall(r"[A-Za-z_]\w*\(?", t))]
    pool = pool or ["a", "p", "a + 1", "x > 0.5"]
    small = [t for t in pool if len(t) < 30] or pool
    queries = []
    n = 40 if not ctx.thorough else 600
    for form in QL_FORMS:
        for wrap in QL_WRAP:
            for _ in range(n // 4):
                ops = [r.choice(pool if r.random() < 0.6 else small) for _ in range(4)]
                lst = ", ".join(r.choice(small) for _ in range(r.randint(1, 4)))
                queries.append(wrap.replace("{S}", form).replace("{L}", lst).format(*ops) if "{L}" not in wrap
                               else wrap.replace("{S}", form).replace("{L}", lst).format(*ops))
    for form in QL_OPT:
        for _ in range(n):
            ops = [r.choice(pool)]
            lst = ", ".join(r.choice(pool if r.random() < 0.5 else small) for _ in range(r.randint(1, 5)))
            queries.append(form.replace("{L}", lst).format(*ops))
    for form in QL_SMC:
        for bnd in QL_BOUNDS:
            for _ in range(n // 4):
                ops = [r.choice(pool if r.random() < 0.6 else small) for _ in range(3)]
                lst = ", ".join(r.choice(small) for _ in range(r.randint(1, 4)))
                queries.append(form.replace("{B}", bnd).replace("{L}", lst).replace("{R}", str(r.choice([0, 1, 2, 7, 50]))).format(*ops))
    for form in QL_SMC2:
        for bnd in QL_BOUNDS:
            for _ in range(n // 4):
                ops = [r.choice(pool if r.random() < 0.6 else small) for _ in range(3)]
                lst = ", ".join(r.choice(small) for _ in range(r.randint(1, 4)))
                qq = (form.replace("{B}", bnd).replace("{L}", lst).replace("{R}", str(r.choice([0, 1, 2, 7, 50])))
                      .replace("{D}", r.choice(QL_PROBS)).format(*ops))
                queries.append(qq)
                if ") <= " in form:
                    # the `>=` twin of a `<= p` query: the model judges its operands (criterion `good`, bound shape), which are the same
                    queries.append(leq_twin(qq))
    for form in QL_CMP:
        for b1 in QL_BOUNDS:
            for _ in range(n // 4):
                ops = [r.choice(pool if r.random() < 0.6 else small) for _ in range(3)]
                ops2 = [ops[0], ops[1], r.choice(small)]
                q1 = form.replace("{B}", b1).replace("{C}", r.choice(QL_BOUNDS)).replace("{R}", str(r.choice([0, 1, 7])))
                # the second bound takes another operand: {2} of the second half is drawn separately
                i = q1.index(">= Pr[")
                queries.append(q1[:i].format(*ops) + q1[i:].format(*ops2))
    queries = sorted(set(queries), key=lambda qq: (len(qq), qq))
    rc, out, err = c02.run_lines(har, queries)
    st = dict(queries=len(queries), accepted_by_library=0, compared=0, tree_disagreements=0, print_disagreements=0, wf=0, not_wf=0,
              roundtrip_ok=0, by_kind={})
    if rc != 0 or len(out) != len(queries):
        bad = queries[len(out)] if len(out) < len(queries) else "?"
        ctx.finding("crash:query-str", "the library died while printing / re-parsing the query %r" % bad, {"query": bad, "stderr": err[-3000:]})
        return st
    rows = []
    for qq, line in zip(queries, out):
        f = line.split("\t")
        if f[0] == "OK" and len(f) >= 6:
            rows.append((qq, f))
    st["accepted_by_library"] = len(rows)
    _, mo, _ = c02.run_lines(drv, ["QRY\t%s\t%s" % (qq, f[2]) for qq, f in rows])
    if len(mo) != len(rows):
        model_bugs.append(("driver died on the query layer", rows[len(mo)][0] if len(mo) < len(rows) else "?", ""))
        return st
    rejected_by_model = 0
    model_of = {qq: m for (qq, f), m in zip(rows, mo)}
    for (qq, f), m in zip(rows, mo):
        kind, s1, status, s2, kt = f[1], f[2], f[3], f[4], f[5]
        st["by_kind"][kind] = st["by_kind"].get(kind, 0) + 1
        impl_ok = status == "equal" and s1 == s2
        st["roundtrip_ok"] += impl_ok
        g = m.split("\t")
        replay = {"entry": "parseProperty(query) -> str() -> parseProperty -> equal -> str()  (harness/c03q.cpp)", "query": qq, "tree": kt, "str": s1,
                  "status": status, "second_str": s2, "model": m}
        if kind not in QL_KINDS:
            continue
        if len(g) != 5 and kind in ("PROBA_MIN_BOX", "PROBA_MIN_DIAMOND") and re.search(r"\)\s*<=\s*[0-9.]", qq):
            # `Pr[..](..) <= p`: outside the model; the property itself on the library
            st["outside_model_leq_p"] = st.get("outside_model_leq_p", 0) + 1
            if not impl_ok:
                tw = model_of.get(leq_twin(qq), "").split("\t")
                twin_wf = len(tw) == 5 and tw[1] == "true"
                if "--2147483648" in s1.replace(" ", ""):
                    k3 = "text:minus-minus-2147483648"
                elif re.search(r"\b(forall|exists|sum)\(\w+:\(", s1):
                    k3 = "binder:quantifier-type-printed-with-type_t::str"
                elif not twin_wf and re.search(r"\bPr\[\s*[^<#\s]", qq):
                    k3 = "query:bound-operand-printed-without-parentheses"     # (the operands are outside the criterion of the `>=` twin)
                elif status in ("equal", "notequal"):
                    k3 = "literal:double-printed-with-6-digits"                  # 1 - p, printed with 6 digits
                else:
                    k3 = ("query-operand:" if not twin_wf else "query:") + kind
                ctx.finding(k3, "query %r: str() gives %r; re-parse: %s" % (qq, s1, status), replay)
            continue
        if len(g) != 5:
            rejected_by_model += 1
            model_bugs.append(("query accepted by the library, rejected by the model's parser", qq, m))
            continue
        st["compared"] += 1
        mk, wf, mtext, lexeq, re_ok = c02.canon_model(g[0]), g[1] == "true", g[2], g[3] == "true", g[4] == "true"
        st["wf" if wf else "not_wf"] += 1
        if mk != kt:
            st["tree_disagreements"] += 1
            model_bugs.append(("query tree differs", qq, "model=%s real=%s" % (mk[:300], kt[:300])))
            continue
        # deviations of the expression level that are known findings there carry over to operands of queries
        known = None
        if re.search(r"[0-9]\.[0-9]|[0-9]e[-+]?[0-9]", qq):
            known = "literal:double-printed-with-6-digits"      # (the token-level model keeps a double literal's text)
        elif re.search(r"\b(forall|exists|sum)\(\w+:\(", s1):
            known = "binder:quantifier-type-printed-with-type_t::str"
        elif "--2147483648" in s1.replace(" ", ""):
            known = "text:minus-minus-2147483648"
        if not known and not wf and kind in ("PROBA_BOX", "PROBA_DIAMOND", "PROBA_EXP", "SIMULATE", "PROBA_MIN_BOX", "PROBA_MIN_DIAMOND", "PROBA_CMP", "SIMULATEREACH") \
                and re.search(r"\b(Pr|E|simulate)\[\s*[^<#\s]", qq):
            # `l<=e` bounds are printed with both sides bare (print_bound_type, get(2).print): an operand that needs parentheses there
            # (`cl <= (a && b)`) comes back as another text -- Bnd.wf of the model excludes exactly these
            known = "query:bound-operand-printed-without-parentheses"
        if not lexeq:
            st["print_disagreements"] += 1
            if impl_ok and wf and not known:
                model_bugs.append(("query printer model differs from str() although the library round trip is fine", qq, "model=%r real=%r" % (mtext, s1)))
            elif not impl_ok:
                ctx.finding(known or ("query:" + kind), "query %r: str() gives %r; re-parse: %s (the model prints %r)" % (qq, s1, status, mtext), replay)
            continue
        if wf and not re_ok:
            model_bugs.append(("C03_query_roundtrip contradicted by the executable model", qq, m))
        if wf and not impl_ok:
            ctx.finding(known or ("query:" + kind), "theorem C03_query_roundtrip covers %r but the library does not round-trip it: str() %r, re-parse %s"
                        % (qq, s1, status), replay)
        elif not wf and not impl_ok:
            ctx.finding(known or ("query-operand:" + kind), "query %r: str() gives %r; re-parse: %s (operand outside the criterion `good`)" % (qq, s1, status), replay)
    st["rejected_by_model"] = rejected_by_model
    return st


def replay(ctx, path):
    r = json.load(open(path))["replay"]
    b = core.build_repo("asan")
    if "query" in r:
        har = core.build_harness(b, "c03q", ["c03q.cpp"])
        _, out, _ = c02.run_lines(har, [r["query"]])
        print(out[0] if out else "?")
        f = (out[0] if out else "").split("\t")
        return 0 if len(f) > 4 and f[3] == "equal" and f[2] == f[4] else 1
    har = core.build_harness(b, "c02", ["c02.cpp"])
    _, out, _ = c02.run_lines(har, ["Q\t" + r["text"]])
    print(out[0] if out else "?")
    f = (out[0] if out else "").split("\t")
    return 0 if len(f) == 6 and f[3] == "equal" and f[1] == f[4] else 1
