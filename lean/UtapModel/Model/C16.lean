/- C16: which grammar productions can be abandoned (bison `error` recovery) with a scope frame still pushed.
   Computed from the generated production table (Gen/C16Grammar.lean) and the builder model itself: a callback
   "pushes" / "pops" iff the model's `step` for it changes the depth of the frame stack of the initial state.
   Core Lean only. -/
import UtapModel.Gen.C16Grammar
import UtapModel.Model.BuilderTrace

namespace UtapModel.C16
open UtapModel.Builder UtapModel.C16Grammar

/-- the same call with literal arguments (names "x", counts 0): the frame effect of a callback does not depend on its
    arguments, and literal arguments keep the computation inside what the kernel can evaluate (`decide +kernel`) -/
def Call.normalize : Call → Call
  | .frag _ _ => .frag 0 0
  | .exprIdentifier _ => .exprIdentifier "x"
  | .quantBegin _ => .quantBegin "x"
  | .dynQuantBegin _ => .dynQuantBegin "x"
  | .typePrim _ _ _ => .typePrim false 0 false
  | .typeName _ => .typeName "x"
  | .typeArrayOfSize _ => .typeArrayOfSize 0
  | .typeArrayOfType _ => .typeArrayOfType 0
  | .declTypedef _ => .declTypedef "x"
  | .declVar _ _ => .declVar "x" false
  | .declParameter _ => .declParameter "x"
  | .declFuncBegin _ => .declFuncBegin "x"
  | .declExternalFunc _ => .declExternalFunc "x"
  | .declDynamicTemplate _ => .declDynamicTemplate "x"
  | .iterationBegin _ => .iterationBegin "x"
  | .returnStatement _ => .returnStatement false
  | .procBegin _ _ => .procBegin "x" true
  | .procLocation _ _ _ => .procLocation "x" false false
  | .procLocationCommit _ => .procLocationCommit "x"
  | .procLocationUrgent _ => .procLocationUrgent "x"
  | .procLocationInit _ => .procLocationInit "x"
  | .procBranchpoint _ => .procBranchpoint "x"
  | .procEdgeBegin _ _ _ => .procEdgeBegin "x" "x" true
  | .procSelect _ => .procSelect "x"
  | .ganttSelect _ => .ganttSelect "x"
  | .instanceNameEnd _ => .instanceNameEnd 0
  | .instantiationBegin _ _ => .instantiationBegin "x" "x"
  | .instantiationEnd _ _ _ => .instantiationEnd "x" "x" 0
  | .process _ => .process "x"
  | c => c

/-- representative call of a callback name -/
def callOf (cb : String) : Option Call := (Call.ofTrace cb []).map Call.normalize

/-- a state with two frames on the stack, so that a pop is visible -/
def probe : BState := BState.init.pushNewFrame

def frameEffect (cb : String) : Int :=
  match callOf cb with
  | some c => ((step probe c).frames.length : Int) - (probe.frames.length : Int)
  | none => 0

def pushesFrame (cb : String) : Bool := frameEffect cb > 0
def popsFrame (cb : String) : Bool := frameEffect cb < 0

def isNonterminal (s : String) : Bool :=
  productions.any (fun p => p.1 == s)

/-- nonterminals reachable from the label entry points (guard / invariant / sync / update / probability / rate) -/
def labelEntries : List String := ["Expression", "SyncExpr", "ExprList", "ExpRate"]

def reachStep (seen : List String) : List String :=
  productions.foldl (fun acc p =>
    if acc.contains p.1 then
      p.2.foldl (fun acc it => match it with
        | .sym s => if isNonterminal s && !acc.contains s then acc ++ [s] else acc
        | .call _ => acc) acc
    else acc) seen

def reach : Nat → List String → List String
  | 0, seen => seen
  | n + 1, seen => let s' := reachStep seen; if s'.length = seen.length then seen else reach n s'

def labelNonterminals : List String := reach 40 labelEntries

/-- in `items`: a pushing callback, later a nonterminal (where a syntax error can abandon the production), later the
    matching pop -- returns the pushing callback -/
def openAcross : List Item → Option String
  | [] => none
  | .call c :: rest =>
    if pushesFrame c ∧ rest.any (fun it => match it with | .sym s => isNonterminal s || s == "error" | _ => false)
        ∧ rest.any (fun it => match it with | .call d => popsFrame d | _ => false)
    then some c else openAcross rest
  | _ :: rest => openAcross rest

/-- the exception shapes: callbacks whose frame can be left pushed by an abandoned production inside a label -/
def exceptionShapes : List String :=
  (productions.filterMap (fun p => if labelNonterminals.contains p.1 then openAcross p.2 else none)).eraseDups


/-- every callback a label's grammar can fire (any production of a nonterminal reachable from a label entry point) -/
def labelCallbacks : List String :=
  ((productions.filter (fun p => labelNonterminals.contains p.1)).map
    (fun p => p.2.filterMap (fun it => match it with | .call c => some c | _ => none))).flatten.eraseDups

/-- running frame depth over a production's own callbacks (nonterminals count as balanced sub-derivations): `none` if the
    production ever pops a frame it did not push itself, otherwise the depth at its end -/
def prodFrameBalance : Nat → List Item → Option Nat
  | d, [] => some d
  | d, .sym _ :: r => prodFrameBalance d r
  | d, .call c :: r =>
    if pushesFrame c then prodFrameBalance (d + 1) r
    else if popsFrame c then (match d with
      | 0 => none
      | d' + 1 => prodFrameBalance d' r)
    else prodFrameBalance d r

def isBalanced (items : List Item) : Bool :=
  match prodFrameBalance 0 items with
  | some 0 => true
  | _ => false

/-- every production's complete right-hand side leaves the frame stack as it found it -/
def allProductionsBalanced : Bool := productions.all (fun p => isBalanced p.2)

end UtapModel.C16
