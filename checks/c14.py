"""C14 -- typing of commutative operators and inline-if is symmetric; reference-parameter equivalence is symmetric.

 1 translate   src/typechecker.cpp + include/utap/type.h -> lean/UtapModel/Gen/TypeClauses.lean (tie T, every run)
 2 prove       UtapModel.Props.C14 over the regenerated rules (all types, all operands, no bound)
 3 correspond  the real TypeChecker (harness/c14.cpp, ASan build of the working tree) and the generated model (drv_c14)
               answer the same questions: every ordered pair of a pool of operand expressions x every binary operator,
               inline-if triples, reference-parameter calls, areEquivalent with wrappers on either side  (tie C)
 4 search      the property itself is evaluated on the implementation's verdicts (symmetry oracle): every deviation
               is a finding with a concrete failing expression as replay.  Beyond the pool: a family of separately written
               range / array-index types whose bounds are spelled differently (SPELLINGS), and the commutative operators
               inside queries, which have acceptance rules of their own (QUERY_CONTEXTS; oracle only, no model)
"""
import json
import os
import re
import sys

from vlib import core

sys.path.insert(0, os.path.join(core.VERIF, "translate"))
import typeclauses  # noqa: E402

GEN = os.path.join(core.LEAN_DIR, "UtapModel", "Gen", "TypeClauses.lean")
MODULE = "UtapModel.Props.C14"
SYM_OPS = ["PLUS", "MULT", "EQ", "NEQ", "AND", "OR", "BIT_AND", "BIT_OR", "BIT_XOR", "MIN", "MAX"]
OP_TEXT = {"FRACTION": None, "PLUS": "+", "MINUS": "-", "AND": "&&", "OR": "||", "XOR": "xor", "LT": "<", "LE": "<=", "EQ": "==",
           "NEQ": "!=", "GE": ">=", "GT": ">", "MULT": "*", "DIV": "/", "POW": "**", "MIN": "<?", "MAX": ">?", "MOD": "%",
           "BIT_AND": "&", "BIT_OR": "|", "BIT_XOR": "^", "BIT_LSHIFT": "<<", "BIT_RSHIFT": ">>"}
PREFIXES = {"CONSTANT", "SYSTEM_META", "URGENT", "BROADCAST", "COMMITTED", "HYBRID"}

# ------------------------------------------------------------------------------------------------ the generated document
DECLS = """\
const int N = 3;
int i; int j; int[0,3] bi; int[0,3] bi2; int[1,5] bj; int[0,N] bn; bool b; bool b2; double d; double d2; clock x, y;
typedef int[0,3] I03; I03 ti;
typedef scalar[3] S; S s, s2; typedef scalar[3] T; T t;
typedef struct { int a; bool b; } Rc; Rc r, r2; struct { int a; bool b; } r3; struct { int a; int b; } q;
struct { int c; bool b; } q2; struct { int a; } q3;
typedef struct { Rc inner; int k; } Nest; Nest nest;
struct { S fs; } rs; struct { T fs; } rt;
int arr[3]; int arr2[3]; int arr4[4]; bool barr[3]; int[0,3] barr3[3]; int sarr[S]; int sarr2[S]; int tarr[T]; int m[2][3];
Rc rarr[2]; clock xarr[2];
chan c; chan c2; urgent chan uc; broadcast chan bc; urgent broadcast chan ubc; chan carr[2];
const int ci = 3; const bool cb = true; const double cd = 1.5; const Rc cr = {1, true}; const int carr3[3] = {1, 2, 3};
meta int mi; meta Rc mr; meta bool mb;
int fi() { return 1; }
Rc fr() { return r; }
double fd() { return 1.0; }
bool fb() { return true; }
const int Z = 0; const int LO = 1;
%(spelled)s
%(functions)s
process P(int &pri, const int pci, S &prs, const S pcs, Rc &prr, const Rc &pcrr, clock &prx, int &pra[3], bool &prb,
          double &prd, chan &prc, broadcast chan &prbc, int[0,3] &prbi) {
    clock lx; int li;
    state L0; init L0;
}
process Q0() { state L0; init L0; }
system Q0;
"""

# (scope, expression text, tag)   tag "core" = used by the quick tier's exhaustive tables
POOL = [
    ("-", "i", "core"), ("-", "j", ""), ("-", "bi", "core"), ("-", "bi2", ""), ("-", "bj", "core"), ("-", "bn", ""), ("-", "ti", "core"),
    ("-", "b", "core"), ("-", "b2", ""), ("-", "d", "core"), ("-", "d2", ""), ("-", "x", "core"), ("-", "y", ""), ("-", "x - y", "core"),
    ("-", "s", "core"), ("-", "s2", "core"), ("-", "t", "core"), ("-", "r", "core"), ("-", "r2", ""), ("-", "r3", "core"), ("-", "q", "core"),
    ("-", "q2", "core"), ("-", "q3", ""), ("-", "nest", "core"), ("-", "rs", "core"), ("-", "rt", "core"), ("-", "arr", "core"), ("-", "arr2", ""),
    ("-", "arr4", "core"), ("-", "barr", "core"), ("-", "barr3", ""), ("-", "sarr", "core"), ("-", "sarr2", ""), ("-", "tarr", "core"),
    ("-", "m", "core"), ("-", "m[0]", ""), ("-", "rarr", ""), ("-", "rarr[0]", ""), ("-", "xarr", ""), ("-", "xarr[0]", "core"),
    ("-", "c", "core"), ("-", "c2", ""), ("-", "uc", "core"), ("-", "bc", "core"), ("-", "ubc", "core"), ("-", "carr", "core"), ("-", "carr[0]", ""),
    ("-", "ci", "core"), ("-", "cb", "core"), ("-", "cd", "core"), ("-", "cr", "core"), ("-", "carr3", "core"), ("-", "mi", "core"), ("-", "mr", "core"),
    ("-", "mb", ""), ("-", "1", "core"), ("-", "true", "core"), ("-", "1.5", "core"), ("-", '"abc"', "core"), ("-", '"xyz"', ""),
    ("-", "(i + 1)", ""), ("-", "(i < 2)", ""), ("-", "(d + 1)", ""), ("-", "(x < 3)", "core"), ("-", "(x == 3)", "core"), ("-", "(x != 3)", "core"),
    ("-", "(x' == 1)", "core"), ("-", "(x')", "core"), ("-", "r.a", ""), ("-", "r.b", ""), ("-", "arr[0]", ""), ("-", "arr[i]", ""), ("-", "fi()", "core"),
    ("-", "fr()", "core"), ("-", "fd()", ""), ("-", "fb()", ""), ("-", "cr.a", "core"), ("-", "nest.inner", ""), ("-", "(b ? i : j)", ""),
    ("-", "(b ? r : r2)", ""), ("-", "(-i)", ""), ("-", "(-d)", ""), ("-", "(!b)", ""), ("-", "(i * 2.0)", ""),
    ("-", "(forall (k : int[0,1]) arr[k] > 0)", ""), ("-", "(sum (k : int[0,1]) arr[k])", ""), ("-", "(x + 1)", "core"), ("-", "(x - y + 1)", ""),
    ("-", "(x < 3 && y < 2)", ""), ("-", "(b || x < 3)", ""), ("-", "(x < 3 || x > 5)", "core"),
    ("P", "pri", "core"), ("P", "pci", "core"), ("P", "prs", "core"), ("P", "pcs", "core"), ("P", "prr", "core"), ("P", "pcrr", "core"),
    ("P", "prx", "core"), ("P", "pra", "core"), ("P", "prb", ""), ("P", "prd", ""), ("P", "prc", "core"), ("P", "prbc", ""), ("P", "prbi", "core"),
    ("P", "lx", ""),
]
# reference parameters:  name -> (declaration of a parameter `p` of that type by reference, by const reference)
REFPARAMS = [
    ("int", "int &p", "const int &p"), ("bi", "int[0,3] &p", "const int[0,3] &p"), ("bj", "int[1,5] &p", "const int[1,5] &p"),
    ("ti", "I03 &p", "const I03 &p"), ("bool", "bool &p", "const bool &p"), ("double", "double &p", "const double &p"),
    ("clock", "clock &p", None), ("S", "S &p", "const S &p"), ("T", "T &p", "const T &p"), ("Rc", "Rc &p", "const Rc &p"),
    ("q", "struct { int a; int b; } &p", "const struct { int a; int b; } &p"), ("r3", "struct { int a; bool b; } &p", None),
    ("Nest", "Nest &p", "const Nest &p"), ("arr", "int &p[3]", "const int &p[3]"), ("arr4", "int &p[4]", None),
    ("barr", "bool &p[3]", None), ("sarr", "int &p[S]", "const int &p[S]"), ("tarr", "int &p[T]", None), ("m", "int &p[2][3]", None),
    ("chan", "chan &p", None), ("uchan", "urgent chan &p", None), ("bchan", "broadcast chan &p", None),
]
CHANNEL_PARAMS = {"chan", "uchan", "bchan"}

# Range bounds are compared structurally (expression_t::equal), so two types written in two places are equivalent exactly when
# their bounds are spelled the same.  The family below declares the same three shapes -- int[<s>,3], int[-3,<s>] and an array
# indexed by int[<s>,2] -- once per spelling of <s>: literals, named constants and arithmetic over a named constant, with values
# that coincide across spellings (0 is also what the value slot of every non-literal node holds, 1 is not).  No two members share a
# typedef or a declaration, so the pointer-equality shortcut of equal() never answers for them; every ordered pair is asked, so
# each spelling is on the receiver side of equal() once (argument vs reference parameter, left vs right operand of == / !=).
SPELLINGS = [("0", "0"), ("1", "1"), ("Z", "Z"), ("LO", "LO"), ("Nm3", "N-3"), ("Nm2", "N-2")]
SPELLED = []        # (variable, declared type text or None for the arrays)
SPELLED_DECLS = []
for _n, _s in SPELLINGS:
    SPELLED_DECLS.append("int[%s,3] vl_%s; int[-3,%s] vu_%s; int al_%s[int[%s,2]];" % (_s, _n, _s, _n, _n, _s))
    SPELLED += [("vl_" + _n, "int[%s,3]" % _s), ("vu_" + _n, "int[-3,%s]" % _s), ("al_" + _n, None)]
    REFPARAMS += [("vl_" + _n, "int[%s,3] &p" % _s, "const int[%s,3] &p" % _s), ("vu_" + _n, "int[-3,%s] &p" % _s, None),
                  ("al_" + _n, "int &p[int[%s,2]]" % _s, None)]
POOL += [("-", v, "") for v, _ in SPELLED]

# Queries.  visitProperty adds rules that no expression of a model meets (nesting of path quantifiers, what may be observed in
# `{ observations } control: goal`), so the commutative operators are also asked inside every query form that takes a state
# predicate, in both operand orders.  (operand text, its terminal kind -- only used to name a finding)
QUERY_OPERANDS = [("i", "INT"), ("bi", "INT"), ("b", "BOOL"), ("d", "DOUBLE"), ("x", "CLOCK"), ("y", "CLOCK"), ("x - y", "DIFF"),
                  ("0", "INT"), ("1", "INT"), ("true", "BOOL"), ("1.5", "DOUBLE"), ("ci", "INT"), ("cb", "BOOL"), ("mi", "INT"),
                  ("(i + 1)", "INT"), ("(x < 3)", "GUARD"), ("(1 <= x)", "GUARD"), ("(x == 3)", "GUARD"), ("(x - y < 2)", "GUARD"),
                  ("(b && x < 3)", "GUARD"), ("s", "SCALAR"), ("r", "RECORD"), ("arr", "ARRAY"), ("arr[0]", "INT"), ("fi()", "INT"),
                  ("c", "CHANNEL")]
OBS_OPS = ["LT", "LE", "GE", "GT", "EQ", "NEQ"]
OBS_CONTEXTS = ["po-observation", "po-goal"]
QUERY_CONTEXTS = [("AG", "A[] %s"), ("EF", "E<> %s"), ("AF", "A<> %s"), ("EG", "E[] %s"), ("leadsto-l", "%s --> b"), ("leadsto-r", "b --> %s"),
                  ("control-AF", "control: A<> %s"), ("control-AG", "control: A[] %s"), ("control-until", "control: A[ %s U b ]"),
                  ("ef-control", "E<> control: A<> %s"),
                  ("po-observation", "{ %s } control: A<> b"), ("po-observation-2nd", "{ b, %s } control: A[] b"),
                  ("po-observation-nested", "{ b && %s } control: A<> b"), ("po-goal", "{ b } control: A<> %s"),
                  ("sup", "sup{ %s }: i"), ("inf", "inf{ b }: %s")]
IIF_CONDS = ["b", "i", "(x < 3)", "(x == 3)", "d", "s", "(x != 3)"]


def declarations():
    fs = []
    for n, byref, bycref in REFPARAMS:
        fs.append("void f_%s(%s) { }" % (n, byref))
        if bycref:
            fs.append("void g_%s(%s) { }" % (n, bycref))
    return DECLS % {"functions": "\n".join(fs), "spelled": "\n".join(SPELLED_DECLS)}


# ------------------------------------------------------------------------------------------------ type dumps -> wire format
class Unmodelled(Exception):
    pass


def read_sexp(text):
    toks = re.findall(r'"(?:\\.|[^"\\])*"|[()]|[^\s()]+', text)
    pos = 0

    def rd():
        nonlocal pos
        t = toks[pos]
        pos += 1
        if t == "(":
            out = []
            while toks[pos] != ")":
                out.append(rd())
            pos += 1
            return out
        return t
    v = rd()
    if pos != len(toks):
        raise ValueError("trailing tokens in %r" % text)
    return v


def sexp_str(v):
    return "(" + " ".join(sexp_str(x) for x in v) + ")" if isinstance(v, list) else v


class Wire:
    """tsexp tree -> Polish wire format of UtapModel.Types.parseTy; labels and bound expressions become small numbers"""

    def __init__(self, tknames):
        self.ids = {}
        self.tk = set(tknames)

    def ident(self, s):
        if s not in self.ids:
            self.ids[s] = len(self.ids) + 1
        return self.ids[s]

    def ty(self, v):
        k = v[0]
        kids = v[1:]
        if k == "RANGE":
            return "G %d %d %s" % (self.ident("b:" + sexp_str(kids[1])), self.ident("b:" + sexp_str(kids[2])), self.ty(kids[0]))
        if k == "LABEL":
            return "L %d %s" % (self.ident("l:" + kids[0]), self.ty(kids[1]))
        if k == "REF":
            return "F " + self.ty(kids[0])
        if k == "ARRAY":
            return "A %s %s" % (self.ty(kids[0]), self.ty(kids[1]))
        if k == "RECORD":
            out = ["S %d" % (len(kids) // 2)]
            if len(kids) % 2:
                raise Unmodelled("record with unlabelled field: " + sexp_str(v))
            for i in range(0, len(kids), 2):
                if not kids[i].endswith(":"):
                    raise Unmodelled("record field label: " + sexp_str(v))
                out.append("%d %s" % (self.ident("l:" + kids[i][:-1]), self.ty(kids[i + 1])))
            return " ".join(out)
        if k in PREFIXES and len(kids) == 1:
            return "X %s %s" % (k, self.ty(kids[0]))
        if not kids and k in self.tk:
            return "P " + k
        raise Unmodelled("type node " + sexp_str(v))

    def text(self, tsexp):
        return self.ty(read_sexp(tsexp))


def term_kind(v):
    """strip().get_kind() of a dumped type"""
    while v[0] in PREFIXES or v[0] in ("RANGE", "REF"):
        v = v[1]
    if v[0] == "LABEL":
        return term_kind(v[2])
    return v[0]


def function_params(v):
    """[(label, type tree)] of a dumped FUNCTION type"""
    assert v[0] == "FUNCTION"
    out = []
    rest = v[2:]
    i = 0
    while i < len(rest):
        if isinstance(rest[i], str) and rest[i].endswith(":"):
            out.append(rest[i + 1])
            i += 2
        else:
            out.append(rest[i])
            i += 1
    return out


X_RE = re.compile(r"^ok=(\d) nerr=(\d+) kind=(\S+) root=(.*?) kids=(.*?) lv=(\d*)(?: pe=(\d+))? msgs=(.*)$")


def parse_x(line):
    m = X_RE.match(line)
    if not m:
        return None
    kids = [k for k in m.group(5).split(";") if k]
    return {"ok": m.group(1) == "1" and m.group(2) == "0", "kind": m.group(3), "root": m.group(4), "kids": kids, "lv": m.group(6),
            "pe": m.group(7), "msgs": m.group(8)}


# ------------------------------------------------------------------------------------------------ jobs
def gen_jobs(ctx):
    """list of dicts: {cls, text (harness op line), ...}"""
    r = ctx.rng
    pool = POOL
    core_pool = [p for p in POOL if p[2] == "core"]
    jobs = []
    ops = [o for o in OP_TEXT if OP_TEXT[o]]

    def scope_of(a, b, *more):
        return "P" if "P" in [a[0], b[0]] + [z[0] for z in more] else "-"

    # (1) binary operators
    exhaustive = pool if ctx.thorough else core_pool
    for op in ops:
        for a in exhaustive:
            for b_ in exhaustive:
                jobs.append({"cls": "bin", "op": op, "a": a[1], "b": b_[1], "scope": scope_of(a, b_)})
    if not ctx.thorough:
        # the rest of the pool: random pairs, always in both orders (the oracle needs both)
        for _ in range(6000):
            a, b_ = r.choice(pool), r.choice(pool)
            if a[2] == "core" and b_[2] == "core":
                continue
            op = r.choice(ops)
            jobs.append({"cls": "bin", "op": op, "a": a[1], "b": b_[1], "scope": scope_of(a, b_)})
            jobs.append({"cls": "bin", "op": op, "a": b_[1], "b": a[1], "scope": scope_of(a, b_)})
    # (2) inline-if
    for ci, c in enumerate(IIF_CONDS):
        src = exhaustive if (ci == 0 or ctx.thorough) else None
        if src is not None:
            pairs = [(a, b_) for a in src for b_ in src]
        else:
            pairs = []
            for _ in range(700):
                a, b_ = r.choice(pool), r.choice(pool)
                pairs += [(a, b_), (b_, a)]
        for a, b_ in pairs:
            jobs.append({"cls": "iif", "c": c, "a": a[1], "b": b_[1], "neg": False, "scope": scope_of(a, b_)})
            if c in ("b", "i"):
                jobs.append({"cls": "iif", "c": c, "a": a[1], "b": b_[1], "neg": True, "scope": scope_of(a, b_)})
    # (3) reference parameters: every function x every pool operand
    for n, byref, bycref in REFPARAMS:
        for a in pool:
            jobs.append({"cls": "call", "f": "f_" + n, "param": n, "a": a[1], "scope": a[0]})
            if bycref:
                jobs.append({"cls": "call", "f": "g_" + n, "param": n, "a": a[1], "scope": a[0]})
    # (4) areEquivalent with wrappers on either side
    for a in (pool if ctx.thorough else core_pool):
        for b_ in (pool if ctx.thorough else core_pool):
            jobs.append({"cls": "eqv", "a": a[1], "b": b_[1], "sa": a[0], "sb": b_[0]})
    # (5) unary operators and quantifiers (correspondence of the remaining translated cases)
    for a in pool:
        jobs.append({"cls": "un", "op": "NOT", "a": a[1], "scope": a[0], "text": "!(%s)" % a[1]})
        jobs.append({"cls": "un", "op": "UNARY_MINUS", "a": a[1], "scope": a[0], "text": "-(%s)" % a[1]})
        jobs.append({"cls": "un", "op": "RATE", "a": a[1], "scope": a[0], "text": "(%s)'" % a[1]})
        for qop, kw in (("FORALL", "forall"), ("EXISTS", "exists"), ("SUM", "sum")):
            jobs.append({"cls": "q", "op": qop, "a": a[1], "scope": a[0], "text": "%s (qk : int[0,1]) (%s)" % (kw, a[1])})
    # (6) the differently spelled bounds: every ordered pair of the family under the symmetric operators and areEquivalent
    #     (the calls f_<member>(<member>) are part of (3): the family is in the pool and in REFPARAMS)
    fam = [v for v, _ in SPELLED]
    for a in fam:
        for b_ in fam:
            for op in SYM_OPS:
                jobs.append({"cls": "bin", "op": op, "a": a, "b": b_, "scope": "-"})
            jobs.append({"cls": "eqv", "a": a, "b": b_, "sa": "-", "sb": "-"})
    # (7) the symmetric operators inside queries, both orders (quick tier: every pair under == and !=, the comparisons that the
    #     observation rules look at; the other operators on a random third of the pairs)
    for cname, ctx_text in QUERY_CONTEXTS:
        for ia, pa in enumerate(QUERY_OPERANDS):
            for pb in QUERY_OPERANDS[ia:]:
                for op in SYM_OPS:
                    if not ctx.thorough and op not in ("EQ", "NEQ") and r.random() > 0.34:
                        continue
                    for (p, kp), (q, kq) in ((pa, pb), (pb, pa))[:1 if pa == pb else 2]:
                        jobs.append({"cls": "qry", "op": op, "a": p, "b": q, "ka": kp, "kb": kq, "ctx": cname,
                                     "text": ctx_text % ("(%s) %s (%s)" % (p, OP_TEXT[op], q))})
    # (8) the comparisons as observation and as goal of `{..} control:`, operands without a comparison of their own: the verdict of
    #     the library against the regenerated rules obsInvalid / obsDifference (the operand types come from the `bin` job of the pair)
    atoms = [o for o, k in QUERY_OPERANDS if k != "GUARD"]
    for op in OBS_OPS:
        for a in atoms:
            for b_ in atoms:
                jobs.append({"cls": "bin", "op": op, "a": a, "b": b_, "scope": "-"})
                for cname in OBS_CONTEXTS:
                    jobs.append({"cls": "obs", "op": op, "a": a, "b": b_, "ctx": cname,
                                 "text": dict(QUERY_CONTEXTS)[cname] % ("(%s) %s (%s)" % (a, OP_TEXT[op], b_))})
    for jb in jobs:
        if jb["cls"] == "bin":
            jb["line"] = "X %s (%s) %s (%s)" % (jb["scope"], jb["a"], OP_TEXT[jb["op"]], jb["b"])
        elif jb["cls"] in ("qry", "obs"):
            jb["line"] = "Y - " + jb["text"]
        elif jb["cls"] == "iif":
            jb["line"] = "X %s %s(%s) ? (%s) : (%s)" % (jb["scope"], "!" if jb["neg"] else "", jb["c"], jb["a"], jb["b"])
        elif jb["cls"] == "call":
            jb["line"] = "X %s %s(%s)" % (jb["scope"], jb["f"], jb["a"])
        elif jb["cls"] == "eqv":
            jb["line"] = "Q %s %s ## %s %s" % (jb["sa"], jb["a"], jb["sb"], jb["b"])
        else:
            jb["line"] = "X %s %s" % (jb["scope"], jb["text"])
    return jobs


def run_harness(ctx, build, jobs, decls):
    exe = core.build_harness(build, "c14", ["c14.cpp"])
    d = os.path.join(core.CACHE, "c14-work")
    os.makedirs(d, exist_ok=True)
    path = os.path.join(d, "decl-%d.xta" % os.getpid())
    open(path, "w").write(decls)
    try:
        rc, out, err, dt = core.run_exe(exe, [path], stdin_text="\n".join(j["line"] for j in jobs) + "\n", timeout=1500)
    finally:
        os.remove(path)
    lines = out.split("\n")
    if rc != 0 or not lines or lines[0] != "READY" or len(lines) < len(jobs) + 1:
        return None, {"rc": rc, "stdout": out[:3000], "stderr": err[-3000:], "answered": len(lines) - 1, "asked": len(jobs)}
    for j, l in zip(jobs, lines[1:]):
        j["impl"] = l
    return dt, None


def model_line(jb, wire):
    """the request for drv_c14 that corresponds to the harness' answer (operand types come from the harness dump)"""
    cls = jb["cls"]
    if cls == "eqv":
        m = re.match(r"^e=(\d+) a=(.*?) b=(\(.*)$", jb["impl"])
        if not m:
            return None
        jb["impl_bits"] = m.group(1)
        jb["ta"], jb["tb"] = m.group(2), m.group(3)
        return "eqv %s | %s" % (wire.text(m.group(2)), wire.text(m.group(3)))
    x = parse_x(jb["impl"])
    jb["x"] = x
    if x is None:
        return None
    kids = x["kids"]
    if cls == "bin":
        if x["kind"] != jb["op"] or len(kids) != 2:
            raise Unmodelled("expression %r parsed as %s" % (jb["line"], x["kind"]))
        return "bin %s %s | %s" % (jb["op"], wire.text(kids[0]), wire.text(kids[1]))
    if cls == "iif":
        if x["kind"] != "INLINE_IF":
            raise Unmodelled("expression %r parsed as %s" % (jb["line"], x["kind"]))
        return "iif %s | %s | %s" % tuple(wire.text(k) for k in kids)
    if cls == "call":
        if x["kind"] != "FUN_CALL" or len(kids) != 2:
            raise Unmodelled("expression %r parsed as %s" % (jb["line"], x["kind"]))
        ps = function_params(read_sexp(kids[0]))
        return "call %s | %s | %s" % (wire.ty(ps[0]), wire.text(kids[1]), x["lv"][1])
    if cls == "un":
        if x["kind"] != jb["op"]:
            raise Unmodelled("expression %r parsed as %s" % (jb["line"], x["kind"]))
        return "un %s %s" % (jb["op"], wire.text(kids[0]))
    if cls == "q":
        if x["kind"] != jb["op"]:
            raise Unmodelled("expression %r parsed as %s" % (jb["line"], x["kind"]))
        return "q %s %s" % (jb["op"], wire.text(kids[1]))
    raise Unmodelled(cls)


def impl_answer(jb, wire):
    """the harness' verdict in the driver's vocabulary"""
    if jb["cls"] == "eqv":
        return jb["impl_bits"]
    x = jb["x"]
    if jb["cls"] == "call":
        return ("ok" if x["ok"] else "rej") + " pe=" + str(x["pe"])
    if not x["ok"]:
        return "rej"
    return "ok " + wire.text(x["root"])


def correspond(ctx, jobs, wire):
    """fills jb['model']; returns (cases, distinct model requests, disagreements, skipped)"""
    reqs = {}
    skipped = []
    for jb in jobs:
        if jb["cls"] == "qry":
            jb["req"] = None    # queries are judged by the oracle only (query_answers)
            continue
        if jb["cls"] == "obs":
            jb["req"] = None    # needs the operand types of its `bin` twin: second pass below
            continue
        if jb["impl"].startswith("noparse") or jb["impl"] == "bad-op":
            jb["req"] = None
            skipped.append(jb)
            continue
        try:
            jb["req"] = model_line(jb, wire)
        except Unmodelled as ex:
            jb["req"] = None
            jb["unmodelled"] = str(ex)
            skipped.append(jb)
            continue
        if jb["req"] is None:
            skipped.append(jb)
            continue
        reqs.setdefault(jb["req"], None)
    twins = {(jb["op"], jb["a"], jb["b"]): jb for jb in jobs if jb["cls"] == "bin" and jb.get("x") and jb.get("scope") == "-"}
    for jb in jobs:
        if jb["cls"] != "obs":
            continue
        tw = twins.get((jb["op"], jb["a"], jb["b"]))
        try:
            if tw is not None and len(tw["x"]["kids"]) == 2 and "impl_ans" in jb:
                jb["req"] = "obs %s %s | %s" % (jb["op"], wire.text(tw["x"]["kids"][0]), wire.text(tw["x"]["kids"][1]))
                reqs.setdefault(jb["req"], None)
        except Unmodelled as ex:
            jb["unmodelled"] = str(ex)
            skipped.append(jb)
    keys = list(reqs)
    rc, out, err, dt = core.run_exe(core.lean_exe("drv_c14"), [], stdin_text="\n".join(keys) + "\n", timeout=1500)
    lines = out.split("\n")
    if rc != 0 or len(lines) < len(keys):
        raise RuntimeError("drv_c14 failed rc=%s answered %d of %d: %s" % (rc, len(lines), len(keys), err[-500:]))
    for k, l in zip(keys, lines):
        reqs[k] = l
    dis = []
    n = 0
    for jb in jobs:
        if jb.get("req") is None:
            continue
        n += 1
        jb["model"] = reqs[jb["req"]]
        if jb["cls"] == "obs":
            if jb["model"] != jb["impl_ans"].split()[0]:
                dis.append(jb)
            continue
        try:
            jb["impl_ans"] = impl_answer(jb, wire)
        except Unmodelled as ex:
            jb["impl_ans"] = "unmodelled-result " + str(ex)
        if jb["model"] != jb["impl_ans"]:
            dis.append(jb)
    return n, len(keys), dis, skipped


Y_RE = re.compile(r'^q ok=(\d) nprop=(\d+) nerr=(\d+) exc="(.*?)" msgs=(.*)$')


def query_answers(jobs):
    """the library's verdict on every query job: accepted, or rejected with its diagnostics / the exception it ended in"""
    bad = []
    for jb in jobs:
        if jb["cls"] not in ("qry", "obs"):
            continue
        m = Y_RE.match(jb["impl"])
        if not m:
            bad.append(jb)
            continue
        jb["impl_ans"] = "ok" if m.group(1) == "1" else "rej " + (m.group(4) or m.group(5))
    return bad


# ------------------------------------------------------------------------------------------------ the property, on verdicts
def verdict(ans):
    """(accepted, terminal kind of the result) from an answer in the driver's vocabulary"""
    if not ans.startswith("ok"):
        return (False, None)
    toks = ans.split()[1:]
    # terminal kind of a Polish type: skip wrappers
    i = 0
    while i < len(toks):
        t = toks[i]
        if t == "P":
            return (True, toks[i + 1])
        if t == "X":
            i += 2
        elif t == "F":
            i += 1
        elif t == "L":
            i += 2
        elif t == "G":
            i += 3
        elif t == "A":
            return (True, "ARRAY")
        elif t == "S":
            return (True, "RECORD")
        else:
            break
    return (True, "?")


def oracle(jobs, field):
    """Evaluates C14 on the answers stored under `field` ('impl_ans' = real library, 'model' = Lean model).
    Returns {finding key: (what, witness dict)}."""
    out = {}
    table = {}
    for jb in jobs:
        if field in jb:
            table[jb["line"]] = jb
    seen = {}
    for jb in jobs:
        if field not in jb:
            continue
        if jb["cls"] == "bin" and jb["op"] in SYM_OPS:
            seen[("bin", jb["op"], jb["a"], jb["b"])] = jb
        elif jb["cls"] == "iif" and jb["c"] in ("b", "i"):
            seen[("iif", jb["c"], jb["neg"], jb["a"], jb["b"])] = jb
        elif jb["cls"] == "qry":
            seen[("qry", jb["ctx"], jb["op"], jb["a"], jb["b"])] = jb
    for key, jb in seen.items():
        if key[0] == "bin":
            other = seen.get(("bin", key[1], key[3], key[2]))
            if other is None:
                continue
            v1, v2 = verdict(jb[field]), verdict(other[field])
            if v1 != v2:
                k1, k2 = term_of_operands(jb)
                fk = "bin:%s:%s/%s" % (key[1], k1, k2)
                out.setdefault(fk, ("`%s` -> %s but `%s` -> %s" % (jb["line"][2:], jb[field], other["line"][2:], other[field]),
                                    {"first": jb["line"], "second": other["line"], "answers": [jb[field], other[field]],
                                     "jobs": [jobrec(jb), jobrec(other)]}))
        elif key[0] == "qry":
            # a query is accepted with `a op b` exactly when it is accepted with `b op a`
            other = seen.get(("qry", key[1], key[2], key[4], key[3]))
            if other is None or (key[3], key[4]) > (key[4], key[3]):
                continue
            acc1, acc2 = jb[field].startswith("ok"), other[field].startswith("ok")
            if acc1 != acc2:
                fk = "query:%s:%s:%s/%s" % ((key[1], key[2]) + tuple(sorted([jb["ka"], jb["kb"]])))
                out.setdefault(fk, ("query `%s` -> %s but `%s` -> %s" % (jb["text"], jb[field], other["text"], other[field]),
                                    {"first": jb["line"], "second": other["line"], "answers": [jb[field], other[field]],
                                     "jobs": [jobrec(jb), jobrec(other)]}))
        else:
            if key[2]:
                continue
            other = seen.get(("iif", key[1], True, key[4], key[3]))
            if other is None:
                continue
            v1, v2 = verdict(jb[field]), verdict(other[field])
            if v1 != v2:
                k1, k2 = term_of_operands(jb)
                if v1[0] != v2[0]:
                    if (k1 == "RECORD") != (k2 == "RECORD"):
                        fk = "inlineif-accept:RECORD/non-record"
                    elif (k1 == "CLOCK") != (k2 == "CLOCK"):
                        fk = "inlineif-accept:CLOCK/non-clock"
                    else:
                        fk = "inlineif-accept:%s/%s" % tuple(sorted([coarse(k1), coarse(k2)]))
                else:
                    fk = "inlineif-kind:%s/%s" % tuple(sorted([str(v1[1]), str(v2[1])]))
                out.setdefault(fk, ("`%s` -> %s but `%s` -> %s" % (jb["line"][2:], jb[field], other["line"][2:], other[field]),
                                    {"first": jb["line"], "second": other["line"], "answers": [jb[field], other[field]],
                                     "jobs": [jobrec(jb), jobrec(other)]}))
    # reference parameters: all eight wrapper placements of areEquivalent agree, and a modifiable lvalue is accepted for a
    # (const) reference parameter exactly when the two types are equivalent
    eq = {}
    for jb in jobs:
        if jb["cls"] == "eqv" and field in jb:
            bits = jb[field]
            eq[(jb["a"], jb["b"])] = bits
            if len(set(bits)) != 1:
                ka, kb = term_kind(read_sexp(jb["ta"])), term_kind(read_sexp(jb["tb"]))
                names = ["E(A,B)", "E(B,A)", "E(&A,B)", "E(A,&B)", "E(const A,B)", "E(A,const B)", "E(&A,&B)", "E(B,&A)"]
                diff = [names[i] for i in range(8) if bits[i] != bits[0]]
                fk = "equiv-wrapper:%s/%s" % tuple(sorted([ka, kb]))
                out.setdefault(fk, ("areEquivalent depends on where the REF/CONSTANT wrapper sits: A=`%s` B=`%s` bits %s (%s differ from E(A,B))"
                                    % (jb["a"], jb["b"], bits, ",".join(diff)),
                                    {"op": jb["line"], "answer": bits, "order": names, "jobs": [jobrec(jb)]}))
    for jb in jobs:
        if jb["cls"] != "call" or field not in jb or jb["param"] in CHANNEL_PARAMS:
            continue
        x = jb.get("x")
        m = re.match(r"^(ok|rej) pe=(\d{4})$", jb[field])
        if not x or not m or len(x["lv"]) < 2 or x["lv"][1] != "1":
            continue    # only modifiable lvalue arguments: the reference binds directly
        ak = term_kind(read_sexp(x["kids"][1]))
        if ak == "CHANNEL":
            continue
        acc, bits = m.group(1) == "ok", m.group(2)
        if len(set(bits)) != 1:
            out.setdefault("refparam-equiv:%s" % ak,
                           ("for `%s`: areEquivalent(arg,param) areEquivalent(param,arg) areEquivalent(arg,param without & / const) "
                            "areEquivalent(param without & / const,arg) = %s" % (jb["line"][2:], bits),
                            {"op": jb["line"], "answer": jb[field], "jobs": [jobrec(jb)]}))
        elif acc != (bits[0] == "1"):
            out.setdefault("refparam:%s" % ak, ("`%s` is %s although areEquivalent of the two types is %s whichever side carries the wrapper"
                                                % (jb["line"][2:], "accepted" if acc else "rejected", bits[0]),
                                                {"op": jb["line"], "answer": jb[field], "jobs": [jobrec(jb)]}))
    # the same question against the types AS DECLARED in the document text (written down here, not read from the library): an integer
    # variable is accepted for an integer reference parameter exactly when the two declared ranges coincide -- whatever else the
    # declaration carries (`meta`, a typedef name, a template parameter)
    for jb in jobs:
        if jb["cls"] != "call" or field not in jb or jb["a"] not in DECLARED_INT or jb["param"] not in PARAM_INT:
            continue
        m = re.match(r"^(ok|rej)", jb[field])
        if not m:
            continue
        acc, want = m.group(1) == "ok", DECLARED_INT[jb["a"]] == PARAM_INT[jb["param"]]
        if jb["f"] == "g_int":
            want = True      # `const int &p`: a constant integer without a range takes any integer (the library's reading; same for `const int p`)
        if acc != want:
            out.setdefault("refparam-declared:%s/%s" % (jb["param"], jb["a"]),
                           ("`%s` is %s although the argument is declared %s and the parameter %s" % (
                               jb["line"][2:], "accepted" if acc else "rejected", DECLARED_INT[jb["a"]], PARAM_INT[jb["param"]]),
                            {"op": jb["line"], "answer": jb[field], "jobs": [jobrec(jb)]}))
    return out


FULL = "int[-32768,32767]"
DECLARED_INT = {"i": FULL, "j": FULL, "mi": FULL, "pri": FULL, "li": FULL, "bi": "int[0,3]", "bi2": "int[0,3]", "ti": "int[0,3]",
                "prbi": "int[0,3]", "bj": "int[1,5]"}
PARAM_INT = {"int": FULL, "bi": "int[0,3]", "ti": "int[0,3]", "bj": "int[1,5]"}
# the spelled family: a bound is the expression as written, so the declared types coincide exactly when their texts do
DECLARED_INT.update({v: t for v, t in SPELLED if t})
PARAM_INT.update({v: t for v, t in SPELLED if t})


# which oracle findings are the failing inputs of which broken lemma / theorem (by name prefix)
EXPLAINS = {"body_W": ["equiv-wrapper", "refparam", "bin:EQ", "bin:NEQ"], "sst": ["equiv-wrapper", "refparam", "bin:EQ", "bin:NEQ"],
            "ae": ["equiv-wrapper", "refparam", "bin:EQ", "bin:NEQ"], "is_ref": ["equiv-wrapper", "refparam"], "is_const": ["equiv-wrapper", "refparam"],
            "isSameScalarType_symm": ["equiv-wrapper", "refparam", "bin:EQ", "bin:NEQ"],
            "areEquivalent": ["equiv-wrapper", "refparam", "bin:EQ", "bin:NEQ"], "areEqCompatible": ["bin:EQ", "bin:NEQ"],
            "typeBin_EQ": ["bin:EQ"], "typeBin_NEQ": ["bin:NEQ"], "typeBin": ["bin:"], "iif_core": ["inlineif"], "inlineIf": ["inlineif"],
            "AC_term": ["inlineif"], "refParam": ["refparam"], "kindExceptions": ["inlineif-kind"],
            "obsRejected": ["query:po-"], "observation_verdict": ["query:po-"]}

COARSE = {"INT": "integral", "BOOL": "integral", "CLOCK": "clock", "DIFF": "number", "DOUBLE": "number", "INVARIANT": "constraint",
          "INVARIANT_WR": "constraint", "GUARD": "constraint", "CONSTRAINT": "constraint", "RATE": "constraint"}


def coarse(k):
    return COARSE.get(k, k)


def jobrec(jb):
    return {k: jb[k] for k in ("cls", "op", "a", "b", "c", "neg", "scope", "f", "param", "sa", "sb", "line", "text", "ctx", "ka", "kb") if k in jb}


def term_of_operands(jb):
    x = jb.get("x")
    ks = x["kids"] if x else []
    if jb["cls"] == "iif":
        ks = ks[1:]
    try:
        return tuple(term_kind(read_sexp(k)) for k in ks[:2])
    except Exception:  # noqa
        return ("?", "?")


# ------------------------------------------------------------------------------------------------ the check
def translate_step(ctx):
    try:
        text, info = typeclauses.translate(core.REPO, core.VERIF)
    except typeclauses.TranslateError as ex:
        return None, str(ex)
    core.write_if_changed(GEN, text)
    return info, None


def run(ctx):
    cov = ctx.coverage
    info, terr = translate_step(ctx)
    build = core.build_repo(os.environ.get("C14_VARIANT", "plain"))
    tie_ok = info is not None
    proof_ok = False
    broken = []
    log = ""
    if tie_ok:
        cov["translated"] = {k: info[k] for k in ("functions", "type_predicates", "helpers", "bin_ops", "un_ops", "q_ops",
                                                 "unmodelled_kinds", "ignored")}
        proof_ok, log = ctx.prove(MODULE, ["drv_c14"])
        if not proof_ok:
            broken = core.failing_theorems(log)
            ctx.log("proof broken:", [(b[1], b[2][:80]) for b in broken] or log[-1500:])
    else:
        ctx.log("translator failed:", terr)
        cov.update({"obligations": len(core.theorems_of(MODULE)), "discharged": 0, "checker_cmd": "n/a (translation failed)",
                    "trusted_base": core.TRUSTED_BASE})
    # ---- implementation side
    jobs = gen_jobs(ctx)
    decls = declarations()
    dt, herr = run_harness(ctx, build, jobs, decls)
    if herr is not None:
        ctx.finding("impl:harness", "the type-checker harness died or rejected the generated declarations (rc=%s)" % herr["rc"],
                    dict(herr, declarations=decls))
        return
    ctx.log("harness answered %d ops in %.1fs" % (len(jobs), dt))
    badq = query_answers(jobs)
    if badq:
        ctx.finding("unproved:harness-protocol", "%d query ops were not answered in the expected form, first: %s -> %s" % (
            len(badq), badq[0]["line"], badq[0]["impl"]), {"cases": [(b["line"], b["impl"]) for b in badq[:20]]}, no_input=True)
    wire = Wire(typeclauses.tk_names(core.VERIF))
    have_model = tie_ok and os.path.exists(core.lean_exe("drv_c14"))
    if have_model and not proof_ok:
        ok2, _ = core.lake_build(["drv_c14"])
        have_model = ok2
    dis, skipped, ncases, nreq = [], [], 0, 0
    if have_model:
        ncases, nreq, dis, skipped = correspond(ctx, jobs, wire)
        ctx.log("correspondence: %d cases (%d distinct model requests), %d disagreements, %d not compared" % (ncases, nreq, len(dis), len(skipped)))
    else:
        # still need the verdicts in the driver's vocabulary for the oracle
        for jb in jobs:
            try:
                if model_line(jb, wire) is not None:
                    jb["impl_ans"] = impl_answer(jb, wire)
            except Unmodelled:
                pass
    # ---- an inline-if where a modifiable reference is required: swapping the branches (with the condition negated) must not matter ----
    LV = {"int": ["i", "j", "ci", "pci", "pri"], "bool": ["b", "b2", "cb"], "double": ["d", "d2", "cd"], "Rc": ["r", "r2", "cr", "pcrr", "prr"],
          "arr": ["arr", "arr2", "carr3", "pra"], "bi": ["bi", "bi2"], "S": ["s", "s2", "pcs", "prs"]}
    ljobs = []
    for fn, ops_ in LV.items():
        for a in ops_:
            for b_ in ops_:
                sc = "P" if (a.startswith("p") or b_.startswith("p")) else "-"
                ljobs.append({"cls": "lviif", "f": fn, "a": a, "b": b_, "neg": False, "line": "X %s f_%s((b) ? (%s) : (%s))" % (sc, fn, a, b_)})
                ljobs.append({"cls": "lviif", "f": fn, "a": a, "b": b_, "neg": True, "line": "X %s f_%s(!(b) ? (%s) : (%s))" % (sc, fn, b_, a)})
    dtl, lerr = run_harness(ctx, build, ljobs, decls)
    nlv = 0
    if lerr is None:
        for k in range(0, len(ljobs), 2):
            j1, j2 = ljobs[k], ljobs[k + 1]
            x1, x2 = parse_x(j1["impl"]), parse_x(j2["impl"])
            if x1 is None or x2 is None:
                continue
            nlv += 1
            if x1["ok"] != x2["ok"]:
                ctx.finding("inlineif-lvalue:%s" % j1["f"], "`%s` -> %s but `%s` -> %s" % (j1["line"][4:], "accepted" if x1["ok"] else "rejected (%s)" % x1["msgs"],
                                                                                           j2["line"][4:], "accepted" if x2["ok"] else "rejected (%s)" % x2["msgs"]),
                            {"declarations": decls, "first": j1["line"], "second": j2["line"], "answers": [j1["impl"], j2["impl"]]})
    cov["inlineif_as_reference_argument_pairs"] = nlv
    # ---- a sample of the same questions under ASan+UBSan: same answers, no sanitizer report
    if not os.environ.get("C14_NO_ASAN"):
        sample = [dict(cls=j["cls"], line=j["line"]) for j in ctx.rng.sample(jobs, min(len(jobs), 3000 if not ctx.thorough else 20000))]
        ref = {j["line"]: j["impl"] for j in jobs}
        abuild = core.build_repo("asan")
        dta, aerr = run_harness(ctx, abuild, sample, decls)
        if aerr is not None:
            ctx.finding("impl:sanitizer", "the harness died under ASan/UBSan (rc=%s)" % aerr["rc"], dict(aerr, declarations=decls))
        else:
            diff = [j for j in sample if j["impl"] != ref[j["line"]]]
            cov["asan_sample"] = {"ops": len(sample), "different_answers": len(diff), "seconds": round(dta, 1)}
            if diff:
                ctx.finding("impl:sanitizer-build-differs", "ASan build answers differently: %s" % diff[0]["line"],
                            {"op": diff[0]["line"], "asan": diff[0]["impl"], "plain": ref[diff[0]["line"]], "declarations": decls})
    if have_model:
        rc, out, err, _ = core.run_exe(core.lean_exe("drv_c14"), [], stdin_text="exceptions\n")
        cov["exceptions"] = out.strip().split()
    # ---- the property on the implementation's verdicts
    found = oracle(jobs, "impl_ans")
    model_found = oracle(jobs, "model") if have_model else {}
    for fk, (what, wit) in sorted(found.items()):
        wit = dict(wit, declarations=decls, how="harness/c14.cpp <declarations> with the op lines on stdin (real TypeChecker)",
                   lean_model_shows_the_same=(fk in model_found))
        ctx.finding(fk, what, wit)
    cov["oracle_findings_impl"] = sorted(found)
    cov["oracle_findings_model"] = sorted(model_found)
    # ---- classify
    new_keys = [v[0] for v in ctx.violations]
    if not tie_ok:
        if not new_keys:
            ctx.proof_broken("translate/typeclauses.py", terr, "symmetry oracle on %d verdicts of the implementation: no failure" % len(jobs))
    elif not proof_ok:
        explained, unexplained = [], []
        for path, thm, msg in (broken or [("?", "lake build", log[-400:])]):
            fams = [f for pat, fs in EXPLAINS.items() if thm.startswith(pat) for f in fs]
            hit = [k for k in new_keys if (any(k.startswith(f) for f in fams) if fams else True)]
            (explained if hit else unexplained).append((thm, msg, hit[:3]))
        cov["broken_theorems"] = [{"theorem": t, "error": m[:200], "failing_inputs": h} for t, m, h in explained + unexplained]
        for thm, msg, _ in unexplained:
            ctx.proof_broken(thm, msg + "\n" + log[-2500:], "symmetry oracle on %d verdicts of the implementation: no matching failure" % len(jobs))
    if dis:
        # a disagreement between the regenerated model and the library: the tie is broken
        first = dis[0]
        what = "model and TypeChecker disagree on %d of %d cases, first: `%s` impl=%s model=%s" % (
            len(dis), ncases, first["line"], first.get("impl_ans"), first.get("model"))
        ctx.finding("unproved:correspondence:typeclauses", what,
                    {"theorem_or_correspondence": "correspondence drv_c14 vs harness/c14.cpp",
                     "cases": [{"op": d["line"], "request": d["req"], "impl": d.get("impl_ans"), "model": d.get("model")} for d in dis[:20]],
                     "declarations": decls}, no_input=not found)
    unm = [s for s in skipped if "unmodelled" in s]
    bad = [s for s in skipped if "unmodelled" not in s]
    if bad and have_model:
        ctx.finding("unproved:harness-protocol", "%d generated expressions were not parsed by the library, first: %s -> %s" % (
            len(bad), bad[0]["line"], bad[0]["impl"]), {"cases": [(b["line"], b["impl"]) for b in bad[:20]]}, no_input=True)
    # ---- evidence
    by_cls = {}
    acc = 0
    kinds_hit = set()
    for jb in jobs:
        by_cls[jb["cls"]] = by_cls.get(jb["cls"], 0) + 1
        if not jb.get("impl_ans", "rej").startswith("rej"):
            acc += 1
        x = jb.get("x")
        if x:
            for k in x["kids"]:
                try:
                    kinds_hit.add(term_kind(read_sexp(k)))
                except Exception:  # noqa
                    pass
    cov["evaluations"] = len(jobs)
    cov["correspondence_cases"] = ncases
    cov["distinct_nontrivial"] = nreq
    cov["correspondence_disagreements"] = len(dis)
    cov["not_compared_unmodelled_types"] = len(unm)
    cov["distribution"] = {"by_class": by_cls, "accepted_by_impl": acc, "rejected_by_impl": len(jobs) - acc,
                           "operand_terminal_kinds_hit": sorted(kinds_hit), "pool_size": len(POOL), "ref_param_functions": len(REFPARAMS)}
    cov["rule"] = ("exhaustive: every ordered pair of the %s pool x %d binary operators, inline-if with condition `b` (both orders, "
                   "negated condition), every reference-parameter function x every pool operand; random pairs beyond"
                   % ("full" if ctx.thorough else "core", len([o for o in OP_TEXT if OP_TEXT[o]])))
    smp = [jobs[0], jobs[len(jobs) // 3], jobs[2 * len(jobs) // 3], jobs[-1]]
    cov["samples"] = [{"op": s["line"], "impl": s.get("impl_ans"), "model": s.get("model")} for s in smp]
    ctx.assumptions += [
        "operands are side-effect free (changes_any_variable() of an operand is modelled as false)",
        "range bounds and labels are compared by identity of the dumped expression / name (expression_t::equal is assumed to be an "
        "equivalence relation; that is property C19)",
        "channel parameters are matched by capability order (urgent < broadcast < plain), clause 2 of isParameterCompatible, by design; "
        "the 'accepted exactly when equivalent' oracle is applied to non-channel reference parameters with modifiable lvalue arguments",
        "asserts are compiled out (RelWithDebInfo = -DNDEBUG); type_t accessors applied outside their precondition return the unknown type in the model",
    ]


def replay(ctx, path):
    """re-runs the recorded expressions on the library built from the current tree and re-evaluates the property on them:
    exit 1 if the violation is still there, 0 if it is gone"""
    rep = json.load(open(path))
    print(json.dumps({k: rep[k] for k in ("property", "key", "what")}, indent=1))
    r = rep.get("replay", {})
    if "jobs" not in r or "declarations" not in r:
        print("no concrete input in this replay (proof / tie break): re-running the check")
        run(ctx)
        return ctx.finish()
    build = core.build_repo(os.environ.get("C14_VARIANT", "plain"))
    jobs = [dict(j) for j in r["jobs"]]
    dt, herr = run_harness(ctx, build, jobs, r["declarations"])
    if herr:
        print(herr)
        return 1
    wire = Wire(typeclauses.tk_names(core.VERIF))
    query_answers(jobs)
    for jb in jobs:
        print(jb["line"], "\n   ->", jb["impl"])
        if jb["cls"] == "qry":
            continue
        try:
            if model_line(jb, wire) is not None:
                jb["impl_ans"] = impl_answer(jb, wire)
        except Unmodelled as ex:
            print("   (type outside the wire format: %s)" % ex)
    found = oracle(jobs, "impl_ans")
    for k, (what, _) in found.items():
        print("STILL VIOLATED", k, ":", what)
    if not found:
        print("the recorded expressions no longer violate the property")
    return 1 if found else 0
