#include "utap/utap.h"
#include "utap/property.h"
#include <iostream>
#include <fstream>
#include <sstream>
using namespace UTAP;
int main(int c,char**v){ std::ifstream f(v[1]); std::stringstream ss; ss<<f.rdbuf(); Document doc; int r=parse_XML_buffer(ss.str().c_str(),&doc,true); std::cout<<"rc="<<r<<" errors="<<doc.get_errors().size()<<"\n";
 int bad=0;
 for(int i=0;i<30;i++){ TigaPropertyBuilder pb(doc); std::string q="E<> R"+std::to_string(i)+".x >= 0"; parseProperty(q.c_str(), &pb);
   if(pb.getProperties().empty()){std::cout<<"no prop "<<q<<"\n"; continue;}
   auto e=pb.getProperties().front().intermediate; // E<> (GE (DOT ..) 0)
   auto dot=e[0][0]; std::string t=dot.get_type().str(); std::string want="\""+std::to_string(i%9+1)+"\""; if(t.find(want)==std::string::npos){bad++; std::cout<<q<<" : "<<t<<"\n";} }
 std::cout<<bad<<" of 30 unsubstituted\n"; return bad?1:0; }
