/- Line-protocol driver for the expression grammar model (C02; also used by C03).
   Commands (one per line, tab separated):
     T <sexp>     surface tree → "<wf>\t<min text>\t<full text>\t<kind tree>\t<parse(min)>\t<parse(full)>"
     P <text>     lex + parse with the generated table → kind tree | REJECT
     S <text>     lex + parse with the hand-written reference table → kind tree | REJECT
     L <digits>   the integer-literal rule → nat n | posNegMax | overflow
     C <text>     lex + parse as a comma list (`ExprList`) with the generated table and the generated recursion → kind tree | REJECT
     D <text>     the same with the reference table and the reference associativity of the comma
-/
import UtapModel.Model.Sexp
import UtapModel.Model.ExprTable
import UtapModel.Model.ExprList
import UtapModel.Spec.OperatorTable
open UtapModel UtapModel.Pratt UtapModel.ExprTable UtapModel.ExprGrammar

def tokOfName (n : String) : Nat := tokId n

def fnOfName (n : String) : Nat := (fnProds.findIdx? (fun x => x.1 == n)).getD 9999

partial def toExpr : Sexp → Option Expr
  | .atom "true" => some (.atom .tru)
  | .atom "false" => some (.atom .fls)
  | .list [.atom "nat", .atom n] => n.toNat?.map (fun k => .atom (.nat k))
  | .list [.atom "intmin"] => some (.atom .intMin)
  | .list [.atom "dbl", .atom s] => some (.atom (.dbl s))
  | .list [.atom "str", .atom s] => some (.atom (.str s))
  | .list [.atom "id", .atom s] => some (.atom (.ident s))
  | .list [.atom "pre", .atom t, e] => (toExpr e).map (.pre (tokOfName t))
  | .list [.atom "post", .atom t, e] => (toExpr e).map (.post (tokOfName t))
  | .list [.atom "bin", .atom t, l, r] => do let a ← toExpr l; let b ← toExpr r; pure (.bin (tokOfName t) a b)
  | .list [.atom "quant", .atom t, .atom id, .atom ty, e] => (toExpr e).map (.quant (tokOfName t) id ty)
  | .list [.atom "dot", .atom n, e] => (toExpr e).map (.dot n)
  | .list [.atom "dotloc", e] => (toExpr e).map .dotLoc
  | .list [.atom "tern", c, a, b] => do let x ← toExpr c; let y ← toExpr a; let z ← toExpr b; pure (.tern x y z)
  | .list [.atom "index", a, i] => do let x ← toExpr a; let y ← toExpr i; pure (.index x y)
  | .list [.atom "fn", .atom n, a] => (toExpr a).map (.fn1 (fnOfName n))
  | .list [.atom "fn", .atom n, a, b] => do let x ← toExpr a; let y ← toExpr b; pure (.fn2 (fnOfName n) x y)
  | .list [.atom "fn", .atom n, a, b, c] => do
      let x ← toExpr a; let y ← toExpr b; let z ← toExpr c; pure (.fn3 (fnOfName n) x y z)
  | .list (.atom "call" :: f :: args) => do
      let g ← toExpr f
      let as ← args.mapM toExpr
      pure (.call g (as.foldr .acons .anil))
  | _ => none

def parseWith (D : Data) (text : String) : String :=
  match lexExpr text with
  | none => "REJECT"
  | some ts =>
    match parseTop D.tbl ts with
    | some e => (toK D e).str
    | none => "REJECT"

/-- the `kind_t` tree of a comma list: `expr_comma()` builds COMMA(l, r) -/
partial def listK (D : Data) : CTree → KTree
  | .one e => toK D e
  | .comma l r => .node "COMMA" [] [listK D l, listK D r]

def parseListWith (D : Data) (leftRec : Bool) (text : String) : String :=
  match lexExpr text with
  | none => "REJECT"
  | some ts =>
    match parseList D.tbl leftRec ts with
    | some t => (listK D t).str
    | none => "REJECT"

def stepLine (line : String) : String :=
  let line := String.ofList (line.toList.reverse.dropWhile (fun c => c == '\n' || c == '\r')).reverse
  match line.splitOn "\t" with
  | ["T", s] =>
    match Sexp.parse s with
    | none => "bad-sexp"
    | some sx =>
      match toExpr sx with
      | none => "bad-tree"
      | some e =>
        let w := wf utapT mt false e
        let tmin := toksText (render utapT mt false 0 e)
        let tfull := toksText (render utapT mt true 0 e)
        "\t".intercalate [toString w, tmin, tfull, (toK genData e).str, parseWith genData tmin, parseWith genData tfull]
  | ["P", text] => parseWith genData text
  | ["S", text] => parseWith UtapModel.Spec.specData text
  | ["C", text] => parseListWith genData exprListLeftRec text
  | ["D", text] => parseListWith UtapModel.Spec.specData UtapModel.Spec.commaLeftAssoc text
  | ["L", ds] =>
    match lexNum ds.toList with
    | .nat n => "nat " ++ toString n
    | .posNegMax => "posNegMax"
    | .overflow => "overflow"
  | _ => "bad-op"

partial def loop (h : IO.FS.Stream) (out : IO.FS.Stream) : IO Unit := do
  let line ← h.getLine
  if line.isEmpty then return ()
  out.putStrLn (stepLine line)
  loop h out

def main : IO Unit := do
  let out ← IO.getStdout
  loop (← IO.getStdin) out
