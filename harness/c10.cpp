// C10 harness: formulas placed as location invariants and edge guards of real XML models, through the public entry
// point parse_XML_file (XML reader -> parser -> DocumentBuilder -> TypeChecker).
//   c10            one model path per stdin line; for every model a block
//     BEGIN <path> rc=<rc>
//     L <index> inv=<type of location.invariant after checking>
//     E <index> guard=<type of edge.guard after checking>
//     ERROR "<msg>" path="<xpath>" <line:col>-<line:col>          (canonical diagnostics, common.hpp)
//     WARNING ...
//     END
#include "common.hpp"

using namespace vh;

int main()
{
    std::ios::sync_with_stdio(false);
    std::string path;
    while (std::getline(std::cin, path)) {
        if (path.empty()) continue;
        Document doc;
        int rc = -99;
        std::string exc;
        try {
            rc = parse_XML_file(path.c_str(), &doc, true);
        } catch (std::exception& ex) {
            exc = ex.what();
        }
        std::cout << "BEGIN " << path << " rc=" << rc << "\n";
        if (!exc.empty()) std::cout << "EXCEPTION " << quote(exc) << "\n";
        // the template called P carries the formulas; it is an ordinary or a dynamic template
        auto dump = [](template_t& t) {
            for (auto& l : t.locations) std::cout << "L " << l.nr << " inv=" << tsexp(l.invariant.empty() ? type_t() : l.invariant.get_type()) << "\n";
            for (auto& e : t.edges) std::cout << "E " << e.nr << " guard=" << tsexp(e.guard.empty() ? type_t() : e.guard.get_type()) << "\n";
        };
        bool found = false;
        for (auto& t : doc.get_templates())
            if (!found && t.uid.get_name() == "P") { dump(t); found = true; }
        if (!found)
            for (auto* t : doc.get_dynamic_templates())
                if (!found && t->uid.get_name() == "P") { dump(*t); found = true; }
        dumpDiags(std::cout, doc);
        std::cout << "END" << std::endl;
    }
    return 0;
}
