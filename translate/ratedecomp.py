"""Translator for the invariant decomposition of the type checker (C04 / C16): reads `RateDecomposer` and the invariant branch of
`TypeChecker::visitLocation` from src/typechecker.cpp and writes lean/UtapModel/Gen/RateDecompCfg.lean.

`RateDecomposer::decompose` is matched against its structure with the points the model is parameterised by left open (which recursive call
passes which `inforall`, which cases record only outside a quantifier, whether the quantified case records the whole expression, whether a
cost rate is recorded, what the invariant starts from); anything else in the function is a translation failure (fail closed).  The
invariant branch of visitLocation is matched as a whole text: it is the place that stores the decomposition, unconditionally."""
import os
import re

from translate import printer


class TranslateError(Exception):
    pass


APPEND = (r"invariant=invariant\.empty\(\)\?expr:(?:invariant=)?expression_t::create_binary\(AND,invariant,expr,expr\.get_position\(\),"
          r"type_t::create_primitive\((?:INVARIANT|INVARIANT_WR)\)\);")
GUARDED = r"if\(!inforall\)\{" + APPEND + r"\}"
ARG = r"(inforall|true|false)"

DECOMPOSE = re.compile(
    r"^assert\(isInvariantWR\(expr\)\);"
    r"if\(is_invariant\(expr\)\)\{if\(expr\.get_kind\(\)==Constants::LT\)\{hasStrictInvariant=true;\}(?P<inv>" + GUARDED + "|" + APPEND + r")\}"
    r"elseif\(expr\.get_kind\(\)==AND\)\{decompose\(expr\[0\],(?P<l>inforall|true|false)\);decompose\(expr\[1\],(?P<r>inforall|true|false)\);\}"
    r"elseif\(expr\.get_kind\(\)==EQ\)\{expression_tleft,right;assert\([^;]*\);"
    r"if\(expr\[0\]\.get_type\(\)\.get_kind\(\)==RATE\)\{left=expr\[0\]\[0\];right=expr\[1\];\}else\{left=expr\[1\]\[0\];right=expr\[0\];\}"
    r"if\(isCost\(left\)\)\{costRate=right;countCostRates\+\+;(?P<cost>" + APPEND + r")?\}"
    r"else\{hasClockRates=true;(?P<rate>" + GUARDED + "|" + APPEND + r")\}\}"
    r"else\{(?:assert\([^;]*\);)*decompose\(expr\[1\],(?P<a>inforall|true|false)\);(?P<all>" + GUARDED + "|" + APPEND + r")?\}$")

VISIT = ('if(!loc.invariant.empty()){auto&inv=loc.invariant;if(checkExpression(inv)){if(!isInvariantWR(inv)){std::strings="$Expression_of_type";'
         's+=inv.get_type().str();s+="$cannot_be_used_as_an_invariant";handleError(inv,s);}elseif(inv.changes_any_variable()){'
         'handleError(inv,"$Invariant_must_be_side-effect_free");}else{RateDecomposerdecomposer;decomposer.decompose(inv);inv=decomposer.invariant;'
         'loc.cost_rate=decomposer.costRate;if(decomposer.countCostRates>1){handleError(inv,"$Only_one_cost_rate_is_allowed");}'
         'if(decomposer.hasClockRates){document.record_stop_watch();}if(decomposer.hasStrictInvariant){document.record_strict_invariant();'
         'handleWarning(inv,"$Strict_invariant");}}}}')


def squeeze(code):
    """comments and white space removed (string literals kept as they are)"""
    code = re.sub(r'"(?:[^"\\\n]|\\.)*"|/\*.*?\*/|//[^\n]*', lambda m: m.group(0) if m.group(0).startswith('"') else " ", code, flags=re.S)
    return re.sub(r"\s+", "", code)


def translate(repo="/repo"):
    src = open(os.path.join(repo, "src", "typechecker.cpp")).read()
    body = squeeze(printer.body_of(src, r"void\s+RateDecomposer::decompose\s*\(\s*expression_t\s+expr\s*,\s*bool\s+inforall\s*\)\s*\{"))
    m = DECOMPOSE.match(body)
    if not m:
        raise TranslateError("RateDecomposer::decompose is not of the shape the model is parameterised over: %r" % body[:700])

    def passes(arg, what):
        if arg == "inforall":
            return True
        if arg == "false":
            return False
        raise TranslateError("%s passes %r: not expressible in the model" % (what, arg))
    cfg = {
        "invGuarded": m.group("inv").startswith("if("),
        "rateGuarded": m.group("rate").startswith("if("),
        "andLeftPasses": passes(m.group("l"), "the left recursive call of the AND case"),
        "andRightPasses": passes(m.group("r"), "the right recursive call of the AND case"),
        "allRecordsWhole": m.group("all") is not None,
        "allGuarded": m.group("all") is not None and m.group("all").startswith("if("),
        "costNotRecorded": m.group("cost") is None,
    }
    a = m.group("a")
    if a == "true":
        cfg["allBodyInForall"] = True
    elif a == "inforall":
        cfg["allBodyInForall"] = False
    else:
        raise TranslateError("the FORALL case passes %r to the recursive call: not expressible in the model" % a)
    cls = re.search(r"class\s+RateDecomposer\s*\{(.*?)\n\};", src, re.S)
    if not cls:
        raise TranslateError("class RateDecomposer not found")
    decl = squeeze(cls.group(1))
    if "expression_tinvariant{expression_t::create_constant(1)};" in decl:
        cfg["startsWithOne"] = True
    elif "expression_tinvariant;" in decl or "expression_tinvariant{};" in decl:
        cfg["startsWithOne"] = False
    else:
        raise TranslateError("initial value of RateDecomposer::invariant not recognised: %r" % decl[:300])
    for fld, init in (("hasStrictInvariant", "false"), ("hasClockRates", "false")):
        if not re.search(r"%s\{%s\}" % (fld, init), decl):
            raise TranslateError("RateDecomposer::%s is not initialised to %s" % (fld, init))
    if not re.search(r"size_tcountCostRates\{0\}", decl):
        raise TranslateError("RateDecomposer::countCostRates is not initialised to 0")
    vis = squeeze(printer.body_of(src, r"void\s+TypeChecker::visitLocation\s*\(\s*location_t&\s*loc\s*\)\s*\{"))
    i = vis.find("if(!loc.invariant.empty())")
    j = vis.find("if(!loc.exp_rate.empty())")
    if i < 0 or j < 0 or vis[i:j] != VISIT:
        raise TranslateError("the invariant branch of TypeChecker::visitLocation is not the text the model was written from: %r" % vis[max(i, 0):j][:900])
    o = ["/- GENERATED by translate/ratedecomp.py from src/typechecker.cpp (RateDecomposer, TypeChecker::visitLocation) on every check run -- do not edit. -/",
         "import UtapModel.Model.RateDecomp", "", "namespace UtapModel.RateDecompCfg", "open UtapModel.RateDecomp", "",
         "/-- `RateDecomposer::decompose` and the initialisers of the class, as read from the source -/", "def cfg : Cfg :=",
         "  { " + ", ".join("%s := %s" % (k, "true" if cfg[k] else "false") for k in
                            ("startsWithOne", "invGuarded", "rateGuarded", "andLeftPasses", "andRightPasses", "allBodyInForall",
                             "allRecordsWhole", "allGuarded", "costNotRecorded")) + " }", "",
         "/-- the invariant branch of `TypeChecker::visitLocation` stores `decomposer.invariant` and `decomposer.costRate` of a fresh decomposer",
         "    for every well-typed, side-effect free invariant, unconditionally (whole-text match in the translator) -/",
         "def visitLocationStoresDecomposition : Bool := true", "", "end UtapModel.RateDecompCfg", ""]
    return "\n".join(o), cfg
