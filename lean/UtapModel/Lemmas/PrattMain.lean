/- The round-trip theorem of the Pratt parser model: every admissible rendering `R` of a tree parses back to it. -/
import UtapModel.Lemmas.PrattEq

namespace UtapModel.Pratt

variable (T : Tbl) (mt : Nat)

/-- `R b ctx e ts`: `ts` is an admissible rendering of `e` in a context that requires level ≥ `ctx`
(`b = false`), or of the argument list `e` (`b = true`).  Parentheses are *allowed* everywhere and *required*
exactly where the table demands them, so the minimal rendering, the fully parenthesised one and everything in
between are instances. -/
inductive R : Bool → Nat → Expr → List Tok → Prop
  | paren {ctx e ts} : R false 0 e ts → R false ctx e ([.lp] ++ ts ++ [.rp])
  | atom {ctx a} : a ≠ .intMin → R false ctx (.atom a) [.atom a]
  | intMin {ctx} : T.isPre mt = true → T.isMinus mt = true → R false ctx (.atom .intMin) [.sym mt, .posNegMax]
  | pre {ctx t x tx} : T.isPre t = true → T.prePlus t = false → ctx ≤ T.pp t →
      R false (T.mn (T.pp t)) x tx → R false ctx (.pre t x) (.sym t :: tx)
  | quant {ctx k id ty x tx} : ctx ≤ T.quantL k →
      R false (T.mn (T.quantL k)) x tx → R false ctx (.quant k id ty x) (.quant k id ty :: tx)
  | post {ctx t x tx} : T.isPost t = true → T.isBin t = false → ctx ≤ T.sp t →
      R false (T.lctx (T.sp t)) x tx → R false ctx (.post t x) (tx ++ [.sym t])
  | dot {ctx n x tx} : ctx ≤ T.topL → R false (T.lctx T.topL) x tx → R false ctx (.dot n x) (tx ++ [.dot n])
  | dotLoc {ctx x tx} : ctx ≤ T.topL → R false (T.lctx T.topL) x tx → R false ctx (.dotLoc x) (tx ++ [.dotLoc])
  | bin {ctx t l r tl tr} : T.isBin t = true → T.isImply t = false → T.isPost t = false → ctx ≤ T.bp t →
      R false (T.lctx (T.bp t)) l tl → R false (T.mn (T.bp t)) r tr → R false ctx (.bin t l r) (tl ++ [.sym t] ++ tr)
  | tern {ctx c a b tc ta tb} : ctx ≤ T.ternL →
      R false (T.lctx T.questL) c tc → R false 0 a ta → R false (T.mn T.ternL) b tb →
      R false ctx (.tern c a b) (tc ++ [.quest] ++ ta ++ [.colon] ++ tb)
  | index {ctx a i ta ti} : ctx ≤ T.topL → R false (T.lctx T.topL) a ta → R false 0 i ti →
      R false ctx (.index a i) (ta ++ [.lb] ++ ti ++ [.rb])
  | fn1 {ctx k a ta} : R false 0 a ta → R false ctx (.fn1 k a) ([.fn k 1, .lp] ++ ta ++ [.rp])
  | fn2 {ctx k a b ta tb} : R false 0 a ta → R false 0 b tb →
      R false ctx (.fn2 k a b) ([.fn k 2, .lp] ++ ta ++ [.comma] ++ tb ++ [.rp])
  | fn3 {ctx k a b c ta tb tc} : R false 0 a ta → R false 0 b tb → R false 0 c tc →
      R false ctx (.fn3 k a b c) ([.fn k 3, .lp] ++ ta ++ [.comma] ++ tb ++ [.comma] ++ tc ++ [.rp])
  | call {ctx f args tf ta} : ctx ≤ T.topL → R false (T.lctx T.topL) f tf → R true 0 args ta →
      R false ctx (.call f args) (tf ++ [.lp] ++ ta ++ [.rp])
  | anil : R true 0 .anil []
  | aone {x tx} : R false 0 x tx → R true 0 (.acons x .anil) tx
  | acons {x rest tx tr} : R false 0 x tx → R true 0 rest tr → rest ≠ .anil →
      R true 0 (.acons x rest) (tx ++ [.comma] ++ tr)

/-- no rule of any level ≥ `ctx` would let its operand swallow the head of `rest` -/
def Safe (ctx : Nat) (rest : List Tok) : Prop := ∀ p, ctx ≤ p → contAt T (T.mn p) rest = false

theorem le_mn (p : Nat) : p ≤ T.mn p := by unfold Tbl.mn; split <;> omega
theorem le_lctx (p : Nat) : p ≤ T.lctx p := by unfold Tbl.lctx; split <;> omega

/-- the arithmetic heart: behind a left operand printed bare at `lctx p`, an operator of level `p` is not swallowed -/
theorem lt_mn_of_lctx_le {p p' : Nat} (h : T.lctx p ≤ p') : p < T.mn p' := by
  unfold Tbl.lctx at h; unfold Tbl.mn
  by_cases hp : T.ra p
  · simp only [hp, if_true] at h; split <;> omega
  · simp only [hp, Bool.false_eq_true, if_false] at h
    by_cases he : p' = p
    · subst he; simp [hp]
    · split <;> omega

theorem safe_mono {c c' : Nat} {rest} (h : Safe T c rest) (hc : c ≤ c') : Safe T c' rest :=
  fun p hp => h p (Nat.le_trans hc hp)

theorem safe_right {ctx p : Nat} {rest} (h : Safe T ctx rest) (hp : ctx ≤ p) : Safe T (T.mn p) rest :=
  safe_mono T h (Nat.le_trans hp (le_mn T p))

theorem stop_right {ctx p : Nat} {rest} (h : Safe T ctx rest) (hp : ctx ≤ p) : contAt T (T.mn p) rest = false := h p hp

theorem safe_nil (c) : Safe T c [] := fun _ _ => rfl
theorem safe_rp (c r) : Safe T c (.rp :: r) := fun _ _ => rfl
theorem safe_rb (c r) : Safe T c (.rb :: r) := fun _ _ => rfl
theorem safe_comma (c r) : Safe T c (.comma :: r) := fun _ _ => rfl
theorem safe_colon (c r) : Safe T c (.colon :: r) := fun _ _ => rfl

theorem safe_sym_bin {t r} (hb : T.isPost t = false) : Safe T (T.lctx (T.bp t)) (.sym t :: r) := by
  intro p hp
  have := lt_mn_of_lctx_le T hp
  simp only [contAt, hb, Bool.false_and, Bool.or_false, Bool.and_eq_false_iff, decide_eq_false_iff_not]
  right; omega

theorem safe_sym_post {t r} (hb : T.isBin t = false) : Safe T (T.lctx (T.sp t)) (.sym t :: r) := by
  intro p hp
  have := lt_mn_of_lctx_le T hp
  simp only [contAt, hb, Bool.false_and, Bool.false_or, Bool.and_eq_false_iff, decide_eq_false_iff_not]
  right; omega

theorem safe_quest {r} : Safe T (T.lctx T.questL) (.quest :: r) := by
  intro p hp
  have := lt_mn_of_lctx_le T hp
  simp only [contAt, decide_eq_false_iff_not]; omega

theorem safe_top_lb {r} : Safe T (T.lctx T.topL) (.lb :: r) := by
  intro p hp; have := lt_mn_of_lctx_le T hp; simp only [contAt, decide_eq_false_iff_not]; omega
theorem safe_top_lp {r} : Safe T (T.lctx T.topL) (.lp :: r) := by
  intro p hp; have := lt_mn_of_lctx_le T hp; simp only [contAt, decide_eq_false_iff_not]; omega
theorem safe_top_dot {n r} : Safe T (T.lctx T.topL) (.dot n :: r) := by
  intro p hp; have := lt_mn_of_lctx_le T hp; simp only [contAt, decide_eq_false_iff_not]; omega
theorem safe_top_dotLoc {r} : Safe T (T.lctx T.topL) (.dotLoc :: r) := by
  intro p hp; have := lt_mn_of_lctx_le T hp; simp only [contAt, decide_eq_false_iff_not]; omega

/-- renderings of expressions begin with an operand-start token, never with the bare literal 2147483648 -/
theorem R_start {b ctx e ts} (h : R T mt b ctx e ts) : b = false → ∀ rest, OpStart (ts ++ rest) ∧ NoPNM (ts ++ rest) := by
  induction h with
  | paren _ _ => intro _ rest; simp [OpStart, NoPNM]
  | atom _ => intro _ rest; simp [OpStart, NoPNM]
  | intMin _ _ => intro _ rest; simp [OpStart, NoPNM]
  | pre _ _ _ _ _ => intro _ rest; simp [OpStart, NoPNM]
  | quant _ _ _ => intro _ rest; simp [OpStart, NoPNM]
  | post _ _ _ _ ih => intro _ rest; simpa [List.append_assoc] using ih rfl _
  | dot _ _ ih => intro _ rest; simpa [List.append_assoc] using ih rfl _
  | dotLoc _ _ ih => intro _ rest; simpa [List.append_assoc] using ih rfl _
  | bin _ _ _ _ _ _ ihl _ => intro _ rest; simpa [List.append_assoc] using ihl rfl _
  | tern _ _ _ _ ihc _ _ => intro _ rest; simpa [List.append_assoc] using ihc rfl _
  | index _ _ _ iha _ => intro _ rest; simpa [List.append_assoc] using iha rfl _
  | fn1 _ _ => intro _ rest; simp [OpStart, NoPNM]
  | fn2 _ _ _ _ => intro _ rest; simp [OpStart, NoPNM]
  | fn3 _ _ _ _ _ _ => intro _ rest; simp [OpStart, NoPNM]
  | call _ _ _ ihf _ => intro _ rest; simpa [List.append_assoc] using ihf rfl _
  | anil => intro h; cases h
  | aone _ _ => intro h; cases h
  | acons _ _ _ _ _ => intro h; cases h

/-- separator in front of a non-empty argument tail -/
def sep : Expr → List Tok
  | .anil => []
  | _ => [.comma]

/-- what `main` establishes for a rendering, by mode -/
def Goal (b : Bool) (ctx : Nat) (e : Expr) (ts : List Tok) : Prop :=
  match b with
  | false => ∀ q rest res, q ≤ ctx → Safe T ctx rest →
      (∀ g, rest.length + 1 ≤ g → loop T g q e rest = some res) →
      ∀ f, (ts ++ rest).length + 1 ≤ f → parseE T f q (ts ++ rest) = some res
  | true =>
      (∀ rest f, (sep e ++ ts ++ .rp :: rest).length + 1 ≤ f → parseTail T f (sep e ++ ts ++ .rp :: rest) = some (e, rest)) ∧
      (∀ rest f, (ts ++ .rp :: rest).length + 1 ≤ f → argsAfterLp T f (ts ++ .rp :: rest) = some (e, rest))


theorem succ_of_le {n f : Nat} (h : n + 1 ≤ f) : ∃ f', f = f' + 1 := ⟨f - 1, by omega⟩

theorem stopAll (q : Nat) (e : Expr) (rest : List Tok) (h : contAt T q rest = false) :
    ∀ g, rest.length + 1 ≤ g → loop T g q e rest = some (e, rest) := by
  intro g hg
  obtain ⟨g', rfl⟩ := succ_of_le hg
  exact loop_stop T g' q e rest h

/-- **Round trip, continuation form.**  If the continuation loop, started with the finished tree `e` in front of
`rest`, yields `res`, then parsing any admissible rendering of `e` followed by `rest` yields `res`. -/
theorem main (hT : T.ternL ≤ T.questL) {b ctx e ts} (h : R T mt b ctx e ts) : Goal T b ctx e ts := by
  induction h with
  | @paren ctx e ts _ ih =>
    simp only [Goal] at ih ⊢
    intro q rest res _ _ hl f hf
    obtain ⟨f', rfl⟩ := succ_of_le hf
    have e1 : ([Tok.lp] ++ ts ++ [Tok.rp]) ++ rest = Tok.lp :: (ts ++ Tok.rp :: rest) := by simp
    simp only [e1, List.length_cons, List.length_append] at hf ⊢
    rw [parseE_lp]
    have hin := ih 0 (Tok.rp :: rest) (e, Tok.rp :: rest) (Nat.le_refl 0) (safe_rp T 0 rest)
      (stopAll T 0 e _ rfl) f' (by simp only [List.length_append, List.length_cons]; omega)
    simp only [hin]
    exact hl f' (by omega)
  | @atom ctx a _ =>
    simp only [Goal]
    intro q rest res _ _ hl f hf
    obtain ⟨f', rfl⟩ := succ_of_le hf
    simp only [List.cons_append, List.nil_append, List.length_cons] at hf ⊢
    rw [parseE_atom]
    exact hl f' (by omega)
  | @intMin ctx h1 h2 =>
    simp only [Goal]
    intro q rest res _ _ hl f hf
    obtain ⟨f', rfl⟩ := succ_of_le hf
    simp only [List.cons_append, List.nil_append, List.length_cons] at hf ⊢
    rw [parseE_intMin]
    simp only [h1, h2, Bool.and_self, if_true]
    exact hl f' (by omega)
  | @pre ctx t x tx h1 h2 hc hx ih =>
    simp only [Goal] at ih ⊢
    intro q rest res _ hs hl f hf
    obtain ⟨f', rfl⟩ := succ_of_le hf
    simp only [List.cons_append, List.length_cons] at hf ⊢
    rw [parseE_sym T f' q t _ (R_start T mt hx rfl rest).2]
    have hin := ih (T.mn (T.pp t)) rest (x, rest) (Nat.le_refl _) (safe_right T hs hc)
      (stopAll T _ x rest (stop_right T hs hc)) f' (by omega)
    simp only [h1, if_true, hin, h2, Bool.false_eq_true, if_false]
    exact hl f' (by simp only [List.length_append] at hf; omega)
  | @quant ctx k id ty x tx hc hx ih =>
    simp only [Goal] at ih ⊢
    intro q rest res _ hs hl f hf
    obtain ⟨f', rfl⟩ := succ_of_le hf
    simp only [List.cons_append, List.length_cons] at hf ⊢
    rw [parseE_quant]
    have hin := ih (T.mn (T.quantL k)) rest (x, rest) (Nat.le_refl _) (safe_right T hs hc)
      (stopAll T _ x rest (stop_right T hs hc)) f' (by omega)
    simp only [hin]
    exact hl f' (by simp only [List.length_append] at hf; omega)
  | @post ctx t x tx h1 h2 hc hx ih =>
    simp only [Goal] at ih ⊢
    intro q rest res hq _ hl f hf
    have e1 : (tx ++ [Tok.sym t]) ++ rest = tx ++ (Tok.sym t :: rest) := by simp
    rw [e1] at hf ⊢
    refine ih q (Tok.sym t :: rest) res (Nat.le_trans hq (Nat.le_trans hc (le_lctx T _))) (safe_sym_post T h2) ?_ f hf
    intro g hg
    obtain ⟨g', rfl⟩ := succ_of_le hg
    rw [loop_sym]
    have hq' : q ≤ T.sp t := Nat.le_trans hq hc
    simp only [h2, Bool.false_and, Bool.false_eq_true, if_false, h1, Bool.true_and, decide_eq_true_eq, hq', if_true]
    exact hl g' (by simp only [List.length_cons] at hg; omega)
  | @dot ctx n x tx hc hx ih =>
    simp only [Goal] at ih ⊢
    intro q rest res hq _ hl f hf
    have e1 : (tx ++ [Tok.dot n]) ++ rest = tx ++ (Tok.dot n :: rest) := by simp
    rw [e1] at hf ⊢
    refine ih q (Tok.dot n :: rest) res (Nat.le_trans hq (Nat.le_trans hc (le_lctx T _))) (safe_top_dot T) ?_ f hf
    intro g hg
    obtain ⟨g', rfl⟩ := succ_of_le hg
    rw [loop_dot]
    have hq' : q ≤ T.topL := Nat.le_trans hq hc
    simp only [hq', if_true]
    exact hl g' (by simp only [List.length_cons] at hg; omega)
  | @dotLoc ctx x tx hc hx ih =>
    simp only [Goal] at ih ⊢
    intro q rest res hq _ hl f hf
    have e1 : (tx ++ [Tok.dotLoc]) ++ rest = tx ++ (Tok.dotLoc :: rest) := by simp
    rw [e1] at hf ⊢
    refine ih q (Tok.dotLoc :: rest) res (Nat.le_trans hq (Nat.le_trans hc (le_lctx T _))) (safe_top_dotLoc T) ?_ f hf
    intro g hg
    obtain ⟨g', rfl⟩ := succ_of_le hg
    rw [loop_dotLoc]
    have hq' : q ≤ T.topL := Nat.le_trans hq hc
    simp only [hq', if_true]
    exact hl g' (by simp only [List.length_cons] at hg; omega)
  | @bin ctx t l r tl tr h1 h2 h3 hc hl' hr ihl ihr =>
    simp only [Goal] at ihl ihr ⊢
    intro q rest res hq hs hl f hf
    have e1 : (tl ++ [Tok.sym t] ++ tr) ++ rest = tl ++ (Tok.sym t :: (tr ++ rest)) := by simp
    rw [e1] at hf ⊢
    refine ihl q (Tok.sym t :: (tr ++ rest)) res (Nat.le_trans hq (Nat.le_trans hc (le_lctx T _)))
      (safe_sym_bin T h3) ?_ f hf
    · intro g hg
      obtain ⟨g', rfl⟩ := succ_of_le hg
      rw [loop_sym]
      have hq' : q ≤ T.bp t := Nat.le_trans hq hc
      simp only [h1, Bool.true_and, decide_eq_true_eq, hq', if_true]
      have hin := ihr (T.mn (T.bp t)) rest (r, rest) (Nat.le_refl _) (safe_right T hs hc)
        (stopAll T _ r rest (stop_right T hs hc)) g' (by simp only [List.length_cons] at hg; omega)
      simp only [hin, Tbl.mkBin, h2, Bool.false_eq_true, if_false]
      exact hl g' (by simp only [List.length_cons, List.length_append] at hg; omega)
  | @tern ctx c a b tc ta tb hc _ _ _ ihc iha ihb =>
    simp only [Goal] at ihc iha ihb ⊢
    intro q rest res hq hs hl f hf
    have e1 : (tc ++ [Tok.quest] ++ ta ++ [Tok.colon] ++ tb) ++ rest
        = tc ++ (Tok.quest :: (ta ++ (Tok.colon :: (tb ++ rest)))) := by simp
    rw [e1] at hf ⊢
    have hq' : q ≤ T.questL := Nat.le_trans hq (Nat.le_trans hc hT)
    refine ihc q _ res (Nat.le_trans hq' (le_lctx T _)) (safe_quest T) ?_ f hf
    intro g hg
    obtain ⟨g', rfl⟩ := succ_of_le hg
    rw [loop_quest]
    simp only [hq', if_true]
    have h2 := iha 0 (Tok.colon :: (tb ++ rest)) (a, Tok.colon :: (tb ++ rest)) (Nat.le_refl 0) (safe_colon T 0 _)
      (stopAll T 0 a _ rfl) g' (by simp only [List.length_cons, List.length_append] at hg ⊢; omega)
    have h3 := ihb (T.mn T.ternL) rest (b, rest) (Nat.le_refl _) (safe_right T hs hc)
      (stopAll T _ b rest (stop_right T hs hc)) g' (by simp only [List.length_cons, List.length_append] at hg ⊢; omega)
    simp only [h2, h3]
    exact hl g' (by simp only [List.length_cons, List.length_append] at hg; omega)
  | @index ctx a i ta ti hc _ _ iha ihi =>
    simp only [Goal] at iha ihi ⊢
    intro q rest res hq _ hl f hf
    have e1 : (ta ++ [Tok.lb] ++ ti ++ [Tok.rb]) ++ rest = ta ++ (Tok.lb :: (ti ++ (Tok.rb :: rest))) := by simp
    rw [e1] at hf ⊢
    have hq' : q ≤ T.topL := Nat.le_trans hq hc
    refine iha q _ res (Nat.le_trans hq' (le_lctx T _)) (safe_top_lb T) ?_ f hf
    intro g hg
    obtain ⟨g', rfl⟩ := succ_of_le hg
    rw [loop_lb]
    simp only [hq', if_true]
    have h2 := ihi 0 (Tok.rb :: rest) (i, Tok.rb :: rest) (Nat.le_refl 0) (safe_rb T 0 _)
      (stopAll T 0 i _ rfl) g' (by simp only [List.length_cons, List.length_append] at hg ⊢; omega)
    simp only [h2]
    exact hl g' (by simp only [List.length_cons, List.length_append] at hg; omega)
  | @fn1 ctx k a ta _ iha =>
    simp only [Goal] at iha ⊢
    intro q rest res _ _ hl f hf
    obtain ⟨f', rfl⟩ := succ_of_le hf
    have e1 : ([Tok.fn k 1, Tok.lp] ++ ta ++ [Tok.rp]) ++ rest = Tok.fn k 1 :: Tok.lp :: (ta ++ (Tok.rp :: rest)) := by simp
    rw [e1] at hf ⊢
    rw [parseE_fn1]
    have h2 := iha 0 (Tok.rp :: rest) (a, Tok.rp :: rest) (Nat.le_refl 0) (safe_rp T 0 _)
      (stopAll T 0 a _ rfl) f' (by simp only [List.length_cons, List.length_append] at hf ⊢; omega)
    simp only [h2]
    exact hl f' (by simp only [List.length_cons, List.length_append] at hf; omega)
  | @fn2 ctx k a b ta tb _ _ iha ihb =>
    simp only [Goal] at iha ihb ⊢
    intro q rest res _ _ hl f hf
    obtain ⟨f', rfl⟩ := succ_of_le hf
    have e1 : ([Tok.fn k 2, Tok.lp] ++ ta ++ [Tok.comma] ++ tb ++ [Tok.rp]) ++ rest
        = Tok.fn k 2 :: Tok.lp :: (ta ++ (Tok.comma :: (tb ++ (Tok.rp :: rest)))) := by simp
    rw [e1] at hf ⊢
    rw [parseE_fn2]
    have h2 := iha 0 (Tok.comma :: (tb ++ (Tok.rp :: rest))) (a, _) (Nat.le_refl 0) (safe_comma T 0 _)
      (stopAll T 0 a _ rfl) f' (by simp only [List.length_cons, List.length_append] at hf ⊢; omega)
    have h3 := ihb 0 (Tok.rp :: rest) (b, Tok.rp :: rest) (Nat.le_refl 0) (safe_rp T 0 _)
      (stopAll T 0 b _ rfl) f' (by simp only [List.length_cons, List.length_append] at hf ⊢; omega)
    simp only [h2, h3]
    exact hl f' (by simp only [List.length_cons, List.length_append] at hf; omega)
  | @fn3 ctx k a b c ta tb tc _ _ _ iha ihb ihc =>
    simp only [Goal] at iha ihb ihc ⊢
    intro q rest res _ _ hl f hf
    obtain ⟨f', rfl⟩ := succ_of_le hf
    have e1 : ([Tok.fn k 3, Tok.lp] ++ ta ++ [Tok.comma] ++ tb ++ [Tok.comma] ++ tc ++ [Tok.rp]) ++ rest
        = Tok.fn k 3 :: Tok.lp :: (ta ++ (Tok.comma :: (tb ++ (Tok.comma :: (tc ++ (Tok.rp :: rest)))))) := by simp
    rw [e1] at hf ⊢
    rw [parseE_fn3]
    have h2 := iha 0 (Tok.comma :: (tb ++ (Tok.comma :: (tc ++ (Tok.rp :: rest))))) (a, _) (Nat.le_refl 0)
      (safe_comma T 0 _) (stopAll T 0 a _ rfl) f' (by simp only [List.length_cons, List.length_append] at hf ⊢; omega)
    have h3 := ihb 0 (Tok.comma :: (tc ++ (Tok.rp :: rest))) (b, _) (Nat.le_refl 0) (safe_comma T 0 _)
      (stopAll T 0 b _ rfl) f' (by simp only [List.length_cons, List.length_append] at hf ⊢; omega)
    have h4 := ihc 0 (Tok.rp :: rest) (c, Tok.rp :: rest) (Nat.le_refl 0) (safe_rp T 0 _)
      (stopAll T 0 c _ rfl) f' (by simp only [List.length_cons, List.length_append] at hf ⊢; omega)
    simp only [h2, h3, h4]
    exact hl f' (by simp only [List.length_cons, List.length_append] at hf; omega)
  | @call ctx fx args tf ta hc _ _ ihf iha =>
    simp only [Goal] at ihf iha ⊢
    intro q rest res hq _ hl f hf
    have e1 : (tf ++ [Tok.lp] ++ ta ++ [Tok.rp]) ++ rest = tf ++ (Tok.lp :: (ta ++ (Tok.rp :: rest))) := by simp
    rw [e1] at hf ⊢
    have hq' : q ≤ T.topL := Nat.le_trans hq hc
    refine ihf q _ res (Nat.le_trans hq' (le_lctx T _)) (safe_top_lp T) ?_ f hf
    intro g hg
    obtain ⟨g', rfl⟩ := succ_of_le hg
    rw [loop_lp]
    simp only [hq', if_true]
    have h2 := iha.2 rest g' (by simp only [List.length_cons, List.length_append] at hg ⊢; omega)
    simp only [h2]
    exact hl g' (by simp only [List.length_cons, List.length_append] at hg; omega)
  | anil =>
    simp only [Goal, sep, List.nil_append]
    constructor
    · intro rest f hf
      obtain ⟨f', rfl⟩ := succ_of_le hf
      exact parseTail_rp T f' rest
    · intro rest f _
      exact argsAfterLp_rp T f rest
  | @aone x tx hx ihx =>
    simp only [Goal] at ihx ⊢
    have hpx : ∀ rest f, (tx ++ Tok.rp :: rest).length + 1 ≤ f → parseE T f 0 (tx ++ Tok.rp :: rest) = some (x, Tok.rp :: rest) :=
      fun rest f hf => ihx 0 (Tok.rp :: rest) (x, Tok.rp :: rest) (Nat.le_refl 0) (safe_rp T 0 _) (stopAll T 0 x _ rfl) f hf
    constructor
    · intro rest f hf
      obtain ⟨f', rfl⟩ := succ_of_le hf
      simp only [sep, List.cons_append, List.nil_append, List.length_cons] at hf ⊢
      rw [parseTail_comma]
      have h1 := hpx rest f' (by omega)
      obtain ⟨f'', rfl⟩ := succ_of_le (n := 0) (f := f') (by simp only [List.length_append, List.length_cons] at hf; omega)
      simp only [h1, parseTail_rp]
    · intro rest f hf
      rw [argsAfterLp_other T f _ (R_start T mt hx rfl _).1]
      have h1 := hpx rest f hf
      obtain ⟨f'', rfl⟩ := succ_of_le (n := 0) (f := f) (by omega)
      simp only [h1, parseTail_rp]
  | @acons x rest' tx tr hx _ hne ihx ihr =>
    simp only [Goal] at ihx ihr ⊢
    have hsep : sep rest' = [Tok.comma] := by cases rest' <;> first | rfl | exact absurd rfl hne
    have hpx : ∀ rest f, (tx ++ Tok.comma :: (tr ++ Tok.rp :: rest)).length + 1 ≤ f →
        parseE T f 0 (tx ++ Tok.comma :: (tr ++ Tok.rp :: rest)) = some (x, Tok.comma :: (tr ++ Tok.rp :: rest)) :=
      fun rest f hf => ihx 0 _ (x, _) (Nat.le_refl 0) (safe_comma T 0 _) (stopAll T 0 x _ rfl) f hf
    have htl : ∀ rest f, (Tok.comma :: (tr ++ Tok.rp :: rest)).length + 1 ≤ f →
        parseTail T f (Tok.comma :: (tr ++ Tok.rp :: rest)) = some (rest', rest) := by
      intro rest f hf
      have := ihr.1 rest f (by simpa [hsep] using hf)
      simpa [hsep] using this
    constructor
    · intro rest f hf
      obtain ⟨f', rfl⟩ := succ_of_le hf
      have e1 : sep (Expr.acons x rest') ++ (tx ++ [Tok.comma] ++ tr) ++ Tok.rp :: rest
          = Tok.comma :: (tx ++ Tok.comma :: (tr ++ Tok.rp :: rest)) := by simp [sep]
      rw [e1] at hf ⊢
      rw [parseTail_comma]
      have h1 := hpx rest f' (by simp only [List.length_cons] at hf; omega)
      have h2 := htl rest f' (by simp only [List.length_cons, List.length_append] at hf ⊢; omega)
      simp only [h1, h2]
    · intro rest f hf
      have e1 : (tx ++ [Tok.comma] ++ tr) ++ Tok.rp :: rest = tx ++ Tok.comma :: (tr ++ Tok.rp :: rest) := by simp
      rw [e1] at hf ⊢
      rw [argsAfterLp_other T f _ (R_start T mt hx rfl _).1]
      have h1 := hpx rest f hf
      have h2 := htl rest f (by simp only [List.length_cons, List.length_append] at hf ⊢; omega)
      simp only [h1, h2]

end UtapModel.Pratt
