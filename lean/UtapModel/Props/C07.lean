/- C07: identifiers bind to the innermost preceding declaration in scope.

   `specRun` (Model/ScopeScript.lean) is the declarative reading: environment = open scopes, innermost first, each with its
   declarations latest first; `implRun` is the M-SCOPE machine (symbol heap, frame store with raw parent links, the
   name -> last-index lookup per frame, the builder's frame stack, `resolveIn` = frame_t::resolve).  The theorems say the
   machine computes exactly the declarative binding on every well-nested script, characterise that binding in the words
   of the property, and link the machine's four operations to the M-BUILD callbacks that perform them.
   Helper lemmas: UtapModel/Lemmas/C07.lean. -/
import UtapModel.Lemmas.C07
import UtapModel.Model.Builder
import UtapModel.Model.C16

namespace UtapModel.Builder

/-- the stack machine resolves every use exactly as the declarative semantics says, for every well-nested script
    (any nesting of function / block / iteration / quantifier / template / edge-select / instantiation scopes, with symbols
    taken out of a frame again by `frame_t::remove` at any point: the rebuilt frame denotes the scope without that declaration) -/
theorem C07_binding (evs : List Ev) (h : wellNested 0 evs = true) : implRun SState.init evs = specRun [[]] 0 evs :=
  impl_eq_spec evs SState.init [[]] 0 0 Rel.init rfl h

-- the hypothesis is satisfiable by a non-trivial script: global a; template(param a) { local b; edge { select a; use a; forall a: use a }; use a }
example : wellNested 0 [.declare "a", .enter ["a"], .declare "b", .enter [], .declare "a", .use "a", .enter ["a"], .use "a", .leave,
    .leave, .use "a", .leave, .use "a", .use "zz"] = true ∧
    specRun [[]] 0 [.declare "a", .enter ["a"], .declare "b", .enter [], .declare "a", .use "a", .enter ["a"], .use "a", .leave,
      .leave, .use "a", .leave, .use "a", .use "zz"] = [some 3, some 4, some 1, some 0, none] := by decide

/-- a use is unknown exactly when no open scope declares the name (or the name is empty) -- it is never bound to a
    declaration that comes later or lives in a scope that is not open -/
theorem C07_unknown (x : String) (scopes : List Scope) :
    lookupScopes x scopes = none ↔ (x = "" ∨ ∀ sc ∈ scopes, ∀ d ∈ sc, d.1 ≠ x) := by
  induction scopes with
  | nil => simp [lookupScopes]
  | cons sc rest ih =>
    simp only [lookupScopes]
    by_cases hx : x = ""
    · simp [hx, lookupScope, lookupScopes] at ih ⊢
      exact ih
    · simp only [lookupScope, hx, if_false, false_or] at ih ⊢
      cases hf : sc.find? (fun d => decide (d.1 = x)) with
      | none =>
        simp only [Option.map_none, ih, List.mem_cons, forall_eq_or_imp]
        have := List.find?_eq_none.mp hf
        constructor
        · intro h; exact ⟨fun d hd => by simpa using this d hd, h⟩
        · intro h; exact h.2
      | some d =>
        simp only [Option.map_some, reduceCtorEq, false_iff]
        intro h
        have hm := List.mem_of_find?_eq_some hf
        have hp := List.find?_some hf
        exact h sc List.mem_cons_self d hm (by simpa using hp)

/-- the binding is to a declaration of that very name in an open scope -/
theorem C07_bound_is_declared (x : String) (scopes : List Scope) (d : Nat) (h : lookupScopes x scopes = some d) :
    ∃ sc ∈ scopes, (x, d) ∈ sc := by
  induction scopes with
  | nil => simp [lookupScopes] at h
  | cons sc rest ih =>
    simp only [lookupScopes] at h
    cases hl : lookupScope x sc with
    | some d' =>
      rw [hl] at h; cases h
      unfold lookupScope at hl
      split at hl
      · cases hl
      · cases hf : sc.find? (fun d => decide (d.1 = x)) with
        | none => simp [hf] at hl
        | some e =>
          simp [hf] at hl
          have hm := List.mem_of_find?_eq_some hf
          have hp := List.find?_some hf
          refine ⟨sc, List.mem_cons_self, ?_⟩
          have : e = (x, d) := by cases e; simp at hp hl; simp [hp, hl]
          rw [← this]; exact hm
    | none =>
      rw [hl] at h
      obtain ⟨sc', hm, hd⟩ := ih h
      exact ⟨sc', List.mem_cons_of_mem _ hm, hd⟩

/-- "innermost": the binding comes from the nearest enclosing scope that declares the name -- no scope inside it does -/
theorem C07_innermost (x : String) (scopes : List Scope) (d : Nat) (h : lookupScopes x scopes = some d) :
    ∃ inner sc outer, scopes = inner ++ sc :: outer ∧ (∀ s' ∈ inner, lookupScope x s' = none) ∧ lookupScope x sc = some d := by
  induction scopes with
  | nil => simp [lookupScopes] at h
  | cons sc rest ih =>
    simp only [lookupScopes] at h
    cases hl : lookupScope x sc with
    | some d' => rw [hl] at h; cases h; exact ⟨[], sc, rest, rfl, by simp, hl⟩
    | none =>
      rw [hl] at h
      obtain ⟨inner, sc', outer, he, hi, hd⟩ := ih h
      refine ⟨sc :: inner, sc', outer, by rw [he]; rfl, ?_, hd⟩
      intro s' hs'
      rcases List.mem_cons.mp hs' with h1 | h1
      · rw [h1]; exact hl
      · exact hi s' h1

/-- "preceding, last": within that scope the binding is the latest declaration of the name (scopes list their
    declarations latest first; declarations that textually follow the use are not in the environment at all) -/
theorem C07_latest (x : String) (sc : Scope) (d : Nat) (h : lookupScope x sc = some d) :
    ∃ later earlier, sc = later ++ (x, d) :: earlier ∧ ∀ e ∈ later, e.1 ≠ x := by
  unfold lookupScope at h
  split at h
  · cases h
  · induction sc with
    | nil => simp at h
    | cons e rest ih =>
      by_cases he : e.1 = x
      · simp [List.find?, he] at h
        refine ⟨[], rest, ?_, by simp⟩
        cases e; simp at he h; simp [he, h]
      · simp [List.find?, he] at h
        obtain ⟨later, earlier, hs, hl⟩ := ih (by simpa using h)
        refine ⟨e :: later, earlier, by rw [hs]; rfl, ?_⟩
        intro e' he'
        rcases List.mem_cons.mp he' with h1 | h1
        · rw [h1]; exact he
        · exact hl e' h1

/-! ### a symbol taken out of its frame (`Document::remove_process` → `frame_t::remove`) -/

/-- removal withdraws exactly the declaration a use of the name was bound to: the scope is the same list of declarations, in the
    same order, without that one -/
theorem C07_remove_withdraws_latest (x : String) (sc : Scope) (d : Nat) (h : lookupScope x sc = some d) :
    ∃ later earlier, sc = later ++ (x, d) :: earlier ∧ (∀ e ∈ later, e.1 ≠ x) ∧ withdraw x sc = later ++ earlier := by
  obtain ⟨later, earlier, hs, hl⟩ := C07_latest x sc d h
  refine ⟨later, earlier, hs, hl, ?_⟩
  have hx : x ≠ "" := by intro hx; simp [lookupScope, hx] at h
  unfold withdraw
  simp only [hx, if_false]
  rw [hs, List.eraseP_append_right _ (by intro e he; simpa using hl e he), List.eraseP_cons_of_pos (by simp)]

/-- every other name keeps its binding: the declarations after the removed one do not move -/
theorem C07_remove_keeps_others (x y : String) (sc : Scope) (h : y ≠ x) : lookupScope y (withdraw x sc) = lookupScope y sc := by
  unfold withdraw
  split
  · rfl
  · unfold lookupScope
    split
    · rfl
    · congr 1
      induction sc with
      | nil => rfl
      | cons e t ih =>
        by_cases he : e.1 = x
        · rw [List.eraseP_cons_of_pos (by simpa using he), List.find?_cons_of_neg (by simpa using fun (hy : e.1 = y) => h (hy.symm.trans he))]
        · rw [List.eraseP_cons_of_neg (by simpa using he)]
          by_cases hy : e.1 = y
          · rw [List.find?_cons_of_pos (by simpa using hy), List.find?_cons_of_pos (by simpa using hy)]
          · rw [List.find?_cons_of_neg (by simpa using hy), List.find?_cons_of_neg (by simpa using hy), ih]

/-- the removed name falls back to the declaration it was hiding in that scope (the instantiation `A = T(1)` behind the process
    `A`), and to the enclosing scopes when there is none -/
theorem C07_remove_reexposes (x : String) (later earlier : Scope) (d : Nat) (hl : ∀ e ∈ later, e.1 ≠ x) :
    lookupScope x (withdraw x (later ++ (x, d) :: earlier)) = lookupScope x earlier := by
  by_cases hx : x = ""
  · simp [lookupScope, hx]
  · unfold withdraw
    simp only [hx, if_false]
    rw [List.eraseP_append_right _ (by intro e he; simpa using hl e he), List.eraseP_cons_of_pos (by simp)]
    unfold lookupScope
    simp only [hx, if_false]
    congr 1
    rw [List.find?_append, List.find?_eq_none.mpr (by intro e he; simpa using hl e he)]
    rfl

/-- a name the scope does not declare: nothing is removed -/
theorem C07_remove_absent (x : String) (sc : Scope) (h : lookupScope x sc = none) : withdraw x sc = sc := by
  unfold withdraw
  split
  · rfl
  · rename_i hx
    apply List.eraseP_of_forall_not
    intro e he
    unfold lookupScope at h
    simp only [hx, if_false, Option.map_eq_none_iff] at h
    simpa using List.find?_eq_none.mp h e he

/-- the machine's removal is the rebuild of symbols.cpp: the top frame keeps every symbol but the removed one, in order -/
theorem C07_remove_is_rebuild (s : SState) (x : String) (fr : Frame) (sid : SymId) (hf : s.store[s.top]? = some fr)
    (hl : fr.lookup s.syms x = some sid) :
    (s.remove x).store[s.top]? = some { fr with syms := fr.syms.filter (· ≠ sid) } ∧ (s.remove x).syms = s.syms ∧
      (s.remove x).frames = s.frames := by
  simp [SState.remove, hf, hl]

-- removal in a non-trivial script: globals a, P (instantiation), P (process), Q, R; remove P: Q and R keep their declarations, P falls
-- back to the instantiation; remove P again: unknown
example : specRun [[]] 0 [.declare "a", .declare "P", .declare "P", .declare "Q", .declare "R", .use "P", .remove "P", .use "P", .use "Q",
    .use "R", .use "a", .remove "P", .use "P", .use "R"] = [some 2, some 1, some 3, some 4, some 0, none, some 4] := by decide

/-! ### the M-BUILD callbacks perform the machine's operations -/

/-- what name resolution sees of a builder state (types and user data of symbols are irrelevant to it) -/
def eraseSyms (syms : List Symbol) : List Symbol := syms.map (fun s => ⟨s.name, .var ⟨false⟩, none⟩)

def BState.scope (s : BState) : SState := ⟨eraseSyms s.syms, s.store, s.frames⟩

theorem C07_identifier_is_use (s : BState) (x : String) :
    (step s (.exprIdentifier x)).binds.head? = some (x, s.scope.use x) := by
  have hname : ∀ sid, symName (eraseSyms s.syms) sid = symName s.syms sid := by
    intro sid; unfold symName eraseSyms; rw [List.getElem?_map]; cases s.syms[sid]? <;> rfl
  have hlook : ∀ (f : Frame) (n : String), f.lookup (eraseSyms s.syms) n = f.lookup s.syms n := by
    intro f n; unfold Frame.lookup; simp only [hname]
  have hres : ∀ fuel fid, resolveIn (eraseSyms s.syms) s.store fuel fid x = resolveIn s.syms s.store fuel fid x := by
    intro fuel
    induction fuel with
    | zero => intro fid; rfl
    | succ n ih => intro fid; simp only [resolveIn, hlook, ih]
  simp [step, BState.pushFresh, BState.scope, SState.use, SState.top, BState.resolve, BState.top, hres]

theorem C07_block_begin_is_enter (s : BState) : (step s .blockBegin).scope = s.scope.enter [] := by
  simp [step, BState.pushNewFrame, BState.newFrame, BState.pushFrame, BState.scope, SState.enter, SState.top, BState.top, mkSyms]

theorem C07_block_end_is_leave (s : BState) : (step s .blockEnd).scope = s.scope.leave := rfl
theorem C07_quant_end_is_leave (s : BState) : (step s .quantEnd).scope = s.scope.leave := rfl
theorem C07_iteration_end_is_leave (s : BState) : (step s .iterationEnd).scope = s.scope.leave := rfl
theorem C07_edge_end_is_leave (s : BState) : (step s .procEdgeEnd).scope = s.scope.leave := rfl
theorem C07_func_end_is_leave (s : BState) : (step s .declFuncEnd).scope = s.scope.leave := rfl
theorem C07_proc_end_is_leave (s : BState) : (step s .procEnd).scope = s.scope.leave := rfl

/-- quantifier / select-like binder: a new scope with the binder as its only declaration -/
theorem C07_quant_begin_is_enter (s : BState) (x : String) : (step s (.quantBegin x)).scope = s.scope.enter [x] := by
  simp [step, BState.popType, BState.pushNewFrame, BState.newFrame, BState.pushFrame, BState.addSymbol, BState.errorIf, BState.scope,
    SState.enter, SState.top, BState.top, mkSyms, eraseSyms, addToFrame, modify_concat_length]

/-- a local declaration inside a function body goes to the frame on top -/
theorem C07_local_decl_is_declare (s : BState) (x : String) (f : Nat) (hf : s.currentFun = some f) :
    (step s (.declVar x false)).scope = s.scope.declare x := by
  simp [step, BState.popType, BState.addVariable, hf, BState.addSymbol, BState.scope, SState.declare, SState.top, BState.top, eraseSyms,
    addToFrame]

/-- a global / template-level declaration goes to the declaration block's frame, which is the frame on top whenever the
    callers are well nested (hypothesis `htop`) -/
theorem C07_decl_is_declare (s : BState) (x : String) (hf : s.currentFun = none) (htop : s.declFrame s.declBlock = s.top) :
    (step s (.declVar x false)).scope = s.scope.declare x := by
  simp [step, BState.popType, BState.addVariable, hf, BState.addSymbol, BState.scope, SState.declare, SState.top, BState.top, eraseSyms,
    addToFrame, BState.declFrame, BState.declBlock] at htop ⊢
  rw [htop]

/-- every production of today's grammar (table regenerated from src/parser.y on every run; frame effect of each callback =
    what the model's `step` does) pushes and pops scope frames in a balanced way and never pops a frame it did not push.
    Hence the scope events of an error-free derivation are well nested (each nonterminal contributes a balanced sub-list).
    Productions abandoned half way by error recovery are the exception shapes of C16. -/
theorem C07_grammar_frame_balanced : UtapModel.C16.allProductionsBalanced = true := by decide +kernel

/- Not proved (full statement kept):
   theorem C07_wellnested_of_grammar : for every error-free derivation of the grammar the scope events of its callback
     list are `wellNested` (needs the production table machinery of C01; on error paths frames can be left pushed -- the
     computed exception shapes of C16);
   theorem C07_process_member : `P.x` in a query binds to the declaration x of P's template with P's arguments
     substituted (expr_dot on a process: type_t::find_index_of over the template frame + subst of instance_t::mapping):
     checked on the real library only (harness/c07.cpp), the model has no types to substitute into. -/

end UtapModel.Builder
