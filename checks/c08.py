"""C08 -- parsed documents satisfy the structural invariants clients rely on (DESIGN.md section 4, C08).

 1 translate   include/utap/builder.h -> TraceBuilder overrides (translate/c08_builder_h.py; fails closed)
 2 prove       UtapModel.Props.C08: Inv init, Inv s -> Inv (step s c) for every callback (error/throw branches included),
               hence every reachable builder state; own-template / init clauses under the caller discipline `safeCall`
 3 oracle      Document invariant walker (harness/c08_walker.hpp) on the REAL library after every parse of generated valid /
               invalid / error-recovered / exception-ending inputs (XML, XTA, token- and structure-mutated)
 4 correspond  TraceBuilder callback log of the real DocumentBuilder replayed through the Lean `step` (drv_c08):
               stack depths after every call, structural dump of the final document, executable Inv on the model state,
               caller-discipline predicate on every real trace
"""
import base64
import json
import os
import re
import sys
from xml.sax.saxutils import escape, unescape
from concurrent.futures import ThreadPoolExecutor

from vlib import core

sys.path.insert(0, os.path.join(core.VERIF, "translate"))
sys.path.insert(0, os.path.join(core.VERIF, "checks"))
import c08_builder_h as BH  # noqa: E402
import c08_gen as G  # noqa: E402

MODULE = "UtapModel.Props.C08"
CORPUS = os.path.join(core.VERIF, "corpus", "c08")


# glibcxx assertion failures abort(): let ASan print the stack so that the crash can be keyed by the library function
ABORT_ENV = {"ASAN_OPTIONS": core.SAN_ENV["ASAN_OPTIONS"] + ":handle_abort=1"}


def build_harness(variant="asan"):
    b = core.build_repo(variant)
    cbs = BH.parse(core.REPO)
    d = os.path.join(core.CACHE, "geninc-c08")
    core.write_if_changed(os.path.join(d, "c08_tracebuilder.inc"), BH.inc_text(cbs))
    return core.build_harness(b, "c08", ["c08.cpp"], extra_flags=["-I" + d]), cbs


def run_batch(exe, cases, nproc=None):
    """cases: list of (id, fmt, newxta, flags, text). Returns {id: [output lines]} and list of (chunk rc, stderr) for crashed chunks."""
    nproc = nproc or min(core.NCPU, 12)
    chunks = [cases[i::nproc] for i in range(nproc)]

    def work(chunk):
        if not chunk:
            return 0, "", "", chunk
        text = "".join("%s %s %d %s %s\n" % (cid, fmt, nx, fl, base64.b64encode(t.encode("utf-8", "surrogateescape")).decode())
                       for cid, fmt, nx, fl, t in chunk)
        rc, out, err, _ = core.run_exe(exe, ["batch"], stdin_text=text, timeout=900, env=ABORT_ENV)
        return rc, out, err, chunk

    res, crashes = {}, []
    with ThreadPoolExecutor(nproc) as ex:
        for rc, out, err, chunk in ex.map(work, chunks):
            cur = None
            for line in out.split("\n"):
                if line.startswith("BEGIN "):
                    cur = line[6:].strip()
                    res[cur] = []
                elif line.startswith("END "):
                    res[cur].append("END")
                    cur = None
                elif cur is not None:
                    res[cur].append(line)
            if rc != 0:
                # the case that was being parsed when the process died = first one without END
                dead = [c for c in chunk if not res.get(c[0]) or res[c[0]][-1] != "END"]
                crashes.append((rc, err[-3000:], dead[0] if dead else None))
                # re-run the remaining cases of this chunk
                rest = dead[1:]
                if rest:
                    r2, c2 = run_batch(exe, rest, 1)
                    res.update(r2)
                    crashes += c2
    return res, crashes


def gen_cases(ctx):
    r = ctx.rng
    n_models = 60 if not ctx.thorough else 600
    cases = []   # (id, fmt, newxta, flags, text, meta)

    def add(fmt, text, kind, trace=True):
        cid = "c%d" % len(cases)
        cases.append((cid, fmt, 1, "wt" if trace else "w", text, kind))

    # corpus first (finding witnesses, past disagreements)
    if os.path.isdir(CORPUS):
        for f in sorted(os.listdir(CORPUS)):
            fmt = "xml" if f.endswith(".xml") else "xta"
            add(fmt, open(os.path.join(CORPUS, f)).read(), "corpus:" + f)
    # dynamic templates and quantifiers over their instances (`forall (p : Child) p.x`): the quantifier looks members up in the dynamic
    # template's frame; complete, with unknown members, cut short by a syntax error -- in every label kind of a later template that
    # shares location names with the dynamic one
    dyn_bodies = ["p.cc == 0", "p.nosuch == 0", "p.cc == 0 && p.nosuch > 1", "p.Idle", "p.nosuch"]
    for body in dyn_bodies:
        for shape in ("forall (p : Child) (%s)", "forall (p : Child) (%s", "exists (p : Child) (%s) && gg > 0", "gg > 0 && (exists (p : Child) (%s",
                      "forall (p : Child) (exists (q : Child) (q.cc == 1 && %s))", "forall (p : Child) (exists (q : Child) (q.nosuch == 1 && %s"):
            for place in ("inv", "guard", "assign"):
                e = shape % body
                inv = e if place == "inv" else "gg >= 0"
                grd = e if place == "guard" else "gg >= 0"
                asg = ("gg = (%s) ? 1 : 0" % e) if place == "assign" else "gg = 1"
                x = ('<?xml version="1.0" encoding="utf-8"?><nta><declaration>dynamic Child(); int gg;</declaration>'
                     '<template><name>Child</name><declaration>int cc;</declaration><location id="c0"><name>Idle</name></location>'
                     '<location id="c1"><name>Busy</name></location><init ref="c0"/>'
                     '<transition><source ref="c0"/><target ref="c1"/></transition></template>'
                     '<template><name>Parent</name><declaration>int pv;</declaration>'
                     '<location id="p0"><name>Idle</name><label kind="invariant">%s</label></location><location id="p1"><name>Busy</name></location><init ref="p0"/>'
                     '<transition><source ref="p0"/><target ref="p1"/><label kind="guard">%s</label><label kind="assignment">%s</label></transition>'
                     '<transition><source ref="p1"/><target ref="p0"/><label kind="assignment">spawn Child()</label></transition></template>'
                     '<system>system Parent;</system></nta>' % (escape(inv), escape(grd), escape(asg)))
                add("xml", x, "dynamic:%s:%s" % (place, "balanced" if e.count("(") == e.count(")") else "cut"), trace=False)
    # instantiation chains: a template whose parameters are bound level by level, the instances' own parameters sharing names with the ones
    # they bind, some parameters used as array sizes; clean and with one level faulted (argument count, duplicate / undeclared names)
    for ci in range(40 if not ctx.thorough else 400):
        m = G.gen_model(r, size=1)
        fault = r.choice([None, None, None, "fewargs", "manyargs", "dupparam", "undeclared"])
        for _ in range(r.randint(1, 2)):
            G.add_instance_chain(r, m, fault)
        add("xml", G.to_xml(m), "chain" + (":" + fault if fault else ""))
        add("xta", G.to_xta(m), "chain" + (":" + fault if fault else ""))
    for mi in range(n_models):
        m = G.gen_model(r)
        xml, xta = G.to_xml(m), G.to_xta(m)
        add("xml", xml, "valid")
        add("xta", xta, "valid")
        # the same model followed by queries on members of its processes (a query parse must leave the document as it was)
        qs = []
        for pn in m["processes"]:
            ti = int(re.sub(r"\D", "", pn) or 0) if re.match(r"[PQRT]\d", pn) else None
            if ti is None or ti >= len(m["templates"]):
                continue
            t = m["templates"][ti]
            if pn.startswith("Q"):
                procs = ["%s(0)" % pn, "%s(1)" % pn]
            elif pn.startswith("T") and t["params"]:
                procs = ["%s(%s)" % (pn, ", ".join("0" for _ in t["params"])), "%s(%s)" % (pn, ", ".join("1" for _ in t["params"]))]
            else:
                procs = [pn]
            members = [l["name"] for l in t["locs"] if l["name"]][:2] + [v for v in t["env"].ints if v.startswith("l%d_" % ti)][:2]
            for pr in procs:
                for mb in members:
                    qs.append("E<> %s.%s" % (pr, mb) + ("" if mb.startswith("L") else " >= 0"))
                qs.append("A[] %s.nosuchmember >= 0" % pr)
                qs.append("E<> forall (qq : int[0,1]) %s.%s" % (pr, members[0]) if members else "E<> true")
        if qs:
            add("xml", xml + "\n%%QUERIES%%\n" + "\n".join(qs) + "\n", "valid+queries", trace=False)
            cases[-1] = cases[-1][:3] + ("wq",) + cases[-1][4:]
        # semantic / structural faults on the abstract model ------------------------------------------------------
        for _ in range(6):
            import copy
            m2 = copy.deepcopy(m)
            drop = set()
            ti = r.randrange(len(m2["templates"]))
            t = m2["templates"][ti]
            k = r.choice(["duploc", "dupvar", "duptempl", "noinit", "initref", "nosource", "sourceref", "notarget", "nolocid", "nolabelkind",
                          "unknowntempl", "fewargs", "manyargs", "dupproc", "procnotempl", "nosystem", "dupbp", "locvarclash", "dupinst",
                          "urgcommit", "initbp", "emptytempl", "dupparam", "dupselect", "crossloc"])
            if k == "duploc" and len(t["locs"]) > 1:
                t["locs"][-1]["name"] = t["locs"][0]["name"] or "L0"
            elif k == "dupvar":
                m2["globals"].append(m2["globals"][-1] if r.random() < 0.5 else "int id_t;")
            elif k == "duptempl":
                t2 = copy.deepcopy(t)
                m2["templates"].append(t2)
            elif k == "noinit":
                drop.add(("init", ti))
            elif k == "initref":
                drop.add(("initref", ti))
            elif k == "nosource" and t["edges"]:
                drop.add(("source", ti, r.randrange(len(t["edges"]))))
            elif k == "sourceref" and t["edges"]:
                drop.add(("sourceref", ti, r.randrange(len(t["edges"]))))
            elif k == "notarget" and t["edges"]:
                drop.add(("target", ti, r.randrange(len(t["edges"]))))
            elif k == "nolocid":
                drop.add(("locid", ti, r.randrange(len(t["locs"]))))
            elif k == "nolabelkind" and t["edges"]:
                ei = r.randrange(len(t["edges"]))
                drop.add(("labelkind", ti, ei, r.choice(["guard", "assign", "sync", "prob"])))
            elif k == "unknowntempl":
                m2["system"].append("X9 = Nosuch(1);")
                m2["processes"].append("X9")
            elif k == "fewargs":
                m2["system"].append("X8 = %s();" % t["name"])
                m2["processes"].append("X8")
            elif k == "manyargs":
                m2["system"].append("X7 = %s(1, 2, 3, 4);" % t["name"])
                m2["processes"].append("X7")
            elif k == "dupproc":
                m2["processes"].append(m2["processes"][0])
            elif k == "procnotempl":
                m2["processes"].append(r.choice(["id_t", "nosuchproc", "g0"]))
            elif k == "nosystem":
                drop.add(("system",))
            elif k == "dupbp" and t["bps"]:
                t["bps"].append(t["bps"][0])
            elif k == "locvarclash":
                t["decls"].append("int %s;" % (t["locs"][0]["name"] or "L0"))
            elif k == "dupinst" and m2["system"]:
                m2["system"].append(m2["system"][-1])
            elif k == "urgcommit":
                t["locs"][0]["urgent"] = t["locs"][0]["committed"] = True
                t["locs"][0]["inv"] = None
            elif k == "initbp" and t["bps"]:
                t["init"] = t["bps"][0]
            elif k == "emptytempl":
                t["locs"], t["edges"], t["bps"] = [], [], []
            elif k == "dupparam" and t["params"]:
                t["params"].append(t["params"][0])
            elif k == "dupselect" and t["edges"]:
                e = r.choice(t["edges"])
                e["select"] = [("i", "int[0,1]"), ("i", "int[0,2]")]
            elif k == "crossloc" and len(m2["templates"]) > 1 and t["edges"]:
                # an edge whose target id belongs to another template
                other = m2["templates"][(ti + 1) % len(m2["templates"])]
                r.choice(t["edges"])["dst"] = other["locs"][0]["id"]
            else:
                continue
            add("xml", G.to_xml(m2, drop), "fault:" + k)
            if not drop and k not in ("crossloc",):
                try:
                    add("xta", G.to_xta(m2), "fault:" + k)
                except Exception:
                    pass
        # token-level faults anywhere in the text -------------------------------------------------------------------
        for _ in range(4 if not ctx.thorough else 8):
            fk, t2 = G.mutate_text(r, xta)
            add("xta", t2, "token:" + fk, trace=(r.random() < 0.5))
        for _ in range(6 if not ctx.thorough else 12):
            # mutate the text of one XML text node
            pass
            nodes = list(re.finditer(r">([^<>]*[A-Za-z0-9][^<>]*)<", xml))
            nd = r.choice(nodes)
            fk, t2 = G.mutate_text(r, unescape(nd.group(1)))
            add("xml", xml[:nd.start(1)] + escape(t2) + xml[nd.end(1):], "xmltext:" + fk, trace=(r.random() < 0.5))
        # raw XML structure faults: drop / duplicate one element or attribute ---------------------------------------------
        for _ in range(3 if not ctx.thorough else 6):
            lines = xml.split("\n")
            i = r.randrange(2, len(lines) - 1)
            k = r.choice(["dropline", "dupline", "swapline", "truncate"])
            if k == "dropline":
                l2 = lines[:i] + lines[i + 1:]
            elif k == "dupline":
                l2 = lines[:i] + [lines[i]] + lines[i:]
            elif k == "swapline":
                j = r.randrange(2, len(lines) - 1)
                l2 = list(lines)
                l2[i], l2[j] = l2[j], l2[i]
            else:
                l2 = lines[:i]
            add("xml", "\n".join(l2) + "\n", "xmlstruct:" + k, trace=(r.random() < 0.5))
    return cases


def crash_site(err, rc):
    """shape key of a sanitizer report: the innermost library function on the stack"""
    import re
    for l in err.split("\n"):
        m = re.search(r"#\d+ 0x[0-9a-f]+ in (UTAP::[\w:~]+|[\w:~]+)[^/]*" + re.escape(core.REPO) + "/src/", l)
        if m:
            return m.group(1).replace("UTAP::", "")
    if rc == -999:
        return "timeout"
    return "rc=%s" % rc


def analyse(ctx, cases, res, crashes):
    cov = ctx.coverage
    dist, viol, objs = {}, {}, {"nontrivial": 0, "errors": 0, "exceptions": 0, "clean": 0}
    samples = []
    for cid, fmt, nx, fl, text, kind in cases:
        out = res.get(cid)
        kk = kind.split(":")[0]
        dist[kk] = dist.get(kk, 0) + 1
        if not out or out[-1] != "END":
            continue
        for line in out:
            if line.startswith("PUB "):
                f = dict(x.split("=", 1) for x in line[4:].split())
                if f["rc"].startswith("EXC"):
                    objs["exceptions"] += 1
                elif f["clean"] == "1":
                    objs["clean"] += 1
                else:
                    objs["errors"] += 1
                o = dict((x[0], int(x[1:])) for x in f["objs"].split(","))
                if o["e"] > 0 and o["p"] > 0 and o["l"] > 1:
                    objs["nontrivial"] += 1
                if len(samples) < 4 and kk in ("valid", "fault", "token", "xmlstruct") and kk not in [s["kind"].split(":")[0] for s in samples]:
                    samples.append({"kind": kind, "format": fmt, "result": line, "input_head": text[:300]})
            if line.startswith("QRY "):
                objs["query_batches"] = objs.get("query_batches", 0) + 1
                objs["queries"] = objs.get("queries", 0) + int(line.split()[1].split("=")[1])
            if line.startswith("WALK ") or line.startswith("TWALK ") or line.startswith("QWALK "):
                clause = ("after-query:" if line.startswith("QWALK") else "") + line.split()[1]
                viol.setdefault(clause, []).append((cid, fmt, kind, line, text))
    cov["input_distribution"] = dist
    cov["documents"] = objs
    cov["samples"] = samples
    for clause, lst in sorted(viol.items()):
        cid, fmt, kind, line, text = min(lst, key=lambda x: len(x[4]))
        ctx.finding("walker:" + clause,
                    "Document invariant walker: %s violated after parse (%d of %d inputs; smallest: %s input, %s)" % (line, len(lst), len(cases), fmt, kind),
                    {"entry": "parse_XML_buffer" if fmt == "xml" else "parse_XTA", "newxta": True, "format": fmt,
                     "input_b64": base64.b64encode(text.encode("utf-8", "surrogateescape")).decode(), "observed": line,
                     "required": "C08 invariant clause " + clause})
    for rc, err, dead in crashes:
        if dead is None:
            ctx.finding("harness:died", "c08 harness died rc=%s without a pending case" % rc, {"stderr": err})
            continue
        cid, fmt, nx, fl, text = dead[:5]
        what = "sanitizer report / crash" if rc != -999 else "timeout"
        first = [l for l in err.split("\n") if "ERROR" in l or "runtime error" in l][:1]
        ctx.finding("crash:" + crash_site(err, rc),
                    "%s while parsing a generated %s input (rc=%s): %s" % (what, fmt, rc, first),
                    {"format": fmt, "input_b64": base64.b64encode(text.encode("utf-8", "surrogateescape")).decode(), "stderr": err})
    return viol


def correspond(ctx, cases, res):
    """replay the traced cases through the Lean model"""
    cov = ctx.coverage
    traced = [c for c in cases if "t" in c[3] and res.get(c[0]) and res[c[0]][-1] == "END"]
    text = []
    for c in traced:
        text.append("BEGIN %s" % c[0])
        text += [l for l in res[c[0]] if l.startswith("C ")]
        text.append("END %s" % c[0])
    rc, out, err, dt = core.run_exe(core.lean_exe("drv_c08"), [], stdin_text="\n".join(text) + "\n", timeout=1200)
    model, cur = {}, None
    for line in out.split("\n"):
        if line.startswith("BEGIN "):
            cur = line[6:].strip()
            model[cur] = []
        elif line.startswith("END "):
            cur = None
        elif cur is not None:
            model[cur].append(line)
    dis, unmod, calls, unsafe, invbad, ncalls = [], {}, 0, [], [], 0
    proto_fail_clean, proto_ok_clean = [], 0
    for c in traced:
        cid = c[0]
        real = res[cid]
        mo = model.get(cid)
        ncalls += sum(1 for l in real if l.startswith("C 0 "))
        if mo is None:
            dis.append((cid, "driver produced nothing", ""))
            continue
        rd = [l for l in real if l.startswith("D ")]
        md = [l for l in mo if l.startswith("D ")]
        mm = [l for l in mo if l.startswith("M ")]
        for l in mo:
            if l.startswith("U "):
                unmod[l[2:]] = unmod.get(l[2:], 0) + 1
            if l.startswith("I ") and l != "I ok":
                invbad.append((cid, l))
            if l.startswith("S ") and l != "S ok":
                unsafe.append((cid, l))
            if l.startswith("P "):
                tr0 = [x for x in real if x.startswith("TR ")]
                clean = bool(tr0) and " clean=1" in tr0[0]
                if clean and l == "P ok":
                    proto_ok_clean += 1
                elif clean:
                    proto_fail_clean.append(cid)
            if l.startswith("E "):
                tr = [x for x in real if x.startswith("TR ")]
                if tr:
                    f = dict(x.split("=", 1) for x in tr[0][3:].split())
                    if int(l[2:]) > int(f["errors"]):
                        dis.append((cid, "model records more diagnostics than the library: %s vs %s" % (l[2:], f["errors"]), ""))
        if mm:
            dis.append((cid, "stack depth: " + mm[0], ""))
        elif rd != md:
            d = [(a, b) for a, b in zip(rd, md) if a != b][:1] or [("len %d" % len(rd), "len %d" % len(md))]
            dis.append((cid, "dump", "impl: %s | model: %s" % d[0]))
    cov["correspondence_cases"] = len(traced)
    cov["traces_validated_against_impl"] = len(traced)
    cov["callbacks_replayed"] = ncalls
    cov["correspondence_disagreements"] = len(dis)
    cov["unmodelled_callbacks"] = unmod
    # C08_init_location is conditional on the readers' init protocol (`initShape`): clean parses whose trace violates it are
    # exactly where the theorem does not apply -- each of them must show up as a walker init finding, not silently
    cov["clean_traces_following_init_protocol"] = proto_ok_clean
    cov["clean_traces_violating_init_protocol"] = len(proto_fail_clean)
    for cid in proto_fail_clean:
        if not any(l.startswith("TWALK init:") for l in res[cid]):
            dis.append((cid, "clean trace violates the init protocol but the walker sees every TA template with an init", ""))
    cov["driver_seconds"] = round(dt, 1)
    by = {c[0]: c for c in cases}
    if rc != 0:
        ctx.proof_broken("correspondence:drv_c08", "driver exited rc=%s: %s" % (rc, err[-1500:]), "%d traces" % len(traced))
    if dis:
        cid, what, detail = dis[0]
        c = by[cid]
        ctx.proof_broken("correspondence:builder-model",
                         "Lean builder model and real DocumentBuilder disagree on %d of %d traces; first (%s, %s): %s %s\ninput:\n%s"
                         % (len(dis), len(traced), c[1], c[5], what, detail, c[4][:3000]),
                         "walker on %d documents" % len(cases))
    if invbad:
        cid, l = invbad[0]
        ctx.proof_broken("model-invariant", "executable Inv fails on the model state reached by a real trace (%s): %s\n%s" % (by[cid][5], l, by[cid][4][:3000]),
                         "walker on %d documents" % len(cases))
    if unsafe:
        cid, l = unsafe[0]
        ctx.proof_broken("assumption:safeCall", "caller discipline assumed by C08_own_template violated by a real trace (%s): %s\n%s"
                         % (by[cid][5], l, by[cid][4][:3000]), "walker on %d documents" % len(cases))
    return dis


def run(ctx):
    cov = ctx.coverage
    try:
        exe, cbs = build_harness("asan")
        cov["callbacks_translated"] = len(BH.names(cbs))
    except BH.TranslateError as ex:
        ctx.proof_broken("translate/c08_builder_h.py", str(ex), "nothing could be run")
        return
    ok, log = ctx.prove(MODULE, ["drv_c08"])
    if not ok:
        broken = core.failing_theorems(log)
        ctx.log("proof broken:", broken or log[-1500:])
    cases = gen_cases(ctx)
    ctx.log("generated %d inputs" % len(cases))
    res, crashes = run_batch(exe, [c[:5] for c in cases])
    ctx.log("parsed; analysing")
    viol = analyse(ctx, cases, res, crashes)
    cov["evaluations"] = len(cases)
    cov["distinct_nontrivial"] = cov["documents"]["nontrivial"]
    cov["rule"] = ("every document (after normal return, diagnostics or exception) is walked: user-object back pointers, edge endpoints, "
                   "dense numbering, instance parameter/mapping shape, init location when clean")
    dis = []
    if os.path.exists(core.lean_exe("drv_c08")):
        dis = correspond(ctx, cases, res)
    if not ok:
        for path, thm, msg in (core.failing_theorems(log) or [("?", "lake build", log[-300:])]):
            ctx.proof_broken(thm, msg + "\n" + log[-2000:], "walker on %d documents of the implementation: %d violated clauses; %d correspondence disagreements"
                             % (len(cases), len(viol), len(dis)))
    ctx.assumptions += [
        "object identity (the void* user data) is modelled by container index; address stability of std::list/std::deque is observed by "
        "the walker on the real library, not proved",
        "instance_t::parameters is modelled by value (the frame is not mutated after the instance is created; the dump comparison would show it)",
        "own-template / init clauses are proved under the caller discipline `safeCall` (no pop below the template frame), which is evaluated "
        "on every real trace",
        "asserts are compiled out (baseline RelWithDebInfo)",
    ]


def replay(ctx, path):
    r = json.load(open(path))
    print(json.dumps({k: v for k, v in r.items() if k != "replay"}, indent=1))
    rp = r.get("replay", {})
    if "input_b64" not in rp:
        print(json.dumps(rp, indent=1)[:4000])
        return 1
    exe, _ = build_harness("asan")
    text = base64.b64decode(rp["input_b64"]).decode("utf-8", "surrogateescape")
    res, crashes = run_batch(exe, [("r0", rp.get("format", "xml"), 1, "wte", text)], 1)
    bad = False
    for l in res.get("r0", []):
        if not l.startswith("C "):
            print(l)
        if l.startswith("WALK") or l.startswith("TWALK"):
            bad = True
    for c in crashes:
        print("CRASH", c[0], c[1][-1500:])
        bad = True
    return 1 if bad else 0
