import Pratt

theorem parseE_zero (T : Tbl) (q ts) : parseE T 0 q ts = none := by simp [parseE]
theorem loop_zero (T : Tbl) (q l ts) : loop T 0 q l ts = none := by simp [loop]
theorem parseE_atom (T : Tbl) (f q n ts) : parseE T (f+1) q (.atom n :: ts) = loop T f q (.atom n) ts := by
  simp only [parseE]
theorem parseE_lp (T : Tbl) (f q ts) : parseE T (f+1) q (.lp :: ts) =
    (match parseE T f 0 ts with
      | some (e, .rp :: ts'') => loop T f q e ts''
      | _ => none) := by
  simp only [parseE]; rfl
theorem parseE_nil (T : Tbl) (f q) : parseE T (f+1) q [] = none := by simp only [parseE]
theorem parseE_op (T : Tbl) (f q o ts) : parseE T (f+1) q (.op o :: ts) = none := by simp only [parseE]
theorem parseE_rp (T : Tbl) (f q ts) : parseE T (f+1) q (.rp :: ts) = none := by simp only [parseE]
theorem loop_op (T : Tbl) (f q l o ts) : loop T (f+1) q l (.op o :: ts) =
    (if T.bp o ≥ q then
        match parseE T f (T.next o) ts with
        | some (rhs, ts'') => loop T f q (.bin o l rhs) ts''
        | none => none
      else some (l, .op o :: ts)) := by
  simp only [loop]; rfl
theorem loop_nil (T : Tbl) (f q l) : loop T (f+1) q l [] = some (l, []) := by simp only [loop]
theorem loop_atom (T : Tbl) (f q l n ts) : loop T (f+1) q l (.atom n :: ts) = some (l, .atom n :: ts) := by simp only [loop]
theorem loop_lp (T : Tbl) (f q l ts) : loop T (f+1) q l (.lp :: ts) = some (l, .lp :: ts) := by simp only [loop]
theorem loop_rp (T : Tbl) (f q l ts) : loop T (f+1) q l (.rp :: ts) = some (l, .rp :: ts) := by simp only [loop]
theorem loop_stop (T : Tbl) (f q l ts) (h : ∀ o ts', ts = .op o :: ts' → T.bp o < q) :
    loop T (f+1) q l ts = some (l, ts) := by
  match ts with
  | [] => exact loop_nil ..
  | .atom _ :: _ => exact loop_atom ..
  | .lp :: _ => exact loop_lp ..
  | .rp :: _ => exact loop_rp ..
  | .op o :: ts' =>
    rw [loop_op]
    have := h o ts' rfl
    have : ¬ (T.bp o ≥ q) := by omega
    simp [this]

theorem mono (T : Tbl) : ∀ f,
    (∀ q ts r, parseE T f q ts = some r → parseE T (f+1) q ts = some r) ∧
    (∀ q l ts r, loop T f q l ts = some r → loop T (f+1) q l ts = some r) := by
  intro f
  induction f with
  | zero => exact ⟨by intro q ts r h; simp [parseE_zero] at h, by intro q l ts r h; simp [loop_zero] at h⟩
  | succ f ih =>
    obtain ⟨ihE, ihL⟩ := ih
    constructor
    · intro q ts r h
      match ts with
      | [] => simp [parseE_nil] at h
      | .atom n :: ts' =>
        rw [parseE_atom] at h ⊢
        exact ihL _ _ _ _ h
      | .lp :: ts' =>
        rw [parseE_lp] at h ⊢
        cases hp : parseE T f 0 ts' with
        | none => simp [hp] at h
        | some p =>
          obtain ⟨e, rest⟩ := p
          rw [hp] at h
          rw [ihE _ _ _ hp]
          match rest with
          | [] => simp at h
          | .rp :: ts'' => simp only at h ⊢; exact ihL _ _ _ _ h
          | .atom _ :: _ => simp at h
          | .op _ :: _ => simp at h
          | .lp :: _ => simp at h
      | .op _ :: _ => simp [parseE_op] at h
      | .rp :: _ => simp [parseE_rp] at h
    · intro q l ts r h
      match ts with
      | [] => rw [loop_nil] at h ⊢; exact h
      | .op o :: ts' =>
        rw [loop_op] at h ⊢
        by_cases hq : T.bp o ≥ q
        · simp only [hq, if_true] at h ⊢
          cases hp : parseE T f (T.next o) ts' with
          | none => simp [hp] at h
          | some p =>
            obtain ⟨rhs, ts''⟩ := p
            rw [hp] at h
            rw [ihE _ _ _ hp]
            exact ihL _ _ _ _ h
        · simp only [hq, if_false] at h ⊢
          exact h
      | .atom _ :: _ => rw [loop_atom] at h ⊢; exact h
      | .lp :: _ => rw [loop_lp] at h ⊢; exact h
      | .rp :: _ => rw [loop_rp] at h ⊢; exact h

theorem monoE_le (T : Tbl) {f g q ts r} (h : parseE T f q ts = some r) (hle : f ≤ g) : parseE T g q ts = some r := by
  induction hle with
  | refl => exact h
  | step _ ih => exact (mono T _).1 _ _ _ ih

theorem monoL_le (T : Tbl) {f g q l ts r} (h : loop T f q l ts = some r) (hle : f ≤ g) : loop T g q l ts = some r := by
  induction hle with
  | refl => exact h
  | step _ ih => exact (mono T _).2 _ _ _ _ ih

/-- operators on one level share associativity (true of any %left/%right table) -/
def Tbl.Consistent (T : Tbl) : Prop := ∀ o o', T.bp o = T.bp o' → T.rassoc o = T.rassoc o'

/-- the continuation `rest` is not swallowed by the (unparenthesised) right spine of `e` printed at `ctx` -/
def NA (T : Tbl) : Nat → Expr → List Tok → Prop
  | _, .atom _, _ => True
  | ctx, .bin o _ r, rest =>
    if T.bp o < ctx then True
    else (∀ t ts, rest = .op t :: ts → T.bp t < T.next o) ∧ NA T (T.next o) r rest

theorem na_of (T : Tbl) (t : Nat) (ts : List Tok) : ∀ (e : Expr) (c : Nat),
    (∀ o', c ≤ T.bp o' → T.bp t < T.next o') → NA T c e (.op t :: ts) := by
  intro e
  induction e with
  | atom n => intro c h; simp [NA]
  | bin o l r ihl ihr =>
    intro c h
    unfold NA
    by_cases hp : T.bp o < c
    · simp [hp]
    · simp only [hp, if_false]
      refine ⟨?_, ?_⟩
      · intro t' ts' heq
        injection heq with h1 h2
        injection h1 with h1
        subst h1
        exact h o (by omega)
      · apply ihr
        intro o'' hle
        have h1 := h o (by omega)
        have : T.bp o'' ≤ T.next o'' := by unfold Tbl.next; split <;> omega
        omega

theorem na_rp (T : Tbl) (ts : List Tok) : ∀ (e : Expr) (c : Nat), NA T c e (.rp :: ts) := by
  intro e
  induction e with
  | atom n => intro c; simp [NA]
  | bin o l r ihl ihr =>
    intro c
    unfold NA
    split
    · trivial
    · exact ⟨fun t ts' h => (by cases h), ihr _⟩

theorem na_nil (T : Tbl) : ∀ (e : Expr) (c : Nat), NA T c e [] := by
  intro e
  induction e with
  | atom n => intro c; simp [NA]
  | bin o l r ihl ihr =>
    intro c
    unfold NA
    split
    · trivial
    · exact ⟨fun t ts' h => (by cases h), ihr _⟩

def Fits (T : Tbl) (ctx q : Nat) : Expr → Prop
  | .atom _ => True
  | .bin o _ _ => T.bp o < ctx ∨ q ≤ T.bp o

theorem main (T : Tbl) (hT : T.Consistent) : ∀ (e : Expr) (ctx q : Nat) (rest : List Tok) (res) (g : Nat),
    Fits T ctx q e → NA T ctx e rest → loop T g q e rest = some res →
    ∃ f, parseE T f q (pr T ctx e ++ rest) = some res := by
  intro e
  induction e with
  | atom n =>
    intro ctx q rest res g _ _ hl
    refine ⟨g+1, ?_⟩
    simp only [pr, List.cons_append, List.nil_append]
    rw [parseE_atom]; exact hl
  | bin o l r ihl ihr =>
    -- core: the unparenthesised body
    have body : ∀ (q : Nat) (rest : List Tok) (res) (g : Nat), q ≤ T.bp o →
        (∀ t ts, rest = .op t :: ts → T.bp t < T.next o) → NA T (T.next o) r rest →
        loop T g q (.bin o l r) rest = some res →
        ∃ f, parseE T f q ((pr T (if T.rassoc o then T.bp o + 1 else T.bp o) l ++ [.op o] ++ pr T (T.next o) r) ++ rest) = some res := by
      intro q rest res g hq hhead hna hl
      -- right operand
      have hr1 : loop T 1 (T.next o) r rest = some (r, rest) := loop_stop T 0 _ _ _ hhead
      have hfitr : Fits T (T.next o) (T.next o) r := by
        cases r with
        | atom _ => trivial
        | bin o2 _ _ => unfold Fits; omega
      obtain ⟨fr, hfr⟩ := ihr (T.next o) (T.next o) rest (r, rest) 1 hfitr hna hr1
      -- the loop step on l
      let F := max fr g
      have hstep : loop T (F+1) q l (.op o :: (pr T (T.next o) r ++ rest)) = some res := by
        rw [loop_op]
        have : T.bp o ≥ q := hq
        simp only [this, if_true]
        rw [monoE_le T hfr (Nat.le_max_left _ _)]
        exact monoL_le T hl (Nat.le_max_right _ _)
      -- left operand
      have hfitl : Fits T (if T.rassoc o then T.bp o + 1 else T.bp o) q l := by
        cases l with
        | atom _ => trivial
        | bin o1 _ _ =>
          unfold Fits
          by_cases h : T.bp o1 < (if T.rassoc o then T.bp o + 1 else T.bp o)
          · exact Or.inl h
          · right
            by_cases hro : T.rassoc o
            · simp only [hro, if_true] at h; omega
            · simp only [hro] at h; simp at h; omega
      have hnal : NA T (if T.rassoc o then T.bp o + 1 else T.bp o) l (.op o :: (pr T (T.next o) r ++ rest)) := by
        apply na_of
        intro o' hle
        unfold Tbl.next
        by_cases hro : T.rassoc o
        · simp only [hro, if_true] at hle
          split <;> omega
        · simp [hro] at hle
          by_cases heq : T.bp o' = T.bp o
          · have := hT o' o heq
            rw [this]; simp [hro]; omega
          · split <;> omega
      obtain ⟨fl, hfl⟩ := ihl _ q _ res (F+1) hfitl hnal hstep
      refine ⟨fl, ?_⟩
      simpa [List.append_assoc] using hfl
    intro ctx q rest res g hfit hna hl
    unfold pr
    by_cases hp : T.bp o < ctx
    · -- parenthesised
      simp only [hp, if_true]
      have hin : ∃ f, parseE T f 0 ((pr T (if T.rassoc o then T.bp o + 1 else T.bp o) l ++ [.op o] ++ pr T (T.next o) r) ++ (.rp :: rest)) = some (.bin o l r, .rp :: rest) := by
        apply body 0 (.rp :: rest) _ 1 (Nat.zero_le _)
        · intro t ts h; cases h
        · exact na_rp T _ _ _
        · exact loop_stop T 0 _ _ _ (by intro t ts h; cases h)
      obtain ⟨fi, hfi⟩ := hin
      refine ⟨max fi g + 1, ?_⟩
      simp only [List.cons_append, List.nil_append, List.append_assoc]
      rw [parseE_lp]
      have := monoE_le T hfi (Nat.le_max_left fi g)
      simp only [List.cons_append, List.nil_append, List.append_assoc] at this
      rw [this]
      exact monoL_le T hl (Nat.le_max_right _ _)
    · simp only [hp, if_false]
      unfold NA at hna
      simp only [hp, if_false] at hna
      have hq : q ≤ T.bp o := by
        unfold Fits at hfit
        cases hfit with
        | inl h => exact absurd h hp
        | inr h => exact h
      exact body q rest res g hq hna.1 hna.2 hl

theorem roundtrip (T : Tbl) (hT : T.Consistent) (e : Expr) : ∃ f, parseE T f 0 (pr T 0 e) = some (e, []) := by
  have := main T hT e 0 0 [] (e, []) 1 (by cases e <;> simp [Fits]) (na_nil T e 0)
    (loop_stop T 0 0 e [] (by intro o ts h; cases h))
  simpa using this
#print axioms roundtrip
