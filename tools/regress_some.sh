#!/bin/bash
# tools/regress_some.sh <jobs> <PROP> [<PROP> ...]  -- tools/regress_seeds.sh restricted to the seeds filed under the given properties
J=$1; shift
cd "$(dirname "$0")/.."
for P in "$@"; do ls -d seeded/$P-*; done | sort -V | while read d; do grep -q '"retired"' $d/meta.json || echo $d; done | xargs -P "$J" -I{} sh -c '
  d={}; id=$(basename $d); P=${id%%-*}
  CHK=$(python3 tools/seed_check.py $d)
  NODEMO=1 tools/mt.sh rg-$id $d $CHK > /var/tmp/mt/rg-$id.log 2>&1
  if grep "^VIOLATION" /var/tmp/mt/rg-$id.log | grep -qv "no-failing-input-found"; then echo "$id caught $(grep -m1 "  key:" /var/tmp/mt/rg-$id.log)";
  elif grep -q "^VIOLATION" /var/tmp/mt/rg-$id.log; then echo "$id TIE-ONLY $(grep -m1 "  key:" /var/tmp/mt/rg-$id.log)"; else echo "$id MISSED"; fi
  git -C /repo worktree remove --force /var/tmp/mt/rg-$id/wt >/dev/null 2>&1; rm -rf /var/tmp/mt/rg-$id
' | sort -V
