// C02/C03 harness: the real parser on expression text, in a fixed scope, printing kind trees in the format of
// lean/UtapModel/Drv/C02.lean.  Line protocol (tab separated):
//   P <text>    parse_XTA(text, builder, newxta=true, S_EXPRESSION) -> kind tree | REJECT <msg> | SEMERR <msg> <tree>
//   Q <text>    additionally: str() of the tree, re-parse, equal(), second str()   (used by C03)
//   E <text>    parse_XTA(text, builder, newxta=true, S_EXPRESSION_LIST): a comma list -> kind tree with its COMMA nodes
//   X <context> <text>   the expression (contexts decl ... update2) or the comma list (contexts list-*) inside a whole model
#include "common.hpp"
#include "libparser.h"
#include "utap/statement.h"

using namespace UTAP;
using namespace UTAP::Constants;

static const char* DECLS = R"(
int a, b, c, d, e, i, j, k;
int arr[4]; int mat[3][3];
bool p, q;
double x, y;
clock cl;
typedef struct { int h; } In;
typedef struct { int f; int g; In in; int v[2]; } S;
S s; S ss[3];
int f0() { return 1; }
int f1(int u) { return u; }
int f2(int u, int v) { return u; }
int f3(int u, int v, int w) { return u; }
process P() { state s0; init s0; }
process PS(const int[0,3] pi, const int[0,3] pj) { int px; state L0; init L0; }
process PT(const int[0,2] tu, const int[0,2] tv, const int[0,2] tw) { int pz; state M0; init M0; }
system P, PS, PT;
)";

// kind tree in the model's format: constants with type tag, doubles as hex bits, DOT with the field *name*
static std::string ktree(const expression_t& e)
{
    if (e.empty()) return "()";
    std::ostringstream os;
    auto k = e.get_kind();
    os << "(" << vh::kindName(k);
    if (k == IDENTIFIER) os << " " << e.get_symbol().get_name();
    else if (k == CONSTANT) {
        type_t t = e.get_type();
        if (t.is(Constants::DOUBLE)) os << " double " << vh::hexDouble(e.get_double_value());
        else if (t.is_string()) os << " string " << std::string(e.get_string_value());
        else if (t.is(Constants::BOOL)) os << " bool " << e.get_value();
        else os << " int " << e.get_value();
    } else if (k == DOT) {
        type_t t = e[0].get_type();
        int idx = e.get_index();
        if (idx == std::numeric_limits<int32_t>::max()) os << " location";
        else if (t.is_record() || t.is_process()) os << " " << t.get_record_label(idx);
        else os << " #" << idx;
    }
    for (size_t i = 0; i < e.get_size(); ++i) os << " " << ktree(e[i]);
    os << ")";
    return os.str();
}

// --- the same expression inside other syntactic contexts (op X): the tree must not depend on the context -------------
static const char* CTX_DECLS = R"(
int a, b, c, d, e, i, j, k;
int arr[4]; int mat[3][3];
bool p, q;
double x, y;
clock cl;
typedef struct { int h; } In;
typedef struct { int f; int g; In in; int v[2]; } S;
S s; S ss[3];
int f0() { return 1; }
int f1(int u) { return u; }
int f2(int u, int v) { return u; }
int f3(int u, int v, int w) { return u; }
)";

static const char* CTX_DECLS_XML = CTX_DECLS;    // (no character of the block needs escaping in XML)

static std::string classify_errors(Document& doc, std::string& sem)
{
    std::string syn;
    for (auto& er : doc.get_errors()) {
        if (er.msg.find("syntax_error") != std::string::npos || er.msg.find("$Unknown_symbol") != std::string::npos ||
            er.msg.find("$Overflow") != std::string::npos || er.msg.find("$Comment_not_closed") != std::string::npos ||
            er.msg.find("$Identifier_is_too_long") != std::string::npos || er.msg.find("$String_literal_is_too_long") != std::string::npos)
            syn += (syn.empty() ? "" : " | ") + er.msg;
        else
            sem += (sem.empty() ? "" : " | ") + er.msg;
    }
    return syn;
}

static std::string in_context(const std::string& ctx, const std::string& text)
{
    std::string decl = CTX_DECLS, proc;
    if (ctx == "decl") decl += "int zz = " + text + ";\n";
    if (ctx == "stmt") decl += "int ff() { return " + text + "; }\n";
    if (ctx == "arg") decl += "int gg() { return f1(" + text + "); }\n";
    std::string inv = ctx == "inv" ? " { " + text + " }" : "";
    std::string labels;
    if (ctx == "guard") labels = " guard " + text + ";";
    if (ctx == "update") labels = " assign " + text + ";";
    if (ctx == "update2") labels = " assign a = 1, " + text + ";";
    // every place of the grammar that takes a comma list (`ExprList`): the client gets the whole list as one tree of COMMA nodes
    if (ctx == "list-update") labels = " assign " + text + ";";
    if (ctx == "list-for-init") decl += "void hh() { for (" + text + "; a < 3; a++) { } }\n";
    if (ctx == "list-for-cond") decl += "void hh() { for (a = 0; " + text + "; a++) { } }\n";
    if (ctx == "list-for-step") decl += "void hh() { for (a = 0; a < 3; " + text + ") { } }\n";
    if (ctx == "list-while") decl += "void hh() { while (" + text + ") { } }\n";
    if (ctx == "list-do-while") decl += "void hh() { do { } while (" + text + "); }\n";
    if (ctx == "list-if") decl += "void hh() { if (" + text + ") { } }\n";
    if (ctx == "list-before") decl += "before_update { " + text + " }\n";
    if (ctx == "list-after") decl += "after_update { " + text + " }\n";
    proc = "process Q() { state s0" + inv + "; init s0; trans s0 -> s0 {" + labels + " }; }\nsystem Q;\n";
    std::string src = decl + proc;
    Document doc;
    DocumentBuilder builder(doc);
    std::string sem;
    try {
        if (ctx == "list-xml-assignment") {
            // the same list as the text of an <label kind="assignment"> (XMLReader hands it to the parser as S_ASSIGN)
            std::string esc;
            for (char ch : text) esc += ch == '&' ? "&amp;" : ch == '<' ? "&lt;" : ch == '>' ? "&gt;" : std::string(1, ch);
            std::string xml = "<?xml version=\"1.0\" encoding=\"utf-8\"?>\n<nta><declaration>" + std::string(CTX_DECLS_XML) +
                              "</declaration><template><name>Q</name><location id=\"id0\"><name>s0</name></location><init ref=\"id0\"/>"
                              "<transition><source ref=\"id0\"/><target ref=\"id0\"/><label kind=\"assignment\">" + esc +
                              "</label></transition></template><system>system Q;</system></nta>";
            parse_XML_buffer(xml.c_str(), &builder, true);
        } else
            parse_XTA(src.c_str(), &builder, true);
    } catch (std::exception& ex) {
        return std::string("EXCEPTION ") + ex.what();
    }
    std::string syn = classify_errors(doc, sem);
    if (!syn.empty()) return "REJECT " + syn;
    expression_t e;
    if (ctx == "decl") {
        for (auto& v : doc.get_globals().variables) if (v.uid.get_name() == "zz") e = v.init;
    } else if (ctx == "stmt" || ctx == "arg") {
        for (auto& f : doc.get_globals().functions)
            if (f.uid.get_name() == (ctx == "stmt" ? "ff" : "gg") && f.body)
                for (auto& st : *f.body)
                    if (auto* r = dynamic_cast<ReturnStatement*>(st.get())) e = r->value;
        if (ctx == "arg" && !e.empty() && e.get_size() == 2) e = e[1];
    } else if (ctx == "list-before") {
        e = doc.get_before_update();
    } else if (ctx == "list-after") {
        e = doc.get_after_update();
    } else if (ctx.rfind("list-", 0) == 0 && ctx != "list-update" && ctx != "list-xml-assignment") {
        for (auto& f : doc.get_globals().functions)
            if (f.uid.get_name() == "hh" && f.body)
                for (auto& st : *f.body) {
                    if (auto* r = dynamic_cast<ForStatement*>(st.get()))
                        e = ctx == "list-for-init" ? r->init : ctx == "list-for-cond" ? r->cond : r->step;
                    else if (auto* w = dynamic_cast<WhileStatement*>(st.get())) e = w->cond;
                    else if (auto* d = dynamic_cast<DoWhileStatement*>(st.get())) e = d->cond;
                    else if (auto* i = dynamic_cast<IfStatement*>(st.get())) e = i->cond;
                }
    } else {
        if (doc.get_templates().empty()) return "NOTREE";
        auto& t = doc.get_templates().front();
        if (ctx == "list-update" || ctx == "list-xml-assignment") e = t.edges.empty() ? expression_t() : t.edges.front().assign;
        else
        if (ctx == "inv") e = t.locations.front().invariant;
        else if (ctx == "guard") e = t.edges.front().guard;
        else if (ctx == "update") e = t.edges.front().assign;
        else if (ctx == "update2") { e = t.edges.front().assign; if (!e.empty() && e.get_kind() == COMMA) e = e[1]; else e = expression_t(); }
    }
    if (e.empty()) return "NOTREE";
    return (sem.empty() ? "" : "SEMERR " + sem + " ") + ktree(e);
}

int main(int argc, char** argv)
{
    Document doc;
    // a variable whose name has exactly the greatest length the lexer accepts (MAXLEN - 1 characters)
    const std::string decls = "int " + std::string(MAXLEN - 1, 'n') + ";\n" + std::string(DECLS);
    if (!parse_XTA(decls.c_str(), &doc, true) || doc.has_errors()) {
        std::cout << "SCOPE-ERROR\n";
        for (auto& e : doc.get_errors()) std::cout << e.msg << "\n";
        return 2;
    }
    std::string line;
    while (std::getline(std::cin, line)) {
        if (line.size() < 2 || line[1] != '\t') { std::cout << "bad-op\n"; continue; }
        char op = line[0];
        std::string text = line.substr(2);
        if (op == 'X') {
            auto tab = text.find('\t');
            std::string o = tab == std::string::npos ? "bad-op" : in_context(text.substr(0, tab), text.substr(tab + 1));
            for (auto& ch : o) if (ch == '\n') ch = ' ';
            std::cout << o << "\n";
            continue;
        }
        doc.clear_errors();
        doc.clear_warnings();
        std::string out;
        try {
            vh::ExprGrabber g(doc);
            parse_XTA(text.c_str(), &g, true, op == 'E' ? S_EXPRESSION_LIST : S_EXPRESSION, "");
            std::string syn, sem;
            for (auto& er : doc.get_errors()) {
                if (er.msg.find("syntax_error") != std::string::npos || er.msg.find("$Unknown_symbol") != std::string::npos ||
                    er.msg.find("$Overflow") != std::string::npos || er.msg.find("$Comment_not_closed") != std::string::npos ||
            er.msg.find("$Identifier_is_too_long") != std::string::npos || er.msg.find("$String_literal_is_too_long") != std::string::npos)
                    syn += (syn.empty() ? "" : " | ") + er.msg;
                else
                    sem += (sem.empty() ? "" : " | ") + er.msg;
            }
            if (!syn.empty()) out = "REJECT " + syn;
            else if (g.nfragments() != 1) out = "BADSTACK " + std::to_string(g.nfragments());
            else {
                expression_t e = g.top();
                out = (sem.empty() ? "" : "SEMERR " + sem + " ") + ktree(e);
                if (op == 'Q' && sem.empty()) {
                    std::string s1, s2, k2;
                    bool eq = false;
                    // is the expression accepted by the type checker (the property speaks about accepted expressions)?
                    bool typeok = false;
                    try {
                        doc.clear_errors();
                        TypeChecker tc(doc);
                        expression_t ec = e.clone_deeper();
                        typeok = tc.checkExpression(ec) && !doc.has_errors();
                    } catch (std::exception&) { typeok = false; }
                    try {
                        s1 = e.str();
                        doc.clear_errors();
                        vh::ExprGrabber g2(doc);
                        parse_XTA(s1.c_str(), &g2, true, S_EXPRESSION, "");
                        if (doc.has_errors() || g2.nfragments() != 1) k2 = "REPARSE-REJECT " + (doc.has_errors() ? doc.get_errors()[0].msg : std::string("stack"));
                        else {
                            expression_t e2 = g2.top();
                            k2 = ktree(e2);
                            eq = e2.equal(e);
                            s2 = e2.str();
                        }
                    } catch (std::exception& ex) { k2 = std::string("STR-EXCEPTION ") + ex.what(); }
                    out += "\t" + s1 + "\t" + k2 + "\t" + (eq ? "equal" : "notequal") + "\t" + s2 + "\t" + (typeok ? "typeok" : "typeerr");
                }
            }
        } catch (std::exception& ex) {
            out = std::string("EXCEPTION ") + ex.what();
        }
        for (auto& ch : out) if (ch == '\n') ch = ' ';
        std::cout << out << "\n";
    }
    return 0;
}
