/- Shared line-protocol driver code of drv_c11 / drv_c13: reads the `M (model ...)` lines printed by harness/c11_effects.hpp
   (the *real* function bodies and context expressions of a parsed document), runs the model of Model/Effect.lean with the
   generated configuration and prints the model's answers in the format of the harness' own `FI` / `X` lines. -/
import UtapModel.Model.EffectSpec
import UtapModel.Gen.EffectGen
namespace UtapModel.EffectDrv
open UtapModel UtapModel.Effect UtapModel.EffectGen

inductive SExp where
  | atom (s : String)
  | list (xs : List SExp)
deriving Inhabited

partial def parseList (cs : List Char) (acc : List SExp) : Option (List SExp × List Char) :=
  match cs with
  | [] => none
  | ')' :: rest => some (acc.reverse, rest)
  | ' ' :: rest => parseList rest acc
  | '(' :: rest =>
    match parseList rest [] with
    | some (xs, rest') => parseList rest' (SExp.list xs :: acc)
    | none => none
  | _ =>
    let tok := cs.takeWhile (fun c => c != ' ' && c != '(' && c != ')')
    parseList (cs.drop tok.length) (SExp.atom (String.ofList tok) :: acc)

def parseSExp (s : String) : Option SExp :=
  match parseList (s.toList ++ [')']) [] with
  | some ([x], _) => some x
  | _ => none

def symOf (s : String) : Nat := ((s.drop 1).toString.toNat?).getD 0

partial def toExpr : SExp → Expr
  | .list [] => Expr.nil
  | .list (.atom k :: rest) =>
    let kind := (Kind.ofName? k).getD .kUNKNOWN
    match rest with
    | .atom a :: rest' => if a.startsWith "#" then .node kind (symOf a) (rest'.map toExpr) else .node kind 0 (rest.map toExpr)
    | _ => .node kind 0 (rest.map toExpr)
  | _ => Expr.nil

def initsOf : SExp → List Expr
  | .list (.atom "inits" :: xs) => xs.map toExpr
  | _ => []

partial def toStmt : SExp → Stmt
  | .list [.atom "empty"] => .empty
  | .list [.atom "break"] => .breakS
  | .list [.atom "continue"] => .continueS
  | .list [.atom "expr", e] => .exprS (toExpr e)
  | .list [.atom "assert", e] => .assertS (toExpr e)
  | .list [.atom "for", i, c, s, b] => .forS (toExpr i) (toExpr c) (toExpr s) (toStmt b)
  | .list [.atom "iter", .atom s, b] => .iterS (symOf s) (toStmt b)
  | .list [.atom "while", c, b] => .whileS (toExpr c) (toStmt b)
  | .list [.atom "dowhile", b, c] => .doWhileS (toStmt b) (toExpr c)
  | .list (.atom "block" :: i :: ss) => .block (initsOf i) (ss.map toStmt)
  | .list (.atom "switch" :: c :: i :: ss) => .switchS (toExpr c) (initsOf i) (ss.map toStmt)
  | .list (.atom "case" :: c :: i :: ss) => .caseS (toExpr c) (initsOf i) (ss.map toStmt)
  | .list (.atom "default" :: i :: ss) => .defaultS (initsOf i) (ss.map toStmt)
  | .list [.atom "if", c, t] => .ifS (toExpr c) (toStmt t) .empty
  | .list [.atom "if", c, t, e] => .ifS (toExpr c) (toStmt t) (toStmt e)
  | .list [.atom "return", e] => .returnS (toExpr e)
  | _ => .empty

def atomsOf : SExp → List String
  | .list (_ :: xs) => xs.filterMap (fun x => match x with | .atom a => some a | _ => none)
  | _ => []

def toFun : SExp → Option FunDecl
  | .list [.atom "fun", .atom f, ps, rs, ls, body] =>
    some { name := symOf f, params := (atomsOf ps).map symOf, refNonConst := (atomsOf rs).map (· == "1"),
           locals := (atomsOf ls).map symOf, body := toStmt body }
  | _ => none

structure SymRow where
  id : Nat
  isFun : Bool
  realCtc : Bool
  cls : String

def toSym : SExp → Option SymRow
  | .list [.atom "s", .atom i, .atom f, .atom c, .atom cls] => some { id := symOf i, isFun := f == "1", realCtc := c == "1", cls := cls }
  | _ => none

/-- CompileTimeComputableValues, recomputed from the structural class of the symbol:
    visitVariable: constant global / template variables; visitInstance: constant, non-reference, non-double parameters;
    add_symbol: quantifier binders. -/
def expectedCtc (cls : String) : Bool :=
  cls == "gvar:const" || cls == "tvar:const" || cls == "tparam:val:const" || cls == "binder"

def sortDedup (xs : List Nat) : List Nat :=
  let a := xs.toArray.qsort (· < ·)
  a.toList.eraseDups

def showIds (xs : List Nat) : String := ",".intercalate ((sortDedup xs).map toString)

def showB (b : Bool) : String := if b then "1" else "0"

def natsOf (xs : List SExp) : List Nat :=
  xs.filterMap (fun x => match x with | .atom a => a.toNat? | _ => none)

def runModel (line : String) : List String :=
  match parseSExp line with
  | some (.list (.atom "model" :: .list (.atom "syms" :: syms) :: .list (.atom "funs" :: funs) :: .list (.atom "ctxs" :: ctxs) :: more)) =>
    let rows := syms.filterMap toSym
    let P := funs.filterMap toFun
    let env := analyse genCfg P
    let tab : SymTab := rows.map (fun r => (r.id, { isFunction := r.isFun, ctc := expectedCtc r.cls }))
    let bad := rows.filter (fun r => expectedCtc r.cls != r.realCtc)
    let xs := ctxs.filterMap (fun c => match c with
      | .list [.atom "ctx", .atom n, e] =>
        let ex := toExpr e
        some s!"X {n} changes={showB (changesAny genCfg env ex)} ctc={showB (isCTC genCfg env tab ex)}"
      | _ => none)
    let fs := P.map (fun fd => match env.find fd.name with
      | some fi => s!"FI {fd.name} changes=[{showIds fi.changes}] depends=[{showIds fi.depends}]"
      | none => s!"FI {fd.name} missing")
    -- restricted sets of the templates: closure of the array-size bounds over the variables' initialisers (builder view)
    let cexprs : List (Nat × Expr) := ctxs.filterMap (fun c => match c with
      | .list [.atom "ctx", .atom n, e] => some (n.toNat?.getD 0, toExpr e)
      | _ => none)
    let exprAt (n : Nat) : Expr := ((cexprs.find? (fun p => p.1 == n)).map (·.2)).getD Expr.nil
    let vars : List VarDecl := match more with
      | .list (.atom "vars" :: vs) :: _ => vs.filterMap (fun v => match v with
          | .list [.atom "v", .atom sy, .atom ci] => some { sym := symOf sy, init := exprAt (ci.toNat?.getD 0) }
          | _ => none)
      | _ => []
    let fuel := 4 * rows.length + 64
    let rs : List String := match more with
      | _ :: .list (.atom "tmpls" :: ts) :: _ => ts.filterMap (fun t => match t with
          | .list (.atom "t" :: .atom name :: seeds) =>
            let r := (natsOf seeds).foldl (fun acc n => match acc with
              | some a => collectDependencies genCfg vars fuel a (exprAt n)
              | none => none) (some [])
            match r with
            | some a => some s!"RS {name} restricted=[{showIds a}]"
            | none => some s!"RS {name} out-of-fuel"
          | _ => none)
      | _ => []
    [s!"DBU {showB (declaredBeforeUse P)} funs={P.length} ctxs={xs.length} extfree={showB (bodiesExtFree genCfg P)}", "EXCEPTIONS " ++ " ".intercalate (c13Exceptions genCfg),
     "EXCEPTIONS11 " ++ " ".intercalate (c11Exceptions genCfg)] ++ rs ++
      bad.map (fun r => s!"CTCSET-MISMATCH #{r.id} class={r.cls} real={showB r.realCtc}") ++ xs ++ fs ++ ["ENDM"]
  | _ => ["BAD-MODEL-LINE", "ENDM"]

partial def loop (h : IO.FS.Stream) (out : IO.FS.Stream) : IO Unit := do
  let line ← h.getLine
  if line.isEmpty then return ()
  let l := line.trimAscii.toString
  if l.startsWith "M " then
    for o in runModel (l.drop 2).toString do
      out.putStrLn o
  loop h out

def driverMain : IO Unit := do
  let out ← IO.getStdout
  loop (← IO.getStdin) out

end UtapModel.EffectDrv
