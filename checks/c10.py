"""C10 -- only convex clock constraints are accepted as guards and invariants.

 1 translate   src/typechecker.cpp + include/utap/type.h -> lean/UtapModel/Gen/TypeClauses.lean (tie T; shared with C14)
 2 prove       UtapModel.Props.C10: structural induction over formula trees of any depth; per-operator facts are
               complete finite tables over the type kinds evaluated by the kernel on the regenerated clauses
 3 exceptions  the computed exception set `leafExceptions` (drv_c10): each member is replayed on the real library
               (the leaf, its disjunction and its negation as guard) and reported as a finding
 4 correspond  (a) expression level: every binary operator x every ordered pair of operand classes, NOT, quantifiers
                   (real TypeChecker::checkExpression vs generated model, via the C14 harness/driver)
               (b) formula level: random formula trees up to depth 8 placed as guard and as invariant in real XML
                   models (parse_XML_file / _buffer / _fd: XML reader, parser, builder, type checker) vs drv_c10; the models vary
                   where the formula stands (self loop, edge into / out of a branchpoint, dynamic or unused template, after labels
                   that bind the clocks' names in a scope of their own) and how its text is written (entities, CDATA)
 5 search      the property itself on the implementation's verdicts: accepted  =>  convex (python reference
               implementation of `Convex`, independent of the Lean one); plain conjunctions of accepted atoms accepted
"""
import json
import os
import re
import sys
from xml.sax.saxutils import escape

from vlib import core

sys.path.insert(0, os.path.join(core.VERIF, "translate"))
import typeclauses  # noqa: E402
from checks import c14 as C14  # noqa: E402

MODULE = "UtapModel.Props.C10"
CMPS = {"LT": "<", "LE": "<=", "EQ": "==", "NEQ": "!=", "GE": ">=", "GT": ">"}
SIDES = ["INT", "BOOL", "CLOCK", "DIFF"]
BIN = {"&": ["&&", "and"], "|": ["||", "or"], ">": ["imply"], "^": ["xor"], "=": ["=="], "#": ["!="]}

DECLS = """const int N = 3;
int i; int j; int[0,5] bi; bool b; bool b2;
clock x, y, z; clock xs[2];
"""


# ------------------------------------------------------------------------------------------------ formula trees
def leaf_ok(l, r):
    if l == "INT" or r == "INT":
        return True
    return (l, r) in (("BOOL", "BOOL"), ("CLOCK", "CLOCK"))


def clock_free(f):
    t = f[0]
    if t == "I":
        return True
    if t == "C":
        return f[2] in ("INT", "BOOL") and f[3] in ("INT", "BOOL")
    return all(clock_free(c) for c in f[1:])


def convex(f):
    """reference implementation of the property's side condition, straight from the statement"""
    t = f[0]
    if t in ("I", "C"):
        return True
    if t == "&":
        return convex(f[1]) and convex(f[2])
    if t == "|":
        return (clock_free(f[1]) and convex(f[2])) or (convex(f[1]) and clock_free(f[2]))
    if t == "!":
        return clock_free(f[1])
    if t == ">":
        return clock_free(f[1]) and convex(f[2])
    if t in ("^", "=", "#"):
        return clock_free(f[1]) and clock_free(f[2])
    if t == "A":
        return convex(f[1])
    if t == "E":
        return clock_free(f[1])
    raise ValueError(t)


def leaves(f):
    if f[0] in ("I", "C"):
        return [f]
    return [x for c in f[1:] for x in leaves(c)]


def is_conj(f):
    if f[0] == "&":
        return is_conj(f[1]) and is_conj(f[2])
    return f[0] in ("I", "C")


def wire(f):
    t = f[0]
    if t == "I":
        return "I " + f[1]
    if t == "C":
        return "C %s %s %s" % (f[1], f[2], f[3])
    return t + " " + " ".join(wire(c) for c in f[1:])


def depth(f):
    return 1 if f[0] in ("I", "C") else 1 + max(depth(c) for c in f[1:])


def size(f):
    return 1 if f[0] in ("I", "C") else 1 + sum(size(c) for c in f[1:])


def render_side(r, s, binders):
    if s == "INT":
        opts = ["3", "i", "j + 1", "N", "0", "bi", "2 * i"]
        if binders:
            opts += ["k%d" % (binders - 1)] * 2
        return r.choice(opts)
    if s == "BOOL":
        return r.choice(["b", "true", "b2"])
    if s == "CLOCK":
        opts = ["x", "y", "z", "xs[0]"]
        if binders:
            opts += ["xs[k%d]" % (binders - 1)]
        return r.choice(opts)
    return r.choice(["x - y", "y - z", "z - x", "x - xs[1]"])


def render(r, f, binders=0):
    """UPPAAL text of a formula tree; the concrete leaf expressions are chosen at random among expressions of the leaf's class"""
    t = f[0]
    if t == "I":
        if f[1] == "INT":
            return r.choice(["i", "(j + 1)", "2", "(i * j)", "bi"])
        return r.choice(["b", "(i < 3)", "(i == j)", "true", "b2", "(i >= 0)", "(bi != 2)", "false"])
    if t == "C":
        return "(%s %s %s)" % (render_side(r, f[2], binders), CMPS[f[1]], render_side(r, f[3], binders))
    if t == "!":
        return "%s(%s)" % (r.choice(["!", "not "]), render(r, f[1], binders))
    if t == "A":
        return "(forall (k%d : int[0,1]) %s)" % (binders, render(r, f[1], binders + 1))
    if t == "E":
        return "(exists (k%d : int[0,1]) %s)" % (binders, render(r, f[1], binders + 1))
    return "(%s %s %s)" % (render(r, f[1], binders), r.choice(BIN[t]), render(r, f[2], binders))


# precedence levels of the UPPAAL operator table (written down here, not read from the repository): all left associative
LV = {"|": 1, ">": 1, "^": 1, "&": 2, "=": 3, "#": 3}
LV_REL, LV_NOT, LV_ATOM = 4, 9, 10


def level_of(f):
    t = f[0]
    if t == "I":
        return LV_ATOM
    if t == "C":
        return 3 if f[1] in ("EQ", "NEQ") else LV_REL
    if t == "!":
        return LV_NOT
    if t in ("A", "E"):
        return 0
    return LV[t]


def render_min(r, f, binders=0):
    """the same formula with only the parentheses the operator table requires"""
    t = f[0]

    def sub(c, parent_level, right):
        txt = render_min(r, c, binders + (1 if t in ("A", "E") else 0))
        lc = level_of(c)
        return "(%s)" % txt if (lc < parent_level or (lc == parent_level and right)) else txt
    if t == "I":
        return render(r, f, binders)
    if t == "C":
        return "%s %s %s" % (render_side(r, f[2], binders), CMPS[f[1]], render_side(r, f[3], binders))
    if t == "!":
        return "%s%s" % (r.choice(["!", "not "]), sub(f[1], LV_NOT, False))
    if t in ("A", "E"):
        return "%s (k%d : int[0,1]) %s" % ("forall" if t == "A" else "exists", binders, render_min(r, f[1], binders + 1))
    return "%s %s %s" % (sub(f[1], LV[t], False), r.choice(BIN[t]), sub(f[2], LV[t], True))


def gen_leaf(r, clocky):
    if not clocky or r.random() < 0.25:
        if r.random() < 0.7:
            return ("I", r.choice(["BOOL", "BOOL", "INT"]))
        return ("C", r.choice(list(CMPS)), r.choice(["INT", "BOOL"]), r.choice(["INT", "BOOL"]))
    op = r.choice(list(CMPS))
    l, rr = r.choice([("CLOCK", "INT"), ("INT", "CLOCK"), ("DIFF", "INT"), ("INT", "DIFF"), ("CLOCK", "CLOCK"), ("CLOCK", "INT")])
    return ("C", op, l, rr)


def gen_formula(r, d, mode):
    """mode 'any': uniform connectives; 'convex': mostly shapes the checker should accept, with occasional violations"""
    if d <= 1 or r.random() < 0.18:
        return gen_leaf(r, True)
    if mode == "convex":
        w = r.random()
        if w < 0.45:
            return ("&", gen_formula(r, d - 1, mode), gen_formula(r, d - 1, mode))
        if w < 0.62:
            a, b_ = gen_clockfree(r, d - 1), gen_formula(r, d - 1, mode)
            return ("|", a, b_) if r.random() < 0.5 else ("|", b_, a)
        if w < 0.72:
            return ("A", gen_formula(r, d - 1, mode))
        if w < 0.80:
            return (">", gen_clockfree(r, d - 1), gen_formula(r, d - 1, mode))
        if w < 0.86:
            return ("!", gen_clockfree(r, d - 1))
        if w < 0.90:
            return (r.choice(["^", "=", "#"]), gen_clockfree(r, d - 1), gen_clockfree(r, d - 1))
        if w < 0.93:
            return ("E", gen_clockfree(r, d - 1))
        return gen_formula(r, d, "any")
    t = r.choice(["&", "&", "|", "|", "!", ">", "^", "=", "#", "A", "E"])
    if t in ("!", "A", "E"):
        return (t, gen_formula(r, d - 1, mode))
    return (t, gen_formula(r, d - 1, mode), gen_formula(r, d - 1, mode))


def gen_clockfree(r, d):
    if d <= 1 or r.random() < 0.3:
        return gen_leaf(r, False)
    t = r.choice(["&", "|", "!", ">", "^", "=", "#", "A", "E"])
    if t in ("!", "A", "E"):
        return (t, gen_clockfree(r, d - 1))
    return (t, gen_clockfree(r, d - 1), gen_clockfree(r, d - 1))


def listed_shapes():
    """the shapes the statement lists explicitly, over all bound atoms"""
    c = ("C", "LT", "CLOCK", "INT")
    d = ("C", "GE", "CLOCK", "INT")
    e = ("C", "LE", "DIFF", "INT")
    out = [("|", c, d), ("!", c), (">", c, d), ("E", c), ("=", c, d), ("#", c, d), ("^", c, d), ("|", ("!", c), d), ("&", ("|", c, d), c),
           ("|", c, e), ("!", e), ("E", e), ("&", c, d), ("&", c, ("&", d, e)), ("A", c), ("A", ("&", c, e)), ("|", c, ("I", "BOOL")),
           ("|", ("I", "BOOL"), e), (">", ("I", "BOOL"), c), ("!", ("I", "BOOL")), ("E", ("I", "BOOL")), ("^", ("I", "BOOL"), ("I", "INT"))]
    for op in CMPS:
        for l in SIDES:
            for rr in SIDES:
                a = ("C", op, l, rr)
                out += [a, ("|", a, a), ("!", a), ("&", a, c), ("A", a), ("E", a)]
    return out


# ------------------------------------------------------------------------------------------------ XML models
SHAPES = ["plain", "rate", "uninstantiated", "dynamic", "branch-out", "branch-in", "shadow"]
# how the model text reaches the library: entry point x the way a label's text is written in the XML.  Each entry point configures its own
# libxml2 reader, and `x < 5 && b` is as often written as a CDATA section as with entities
DELIVERIES = [("file", "entity"), ("buffer", "cdata"), ("fd", "entity"), ("buffer", "entity"), ("file", "cdata"), ("fd", "cdata"),
              ("buffer", "mixed"), ("file", "mixed")]


def placement(n):
    """shape and delivery of the n-th model of a run (the two lengths are coprime: every combination comes up)"""
    return SHAPES[n % len(SHAPES)], DELIVERIES[n % len(DELIVERIES)]


def label_text(t, enc):
    """the character data of a label: with entities, as one CDATA section, or as a CDATA section followed by ordinary text"""
    if enc == "entity":
        return escape(t)

    def cdata(u):
        return "<![CDATA[" + u.replace("]]>", "]]]]><![CDATA[>") + "]]>"
    if enc == "mixed" and " " in t[1:-1]:
        k = t.index(" ", len(t) // 2) if " " in t[len(t) // 2:] else t.rindex(" ")
        return cdata(t[:k]) + escape(t[k:])
    return cdata(t)


# labels that bind the names of the global clocks in a scope that ends with the label / the edge / the function: what such a label binds
# must be gone when the next label is read.  (edge: select, guard, assignment; location: invariant, rate)
DECOY_EDGES = [("x : int[0,1], y : int[0,1]", "exists (q : int[0,1]) (b && x == q)", None),
               (None, "exists (x : int[0,1]) (x == i)", None),
               ("z : int[0,1]", "forall (q : int[0,1]) (z >= q || b)", None),
               (None, "forall (y : int[0,1]) exists (z : int[0,1]) (y + z > i)", "i = sum (x : int[0,1]) x"),
               ("xs : int[0,1], x : int[0,1]", "xs == x && (exists (y : int[0,1]) y == xs)", "j = shadowed(x, xs)"),
               (None, "b || (exists (x : int[0,1]) forall (y : int[0,1]) exists (z : int[0,1]) x + y == z)", None)]
DECOY_LOCS = [("exists (x : int[0,1]) (x == i)", None),
              ("forall (y : int[0,1]) (y <= bi)", "1 + (sum (z : int[0,1]) z)"),
              ("b || (exists (x : int[0,1]) exists (y : int[0,1]) x == y)", None),
              (None, "1 + (sum (x : int[0,1]) x)"),
              ("forall (z : int[0,1]) exists (x : int[0,1]) (x + z > i)", None)]
SHADOW_DECLS = "int shadowed(int x, int z) { int y = x; return y + z; }"


def xml_model(texts, shape="plain", enc="entity", with_layout=False):
    """one template P; formula i is the invariant of location L<i> and the guard of edge i.  The verdict on a formula must not depend on what
    else the model carries, on where the edge goes, or on how (whether) the template reaches the system:
      plain           edge i is a self loop on L<i>
      rate            every location also has an exponential rate label
      uninstantiated  P is not on the system line (a second template is); the type checker still checks it
      dynamic         P is a dynamic template, spawned by the template on the system line
      branch-out      edge i LEAVES a branchpoint (it also carries a probability label); the edge entering the branchpoint is unlabelled
      branch-in       edge i enters a branchpoint, two weighted edges leave it
      shadow          before every L<i> / edge i stands a decoy location / edge whose labels bind the names of the global clocks (select
                      variables, quantifier and sum binders); a function and an earlier template do the same with parameters and locals
    Returns the XML text; with_layout also (index of P among the templates, formula index per location, formula index per transition) in
    document order, None for elements that carry no formula."""
    def lab(kind, t):
        return "" if t is None else '<label kind="%s">%s</label>' % (kind, label_text(t, enc) if kind in ("guard", "invariant") else escape(t))
    locs, trans, late, bps = [], [], [], []
    loc_of, edge_of = [], []
    for n, t in enumerate(texts):
        if shape == "shadow":
            inv, rate_ = DECOY_LOCS[n % len(DECOY_LOCS)]
            locs.append('<location id="idd%d"><name>D%d</name>%s%s</location>' % (n, n, lab("invariant", inv), lab("exponentialrate", rate_)))
            loc_of.append(None)
            sel, grd, upd = DECOY_EDGES[n % len(DECOY_EDGES)]
            trans.append('<transition><source ref="idd%d"/><target ref="id%d"/>%s%s%s</transition>'
                         % (n, n, lab("select", sel), lab("guard", grd), lab("assignment", upd)))
            edge_of.append(None)
        rate = '<label kind="exponentialrate">%d</label>' % (n % 3 + 1) if shape == "rate" else ""
        locs.append('<location id="id%d"><name>L%d</name>%s%s</location>' % (n, n, lab("invariant", t), rate))
        loc_of.append(n)
        src = dst = "id%d" % n
        extra_lab = ""
        if shape == "branch-out":
            bps.append('<branchpoint id="bp%d"/>' % n)
            late.append('<transition><source ref="id%d"/><target ref="bp%d"/></transition>' % (n, n))
            src, extra_lab = "bp%d" % n, lab("probability", str(n % 4 + 1))
        elif shape == "branch-in":
            bps.append('<branchpoint id="bp%d"/>' % n)
            late += ['<transition><source ref="bp%d"/><target ref="id%d"/>%s</transition>' % (n, n, lab("probability", str(w))) for w in (1, 2)]
            dst = "bp%d" % n
        trans.append('<transition><source ref="%s"/><target ref="%s"/>%s%s</transition>' % (src, dst, lab("guard", t), extra_lab))
        edge_of.append(n)
    edge_of += [None] * len(late)
    decls, extra, before, system, pdecl = DECLS, "", "", "system P;", ""
    if shape in ("uninstantiated", "dynamic"):
        upd = '<label kind="assignment">spawn P()</label>' if shape == "dynamic" else ""
        extra = ('<template><name>Q</name><location id="idq"><name>Q0</name></location><init ref="idq"/>'
                 '<transition><source ref="idq"/><target ref="idq"/>%s</transition></template>\n' % upd)
        system = "system Q;"
        if shape == "dynamic":
            decls = DECLS + "\ndynamic P();"
    if shape == "shadow":
        pdecl = SHADOW_DECLS
        before = ('<template><name>S</name><parameter>const int[0,1] x, int &amp;y</parameter><declaration>int z; bool xs;</declaration>'
                  '<location id="ids"><name>S0</name></location><init ref="ids"/>'
                  '<transition><source ref="ids"/><target ref="ids"/>%s%s</transition></template>\n'
                  % (lab("select", "xs : int[0,1]"), lab("guard", "exists (z : int[0,1]) x + y + z > xs")))
    xml = ('<?xml version="1.0" encoding="utf-8"?>\n<nta><declaration>%s</declaration>\n%s<template><name>P</name><declaration>%s</declaration>\n%s\n%s\n'
           '<init ref="id0"/>\n%s\n</template>\n%s<system>%s</system></nta>\n'
           % (escape(decls), before, escape(pdecl), "\n".join(locs), "\n".join(bps), "\n".join(trans + late), extra, system))
    return (xml, (2 if before else 1, loc_of, edge_of)) if with_layout else xml


def run_models(build, docs, places=None):
    """docs: list of lists of formula texts; places: (shape, (entry point, label encoding)) per doc, default placement(n).
    Returns per doc: (list of dict(inv_ok, guard_ok, guard_type, inv_msgs, guard_msgs), raw block)"""
    exe = core.build_harness(build, "c10", ["c10.cpp"])
    d = os.path.join(core.CACHE, "c10-work-%d" % os.getpid())
    os.makedirs(d, exist_ok=True)
    paths, lines, layouts = [], [], []
    try:
        for n, texts in enumerate(docs):
            shape, (entry, enc) = places[n] if places else placement(n)
            p = os.path.join(d, "m%05d.xml" % n)
            xml, layout = xml_model(texts, shape, enc, with_layout=True)
            open(p, "w").write(xml)
            paths.append(p)
            lines.append("%s %s" % (entry, p))
            layouts.append(layout)
        rc, out, err, dt = core.run_exe(exe, [], stdin_text="\n".join(lines) + "\n", timeout=1500)
    finally:
        for p in paths:
            try:
                os.remove(p)
            except OSError:
                pass
        try:
            os.rmdir(d)
        except OSError:
            pass
    blocks = out.split("END\n")
    if rc != 0 or len(blocks) < len(docs):
        return None, {"rc": rc, "stdout": out[-2000:], "stderr": err[-3000:], "answered": len(blocks) - 1, "asked": len(docs)}, dt
    res = []
    for texts, blk, (tnr, loc_of, edge_of) in zip(docs, blocks, layouts):
        items = [{"inv_ok": True, "guard_ok": True, "guard_type": None, "msgs": []} for _ in texts]
        other = []
        for line in blk.split("\n"):
            if line.startswith("E "):
                m = re.match(r"^E (\d+) guard=(.*)$", line)
                k = edge_of[int(m.group(1))] if int(m.group(1)) < len(edge_of) else None
                if k is not None:
                    items[k]["guard_type"] = m.group(2)
            elif line.startswith("ERROR"):
                m = re.search(r'path="/nta/template\[%d\]/(location|transition)\[(\d+)\]/label\[\d+\]"' % tnr, line)
                if not m:
                    other.append(line)
                    continue
                where = loc_of if m.group(1) == "location" else edge_of
                idx = where[int(m.group(2)) - 1] if int(m.group(2)) - 1 < len(where) else None
                if idx is None:
                    other.append(line)     # a diagnostic on a decoy / an unlabelled edge: nothing there may be wrong
                    continue
                items[idx]["inv_ok" if m.group(1) == "location" else "guard_ok"] = False
                items[idx]["msgs"].append(line[:160])
            elif line.startswith("EXCEPTION") or (line.startswith("BEGIN") and not line.rstrip().endswith("rc=0")):
                other.append(line)
        res.append((items, other, blk))
    return res, None, dt


def guard_kind(tsexp):
    if not tsexp:
        return "none"
    try:
        v = C14.read_sexp(tsexp)
    except Exception:  # noqa
        return "?"
    k = C14.term_kind(v)
    return "none" if k == "UNKNOWN" else k


# ------------------------------------------------------------------------------------------------ the check
def expression_level(ctx, build, cov):
    """tie C, part (a): every operator x every ordered pair of operand classes through TypeChecker::checkExpression"""
    classes = ["i", "bi", "b", "d", "x", "x - y", "(x < 3)", "(x == 3)", "(x != 3)", "(x' == 1)", "(x')", "s", "r", "arr", "c", '"abc"',
               "(x != y)", "(i < 2)", "ci", "1", "true", "(x - y < 3)", "(b || x < 3)", "(x < 3 && y < 2)", "(forall (k : int[0,1]) x < k)"]
    jobs = []
    ops = [o for o in C14.OP_TEXT if C14.OP_TEXT[o]]
    for op in ops:
        for a in classes:
            for b_ in classes:
                jobs.append({"cls": "bin", "op": op, "a": a, "b": b_, "scope": "-",
                             "line": "X - (%s) %s (%s)" % (a, C14.OP_TEXT[op], b_)})
    for a in classes:
        jobs.append({"cls": "un", "op": "NOT", "a": a, "scope": "-", "line": "X - !(%s)" % a})
        for qop, kw in (("FORALL", "forall"), ("EXISTS", "exists")):
            jobs.append({"cls": "q", "op": qop, "a": a, "scope": "-", "line": "X - %s (qk : int[0,1]) (%s)" % (kw, a)})
    decls = C14.declarations()
    dt, herr = C14.run_harness(ctx, build, jobs, decls)
    if herr is not None:
        ctx.finding("impl:harness", "the type-checker harness died or rejected the generated declarations (rc=%s)" % herr["rc"], herr)
        return 0, []
    w = C14.Wire(typeclauses.tk_names(core.VERIF))
    n, nreq, dis, skipped = C14.correspond(ctx, jobs, w)
    cov["expression_level_cases"] = n
    cov["expression_level_operand_classes"] = len(classes)
    bad = [s for s in skipped]
    if bad:
        dis = dis + bad
    return n, [{"op": d["line"], "impl": d.get("impl_ans", d.get("impl")), "model": d.get("model")} for d in dis], decls


def run(ctx):
    cov = ctx.coverage
    r = ctx.rng
    info, terr = C14.translate_step(ctx)
    build = core.build_repo(os.environ.get("C10_VARIANT", "plain"))
    tie_ok = info is not None
    proof_ok, broken, log = False, [], ""
    if tie_ok:
        cov["translated"] = {k: info[k] for k in ("functions", "type_predicates", "helpers", "bin_ops", "un_ops", "q_ops", "ignored")}
        proof_ok, log = ctx.prove(MODULE, ["drv_c10", "drv_c14"])
        if not proof_ok:
            broken = core.failing_theorems(log)
            ctx.log("proof broken:", [(b_[1], b_[2][:80]) for b_ in broken] or log[-1500:])
    else:
        ctx.log("translator failed:", terr)
        cov.update({"obligations": len(core.theorems_of(MODULE)), "discharged": 0, "checker_cmd": "n/a (translation failed)",
                    "trusted_base": core.TRUSTED_BASE})
    have_model = tie_ok and (proof_ok or core.lake_build(["drv_c10", "drv_c14"])[0])
    # ---- formulas
    forms = list(listed_shapes())
    n_random = 6000 if not ctx.thorough else 60000
    for n in range(n_random):
        d = r.choice([2, 3, 3, 4, 4, 5, 6, 7, 8])
        forms.append(gen_formula(r, d, "convex" if n % 3 else "any"))
    # precedence shapes: two different connectives (and negation / quantifiers) over a clock atom and clock-free operands, always
    # rendered with only the parentheses the operator table requires: what is accepted must not depend on how the text groups
    force_min = set()
    catoms = [("C", "LT", "CLOCK", "INT"), ("C", "GE", "INT", "CLOCK"), ("C", "LE", "DIFF", "INT")]
    bleaf = [("I", "BOOL"), ("C", "LT", "INT", "INT")]
    for o1 in BIN:
        for o2 in BIN:
            for ca in catoms:
                b1, b2_ = r.choice(bleaf), r.choice(bleaf)
                for f in ((o1, b1, (o2, b2_, ca)), (o1, (o2, ca, b1), b2_), (o1, (o2, b1, b2_), ca), (o1, ca, (o2, b1, b2_)),
                          (o1, ("!", b1), (o2, ca, b2_)), (o1, b1, ("!", (o2, b2_, ca)))):
                    force_min.add(len(forms))
                    forms.append(f)
    # plain conjunctions of atoms (completeness direction)
    for n in range(600 if not ctx.thorough else 6000):
        k = r.randint(2, 7)
        f = gen_leaf(r, True)
        for _ in range(k - 1):
            g = gen_leaf(r, True)
            f = ("&", f, g) if r.random() < 0.7 else ("&", g, f)
        forms.append(f)
    # ---- exception set of the model: make sure each member is exercised on the library
    exceptions = []
    if have_model:
        rc, out, err, _ = core.run_exe(core.lean_exe("drv_c10"), [], stdin_text="exceptions\n")
        line = out.strip().split("\n")[0] if out.strip() else "?"
        if rc != 0 or line in ("?", "bad-op"):
            raise RuntimeError("drv_c10 did not print the exception set: %r %r" % (out[:200], err[:200]))
        exceptions = [] if line == "none" else [tuple(e.split("/")) for e in line.split()]
    cov["exceptions"] = ["/".join(e) for e in exceptions]
    exc_forms = {}
    for e in exceptions:
        a = ("C",) + e
        exc_forms[e] = [("|", a, a), ("!", a)]
        forms += exc_forms[e] * 4
    # placement sweep: the shapes the statement lists, and a few random trees, once in every combination of model shape, entry point and
    # label encoding (consecutive models run through all placements; the block starts on a model boundary)
    per_doc = 40
    head = listed_shapes()[:22]
    while len(forms) % per_doc:
        forms.append(gen_leaf(r, True))
    for _ in range(len(SHAPES) * len(DELIVERIES) * (1 if not ctx.thorough else 4)):
        forms += head + [gen_formula(r, r.choice([2, 3, 4]), "any") for _ in range(per_doc - len(head))]
    same = re.compile(r"\(([\w\[\] -]+) (?:<|<=|==|!=|>=|>) \1\)")
    texts = []
    for n, f in enumerate(forms):
        # every third formula with only the parentheses the operator table requires
        rend = render_min if (n % 3 == 2 or n in force_min) else render
        t = rend(r, f)
        for _ in range(10):
            if not same.search(t):
                break
            t = rend(r, f)     # avoid x ~ x: legal, but a poor witness
        texts.append(t)
    docs = [texts[i:i + per_doc] for i in range(0, len(texts), per_doc)]
    res, herr, dt = run_models(build, docs)
    if herr is not None:
        ctx.finding("impl:harness", "the XML harness died (rc=%s)" % herr["rc"], herr)
        return
    if not os.environ.get("C10_NO_ASAN"):
        k = min(len(docs), 25 if not ctx.thorough else 200)
        idx = sorted(ctx.rng.sample(range(len(docs)), k))
        ares, aerr, adt = run_models(core.build_repo("asan"), [docs[i] for i in idx], [placement(i) for i in idx])
        if aerr is not None:
            ctx.finding("impl:sanitizer", "the XML harness died under ASan/UBSan (rc=%s)" % aerr["rc"], aerr)
        else:
            bad = [i for i, (it, _, _) in zip(idx, ares) if [(x["guard_ok"], x["inv_ok"], x["guard_type"]) for x in it]
                   != [(x["guard_ok"], x["inv_ok"], x["guard_type"]) for x in res[i][0]]]
            cov["asan_sample"] = {"xml_models": k, "formulas": sum(len(docs[i]) for i in idx), "different_answers": len(bad), "seconds": round(adt, 1)}
            if bad:
                ctx.finding("impl:sanitizer-build-differs", "ASan build answers differently on model %d" % bad[0], {"xml": xml_model(docs[bad[0]], placement(bad[0])[0], placement(bad[0])[1][1]), "entry_point": placement(bad[0])[1][0]})
    ctx.log("library checked %d formulas (as guard and as invariant) in %d XML models, %.1fs" % (len(forms), len(docs), dt))
    verdicts = []
    stray = []
    for (items, other, blk), chunk in zip(res, docs):
        verdicts += items
        if other:
            stray.append((other[:3], chunk[:2]))
    if stray:
        ctx.finding("unproved:harness-protocol", "diagnostics that could not be attributed to a formula: %r" % (stray[0],),
                    {"cases": stray[:5]}, no_input=True)
    # ---- model side
    model = [None] * len(forms)
    if have_model:
        rc, out, err, _ = core.run_exe(core.lean_exe("drv_c10"), [], stdin_text="\n".join("f " + wire(f) for f in forms) + "\n", timeout=900)
        lines = out.split("\n")
        if rc != 0 or len(lines) < len(forms):
            raise RuntimeError("drv_c10 failed rc=%s: %s" % (rc, err[-400:]))
        for n, l in enumerate(lines[:len(forms)]):
            m = re.match(r"^k=(\S+) g=(\d) i=(\d) convex=(\d) clockfree=(\d) wf=(\d) noexc=(\d)$", l)
            if not m:
                raise RuntimeError("drv_c10 answered %r for %r" % (l, wire(forms[n])))
            model[n] = {"k": m.group(1), "g": m.group(2) == "1", "i": m.group(3) == "1", "convex": m.group(4) == "1",
                        "clockfree": m.group(5) == "1", "wf": m.group(6) == "1", "noexc": m.group(7) == "1"}
    # ---- correspondence (b) + oracle
    dis = []
    acc_g = acc_i = nonconvex = wf_n = 0
    kinds = {}
    depth_hist = {}
    viol = {}
    for n, f in enumerate(forms):
        v = verdicts[n]
        gk = guard_kind(v["guard_type"])
        g_ok, i_ok = v["guard_ok"], v["inv_ok"]
        acc_g += g_ok
        acc_i += i_ok
        kinds[gk] = kinds.get(gk, 0) + 1
        depth_hist[depth(f)] = depth_hist.get(depth(f), 0) + 1
        cvx = convex(f)
        nonconvex += (not cvx)
        wf = all(l[0] == "I" or leaf_ok(l[2], l[3]) for l in leaves(f))
        wf_n += wf
        m = model[n]
        if m is not None:
            if m["convex"] != cvx or m["clockfree"] != clock_free(f) or m["wf"] != wf:
                dis.append({"formula": wire(f), "text": texts[n], "what": "python and Lean disagree on Convex/ClockFree/WF", "model": m})
            elif m["g"] != g_ok or m["i"] != i_ok or (m["k"] != gk):
                dis.append({"formula": wire(f), "text": texts[n], "impl": {"guard_ok": g_ok, "inv_ok": i_ok, "kind": gk, "msgs": v["msgs"][:2]},
                            "model": m})
        # the property on the implementation: accepted => convex   (for formulas of the property's language)
        if wf and (g_ok or i_ok) and not cvx:
            exc = [l for l in leaves(f) if l[0] == "C" and tuple(l[1:]) in exceptions]
            if exc:
                key = "leaf:" + "/".join(exc[0][1:])
            else:
                key = "accepted-nonconvex:" + shape_of(f)
            better = key not in viol or (f[0] == "|") > (viol[key][0][0] == "|") or \
                ((f[0] == "|") == (viol[key][0][0] == "|") and size(f) < size(viol[key][0]))
            if better:
                viol[key] = (f, texts[n], g_ok, i_ok, gk, n)
    # completeness: conjunction of accepted atoms is accepted -- atoms' own verdicts come from the exhaustive leaf list
    atom_verdict = {}
    for n, f in enumerate(forms):
        if f[0] in ("I", "C"):
            key = f
            g, i_ = verdicts[n]["guard_ok"], verdicts[n]["inv_ok"]
            pg, pi = atom_verdict.get(key, (True, True))
            atom_verdict[key] = (pg and g, pi and i_)
    # accepted formula => each of its clock atoms is accepted in the same role on its own (C10_guard_sound, second half)
    for n, f in enumerate(forms):
        wf = all(l[0] == "I" or leaf_ok(l[2], l[3]) for l in leaves(f))
        if not wf or f[0] in ("I", "C"):
            continue
        for role, ok in ((0, verdicts[n]["guard_ok"]), (1, verdicts[n]["inv_ok"])):
            if not ok:
                continue
            for a in leaves(f):
                if a[0] == "C" and not clock_free(a) and a in atom_verdict and not atom_verdict[a][role] \
                        and tuple(a[1:]) not in exceptions:
                    key = "accepted-with-rejected-atom:%s" % leaf_name(a)
                    if key not in viol or size(f) < size(viol[key][0]):
                        viol[key] = (f, texts[n], verdicts[n]["guard_ok"], verdicts[n]["inv_ok"], guard_kind(verdicts[n]["guard_type"]), n)
    conj_n = 0
    for n, f in enumerate(forms):
        if f[0] == "&" and is_conj(f):
            at = leaves(f)
            if not all(a in atom_verdict or a[0] == "I" for a in at):
                continue
            conj_n += 1
            allg = all(atom_verdict.get(a, (True, True))[0] for a in at)
            alli = all(atom_verdict.get(a, (True, True))[1] for a in at)
            if (allg and not verdicts[n]["guard_ok"]) or (alli and not verdicts[n]["inv_ok"]):
                key = "conjunction-rejected:" + "+".join(sorted(set(leaf_name(a) for a in at)))[:80]
                viol.setdefault(key, (f, texts[n], verdicts[n]["guard_ok"], verdicts[n]["inv_ok"], guard_kind(verdicts[n]["guard_type"]), n))
    # the replay is the formula alone in a model of the same shape, delivered the same way -- when that still shows the verdict; a verdict
    # that needs the labels read before it keeps the whole model
    alone = {}
    if viol:
        keys = sorted(viol)
        sres, serr, _ = run_models(build, [[viol[k][1]] for k in keys], [placement(viol[k][5] // per_doc) for k in keys])
        if serr is None:
            alone = {k: (it[0]["guard_ok"], it[0]["inv_ok"]) == (viol[k][2], viol[k][3]) for k, (it, _, _) in zip(keys, sres)}
    for key, (f, text, g_ok, i_ok, gk, n) in sorted(viol.items()):
        shp, (entry, enc) = placement(n // per_doc)
        chunk = [text] if alone.get(key) else docs[n // per_doc]
        what = ("`%s` is %s as guard and %s as invariant (type %s) although it is %s"
                % (text, "accepted" if g_ok else "rejected", "accepted" if i_ok else "rejected", gk,
                   "a plain conjunction of accepted atoms" if key.startswith("conjunction") else
                   "built over a clock atom that is rejected on its own" if key.startswith("accepted-with") else "not convex"))
        ctx.finding(key, what, {"formula": wire(f), "text": text, "xml": xml_model(chunk, shp, enc), "model_shape": shp, "entry_point": "parse_XML_" + entry,
                                "label_text_as": enc, "texts": chunk, "index": 0 if alone.get(key) else n % per_doc,
                                "guard_accepted": g_ok, "invariant_accepted": i_ok,
                                "how": "harness/c10.cpp on the XML model (L<index> / edge <index> carry the formula)"})
    # exceptions of the model must show on the library (otherwise model and library differ: correspondence catches it)
    # ---- expression level correspondence
    n_expr, dis_expr, decls = (0, [], "")
    if have_model:
        n_expr, dis_expr, decls = expression_level(ctx, build, cov)
    ctx.log("formula level: %d compared, %d disagreements; expression level: %d compared, %d disagreements"
            % (len(forms) if have_model else 0, len(dis), n_expr, len(dis_expr)))
    new_keys = [v[0] for v in ctx.violations]
    if dis or dis_expr:
        first = (dis + dis_expr)[0]
        ctx.finding("unproved:correspondence:formulas", "model and library disagree on %d formulas and %d expressions, first: %r"
                    % (len(dis), len(dis_expr), first),
                    {"theorem_or_correspondence": "correspondence drv_c10 / drv_c14 vs harness c10 / c14", "formulas": dis[:20],
                     "expressions": dis_expr[:20], "declarations": DECLS}, no_input=not new_keys)
    if not tie_ok:
        if not new_keys:
            ctx.proof_broken("translate/typeclauses.py", terr, "convexity oracle on %d formulas of the implementation: no failure" % len(forms))
    elif not proof_ok:
        if not new_keys:
            for path, thm, msg in (broken or [("?", "lake build", log[-400:])]):
                ctx.proof_broken(thm, msg + "\n" + log[-2500:], "convexity oracle on %d formulas of the implementation: no failure" % len(forms))
        else:
            cov["broken_theorems_explained_by_findings"] = [b_[1] for b_ in broken]
    # ---- evidence
    cov["evaluations"] = 2 * len(forms) + n_expr
    cov["correspondence_cases"] = (len(forms) if have_model else 0) + n_expr
    cov["correspondence_disagreements"] = len(dis) + len(dis_expr)
    cov["distinct_nontrivial"] = len(set(wire(f) for f in forms))
    cov["distribution"] = {"formulas": len(forms), "xml_models": len(docs), "accepted_as_guard": acc_g, "accepted_as_invariant": acc_i,
                           "not_convex": nonconvex, "in_property_language": wf_n, "guard_kinds": kinds, "depth_histogram": depth_hist,
                           "plain_conjunctions_checked": conj_n, "max_depth": max(depth_hist)}
    cov["model_shapes"] = {sh: len([1 for i in range(len(docs)) if placement(i)[0] == sh]) for sh in SHAPES}
    cov["deliveries"] = {"%s/%s" % dl: len([1 for i in range(len(docs)) if placement(i)[1] == dl]) for dl in DELIVERIES}
    cov["placements_hit"] = len(set(placement(i) for i in range(len(docs))))
    cov["rule"] = ("all 96 comparison leaves x {alone, ||, !, &&, forall, exists}, the shapes listed in the statement, %d random trees "
                   "(depth 2..8; two thirds biased towards convex shapes), %d plain conjunctions; each as guard AND as invariant in an XML model; "
                   "models cycle through %d shapes x %d deliveries (entry point, label encoding), the listed shapes pass through every combination"
                   % (n_random, 600 if not ctx.thorough else 6000, len(SHAPES), len(DELIVERIES)))
    cov["samples"] = [{"formula": wire(forms[n]), "text": texts[n], "guard_ok": verdicts[n]["guard_ok"], "inv_ok": verdicts[n]["inv_ok"],
                       "guard_type": guard_kind(verdicts[n]["guard_type"]), "model": model[n]} for n in (0, len(forms) // 2, len(forms) - 1)]
    ctx.assumptions += [
        "leaf language: integer predicates; x~n, n~x, x-y~n, n~x-y, x~y with n an integer expression. Comparisons of two clock differences, "
        "of a clock with a difference, and bounds that are boolean expressions are typed by the `is_number && is_number` (SMC) clauses as plain "
        "booleans and are outside the property's quantifier (observed, not reported)",
        "inline-if is not a connective of the property: `(x<1 ? 1 : 0) == 0` is accepted as a guard (observed at design time, not reported)",
        "formulas are side-effect free; quantifier binders are `int[0,1]`",
        "rates (x' == n) are not leaves of the property; INVARIANT_WR is covered by the tables but never produced by a formula of the language",
    ]


def shape_of(f):
    t = f[0]
    if t in ("I", "C"):
        return "atom"
    names = {"&": "and", "|": "or", "!": "not", ">": "imply", "^": "xor", "=": "eq", "#": "neq", "A": "forall", "E": "exists"}
    # outermost connective whose operand(s) carry clocks in a non-convex way
    if not convex(f):
        for c in f[1:]:
            if not convex(c):
                return shape_of(c)
        return names[t]
    return names[t]


def leaf_name(a):
    return a[1] if a[0] == "I" else "%s/%s/%s" % a[1:]


def replay(ctx, path):
    rep = json.load(open(path))
    print(json.dumps({k: rep[k] for k in ("property", "key", "what")}, indent=1))
    rr = rep.get("replay", {})
    if "text" not in rr:
        print("no concrete input in this replay (proof / tie break): re-running the check")
        run(ctx)
        return ctx.finish()
    build = core.build_repo(os.environ.get("C10_VARIANT", "plain"))
    place = (rr.get("model_shape", "plain"), (rr.get("entry_point", "parse_XML_file")[len("parse_XML_"):], rr.get("label_text_as", "entity")))
    res, herr, dt = run_models(build, [rr.get("texts", [rr["text"]])], [place])
    if herr:
        print(herr)
        return 1
    items, other, blk = res[0]
    print(blk)
    v = items[rr.get("index", 0)]
    still = (v["guard_ok"] == rr.get("guard_accepted")) and (v["inv_ok"] == rr.get("invariant_accepted"))
    print("guard accepted: %s  invariant accepted: %s  (recorded: %s / %s)" % (v["guard_ok"], v["inv_ok"], rr.get("guard_accepted"), rr.get("invariant_accepted")))
    return 1 if still else 0
