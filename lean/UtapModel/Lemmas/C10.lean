/- Helper lemmas for Props/C10.lean: the finite tables (complete over all 39 type kinds, kernel evaluation of the
   regenerated clause lists) that the structural induction over formula trees consumes. -/
import UtapModel.Model.Formula
import UtapModel.Lemmas.TypeBasics
namespace UtapModel.C10
open UtapModel.Types UtapModel.TypeClauses UtapModel.Formula UtapModel.TypeBasics

instance (p : Side → Prop) [DecidablePred p] : Decidable (∀ s, p s) :=
  decidable_of_iff (p .INT ∧ p .BOOL ∧ p .CLOCK ∧ p .DIFF)
    ⟨fun ⟨a, b, c, d⟩ s => by cases s <;> assumption, fun h => ⟨h _, h _, h _, h _⟩⟩

instance (p : Cmp → Prop) [DecidablePred p] : Decidable (∀ s, p s) :=
  decidable_of_iff (p .LT ∧ p .LE ∧ p .EQ ∧ p .NEQ ∧ p .GE ∧ p .GT)
    ⟨fun ⟨a, b, c, d, e, f⟩ s => by cases s <;> assumption, fun h => ⟨h _, h _, h _, h _, h _, h _⟩⟩

/-- integral kinds (`type_t::is_integral` of a primitive type of that kind) -/
def intK (k : TK) : Bool := ty_is_integral (.prim k)
/-- kinds accepted as a guard (the test of visitEdge) -/
def gK (k : TK) : Bool := guardAccepted (.prim k)
/-- kinds accepted as an invariant (the test of visitLocation) -/
def iK (k : TK) : Bool := invariantAccepted (.prim k)
/-- kinds a boolean formula can be given by the checker -/
def formK (k : TK) : Bool := ty_is_formula (.prim k) || k == .INVARIANT_WR

def imp (a b : Bool) : Bool := !a || b

theorem imp_elim {a b : Bool} (h : imp a b = true) (ha : a = true) : b = true := by
  cases a <;> cases b <;> simp_all [imp]

/-- table facts in the form the inductions consume -/
theorem tab {o : Option TK} {p : TK → Bool} (h : o.all p = true) {k : TK} (hk : o = some k) : p k = true := by
  subst hk; simpa using h

theorem leaf_table : ∀ (op : Cmp) (l r : Side), leafOk l r = true → leafExceptions.contains (op, l, r) = false →
    (binK op.bin l.tk r.tk).all (fun k => formK k && imp (intK k) (l.clockFree && r.clockFree)) = true := by
  decide +kernel

theorem and_table : ∀ ka kb : TK,
    (binK .AND ka kb).all (fun k => imp (formK ka && formK kb) (formK k) && imp (intK k) (intK ka && intK kb)
      && imp (gK k) (gK ka && gK kb) && imp (iK k) (iK ka && iK kb)) = true := by
  decide +kernel

theorem or_table : ∀ ka kb : TK,
    (binK .OR ka kb).all (fun k => imp (formK ka && formK kb) (formK k) && imp (intK k) (intK ka && intK kb)
      && imp (gK k) ((intK ka && gK kb) || (gK ka && intK kb))
      && imp (iK k) ((intK ka && iK kb) || (iK ka && intK kb))) = true := by
  decide +kernel

theorem not_table : ∀ ka : TK,
    (unK .NOT ka).all (fun k => imp (formK ka) (formK k) && imp (intK k) (intK ka) && imp (gK k || iK k) (intK ka)) = true := by
  decide +kernel

theorem xor_table : ∀ ka kb : TK, (binK .XOR ka kb).all (fun k => formK k && intK ka && intK kb) = true := by
  decide +kernel

theorem eq_table : ∀ ka kb : TK, (formK ka && formK kb) = true →
    (binK .EQ ka kb).all (fun k => formK k && intK ka && intK kb) = true := by
  decide +kernel

theorem neq_table : ∀ ka kb : TK, (formK ka && formK kb) = true →
    (binK .NEQ ka kb).all (fun k => formK k && intK ka && intK kb) = true := by
  decide +kernel

theorem forall_table : ∀ ka : TK,
    (quantK .FORALL ka).all (fun k => imp (formK ka) (formK k) && imp (intK k) (intK ka) && imp (gK k) (gK ka)
      && imp (iK k) (iK ka)) = true := by
  decide +kernel

theorem exists_table : ∀ ka : TK,
    (quantK .EXISTS ka).all (fun k => imp (formK ka) (formK k) && imp (intK k) (intK ka) && imp (gK k || iK k) (intK ka)) = true := by
  decide +kernel

theorem int_good : ∀ k : TK, imp (intK k) (gK k && iK k) = true := by decide +kernel

/-- conjunction of two guards is a guard, of two invariants an invariant (completeness direction) -/
theorem and_complete : ∀ ka kb : TK,
    imp (gK ka && gK kb) ((binK .AND ka kb).any gK) = true ∧ imp (iK ka && iK kb) ((binK .AND ka kb).any iK) = true := by
  decide +kernel

/-- a clock-free formula has no clock leaf to worry about -/
theorem clockFree_leavesAll (acc : Form → Bool) : ∀ f : Form, ClockFree f = true → clockLeavesAll acc f = true := by
  intro f
  induction f with
  | ipred _ => intro _; rfl
  | cmp op l r => intro h; simp only [ClockFree] at h; simp [clockLeavesAll, h]
  | and a b iha ihb | or a b iha ihb | imply a b iha ihb | xor a b iha ihb | eq a b iha ihb | neq a b iha ihb =>
    intro h; simp only [ClockFree, Bool.and_eq_true] at h; simp [clockLeavesAll, iha h.1, ihb h.2]
  | not a iha | all a iha | ex a iha => intro h; simp only [ClockFree] at h; simp [clockLeavesAll, iha h]

end UtapModel.C10
