import UtapModel.Gen.TypeSubstCfg
/-
M-TSUBST — substitution of instantiation arguments into the type of a process member (`P.x` in a query; C07 "with P's arguments
substituted", C19 "substituting an expression for a symbol replaces exactly the identifier occurrences of that symbol").

  expression_t::subst(symbol, expr)   an IDENTIFIER node bound to `symbol` becomes `expr`; every other node is rebuilt over its substituted
                                      operands (src/expression.cpp)
  type_t::subst(symbol, expr)         the same through a type: every child type and the expression a type node carries (range bounds,
                                      array sizes) (src/type.cpp)
  ExpressionBuilder::expr_dot         for `P.x`:  for (step < mapping.size()) for ((s, e) : process->mapping) type = type.subst(s, e);
                                      the mapping is a std::map ordered by symbol ADDRESS, i.e. in no particular order, and an argument may
                                      mention a parameter that another instantiation step binds (`Q(m) = T(m, 4); R = Q(6);` maps p ↦ m, q ↦ 4,
                                      m ↦ 6), hence the repetition (repair c2a3e96).

Trees are curried (`app f a`), so that no list is nested in the types: a node `K(a1, .., an)` is `app (.. (app (atom K) a1) ..) an`; the
driver converts.  Symbols are numbers.  Core Lean only.
-/
namespace UtapModel.TypeSubst

/-- expressions: an identifier bound to symbol `s`, any other leaf, a node applied to one more operand -/
inductive E where
  | id (s : Nat)
  | atom (k : String)
  | app (f a : E)
deriving DecidableEq, Repr, Inhabited

/-- types: a kind, a type node carrying an expression, a type node with one more (labelled) child -/
inductive T where
  | prim (k : String)
  | withExpr (t : T) (e : E)
  | child (t : T) (label : String) (c : T)
deriving DecidableEq, Repr, Inhabited

/-- `expression_t::subst` -/
def substE (s : Nat) (e : E) : E → E
  | .id x => if x = s then e else .id x
  | .atom k => .atom k
  | .app f a => .app (substE s e f) (substE s e a)

/-- `type_t::subst` -/
def substT (s : Nat) (e : E) : T → T
  | .prim k => .prim k
  | .withExpr t x => .withExpr (substT s e t) (substE s e x)
  | .child t l c => .child (substT s e t) l (substT s e c)

/-- does an identifier bound to `x` occur? -/
def occE (x : Nat) : E → Bool
  | .id y => y == x
  | .atom _ => false
  | .app f a => occE x f || occE x a

def occT (x : Nat) : T → Bool
  | .prim _ => false
  | .withExpr t e => occT x t || occE x e
  | .child t _ c => occT x t || occT x c

/-- one round of `expr_dot`'s inner loop: every pair of the mapping, in the order the map happens to have -/
def pass (m : List (Nat × E)) (t : T) : T := m.foldl (fun t p => substT p.1 p.2 t) t

/-- the whole double loop: `rounds` rounds -/
def passes (m : List (Nat × E)) : Nat → T → T
  | 0, t => t
  | n + 1, t => passes m n (pass m t)

/-- `expr_dot` as configured: as many rounds as the mapping has entries, or a single one -/
def dotTypeCfg (perEntry : Bool) (m : List (Nat × E)) (t : T) : T := passes m (if perEntry then m.length else 1) t

/-- `expr_dot` of the current source (Gen/TypeSubstCfg.lean) -/
def dotType (m : List (Nat × E)) (t : T) : T := dotTypeCfg UtapModel.TypeSubstCfg.roundsPerMappingEntry m t

/-- a type as one tree: substitution in a type is substitution in this tree (`embed_subst`); the driver works on such trees -/
def embed : T → E
  | .prim k => .atom k
  | .withExpr t e => .app (.app (.atom "#expr") (embed t)) e
  | .child t l c => .app (.app (.app (.atom "#child") (embed t)) (.atom l)) (embed c)

def passE (m : List (Nat × E)) (t : E) : E := m.foldl (fun t p => substE p.1 p.2 t) t
def passesE (m : List (Nat × E)) : Nat → E → E
  | 0, t => t
  | n + 1, t => passesE m n (passE m t)
def dotTypeE (m : List (Nat × E)) (t : E) : E := passesE m (if UtapModel.TypeSubstCfg.roundsPerMappingEntry then m.length else 1) t

def isKey (m : List (Nat × E)) (x : Nat) : Bool := m.any (fun p => p.1 == x)

end UtapModel.TypeSubst
