/-
C16 (synchronisation styles) — what the model-wide check of `TypeChecker::visitEdge` reports, and on which labels.

The property asks that a fault in one label leaves every diagnostic inside that label.  A synchronisation that loses its `!` / `?` among
input/output synchronisations breaks a model-wide rule, and the theorems below say exactly where the implementation reports it: nowhere
while the styles agree; on the label where the styles first meet and on EVERY later synchronisation label; and, when the odd label is the
first one visited, only on the others.  The last two are the known finding `diag:sync:$CSP_and_IO_synchronisations_cannot_be_mixed`,
proved here as theorems about the state machine read from the source.
-/
import UtapModel.Model.SyncUsed

namespace UtapModel.C16Sync
open UtapModel.SyncUsed

/-- **tie T**: the state machine of the current source is the one the theorems are about -/
theorem C16_sync_table : SyncUsedTbl.trans = pinned := by decide

theorem step_io_from_io (k : SK) (h : k.isIO = true) : step pinned 1 k = 1 := by cases k <;> first | rfl | cases h
theorem step_io_from_none (k : SK) (h : k.isIO = true) : step pinned 0 k = 1 := by cases k <;> first | rfl | cases h
theorem step_mixed (k : SK) : step pinned (-1) k = -1 := by cases k <;> rfl

theorem diags_io_from_io (l : List SK) (h : ∀ k ∈ l, k.isIO = true) : diags pinned 1 l = List.replicate l.length false := by
  induction l with
  | nil => rfl
  | cons k r ih =>
    have hk := h k (List.mem_cons_self ..)
    simp only [diags, step_io_from_io k hk, List.length_cons, List.replicate_succ]
    rw [ih (fun x hx => h x (List.mem_cons_of_mem _ hx))]
    rfl

/-- a document whose synchronisations are all input/output gets no mix diagnostic -/
theorem C16_sync_io_only (l : List SK) (h : ∀ k ∈ l, k.isIO = true) : diags SyncUsedTbl.trans 0 l = List.replicate l.length false := by
  rw [C16_sync_table]
  cases l with
  | nil => rfl
  | cons k r =>
    have hk := h k (List.mem_cons_self ..)
    simp only [diags, step_io_from_none k hk, List.length_cons, List.replicate_succ]
    rw [diags_io_from_io r (fun x hx => h x (List.mem_cons_of_mem _ hx))]
    rfl

theorem diags_csp_from_csp (n : Nat) : diags pinned 2 (List.replicate n .csp) = List.replicate n false := by
  induction n with
  | zero => rfl
  | succ n ih => simp only [List.replicate_succ, diags]; rw [show step pinned 2 .csp = 2 from rfl, ih]; rfl

/-- a document whose synchronisations are all CSP-style gets no mix diagnostic -/
theorem C16_sync_csp_only (n : Nat) : diags SyncUsedTbl.trans 0 (List.replicate n .csp) = List.replicate n false := by
  rw [C16_sync_table]
  cases n with
  | zero => rfl
  | succ n => simp only [List.replicate_succ, diags]; rw [show step pinned 0 .csp = 2 from rfl, diags_csp_from_csp]; rfl

/-- once the styles have met, EVERY later synchronisation label carries the diagnostic, whatever it is -/
theorem C16_sync_sticky (l : List SK) : diags SyncUsedTbl.trans (-1) l = List.replicate l.length true := by
  rw [C16_sync_table]
  induction l with
  | nil => rfl
  | cons k r ih => simp only [diags, step_mixed, List.length_cons, List.replicate_succ]; rw [ih]; rfl

/-- **where a lost direction is reported**: a CSP-style label after at least one input/output label is reported on that label -- and on
    every synchronisation label after it (fault-free blocks: the known finding) -/
theorem C16_sync_attribution (k : SK) (l1 l2 : List SK) (hk : k.isIO = true) (h1 : ∀ x ∈ l1, x.isIO = true) :
    diags SyncUsedTbl.trans 0 (k :: l1 ++ .csp :: l2) =
      List.replicate (l1.length + 1) false ++ true :: List.replicate l2.length true := by
  have hst := C16_sync_sticky l2
  rw [C16_sync_table] at hst ⊢
  have hgo : ∀ (l : List SK), (∀ x ∈ l, x.isIO = true) →
      diags pinned 1 (l ++ .csp :: l2) = List.replicate l.length false ++ true :: List.replicate l2.length true := by
    intro l hl
    induction l with
    | nil => simp only [List.nil_append, diags]; rw [show step pinned 1 .csp = -1 from rfl, hst]; rfl
    | cons a r ih =>
      have ha := hl a (List.mem_cons_self ..)
      simp only [List.cons_append, diags, step_io_from_io a ha, List.length_cons, List.replicate_succ]
      rw [ih (fun x hx => hl x (List.mem_cons_of_mem _ hx))]
      rfl
  simp only [List.cons_append, diags, step_io_from_none k hk, List.replicate_succ]
  rw [hgo l1 h1]
  rfl

/-- ... and when the label that lost its direction is the first synchronisation visited, it carries NO diagnostic: the others do -/
theorem C16_sync_first_label_witness :
    diags SyncUsedTbl.trans 0 [.csp, .bang, .que] = [false, true, true] ∧ diags SyncUsedTbl.trans 0 [.bang, .csp, .que] = [false, true, true] := by
  decide

end UtapModel.C16Sync
