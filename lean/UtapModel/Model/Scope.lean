/- M-SCOPE: symbols, frames, the frame store and name resolution (src/symbols.cpp).

   * a symbol is a shared object (`symbol_t` = shared_ptr<symbol_data>): here an index into the symbol heap `syms`;
     its `user` field is the model of the type-erased `void*` back pointer (an object reference, see `Obj`);
   * a frame (`frame_t` = shared_ptr<frame_data>) is an index into the frame store; it has an optional parent and the
     ordered list of its symbols.  `frame_data::mapping` (name -> index, overwritten on every insertion of a name) is
     *derived*: the index of the LAST symbol with that name (empty names are never entered in the mapping);
   * `resolve` walks the parent chain (symbols.cpp:220-227).
   Core Lean only. -/
namespace UtapModel.Builder

abbrev SymId := Nat
abbrev FrameId := Nat

/-- What the builder callbacks inspect of a `type_t` on the type stack. -/
structure Ty where
  /-- `(is_integer || is_scalar) && is(RANGE)`: usable as the range of a select / quantifier binder -/
  selOk : Bool
  deriving Repr, DecidableEq, Inhabited

/-- A declaration block: the globals or a template (one list of templates, static and dynamic ones flagged). -/
inductive DRef where
  | glob
  | templ (t : Nat)
  deriving Repr, DecidableEq, Inhabited

/-- who owns a variable: a declaration block (globals / a template) or a function (its locals) -/
inductive VOwner where
  | decl (d : DRef)
  | func (f : Nat)
  deriving Repr, DecidableEq, Inhabited

/-- Object references.  The model keeps all objects of one kind in ONE creation-ordered list tagged with the owner
    (the C++ per-template std::deque / per-block std::list is the sub-sequence with that owner); an index into that
    list stands for the address of the C++ object (stable under insertion at the end). -/
inductive Obj where
  | var (i : Nat)
  | func (i : Nat)
  | loc (i : Nat)
  | bp (i : Nat)
  | templ (t : Nat)
  | inst (i : Nat)                        -- partial instance, LSC instance or process (one list, tagged)
  deriving Repr, DecidableEq, Inhabited

/-- The part of a symbol's `type_t` that the builder looks at. -/
inductive STy where
  | location (urgent committed : Bool)
  | branchpoint
  | inst (arity : Nat)        -- INSTANCE with `arity` children
  | lscInst (arity : Nat)
  | process (size : Nat)      -- PROCESS: record over the template frame at the time of add_process
  | processSet (arity : Nat)
  | typedef (t : Ty)
  | func
  | var (t : Ty)
  | processVar
  | instanceLine
  deriving Repr, DecidableEq, Inhabited

def STy.isLocation : STy → Bool
  | .location _ _ => true
  | _ => false

def STy.isBranchpoint : STy → Bool
  | .branchpoint => true
  | _ => false

structure Symbol where
  name : String
  ty : STy
  user : Option Obj
  deriving Repr, Inhabited

structure Frame where
  parent : Option FrameId
  syms : List SymId
  deriving Repr, Inhabited

def symName (syms : List Symbol) (sid : SymId) : String :=
  match syms[sid]? with
  | some s => s.name
  | none => ""

/-- `frame_t::get_index_of(name)` composed with `symbols[idx]`: the last symbol of that name (never for ""). -/
def Frame.lookup (syms : List Symbol) (f : Frame) (name : String) : Option SymId :=
  if name = "" then none else f.syms.reverse.find? (fun sid => symName syms sid = name)

def Frame.contains (syms : List Symbol) (f : Frame) (name : String) : Bool :=
  (f.lookup syms name).isSome

/-- `frame_t::resolve`: this frame, then the parent chain.  `fuel` bounds the walk (the store of a reachable state has
    no cycles; a bound keeps the function total for arbitrary stores). -/
def resolveIn (syms : List Symbol) (store : List Frame) : Nat → FrameId → String → Option SymId
  | 0, _, _ => none
  | fuel + 1, fid, name =>
    match store[fid]? with
    | none => none
    | some f =>
      match f.lookup syms name with
      | some sid => some sid
      | none =>
        match f.parent with
        | some p => resolveIn syms store fuel p name
        | none => none

end UtapModel.Builder
