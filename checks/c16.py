"""C16 -- a fault in one text block does not disturb the rest of the document (DESIGN.md section 4, C16).

 1 translate   src/parser.y -> lean/UtapModel/Gen/C16Grammar.lean: every production with its ordered callbacks (mid-rule
               actions kept in place); the Lean side computes the productions whose frame push (mid-rule action) and pop
               (final action) are separated by a nonterminal = the shapes that can be abandoned with the frame pushed
 2 prove       UtapModel.Props.C16: expression callbacks never touch the document; a label trace changes only its own
               field; frame-balanced traces leave `frames` unchanged; declaration lists only grow; the negation on the
               abandoned-quantifier witness
 3 correspond  accepted seed models x every non-declaring label x fault kinds x token positions, real library:
               field-wise dump of the faulty document (as built) = fault-free dump outside the faulted field, all new
               diagnostics attributed to the faulted block from their first to their last character (both anchors of the
               range); semantic faults (type error, side effect, wrong type for the label's role, expression without effect:
               the label parses, the type checker objects) compared after static analysis;
               declaration blocks: truncation / token deletion inside declaration i keeps declarations < i
 4 classify    a disturbance whose trace (TraceBuilder) shows an unmatched frame push is the computed exception shape
               leak:frame:<callback>; anything else is a violation
"""
import base64
import copy
import json
import os
import re
import sys

from vlib import core

sys.path.insert(0, os.path.join(core.VERIF, "translate"))
sys.path.insert(0, os.path.join(core.VERIF, "checks"))
import c08_builder_h as BH  # noqa: E402
import c08_gen as G  # noqa: E402
import c08 as C08  # noqa: E402
import c16_grammar as GR  # noqa: E402
import syncused as SU  # noqa: E402

MODULE = "UtapModel.Props.C16"
SMODULE = "UtapModel.Props.C16Sync"
GEN = os.path.join(core.LEAN_DIR, "UtapModel", "Gen", "C16Grammar.lean")
FIELDS = {"guard": "guard", "sync": "sync", "assign": "assign", "prob": "prob"}
XMLKIND = {"guard": "guard", "sync": "synchronisation", "assign": "assignment", "prob": "probability"}
FAULTS = ["undeclared", "dropped", "bracket", "stray", "typeerr", "comment", "rangetypo", "overflow"]
# Faults that stay inside the label's `kind ... ;` section of the XTA text.  Unbalanced brackets are left out: in the one-text format
# bison recovers through `'(' error ')'` / `'[' error ']'` and by design skips to the next closing bracket, wherever it is.
XTA_FAULTS = {"undeclared", "dropped", "rangetypo", "overflow"}
# Faults the parser accepts and the type checker reports (after every block is in the position index, from the positions the
# expressions carry): compared after static analysis on both sides.  `typeerr` is placed by inject(), the others by semantic_faults().
SEMANTIC = {"typeerr", "sideeffect", "wrongrole", "noeffect", "suffix"}


def balanced(t):
    return t.count("(") == t.count(")") and t.count("[") == t.count("]")


def build(variant="asan"):
    b = core.build_repo(variant)
    cbs = BH.parse(core.REPO)
    d = os.path.join(core.CACHE, "geninc-c08")
    core.write_if_changed(os.path.join(d, "c08_tracebuilder.inc"), BH.inc_text(cbs))
    return core.build_harness(b, "c16", ["c16.cpp"], extra_flags=["-I" + d])


def _run(exe, cases):
    from concurrent.futures import ThreadPoolExecutor
    nproc = min(core.NCPU, 12)
    chunks = [cases[i::nproc] for i in range(nproc)]

    def work(chunk):
        if not chunk:
            return 0, "", "", chunk
        text = "".join("%s %s %s\n" % (cid, mode, base64.b64encode(t.encode("utf-8", "surrogateescape")).decode()) for cid, mode, t in chunk)
        rc, out, err, _ = core.run_exe(exe, ["batch"], stdin_text=text, timeout=900, env=C08.ABORT_ENV)
        return rc, out, err, chunk

    res, crashes = {}, []
    with ThreadPoolExecutor(nproc) as ex:
        for rc, out, err, chunk in ex.map(work, chunks):
            cur = None
            for line in out.split("\n"):
                if line.startswith("BEGIN "):
                    cur = {"rc": None, "F": {}, "E": [], "W": [], "A": [], "walk": [], "done": False}
                    res[line[6:].strip()] = cur
                elif cur is None:
                    continue
                elif line.startswith("END "):
                    cur["done"] = True
                    cur = None
                elif line.startswith("RC "):
                    cur["rc"] = line[3:]
                elif line.startswith("F "):
                    k, _, v = line[2:].partition(" ")
                    cur["F"][k] = v
                elif line.startswith("E ") or line.startswith("W "):
                    p, _, rest = line[2:].partition(" ")
                    cur[line[0]].append((p.strip('"'), rest.split(" ", 1)[1] if " " in rest else rest))
                elif line.startswith("A "):
                    a = line[2:].split(" ", 5)      # E|W, start path, start line, end path, end line, message
                    if len(a) == 6:
                        cur["A"].append((a[0], a[1].strip('"'), int(a[2]), a[3].strip('"'), int(a[4]), a[5]))
                elif line.startswith("WALK "):
                    cur["walk"].append(line)
            if rc != 0:
                dead = [c for c in chunk if c[0] not in res or not res[c[0]]["done"]]
                crashes.append((rc, err[-3000:], dead[0] if dead else None))
                if len(dead) > 1:
                    r2, c2 = _run(exe, dead[1:])
                    res.update(r2)
                    crashes += c2
    return res, crashes


# ---------------------------------------------------------------------------------------------------------------
def seed_model(r):
    """an accepted model in which the names i and j exist at global, select and binder level with different types"""
    m = G.gen_model(r, size=r.choice([1, 2, 2, 3]))
    m["globals"] = ["typedef int[0,3] id_t;", "int i = 0;", "int[0,9] j = 1;", "int gi;", "chan zc;", "chan zca[2];",
                    "int wf() { gi = gi + 1; return gi; }"] + m["globals"][1:]
    for t in m["templates"]:
        if not t["edges"]:
            t["edges"].append({"src": t["locs"][0]["id"], "dst": t["locs"][0]["id"], "select": [], "guard": None, "sync": None, "assign": None,
                               "prob": None, "controllable": True})
        for e in t["edges"]:
            if e["src"] in t["bps"]:
                continue
            extra = r.choice(["j >= 0", "i + j >= 0", "forall (i : int[0,2]) (i <= j || i > j)", "exists (j : int[0,1]) (j == i)",
                              "(sum (i : int[0,1]) i + j) >= 0", "i < 3 && forall (j : id_t) (j + i >= 0)"])
            if e["guard"] is None or r.random() < 0.5:
                e["guard"] = extra if e["guard"] is None else "%s && %s" % (e["guard"], extra)
            if e["dst"] not in t["bps"] and (e["assign"] is None or r.random() < 0.5):
                a = r.choice(["gi = i + j", "gi = j", "gi = (forall (i : int[0,1]) i <= j) ? i : j"])
                e["assign"] = a if e["assign"] is None else "%s, %s" % (e["assign"], a)
    # at least two input/output synchronisations per document, so that the model-wide synchronisation-style check has something to lose
    plain = [e for t in m["templates"] for e in t["edges"] if e["src"] not in t["bps"]]
    if sum(1 for e in plain if e["sync"] is not None) < 2:
        for e in [e for e in plain if e["sync"] is None][:2]:
            e["sync"] = r.choice(["zc!", "zc?"])
    return m


def inject(r, text, kind, pos=None):
    toks = G.tokens(text)
    idx = [i for i, t in enumerate(toks) if not t.isspace()]
    if not idx:
        return None
    p = idx[pos % len(idx)] if pos is not None else r.choice(idx)
    toks = list(toks)
    if kind == "undeclared":
        if re.match(r"[A-Za-z_]", toks[p]) and toks[p] not in ("forall", "exists", "sum", "int", "true", "false", "id_t"):
            toks[p] = "undeclared_name"
        else:
            toks.insert(p, " undeclared_name ")
    elif kind == "dropped":
        del toks[p]
    elif kind == "bracket":
        toks.insert(p, r.choice(["(", ")", "[", "]"]))
    elif kind == "stray":
        toks.insert(p, " " + r.choice(["@", ";", "}", ",", ":", "?", "#", "=="]) + " ")
    elif kind == "typeerr":
        ops = [i for i in idx if re.match(r"[A-Za-z_0-9]", toks[i]) and toks[i] not in ("forall", "exists", "sum", "int", "id_t")
               and not (i + 1 < len(toks) and "".join(toks[i + 1:i + 3]).strip().startswith(":"))]
        if not ops:
            return None
        q = ops[pos % len(ops)] if pos is not None else r.choice(ops)
        toks.insert(q, "zc + ")
    elif kind == "comment":
        toks.insert(p, " /* ")
    elif kind == "overflow":
        # an integer literal that does not fit an int (a lexer-level diagnostic, not a grammar one)
        nums = [i for i in idx if re.fullmatch(r"\d+", toks[i])]
        if nums:
            toks[nums[(pos or 0) % len(nums)]] = r.choice(["50000000000", "2147483648", "99999999999999999999"])
        else:
            toks.insert(p, " 50000000000 + ")
    elif kind == "rangetypo":
        # the range type of a quantifier binder is misspelled: `forall (k : idt) (...)` is then read as a quantifier over the
        # instances of an (unknown) dynamic template -- a complete production, no syntax error
        occ = list(re.finditer(r":\s*(int\s*\[[^\]]*\]|id_t)", text))
        if not occ:
            return None
        mm = occ[(pos or 0) % len(occ)]
        return text[:mm.start()] + ": " + r.choice(["idt", "nosuch_t", "Int"]) + text[mm.end():]
    new = "".join(toks)
    return new if new != text else None


def semantic_faults(text, field):
    """[(kind, faulty label text)]: the label still parses, the type checker rejects it (or warns).  Every role a label can play has
    its own acceptance test in visitEdge / visitLocation, reported on the label's root expression, i.e. on a range that runs from
    the first to the last character of the block; the offending operand is put first, last and in the middle, and the write is an
    increment, an assignment, or hidden in a function (wf() writes the global gi)."""
    T = "(%s)" % text
    out = []
    if field in ("guard", "inv"):
        out += [("sideeffect", x) for x in (T + " && gi++", "gi++ >= 0 && " + T, T + " && wf() > 0", "wf() > 0 && " + T + " && gi >= gi",
                                            T + " && (gi = 1) > 0", "(gi = 1) > 0 && " + T, "gi++")]
        out += [("wrongrole", x) for x in ("1.5", "zc", T + " && zc", "gi + 1.5")]
    elif field == "prob":
        out += [("sideeffect", x) for x in (T + " + gi++", "gi++ + " + T, "gi++", "gi = 3", "wf()", T + " + wf()", "(gi = 1) + " + T)]
        out += [("wrongrole", x) for x in ("zc", "zca", T + " + zc")]
    elif field == "exprate":
        out += [("wrongrole", x) for x in ("zc", "zca", T + " + zc")]
    elif field == "sync":
        d = text.rstrip()[-1:] if text.rstrip()[-1:] in ("!", "?") else "!"
        out += [("sideeffect", x + d) for x in ("zca[gi++]", "zca[wf()]", "zca[(gi = 1)]")]
        out += [("wrongrole", x + d) for x in ("gi", "zca", "wf()")]
        if text.rstrip()[-1:] in ("!", "?"):
            # the direction is lost: a CSP-style synchronisation in a model whose other synchronisations are input / output
            out += [("suffix", text.rstrip()[:-1])]
    elif field == "assign":
        out += [("noeffect", x) for x in (text + ", gi + 1", "gi + 1, " + text, "gi == 1")]
        out += [("wrongrole", x) for x in ("zc", text + ", zc")]
    return out


def insert_empty_label(xml, gi):
    """an empty, self-closed label as the first label of the gi-th transition of the document"""
    pos = -1
    for _ in range(gi + 1):
        pos = xml.index("<transition", pos + 1)
    m2 = re.compile(r"<target [^>]*/>").search(xml, pos)
    return xml[:m2.end()] + '<label kind="comments" x="8" y="8"/>' + xml[m2.end():]


def label_path(m, ti, kind, idx, field):
    """XPath the reader attributes diagnostics of this label to"""
    t = m["templates"][ti]
    if kind == "edge":
        e = t["edges"][idx]
        order = (["select"] if e["select"] else []) + [f for f in ("guard", "sync", "assign", "prob") if e[f] is not None]
        return "/nta/template[%d]/transition[%d]/label[%d]" % (ti + 1, idx + 1, order.index(field) + 1)
    l = t["locs"][idx]
    order = [f for f in ("inv", "exprate") if l[f] is not None]
    return "/nta/template[%d]/location[%d]/label[%d]" % (ti + 1, idx + 1, order.index(field) + 1)


def labels_of(m):
    out = []
    for ti, t in enumerate(m["templates"]):
        for ei, e in enumerate(t["edges"]):
            for f in ("guard", "sync", "assign", "prob"):
                if e[f] is not None:
                    out.append((ti, "edge", ei, f, "T%d.E%d.%s" % (ti, ei, f)))
        for li, l in enumerate(t["locs"]):
            for f in ("inv", "exprate"):
                if l[f] is not None:
                    out.append((ti, "loc", li, f, "T%d.L%d.%s" % (ti, li, f)))
    return out


def with_label(m, lab, text):
    m2 = copy.deepcopy(m)
    ti, kind, idx, f, _ = lab
    if kind == "edge":
        m2["templates"][ti]["edges"][idx][f] = text
    else:
        m2["templates"][ti]["locs"][idx][f] = text
    return m2


def get_label(m, lab):
    ti, kind, idx, f, _ = lab
    return m["templates"][ti]["edges"][idx][f] if kind == "edge" else m["templates"][ti]["locs"][idx][f]


def unmatched_push(trace_lines):
    """first frame-pushing expression callback of the trace that is never matched by its pop (from the TraceBuilder log)"""
    stack = []
    for l in trace_lines:
        if not l.startswith("C 0 "):
            continue
        name = l.split()[2]
        m = re.match(r"expr_(\w+)_begin$", name)
        if m and m.group(1) != "call":
            stack.append(name)
        m = re.match(r"expr_(\w+)_end$", name)
        if m and m.group(1) != "call" and stack:
            stack.pop()
        if name in ("proc_edge_end", "proc_location", "proc_end") and stack:
            return stack[0]
    return stack[0] if stack else None


def run(ctx):
    cov = ctx.coverage
    r = ctx.rng
    # 1 translate ---------------------------------------------------------------------------------------------------
    try:
        prods = GR.parse(core.REPO)
        core.write_if_changed(GEN, GR.lean_text(prods))
        cov["productions_translated"] = len(prods)
    except GR.TranslateError as ex:
        # go on with the table of the last good run: the correspondence / oracle below looks for the failing input
        ctx.proof_broken("translate/c16_grammar.py", str(ex), "correspondence and oracle of this run found no failing input")
    sync_tie = None
    try:
        stext, strans = SU.translate(core.REPO)
        core.write_if_changed(os.path.join(core.VERIF, "lean", "UtapModel", "Gen", "SyncUsedTbl.lean"), stext)
        cov["sync_style_transitions_translated"] = len(strans)
    except SU.TranslateError as ex:
        sync_tie = str(ex)         # the table of the last good run stays; the comparison below looks for the failing input
        ctx.log("translate/syncused.py failed:", sync_tie)
    # 2 prove -------------------------------------------------------------------------------------------------------
    ok, log = ctx.prove([MODULE, SMODULE], ["drv_c16"])
    if not ok:
        ctx.log("proof broken:", core.failing_theorems(log) or log[-1500:])
    exe = build("asan")
    exe08, _ = C08.build_harness("asan")
    # exception shapes computed by the Lean side from the generated grammar
    shapes = []
    if os.path.exists(core.lean_exe("drv_c16")):
        rc, out, err, _ = core.run_exe(core.lean_exe("drv_c16"), [], stdin_text="exceptions\n")
        shapes = [l.split()[1] for l in out.split("\n") if l.startswith("SHAPE ")]
    cov["exception_shapes_computed"] = shapes
    # 3 correspondence ------------------------------------------------------------------------------------------------
    n_seeds = 8 if not ctx.thorough else 60
    per_label = 10 if not ctx.thorough else 30
    seeds = []
    tries = 0
    while len(seeds) < n_seeds and tries < n_seeds * 6:
        tries += 1
        m = seed_model(r)
        seeds.append(m)
    base_cases = []
    for si, m in enumerate(seeds):
        xml = G.to_xml(m)
        base_cases += [("s%d.b" % si, "b", xml), ("s%d.p" % si, "p", xml), ("s%d.t" % si, "t", G.to_xta(m))]
    base, crashes = _run(exe, base_cases)
    accepted = [si for si in range(len(seeds)) if base.get("s%d.p" % si, {}).get("rc") == "0" and not base["s%d.p" % si]["E"]
                and not base["s%d.b" % si]["E"]]
    cov["seed_models"] = len(seeds)
    cov["seed_models_accepted"] = len(accepted)
    if len(accepted) * 2 < len(seeds):
        ctx.notes.append("fewer than half of the seed models were accepted: %s" % [base["s%d.p" % si]["E"][:1] for si in range(len(seeds))][:5])
    cases, meta, shifted = [], {}, {}
    for si in accepted:
        m = seeds[si]
        for lab in labels_of(m):
            text = get_label(m, lab)
            ntok = len([t for t in G.tokens(text) if not t.isspace()])
            plan = [(k, None) for k in FAULTS] + [(r.choice(FAULTS), p) for p in range(ntok)]
            r.shuffle(plan)
            plan = plan[:per_label] if not ctx.thorough else plan
            # the semantic faults of the label's role: all of them in the thorough tier, otherwise one of each kind and two more
            sem_all = semantic_faults(text, lab[3])
            sem_pick = list(sem_all)
            if not ctx.thorough and sem_all:
                r.shuffle(sem_pick)
                first = {}
                for kx in sem_pick:
                    first.setdefault(kx[0], kx)
                sem_pick = list(first.values()) + [kx for kx in sem_pick if kx not in first.values()][:2]
            for k, p in plan + [(kx[0], kx[1]) for kx in sem_pick]:
                t2 = inject(r, text, k, p) if k in FAULTS else p
                if t2 is None:
                    continue
                cid = "f%d" % len(meta)
                xml = G.to_xml(with_label(m, lab, t2))
                if lab[1] == "edge" and len(meta) % 4 == 3:
                    # an EMPTY label written in front of the labels of the faulted edge (GUI files carry such `comments` labels): it
                    # holds no text, but it counts in the XPath of the labels that follow
                    gi = sum(len(t["edges"]) for t in m["templates"][:lab[0]]) + lab[2]
                    xml = insert_empty_label(xml, gi)
                    shifted[cid] = gi
                    cases.append((cid + ".sb", "b", insert_empty_label(G.to_xml(m), gi)))
                    cases.append((cid + ".sp", "p", insert_empty_label(G.to_xml(m), gi)))
                meta[cid] = (si, lab, k, t2, xml)
                cases.append((cid + ".b", "b", xml))
                if k in SEMANTIC:
                    cases.append((cid + ".p", "p", xml))
                both = lab[1] != "edge" and m["templates"][lab[0]]["locs"][lab[2]]["inv"] is not None and m["templates"][lab[0]]["locs"][lab[2]]["exprate"] is not None
                # (in the textual format the invariant and the rate of a location are ONE production `name { inv ; rate }`: no block of its own)
                if k in XTA_FAULTS and not both and balanced(t2) and not re.search(r"[;{}]|/\*|//", t2) and base.get("s%d.t" % si, {}).get("rc") == "0" and not base["s%d.t" % si]["E"]:
                    cases.append((cid + ".t", "t", G.to_xta(with_label(m, lab, t2))))
    # declaration blocks: truncation and token deletion inside declaration i
    dmeta = {}
    for si in accepted:
        m = seeds[si]
        blocks = [("G", None, m["globals"])] + [("T%d" % ti, ti, t["decls"]) for ti, t in enumerate(m["templates"]) if t["decls"]]
        for pre, ti, items in blocks:
            for di in range(1, len(items)):
                toks = [t for t in G.tokens(items[di])]
                idx = [i for i, t in enumerate(toks) if not t.isspace()]
                picks = idx if ctx.thorough else r.sample(idx, min(3, len(idx)))
                for p in picks:
                    for how in ("trunc", "delete"):
                        t2 = "".join(toks[:p]) if how == "trunc" else "".join(toks[:p] + toks[p + 1:])
                        m2 = copy.deepcopy(m)
                        m3 = copy.deepcopy(m)
                        if ti is None:
                            m2["globals"] = items[:di] + [t2] + items[di + 1:]
                            m3["globals"] = items[:di]
                        else:
                            m2["templates"][ti]["decls"] = items[:di] + [t2] + items[di + 1:]
                            m3["templates"][ti]["decls"] = items[:di]
                        cid = "d%d" % len(dmeta)
                        dmeta[cid] = (si, pre, di, how, t2, G.to_xml(m2))
                        cases.append((cid + ".b", "b", G.to_xml(m2)))
                        cases.append((cid + ".r", "b", G.to_xml(m3)))
    ctx.log("%d accepted seeds, %d faulty inputs" % (len(accepted), len(cases)))
    res, cr2 = _run(exe, cases)
    crashes += cr2
    for rc, err, dead in crashes:
        what = "c16 harness died rc=%s" % rc
        ctx.finding("crash:" + C08.crash_site(err, rc), what, {"stderr": err, "input_b64": base64.b64encode(dead[2].encode()).decode() if dead else None})
    # compare -----------------------------------------------------------------------------------------------------------
    disturbed = []      # (cid, what)
    stats_shifted = [0]
    diagkey = {}
    n_cmp = 0
    dist = {}
    reported = {}       # semantic faults that drew a diagnostic in their own block (the others are accepted by the library)
    synt = sem = 0
    n_xta, xta_disturbed = 0, []
    for cid, (si, lab, k, t2, xml) in meta.items():
        fb = res.get(cid + ".b")
        if not fb or not fb["done"]:
            continue
        key = lab[4]
        path = label_path(seeds[si], lab[0], lab[1], lab[2], lab[3])
        b0 = base["s%d.b" % si]
        bp0 = base["s%d.p" % si]
        if cid in shifted:
            # the fault-free reference is the same model with the same empty label; the faulted label is one further on
            path = re.sub(r"label\[(\d+)\]$", lambda mm: "label[%d]" % (int(mm.group(1)) + 1), path)
            b0, bp0 = res.get(cid + ".sb"), res.get(cid + ".sp")
            if not b0 or not b0["done"] or not bp0 or not bp0["done"]:
                continue
            stats_shifted[0] += 1
        use, ref = fb, b0
        if k in SEMANTIC and not fb["E"]:
            fp = res.get(cid + ".p")
            if fp and fp["done"]:
                use, ref = fp, bp0
                sem += 1
        else:
            synt += 1
        n_cmp += 1
        dist[k + ":" + lab[3]] = dist.get(k + ":" + lab[3], 0) + 1
        if k in SEMANTIC and any(p_ == path for p_, _ in use["E"] + use["W"]):
            reported[k + ":" + lab[3]] = reported.get(k + ":" + lab[3], 0) + 1
        bad = None
        for fk, fv in ref["F"].items():
            if fk == key:
                continue
            if use["F"].get(fk) != fv:
                bad = "field %s changed: %s -> %s" % (fk, fv[:200], str(use["F"].get(fk))[:200])
                break
        if not bad and set(use["F"]) - set(ref["F"]):
            bad = "new fields %s" % sorted(set(use["F"]) - set(ref["F"]))[:3]
        if not bad:
            other = lambda lst: sorted((p, msg) for p, msg in lst if p != path)  # noqa: E731
            # a diagnostic that appears outside the faulted block is attributed to another block; one that disappears (an analysis
            # that can no longer be made, e.g. the urgent-edge warnings once the synchronisation is ill-typed) is not
            refd = other(ref["E"]) + other(ref["W"])
            extra = []
            for x in other(use["E"]) + other(use["W"]):
                if x in refd:
                    refd.remove(x)
                else:
                    extra.append(x)
            if extra:
                bad = "diagnostic attributed to another block: %s (faulted block %s)" % (extra[:2], path)
                diagkey[cid] = "diag:%s:%s" % (lab[3], extra[0][1].strip('"').split(":")[0])
        if not bad:
            # both anchors: a diagnostic that starts in one block and ends in another (or before it starts) is attributed to a
            # block that holds no fault -- whichever of the two blocks is the faulted one
            split = lambda lst: [a for a in lst if a[1] != a[3] or a[4] < a[2]]  # noqa: E731
            refs = split(ref["A"])
            for a in split(use["A"]):
                if a in refs:
                    refs.remove(a)
                    continue
                bad = "diagnostic %s starts in %s line %d and ends in %s line %d (faulted block %s)" % (a[5], a[1] or "(no path)", a[2], a[3] or "(no path)", a[4], path)
                diagkey[cid] = "diag-end:%s:%s" % (lab[3], a[5].strip('"').split(":")[0])
                break
        if bad:
            disturbed.append((cid, bad))
        # the same fault in the textual (XTA) rendering: the label's own error production must confine it
        ft = res.get(cid + ".t")
        if ft and ft["done"] and not bad:
            n_xta += 1
            t0 = base["s%d.t" % si]
            if k == "typeerr":
                continue          # a type error is only found by the static analysis, which the as-built comparison does not run
            for fk, fv in t0["F"].items():
                if fk != key and ft["F"].get(fk) != fv:
                    xta_disturbed.append((cid, "XTA rendering: field %s changed: %s -> %s" % (fk, fv[:200], str(ft["F"].get(fk))[:200])))
                    break
    # the model-wide synchronisation-style diagnostic (Props/C16Sync.lean): where the library reports it against the state machine read
    # from visitEdge, for every case in which a synchronisation lost its direction and the static analysis ran
    MIX = "$CSP_and_IO_synchronisations_cannot_be_mixed"
    sync_cases = []
    for cid, (si, lab, k, t2, xml) in meta.items():
        fp = res.get(cid + ".p")
        if k not in SEMANTIC or not fp or not fp["done"]:
            continue
        m2 = with_label(seeds[si], lab, t2)
        seq = []
        for ti, t in enumerate(m2["templates"]):
            for ei, e in enumerate(t["edges"]):
                if e["sync"] is not None:
                    tx = e["sync"].rstrip()
                    seq.append((label_path(m2, ti, "edge", ei, "sync"), "b" if tx.endswith("!") else "q" if tx.endswith("?") else "c"))
        if cid in shifted:
            continue
        if seq:
            sync_cases.append((cid, seq, sorted(p_ for p_, msg_ in fp["E"] if MIX in msg_)))
    sync_dis = []
    if sync_cases and os.path.exists(core.lean_exe("drv_c16")):
        rc, out, err, _ = core.run_exe(core.lean_exe("drv_c16"), [], stdin_text="".join("sync %s\n" % " ".join(kd for _, kd in seq) for _, seq, _ in sync_cases))
        lines = [l[5:] for l in out.split("\n") if l.startswith("SYNC ")]
        for (cid, seq, got), bits in zip(sync_cases, lines):
            want = sorted(p_ for (p_, _), b_ in zip(seq, bits) if b_ == "1")
            if want != got:
                sync_dis.append((cid, seq, got, want))
    cov["sync_style_cases_compared"] = len(sync_cases)
    cov["sync_style_disagreements"] = len(sync_dis)
    if sync_dis:
        cid, seq, got, want = sync_dis[0]
        ctx.proof_broken("correspondence:sync-style", "synchronisation kinds %s: the library reports the CSP/IO mix on %s, the state machine read from visitEdge says %s"
                         % (" ".join(kd for _, kd in seq), got, want), "input: %s" % meta[cid][4][-1500:])
    elif sync_tie:
        ctx.proof_broken("translate/syncused.py", sync_tie, "%d documents with a synchronisation that lost its direction behave as the last good table says" % len(sync_cases))
    cov["xta_label_fault_cases"] = n_xta
    cov["correspondence_cases"] = n_cmp
    cov["faults_behind_an_empty_label"] = stats_shifted[0]
    cov["syntax_fault_cases"] = synt
    cov["semantic_fault_cases_compared_after_analysis"] = sem
    cov["fault_distribution"] = dist
    cov["semantic_faults_reported_in_their_block"] = reported
    # declaration prefix
    dbad = []
    n_decl = 0
    for cid, (si, pre, di, how, t2, xml) in dmeta.items():
        fb, rb = res.get(cid + ".b"), res.get(cid + ".r")
        if not fb or not rb or not fb["done"] or not rb["done"]:
            continue
        n_decl += 1
        # variables declared in the <system> block follow the global declarations in the same list: not part of the prefix
        nsys = sum(1 for x in seeds[si]["system"] if re.match(r"(int|bool|clock|chan)\b", x)) if pre == "G" else 0
        nvar = len([k for k in rb["F"] if re.match(re.escape(pre) + r"\.var\d+$", k)]) - nsys
        for fk, fv in rb["F"].items():
            mm = re.match(re.escape(pre) + r"\.(var|fun|typedef)(\d+)$", fk)
            if mm and mm.group(1) == "var" and int(mm.group(2)) >= nvar:
                continue
            if mm and fb["F"].get(fk) != fv:
                dbad.append((cid, "declaration %s before the faulted one changed: %s -> %s" % (fk, fv[:150], str(fb["F"].get(fk))[:150])))
                break
    cov["declaration_prefix_cases"] = n_decl
    cov["evaluations"] = n_cmp + n_decl
    cov["distinct_nontrivial"] = len(dist)
    cov["rule"] = ("field-wise dump of the faulty document equals the fault-free dump outside the faulted field; diagnostics outside the "
                   "faulted block's XPath unchanged; declarations before a faulted declaration unchanged")
    # 4 classify ----------------------------------------------------------------------------------------------------------
    by_shape = {}
    if disturbed:
        tcases = [(cid, "xml", 1, "t", meta[cid][4]) for cid, _ in disturbed]
        tres, _ = C08.run_batch(exe08, tcases)
        for cid, what in disturbed:
            tl = tres.get(cid, [])
            shape = unmatched_push(tl) if tl else None
            # an unmatched push after a syntax error in the label is the computed exception shape (an abandoned production); a frame
            # left behind by a label that parsed without a syntax error is something else
            si_, lab_, _, _, _ = meta[cid]
            lpath = label_path(seeds[si_], lab_[0], lab_[1], lab_[2], lab_[3])
            if cid in shifted:
                lpath = re.sub(r"label\[(\d+)\]$", lambda mm: "label[%d]" % (int(mm.group(1)) + 1), lpath)
            fb_ = res.get(cid + ".b") or {"E": []}
            syn = any(p_ == lpath and "syntax_error" in msg_ for p_, msg_ in fb_["E"])
            k = ("leak:frame:" if syn else "leak:frame-without-syntax-error:") + shape if shape else (diagkey[cid] if cid in diagkey else
                                                     "disturbance:%s:%s" % (meta[cid][1][3], meta[cid][2]))
            if not shape and cid not in diagkey and lab_[3] == "exprate" and re.match(r"field %s\.inv changed" % re.escape(lab_[4].rsplit(".", 1)[0]), what):
                # the operand a faulty rate label left on the builder's expression stack is taken for the invariant of the same location
                k = "leak:fragment:rate-fault-replaces-invariant"
            by_shape.setdefault(k, []).append((cid, what))
    cov["correspondence_disagreements"] = len(disturbed)
    cov["disturbances_by_shape"] = {k: len(v) for k, v in by_shape.items()}
    for k, lst in sorted(by_shape.items()):
        cid, what = min(lst, key=lambda x: len(meta[x[0]][3]))
        si, lab, fk, t2, xml = meta[cid]
        ctx.finding(k, "fault (%s) in label %s = %r disturbs the rest of the document: %s (%d cases of this shape)" % (fk, lab[4], t2, what, len(lst)),
                    {"entry": "parse_XML_buffer(buf, DocumentBuilder*, true)", "input_b64": base64.b64encode(xml.encode()).decode(),
                     "faulted_field": lab[4], "fault_kind": fk, "faulty_label_text": t2, "fault_free_label_text": get_label(seeds[si], lab),
                     "faulted_path": re.sub(r"label\[(\d+)\]$", lambda mm: "label[%d]" % (int(mm.group(1)) + (1 if cid in shifted else 0)),
                                            label_path(seeds[si], lab[0], lab[1], lab[2], lab[3])),
                     "fault_free_input_b64": base64.b64encode((insert_empty_label(G.to_xml(seeds[si]), shifted[cid]) if cid in shifted
                                                               else G.to_xml(seeds[si])).encode()).decode(),
                     "observed": what, "required": "everything outside %s identical to the fault-free document" % lab[4]})
    xs = {}
    for cid, what in xta_disturbed:
        xs.setdefault("xta-disturbance:%s:%s" % (meta[cid][1][3], meta[cid][2]), []).append((cid, what))
    for k, lst in sorted(xs.items()):
        cid, what = min(lst, key=lambda x: len(meta[x[0]][3]))
        si, lab, fk, t2, xml = meta[cid]
        ctx.finding(k, "fault (%s) in label %s = %r of the XTA text disturbs the rest of the document: %s (%d cases of this shape)" % (fk, lab[4], t2, what, len(lst)),
                    {"entry": "parse_XTA(text, Document*, true)", "input_b64": base64.b64encode(G.to_xta(with_label(seeds[si], lab, t2)).encode()).decode(),
                     "faulted_field": lab[4], "fault_kind": fk, "faulty_label_text": t2, "observed": what})
    for cid, what in dbad[:1]:
        si, pre, di, how, t2, xml = dmeta[cid]
        ctx.finding("decl-prefix:%s" % how, "fault inside declaration %d of block %s (%r): %s" % (di, pre, t2, what),
                    {"input_b64": base64.b64encode(xml.encode()).decode(), "observed": what})
    cov["samples"] = [{"field": meta[c][1][4], "fault": meta[c][2], "faulty_text": meta[c][3]} for c in list(meta)[:3]]
    # computed exception shapes: each must be confirmed on the real library by its witness, and must be a known finding
    wit = {"expr_forall_begin": "forall (i : int[0,1]) (", "expr_exists_begin": "exists (i : int[0,1]) (", "expr_sum_begin": "sum (i : int[0,1]) (",
           "expr_forall_dynamic_begin": "forall (i : nosuchtempl, (", "expr_exists_dynamic_begin": "exists (i : nosuchtempl, (",
           "expr_sum_dynamic_begin": "sum (i : nosuchtempl, (", "expr_foreach_dynamic_begin": "foreach (i : nosuchtempl, ("}
    confirmed = {}
    if accepted:
        m = seeds[accepted[0]]
        labs = [l for l in labels_of(m) if l[3] == "guard"]
        if labs:
            wc = []
            for sh in shapes:
                if sh in wit:
                    wc.append((sh, "xml", 1, "t", G.to_xml(with_label(m, labs[0], wit[sh]))))
            tres, _ = C08.run_batch(exe08, wc)
            for sh, *_ in wc:
                confirmed[sh] = unmatched_push(tres.get(sh, [])) == sh
                if confirmed[sh]:
                    ctx.finding("leak:frame:" + sh, "witness %r as a guard leaves the binder frame pushed (TraceBuilder: unmatched %s)" % (wit[sh], sh),
                                {"input_b64": base64.b64encode(wc[[w[0] for w in wc].index(sh)][4].encode()).decode(), "faulty_label_text": wit[sh]})
    cov["exception_shapes_confirmed_on_library"] = confirmed
    if not ok:
        for path, thm, msg in (core.failing_theorems(log) or [("?", "lake build", log[-300:])]):
            ctx.proof_broken(thm, msg + "\n" + log[-2000:], "%d fault cases on the implementation, %d disturbances" % (n_cmp, len(disturbed)))
    ctx.assumptions += [
        "the label traces quantified over by the theorems are lists of expression-level callbacks followed by the label's own callback; "
        "that the grammar emits only such lists for the label entry points is read off the generated production table",
        "flex/bison error recovery is represented by 'any prefix of a production's callbacks may be abandoned'",
        "syntax faults are compared on documents as built (no static analysis), type errors after static analysis on both sides",
    ]


def replay(ctx, path):
    r = json.load(open(path))
    print(json.dumps({k: v for k, v in r.items() if k != "replay"}, indent=1))
    rp = r.get("replay", {})
    if not rp.get("input_b64"):
        print(json.dumps(rp, indent=1)[:4000])
        return 1
    exe08, _ = C08.build_harness("asan")
    text = base64.b64decode(rp["input_b64"]).decode()
    if rp.get("faulted_path") and rp.get("fault_free_input_b64") and r.get("key", "").startswith("diag"):
        # a diagnostic outside the faulted block: both anchors of every diagnostic of the faulty input that the fault-free input
        # does not have, with (semantic faults) or without static analysis
        mode = "p" if rp.get("fault_kind") in SEMANTIC else "b"
        res, _ = _run(build("asan"), [("f", mode, text), ("r", mode, base64.b64decode(rp["fault_free_input_b64"]).decode())])
        ref = list(res.get("r", {}).get("A", []))
        bad = 0
        for a in res.get("f", {}).get("A", []):
            if a in ref:
                ref.remove(a)
                continue
            here = a[1] == rp["faulted_path"] and a[3] == rp["faulted_path"] and a[4] >= a[2]
            bad += 0 if here else 1
            print("%s %s: %s line %d .. %s line %d%s" % (a[0], a[5], a[1], a[2], a[3], a[4], "" if here else "   <-- not inside " + rp["faulted_path"]))
        return 1 if bad else 0
    tres, crashes = C08.run_batch(exe08, [("r0", "xml", 1, "t", text)], 1)
    tl = tres.get("r0", [])
    sh = unmatched_push(tl)
    for l in tl:
        if l.startswith("C 0 expr_") and ("begin" in l or "end" in l) or l.startswith("C 0 proc_") or l.startswith("TR "):
            print(l)
    print("unmatched frame push:", sh)
    return 1 if sh or crashes else 0
