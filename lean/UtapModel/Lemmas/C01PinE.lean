/- C01: pinned exception set, stacks M, U (finite check over the generated table; split over several modules so that
   lake checks them in parallel). -/
import UtapModel.Lemmas.C01Pin
namespace UtapModel.C01
theorem pinned_M : pinnedOn .M = true := by decide +kernel
theorem pinned_U : pinnedOn .U = true := by decide +kernel
end UtapModel.C01
