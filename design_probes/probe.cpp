#include "utap/utap.h"
#include "utap/builder.h"
#include "utap/typechecker.h"
#include "utap/property.h"
#include "utap/StatementBuilder.hpp"
#include <iostream>
#include <sstream>
#include <fstream>
using namespace UTAP;

static std::string sexp(const expression_t& e) {
    if (e.empty()) return "<empty>";
    std::ostringstream os;
    os << "(" << e.get_kind();
    if (e.get_kind()==Constants::IDENTIFIER) os << ":" << e.get_symbol().get_name();
    if (e.get_kind()==Constants::CONSTANT) { try { if (e.get_type().is(Constants::DOUBLE)) os << ":d" << e.get_double_value(); else if (e.get_type().is_string()) os<<":s"; else os << ":" << e.get_value(); } catch(...) {os<<":?";} }
    for (size_t i=0;i<e.get_size();++i) os << " " << sexp(e[i]);
    os << ")";
    return os.str();
}

class QB : public StatementBuilder {
public:
    expression_t query; TypeChecker checker;
    explicit QB(Document& d): StatementBuilder{d}, checker{d} {}
    void property() override { if (fragments.size()==0) throw std::logic_error("nofrag"); query = fragments[0]; fragments.pop(); }
    void strategy_declaration(const char*) override {}
    variable_t* addVariable(type_t, const std::string&, expression_t, position_t) override { throw NotSupportedException("addVariable"); }
    bool addFunction(type_t, const std::string&, position_t) override { throw NotSupportedException("addFunction"); }
};

int main(int argc, char** argv) {
    std::string model = argv[1];
    std::ifstream f(model); std::stringstream ss; ss << f.rdbuf();
    Document doc;
    int r = parse_XML_buffer(ss.str().c_str(), &doc, true);
    std::cout << "parse=" << r << " errors=" << doc.get_errors().size() << "\n";
    for (auto& e: doc.get_errors()) std::cout << "  ERR " << e.str() << "\n";
    std::string mode = argv[2];
    std::string line;
    while (std::getline(std::cin, line)) {
        if (line.empty()) continue;
        try {
            size_t nerr = doc.get_errors().size();
            expression_t e;
            if (mode == "expr") {
                QB qb(doc);
                int res = parse_XTA(line.c_str(), &qb, true, S_EXPRESSION, "");
                if (qb.getExpressions().size()==0) { std::cout << "IN : " << line << "\n  NOFRAG errs:"; for (size_t i=nerr;i<doc.get_errors().size();++i) std::cout << " [" << doc.get_errors()[i].msg << "]"; std::cout<<"\n"; continue;} std::cout << "  (stack=" << qb.getExpressions().size() << ")\n"; e = qb.getExpressions()[0];
                qb.checker.checkExpression(e);
            } else {
                QB qb(doc);
                int res = parseProperty(line.c_str(), &qb);
                e = qb.query;
                if (!e.empty()) qb.checker.checkExpression(e);
            }
            std::cout << "IN : " << line << "\n";
            std::cout << "  newerrs=" << doc.get_errors().size()-nerr;
            for (size_t i=nerr;i<doc.get_errors().size();++i) std::cout << " [" << doc.get_errors()[i].msg << "]";
            std::cout << "\n  TREE: " << sexp(e) << "\n";
            std::string s = e.str();
            std::cout << "  STR : " << s << "\n";
        } catch (std::exception& ex) { std::cout << "IN : " << line << "\n  EXC " << ex.what() << "\n"; }
    }
}
