"""C02 -- parsed expression trees follow the language's precedence and associativity (DESIGN.md section 4, C02).

 1 translate   parser.y / lexer.l / keywords.cpp -> lean/UtapModel/Gen/ExprGrammar.lean            (tie T)
 2 prove       UtapModel.Props.C02: round trips parse(render_min t) = t, parse(render_full t) = t, redundant
               parentheses, aliases, unary plus, imply, integer literals, comma lists nest to the left; generated table =
               reference table
 3 correspond  Lean parser model (generated table) vs the real parser on: every operator pair / triple, random trees
               rendered minimally / fully, mutated token strings, literal boundary values; comma lists of one to eight
               elements through S_EXPRESSION_LIST and in every place of the grammar that takes a list          (tie C)
 4 search      whenever model and implementation disagree, or a theorem/translation breaks, the *reference* table
               (Spec/OperatorTable.lean, not derived from parser.y) decides: a text whose real tree differs from the
               reference parse is the replay
"""
import json
import os
import re
import struct
import sys

from vlib import core

sys.path.insert(0, os.path.join(core.VERIF, "translate"))
import exprgrammar  # noqa: E402

GEN = os.path.join(core.LEAN_DIR, "UtapModel", "Gen", "ExprGrammar.lean")
MODULE = "UtapModel.Props.C02"


# ---------------------------------------------------------------------------------------------- helpers
def run_lines(exe, lines, timeout=900):
    rc, out, err, dt = core.run_exe(exe, [], stdin_text="\n".join(lines) + "\n", timeout=timeout)
    res = out.split("\n")
    if res and res[-1] == "":
        res.pop()
    return rc, res, err


def canon_model(k):
    """model prints doubles as literal text; the harness prints the bit pattern: convert with Python's float()"""
    def f(m):
        try:
            return "(CONSTANT double %016x)" % struct.unpack("<Q", struct.pack("<d", float(m.group(1))))[0]
        except (ValueError, OverflowError):
            return m.group(0)
    return re.sub(r"\(CONSTANT double ([^()\s]+)\)", f, k)


def classify(h):
    """harness line -> ('tree', k) | ('reject', msg) | ('semerr', msg) | ('other', line)"""
    if h.startswith("("):
        return "tree", h
    if h.startswith("REJECT"):
        return "reject", h
    if h.startswith("SEMERR"):
        return "semerr", h
    return "other", h


def same(model_out, harness_out):
    kind, val = classify(harness_out)
    if kind == "semerr":
        return None  # not comparable: the builder refused something the (purely syntactic) model cannot know
    if model_out == "REJECT":
        return kind == "reject"
    return kind == "tree" and canon_model(model_out) == val


# ---------------------------------------------------------------------------------------------- generators
class Gen:
    def __init__(self, G, rng):
        self.rng = rng
        self.bins = [t for t, _p, _k in G["bin"]]
        self.pres = [t for t, _p, k in G["pre"] if k != ""]
        self.posts = [t for t, _k in G["post"]]
        self.quants = [t for t, _p, _k in G["quant"]]
        self.fns = {1: [], 2: [], 3: []}
        for t, _k, a in G["fn"]:
            self.fns[a].append(t)
        self.stats = {}

    def hit(self, k):
        self.stats[k] = self.stats.get(k, 0) + 1

    def atom(self):
        r = self.rng
        c = r.random()
        if c < 0.45:
            return "(id %s)" % r.choice("a b c d e i j k p q x y cl".split())
        if c < 0.7:
            return "(nat %d)" % r.choice([0, 1, 2, 7, 10, 255, 2147483647, r.randint(0, 2147483647)])
        if c < 0.76:
            return "(intmin)"
        if c < 0.88:
            return "(dbl %s)" % r.choice(["1.5", "0.1", "2.5e3", "1e-3", "3.0", "12.75E+2", "7e0", "0.00001", "1000000.0", "2e20", "1e-7", "0.25e-9"])
        if c < 0.96:
            return r.choice(["true", "false"])
        return "(str abc)"

    def dotbase(self, d):
        r = self.rng
        c = r.random()
        if c < 0.5:
            return "(id s)", "S"
        if c < 0.8:
            return "(index (id ss) %s)" % self.tree(d - 1), "S"
        return "(dot in (id s))", "In"

    def tree(self, d):
        r = self.rng
        if d <= 0 or r.random() < 0.12:
            self.hit("atom")
            return self.atom()
        c = r.random()
        if c < 0.40:
            self.hit("bin")
            return "(bin %s %s %s)" % (r.choice(self.bins), self.tree(d - 1), self.tree(d - 1))
        if c < 0.52:
            self.hit("pre")
            return "(pre %s %s)" % (r.choice(self.pres), self.tree(d - 1))
        if c < 0.60:
            self.hit("post")
            return "(post %s %s)" % (r.choice(self.posts), self.tree(d - 1))
        if c < 0.68:
            self.hit("tern")
            return "(tern %s %s %s)" % (self.tree(d - 1), self.tree(d - 1), self.tree(d - 1))
        if c < 0.75:
            self.hit("index")
            return "(index %s %s)" % (self.tree(d - 1) if r.random() < 0.5 else "(id arr)", self.tree(d - 1))
        if c < 0.81:
            self.hit("call")
            n = r.choice([0, 1, 2, 3])
            return "(call (id f%d)%s)" % (n, "".join(" " + self.tree(d - 1) for _ in range(n)))
        if c < 0.87:
            self.hit("fn")
            n = r.choice([1, 1, 2, 3])
            return "(fn %s%s)" % (r.choice(self.fns[n]), "".join(" " + self.tree(d - 1) for _ in range(n)))
        if c < 0.93:
            self.hit("quant")
            return "(quant %s %s int[0,3] %s)" % (r.choice(self.quants), r.choice("ijk"), self.tree(d - 1))
        self.hit("dot")
        base, ty = self.dotbase(d)
        fld = r.choice(["f", "g"]) if ty == "S" else "h"
        return "(dot %s %s)" % (fld, base)


class TypedGen(Gen):
    """well-typed integral expressions (accepted by the type checker): assignments and ++/-- only on lvalues, calls with the
    right arity, no rate / strings / doubles in integer-only operators"""
    INT_ONLY = {"MOD", "BIT_AND", "BIT_OR", "BIT_XOR", "BIT_LSHIFT", "BIT_RSHIFT"}

    def __init__(self, G, rng):
        super().__init__(G, rng)
        self.assign = [t for t, _p, k in G["bin"] if k == "ASSIGN" or k.startswith("ASS_")]
        self.arith = [t for t, _p, k in G["bin"] if not (k == "ASSIGN" or k.startswith("ASS_"))]
        self.prekind = {t: k for t, _p, k in G["pre"]}
        self.plain_assign = [t for t, _p, k in G["bin"] if k == "ASSIGN"]

    def lvalue(self, d):
        r = self.rng
        c = r.random()
        if d <= 0 or c < 0.5:
            return "(id %s)" % r.choice("a b c d e i j k".split())
        if c < 0.75:
            return "(index (id arr) %s)" % self.tree(d - 1)
        if c < 0.85:
            return "(index (index (id mat) %s) %s)" % (self.tree(d - 1), self.tree(d - 1))
        if c < 0.95:
            return "(dot %s (id s))" % r.choice(["f", "g"])
        return "(dot f (index (id ss) %s))" % self.tree(d - 1)

    def atom(self):
        r = self.rng
        c = r.random()
        if c < 0.55:
            return "(id %s)" % r.choice("a b c d e i j k p q".split())
        if c < 0.85:
            return "(nat %d)" % r.choice([0, 1, 2, 7, 10, 255, 2147483647, r.randint(0, 100000)])
        if c < 0.9:
            return "(intmin)"
        return r.choice(["true", "false"])

    def tree(self, d):
        r = self.rng
        if d <= 0 or r.random() < 0.12:
            self.hit("atom")
            return self.atom()
        c = r.random()
        if c < 0.38:
            self.hit("bin")
            return "(bin %s %s %s)" % (r.choice(self.arith), self.tree(d - 1), self.tree(d - 1))
        if c < 0.48:
            self.hit("assign")
            return "(bin %s %s %s)" % (r.choice(self.assign), self.lvalue(d - 1), self.tree(d - 1))
        if c < 0.58:
            self.hit("pre")
            t = r.choice(self.pres)
            if self.prekind[t] in ("PRE_INCREMENT", "PRE_DECREMENT"):
                return "(pre %s %s)" % (t, self.lvalue(d - 1))
            return "(pre %s %s)" % (t, self.tree(d - 1))
        if c < 0.64:
            self.hit("post")
            return "(post %s %s)" % (r.choice([t for t in self.posts if t.startswith("T_")]), self.lvalue(d - 1))
        if c < 0.73:
            self.hit("tern")
            return "(tern %s %s %s)" % (self.tree(d - 1), self.tree(d - 1), self.tree(d - 1))
        if c < 0.80:
            self.hit("index")
            return self.lvalue(d) if r.random() < 0.7 else "(index (id arr) %s)" % self.tree(d - 1)
        if c < 0.88:
            self.hit("call")
            n = r.choice([0, 1, 2, 3])
            return "(call (id f%d)%s)" % (n, "".join(" " + self.tree(d - 1) for _ in range(n)))
        if c < 0.95:
            self.hit("quant")
            return "(quant %s %s int[0,3] %s)" % (r.choice(self.quants), r.choice("ijk"), self.tree(d - 1))
        self.hit("dot")
        if r.random() < 0.35:
            # what stands before `.` need not be a name: an assignment between records is itself a record (`(s = ss[i]).f`, `(s = ss[i]).in.h`)
            self.hit("dot-of-assignment")
            asg = self.plain_assign[0]
            rec = "(bin %s (id s) (index (id ss) %s))" % (asg, self.tree(d - 1))
            return "(dot %s %s)" % (r.choice(["f", "g"]), rec) if r.random() < 0.7 else "(dot h (dot in %s))" % rec
        return "(dot %s (id s))" % r.choice(["f", "g"])


def operator_strings(G, thorough=False):
    """every pair (thorough: also every triple) of operators around atoms: the complete finite part of the table"""
    lit = {}
    for l, t in G["literals"]:
        lit.setdefault(t, l)
    for w, t, s in G["keywords"]:
        if "NEW" in s:
            lit.setdefault(t, w)
    bins = [lit[t] for t, _p, _k in G["bin"]] + [lit[G["imply"][0]]]
    pres = [lit[t] for t, _p, _k in G["pre"]]
    posts = [lit[t] for t, _k in G["post"]]
    out = []
    if thorough:
        for o1 in bins:
            for o2 in bins:
                for o3 in bins:
                    out.append("a %s b %s c %s d" % (o1, o2, o3))
                for pr in pres:
                    out.append("a %s %s b %s c" % (o1, pr, o2))
                for po in posts:
                    out.append("a %s b %s %s c" % (o1, po, o2))
                out.append("a %s b ? c %s d : e" % (o1, o2))
                out.append("p ? a %s b : c %s d" % (o1, o2))
    for o1 in bins:
        for o2 in bins:
            out.append("a %s b %s c" % (o1, o2))
        for pr in pres:
            out.append("%s a %s b" % (pr, o1))
            out.append("a %s %s b" % (o1, pr))
        for po in posts:
            out.append("a %s b %s" % (o1, po))
            out.append("a %s %s b" % (po, o1))
        out.append("a %s b ? c : d" % o1)
        out.append("a ? b : c %s d" % o1)
        out.append("a ? b %s c : d" % o1)
        out.append("forall ( i : int[0,3] ) a %s b" % o1)
        out.append("a %s forall ( i : int[0,3] ) b %s c" % (o1, o1))
        out.append("a %s arr [ b ] %s c" % (o1, o1))
        out.append("a %s f1 ( b ) . f" % o1)
    for pr in pres:
        for po in posts:
            out.append("%s a %s" % (pr, po))
        for pr2 in pres:
            out.append("%s %s a" % (pr, pr2))
        out.append("%s a ? b : c" % pr)
        out.append("%s arr [ a ]" % pr)
        out.append("%s s . f" % pr)
        out.append("%s f1 ( a )" % pr)
    for po in posts:
        for po2 in posts:
            out.append("a %s %s" % (po, po2))
        out.append("arr [ a ] %s" % po)
        out.append("s . f %s" % po)
    out += ["a ? b : c ? d : e", "a ? b ? c : d : e", "a = b ? c : d = e", "f2 ( a , b ) ( c )", "f1 ( , a )", "f0 ( )",
            "arr [ a ] [ b ]", "( a )", "( ( a + b ) ) * c", "- 2147483648", "a - - 2147483648", "- - 2147483648",
            "2147483648", "a - 2147483648", "a := b", "a = b := c"]
    return out


def mutate(rng, text):
    # the binder `( id : type )` of a quantifier is one unit: the type sub-language is outside the model
    text = re.sub(r"\b(forall|exists|sum) \( (\w+) : (\S+) \)", lambda m: "\x01".join(m.group(0).split(" ")), text)
    return _mutate(rng, text).replace("\x01", " ")


def _mutate(rng, text):
    toks = text.split(" ")
    if not toks:
        return text
    c = rng.random()
    i = rng.randrange(len(toks))
    if c < 0.3 and len(toks) > 1:
        del toks[i]
    elif c < 0.5:
        toks.insert(i, toks[i])
    elif c < 0.7 and len(toks) > 1:
        j = rng.randrange(len(toks))
        toks[i], toks[j] = toks[j], toks[i]
    elif c < 0.85:
        toks.insert(i, rng.choice(["(", ")", "[", "]", ",", "?", ":", "+", "-", "!", "++", "a", "1", "=", "&&", "not", "."]))
    else:
        toks = toks[:i]
    return " ".join(toks)


def literal_cases(rng):
    out = []
    for n in [0, 1, 9, 10, 2147483646, 2147483647, 2147483648, 2147483649, 4294967295, 4294967296, 9999999999, 10**19, 2**63, 2**64 + 5,
              10**30]:
        for z in ["", "0", "000"]:
            out.append(z + str(n))
    for _ in range(200):
        out.append(str(rng.randint(0, 2**33)))
    floats = ["1e308", "1.7976931348623157e308", "4.9e-324", "2.2250738585072014e-308", "2.2250738585072011e-308", "0.1", "0.30000000000000004",
              "123456789.123456789", "1e22", "1e23", "9007199254740993.0", "5e-324", "2.4703282292062327e-324", "1.0000000000000002",
              "8.41e21", "2.2250738585072012e-308", "17976931348623157e292", "9007199254740993e0", "0.000001", "3.14159265358979323846264338327950288", "1e-400", "1E5", "1e+5",
              "00012.50"]
    for _ in range(300):
        m = rng.randint(0, 10**17)
        e = rng.randint(-320, 300)
        floats.append("%d.%de%d" % (m // 1000, m % 1000, e))
    # literals a hair above / below the midpoint of two neighbouring doubles: a conversion that rounds twice (through a wider
    # floating-point format first) lands on the wrong neighbour exactly here.  The midpoint is written out exactly (it is a dyadic rational).
    from fractions import Fraction
    import math

    def exact(fr):
        """finite decimal expansion of a dyadic rational"""
        k = 0
        den = fr.denominator
        while den % 2 == 0:
            den //= 2
            k += 1
        assert den == 1
        num = fr.numerator * 5 ** k
        sgn, ds = ("-" if num < 0 else ""), str(abs(num))
        if k == 0:
            return sgn + ds + ".0"
        ds = ds.rjust(k + 1, "0")
        return sgn + ds[:-k] + "." + ds[-k:]
    floats += ["9007199254740993.0001", "1.00000000000000011102230246251565404236316680908203126", "4503599627370496.50000001"]
    for _ in range(120):
        d = rng.choice([rng.uniform(0.5, 2.0), rng.uniform(1e3, 1e6), float(rng.randint(2 ** 52, 2 ** 53)), rng.uniform(1e-5, 1e-3), float(2 ** rng.randint(1, 60))])
        nx = math.nextafter(d, math.inf)
        mid = (Fraction(d) + Fraction(nx)) / 2
        txt = exact(mid)
        if len(txt) > 900:
            continue
        floats.append(txt + "0000000001")                     # just above the midpoint: the upper neighbour is nearest
        floats.append(exact(mid - Fraction(1, 10 ** (len(txt) + 4)) if False else mid)[:-1] + str(max(0, int(txt[-1]) - 1)) + "99999999")   # just below
    return out, floats


# ---------------------------------------------------------------------------------------------- the check
def run(ctx):
    cov = ctx.coverage
    # 1 translate -------------------------------------------------------------------------------
    G = None
    tie_err = None
    try:
        G = exprgrammar.extract(core.REPO)
        core.write_if_changed(GEN, exprgrammar.emit(G))
    except exprgrammar.TranslateError as ex:
        tie_err = str(ex)
        ctx.log("translator failed:", ex)
    # 2 prove -----------------------------------------------------------------------------------
    broken = []
    ok, log = ctx.prove(MODULE, ["drv_c02"])
    if not ok:
        broken = core.failing_theorems(log) or [("?", "lake build", log[-400:])]
        ctx.log("proof broken:", broken)
        okd, logd = core.lake_build(["drv_c02"])
        if not okd:
            ctx.proof_broken("drv_c02", logd, "driver does not build; nothing could be compared")
            return
    drv = core.lean_exe("drv_c02")
    b = core.build_repo("asan")
    har = core.build_harness(b, "c02", ["c02.cpp"])
    if G is None:
        # fall back on the committed table for generating probe strings
        G = {"bin": [], "pre": [], "post": [], "quant": [], "fn": [], "literals": [], "keywords": [], "imply": ("T_KW_IMPLY", None, "OR")}
    # 3 correspondence ----------------------------------------------------------------------------
    texts = []            # (origin, text, expected-kind-tree-or-None)
    if G["bin"]:
        for t in operator_strings(G, ctx.thorough):
            texts.append(("pair", t, None))
    gen = Gen(G, ctx.rng) if G["bin"] else None
    ntrees = (6000 if not ctx.thorough else 80000) if gen else 0
    trees = []
    for n in range(ntrees):
        trees.append(gen.tree(ctx.rng.choice([1, 2, 2, 3, 3, 4, 5, 6] if not ctx.thorough else [2, 3, 4, 5, 6, 8, 10])))
    machinery = []
    if trees:
        rc, tout, err = run_lines(drv, ["T\t" + t for t in trees])
        if rc != 0 or len(tout) != len(trees):
            ctx.proof_broken("drv_c02", err[-2000:], "driver crashed on T commands")
            return
        for t, line in zip(trees, tout):
            f = line.split("\t")
            if len(f) != 6 or f[0] != "true":
                machinery.append(("generator produced a tree outside the fragment", t, line[:300]))
                continue
            w, tmin, tfull, k, pmin, pfull = f
            if pmin != k or pfull != k:
                machinery.append(("driver's own round trip disagrees with the theorem", t, line[:600]))
            texts.append(("min", tmin, k))
            texts.append(("full", tfull, k))
            if ctx.rng.random() < 0.5:
                texts.append(("mutant", mutate(ctx.rng, tmin), None))
    # model parse of every text (generated table) and reference parse
    plain = [t for _o, t, _k in texts]
    rc1, pm, e1 = run_lines(drv, ["P\t" + t for t in plain])
    rc2, ps, e2 = run_lines(drv, ["S\t" + t for t in plain])
    # the real parser sees the texts in ONE process, with rejected inputs in between that end inside a comment, a string, a bracket ...:
    # whatever they leave behind in the lexer / parser must not change the tree of the next text
    POISON = ["a + b /* TODO: finish this", "/*", "a /* x", "\"abc", "a + (b", "a ? b :", "1e", "@", "arr[", "f2(a,", "a /* c */ +", "forall (i : int[0,1]) ("]
    hl, keep = [], []
    for idx, t in enumerate(plain):
        if idx % 37 == 5:
            hl.append("P\t" + POISON[(idx // 37) % len(POISON)])
        keep.append(len(hl))
        hl.append("P\t" + t)
    rc3, ph_all, e3 = run_lines(har, hl)
    cov["poison_inputs_interleaved"] = len(hl) - len(plain)
    ph = [ph_all[i] for i in keep if i < len(ph_all)] if rc3 == 0 and len(ph_all) == len(hl) else ph_all[:0]
    if rc3 == 0 and len(ph_all) != len(hl):
        rc3 = 1
    if rc3 != 0 or len(ph) != len(plain):
        # the real parser crashed (sanitizer report or abort): find the input
        bad = hl[len(ph_all)][2:] if len(ph_all) < len(hl) else "?"
        ctx.finding("crash:parse_expression", "the real parser died on an expression text: %r" % bad,
                    {"entry": "parse_XTA(text, builder, true, S_EXPRESSION)", "text": bad, "stderr": e3[-3000:]})
        return
    if rc1 != 0 or rc2 != 0 or len(pm) != len(plain) or len(ps) != len(plain):
        ctx.proof_broken("drv_c02", (e1 + e2)[-2000:], "driver crashed on P/S commands")
        return
    n_cmp = n_sem = 0
    dis_model, dis_spec = [], []
    origin_count = {}
    for (origin, text, k), m, s, h in zip(texts, pm, ps, ph):
        origin_count[origin] = origin_count.get(origin, 0) + 1
        r = same(m, h)
        if r is None:
            n_sem += 1
            continue
        n_cmp += 1
        if k is not None and m != k:
            machinery.append(("model parse of a rendering differs from the tree", text, m[:200]))
        if not r:
            dis_model.append((origin, text, m, h))
        if same(s, h) is False:
            dis_spec.append((origin, text, s, h))
    # the same expressions inside declarations, statements and labels: the tree must not depend on the context ---------
    CTX = ["decl", "stmt", "arg", "inv", "guard", "update", "update2"]
    ctx_cases = []
    for (origin, text, k), m in zip(texts, pm):
        if origin in ("pair", "min") and m != "REJECT":
            ctx_cases.append((ctx.rng.choice(CTX), text, m))
    if len(ctx_cases) > (4000 if not ctx.thorough else 60000):
        ctx_cases = ctx.rng.sample(ctx_cases, 4000 if not ctx.thorough else 60000)
    har_fast = core.build_harness(core.build_repo("plain"), "c02p", ["c02.cpp"])     # -O2 build: whole-model parses are slow under ASan
    rc4, px, e4 = run_lines(har_fast, ["X\t%s\t%s" % (c, t) for c, t, _m in ctx_cases])
    ctx_count = {}
    if rc4 != 0 or len(px) != len(ctx_cases):
        bad = ctx_cases[len(px)] if len(px) < len(ctx_cases) else "?"
        ctx.finding("crash:parse_in_context", "the real parser died on an expression placed in a %s: %r" % (bad[0], bad[1]),
                    {"context": bad[0], "text": bad[1], "stderr": e4[-3000:]})
    else:
        for (c, t, m), h in sorted(zip(ctx_cases, px), key=lambda z: (len(z[0][1].split()), z[0][1])):
            r = same(m, h)
            if r is None:
                continue
            ctx_count[c] = ctx_count.get(c, 0) + 1
            if not r:
                ctx.finding("context:%s:%s" % (c, shape_key(t)), "expression %r placed in a %s: the document holds %s, the operator table prescribes %s"
                            % (t, c, h[:300], canon_model(m)[:300]),
                            {"entry": "parse_XTA(whole model) with the expression as " + c, "context": c, "text": t, "observed": h,
                             "expected": canon_model(m)})
    cov["contexts"] = ctx_count
    # comma lists (`ExprList`): one, two, three and more elements, through the entry point S_EXPRESSION_LIST and in every place of the
    # grammar that takes a list.  The NESTING of the COMMA nodes is part of the tree (the printed text and the type checker cannot
    # tell a left-nested list from a right-nested one, a client walking the tree can), and it only shows from three elements on.
    LIST_CTX = ["list-update", "list-for-init", "list-for-cond", "list-for-step", "list-while", "list-do-while", "list-if", "list-before",
                "list-after", "list-xml-assignment"]
    elems = [t for (o, t, k), m in zip(texts, pm) if o in ("pair", "min") and m != "REJECT" and len(t.split()) <= 12]
    lists = [["a = 1", "b = 2", "c = 3"], ["a", "b", "c", "d"], ["a = 1", "b = 2"], ["a"], ["f2 ( a , b )", "c", "arr [ a ]"],
             ["a ? b : c", "d = e", "i ++"], ["f1 ( a )", "c"]] if elems else []
    for _ in range((1500 if not ctx.thorough else 20000) if elems else 0):
        lists.append([ctx.rng.choice(elems) for _ in range(ctx.rng.choice([1, 2, 3, 3, 3, 4, 4, 5, 6, 8]))])
    ltexts = [" , ".join(l) for l in lists]
    lbad = ["a ,", ", a", "a , , b", "a , b ,", ","]          # not lists: rejected by both sides
    rcl, lm, el = run_lines(drv, ["C\t" + t for t in ltexts + lbad])
    rcd, ls, ed = run_lines(drv, ["D\t" + t for t in ltexts + lbad])
    rce, lh, ee = run_lines(har, ["E\t" + t for t in ltexts + lbad])
    lctx = [(LIST_CTX[i % len(LIST_CTX)], t) for i, t in enumerate(ltexts)]
    rcx, lx, ex = run_lines(har_fast, ["X\t%s\t%s" % (c, t) for c, t in lctx])
    list_count, dis_list = {}, []
    if rcl != 0 or rcd != 0 or len(lm) != len(ltexts) + len(lbad) or len(ls) != len(lm):
        ctx.proof_broken("drv_c02", (el + ed)[-2000:], "driver crashed on C/D commands")
    elif rce != 0 or len(lh) != len(lm) or rcx != 0 or len(lx) != len(lctx):
        ctx.finding("crash:parse_expression_list", "the real parser died on a comma list", {"stderr": (ee + ex)[-3000:]})
    else:
        rows = [("expression-list", t, m, s_, h) for t, m, s_, h in zip(ltexts + lbad, lm, ls, lh)] + \
               [(c, t, m, s_, h) for (c, t), m, s_, h in zip(lctx, lm, ls, lx)]
        for c, t, m, s_, h in rows:
            r = same(s_, h)
            if r is None:
                continue
            list_count[c] = list_count.get(c, 0) + 1
            n_cmp += 1
            if not r:
                dis_list.append((c, t, s_, h))
            if same(m, h) is False:
                dis_model.append((c, t, m, h))
        seen = set()
        for c, t, s_, h in sorted(dis_list, key=lambda d: (len(d[1].split()), d[1])):      # smallest lists first: the minimal replays
            key = "comma-list:%s:%d-elements" % (c, t.count(" , ") + 1 if h.startswith("(") else 0)
            if c in seen or len(seen) >= 6:
                continue
            seen.add(c)
            ctx.finding(key, "comma list %r (%s): the client receives %s, the operator table prescribes %s" % (t, c, h[:300], canon_model(s_)[:300]),
                        {"entry": "parse_XTA(text, builder, newxta=true, S_EXPRESSION_LIST)" if c == "expression-list" else
                         "whole model with the list as " + c, "list_context": c, "text": t, "observed": h,
                         "expected_by_reference_table": canon_model(s_)})
    cov["comma_lists"] = {"by_context": list_count, "by_length": {n: sum(1 for l in lists if len(l) == n) for n in sorted({len(l) for l in lists})},
                          "disagreements_with_reference": len(dis_list)}
    # builtin functions: every name of the reference table builds the kind the table gives it ---------------------------------------
    spec_src = open(os.path.join(core.LEAN_DIR, "UtapModel", "Spec", "OperatorTable.lean")).read()
    btab = re.findall(r'\("([a-z0-9_]+)", "([A-Z0-9_]+_F)", (\d)\)', spec_src[spec_src.index("def builtinSpec"):])
    args = ["a", "b + 1", "x"]
    btexts = ["%s(%s)" % (n, ", ".join(args[:int(ar)])) for n, _k, ar in btab] + ["-%s(%s) * c" % (n, ", ".join(args[:int(ar)])) for n, _k, ar in btab]
    _, bh, _ = run_lines(har, ["P\t" + t for t in btexts])
    cov["builtin_functions_checked"] = len(btab)
    for (n, k, ar), t, h in zip(btab + btab, btexts, bh):
        want = "(%s " % k
        if not (h.startswith(want) or h.startswith("(MULT (UNARY_MINUS " + want)):
            ctx.finding("builtin:%s" % n, "builtin function %r: the parser builds %s, the language reference says kind %s with %s argument(s)" % (t, h[:200], k, ar),
                        {"entry": "parse_XTA(text, builder, true, S_EXPRESSION)", "text": t, "observed": h, "expected_kind": k})
    # calls of a process set: P(e1, e2).x selects the process with the arguments in the order written --------------------------------
    pcases = []
    pool = [t for _o, t, k in texts if k is not None][:200] or ["a", "b + 1"]
    for i in range(60 if not ctx.thorough else 600):
        e = [ctx.rng.choice(pool) for _ in range(3)]
        if ctx.rng.random() < 0.5:
            pcases.append(("PS", e[:2], "PS(%s, %s).px" % (e[0], e[1])))
        else:
            pcases.append(("PT", e, "PT(%s, %s, %s).pz" % tuple(e)))
    _, pargs, _ = run_lines(har, ["P\t(" + a + ")" for _n, es, _t in pcases for a in es])
    _, ptree, _ = run_lines(har, ["P\t" + t for _n, _es, t in pcases])
    pi = 0
    nps = 0
    for (pn, es, t), h in zip(pcases, ptree):
        trees = pargs[pi:pi + len(es)]
        pi += len(es)
        if any(not x.startswith("(") for x in trees) or "," in "".join(es):
            continue          # an argument that is rejected / has a diagnostic of its own, or a comma expression
        want = "(IDENTIFIER %s)" % pn
        for x in trees:
            want = "(ARRAY %s %s)" % (want, x)
        want = "(DOT %s %s)" % ("px" if pn == "PS" else "pz", want)
        nps += 1
        if h != want and not h.startswith("SEMERR"):
            ctx.finding("process-set-call:%d-arguments" % len(es), "%r: the document holds %s, the arguments as written select %s" % (t, h[:300], want[:300]),
                        {"entry": "parse_XTA(text, builder, true, S_EXPRESSION)", "text": t, "observed": h, "expected": want})
    cov["process_set_calls_checked"] = nps
    # literals ------------------------------------------------------------------------------------
    ints, floats = literal_cases(ctx.rng)
    _, li, _ = run_lines(drv, ["L\t" + x for x in ints])
    _, hi, _ = run_lines(har, ["P\t" + x for x in ints] + ["P\t" + x for x in floats])
    lit_bad = []
    for x, m, h in zip(ints, li, hi[:len(ints)]):
        n = int(x)
        want = "nat %d" % n if n <= 2147483647 else ("posNegMax" if n == 2147483648 else "overflow")
        if m != want:
            machinery.append(("lexNum model differs from its theorem", x, m))
        kind, val = classify(h)
        if n <= 2147483647:
            good = kind == "tree" and val == "(CONSTANT int %d)" % n
        else:
            good = kind == "reject"
        if not good:
            lit_bad.append(("int", x, want, h))
    for x, h in zip(floats, hi[len(ints):]):
        try:
            want = "(CONSTANT double %016x)" % struct.unpack("<Q", struct.pack("<d", float(x)))[0]
        except OverflowError:
            continue
        if h != want:
            lit_bad.append(("double", x, want, h))
    # identifiers at the length limit of the lexer: the declared variable of exactly the greatest accepted length, one character less,
    # one and two more; a name that is not reported must arrive whole (C02_identifier_not_truncated)
    try:
        limit = int(re.search(r"MAXLEN\s*=\s*(\d+)", open(os.path.join(core.REPO, "src", "libparser.h")).read()).group(1)) - 1
    except Exception:  # noqa
        limit = 4000
    names = ["n" * limit, "n" * (limit - 1), "n" * (limit + 1), "n" * (limit + 2), "n" * limit + " + 1", "1 + " + "n" * (limit + 1)]
    _, ml, _ = run_lines(drv, ["P\t" + x for x in names])
    _, hl, _ = run_lines(har, ["P\t" + x for x in names])
    for x, mo, h in zip(names, ml, hl):
        kind, val = classify(h)
        ids = re.findall(r"\(IDENTIFIER (n+)\)", h)
        want = re.findall(r"n+", x)
        if kind == "tree" and ids != want:
            ctx.finding("identifier:silently-truncated", "an identifier of %d characters arrives in the tree with %s characters and no diagnostic"
                        % (len(want[0]), [len(i) for i in ids]), {"entry": "parse_XTA(text, builder, true, S_EXPRESSION)", "text_length": len(x),
                                                                   "text_head": x[:40], "observed_head": h[:80]})
        elif same(mo, h) is False:
            dis_model.append(("long-identifier", x[:30] + "...(%d characters)" % len(x), mo[:80], h[:80]))
    # the same for string literals (the limit counts the two quotes)
    strs = ['"%s"' % ("s" * k) for k in (limit - 3, limit - 2, limit - 1, limit, limit + 1000)]
    _, ml, _ = run_lines(drv, ["P\t" + x for x in strs])
    _, hl, _ = run_lines(har, ["P\t" + x for x in strs])
    for x, mo, h in zip(strs, ml, hl):
        kind, val = classify(h)
        got = re.findall(r"\(CONSTANT string (s+)\)", h)
        if kind == "tree" and got != [x[1:-1]]:
            ctx.finding("literal:string:silently-truncated", "a string literal of %d characters arrives with %s characters and no diagnostic"
                        % (len(x) - 2, [len(i) for i in got]), {"entry": "parse_XTA(text, builder, true, S_EXPRESSION)", "text_length": len(x),
                                                                  "observed_head": h[:80]})
        elif same(mo, h) is False:
            dis_model.append(("long-string", "string literal of %d characters" % (len(x) - 2), mo[:80], h[:80]))
    cov["identifier_length_limit"] = limit
    # 4 classify ----------------------------------------------------------------------------------
    dis_spec.sort(key=lambda d: (len(d[1].split()), d[1]))     # smallest texts first: they are the minimal replays
    for origin, text, s, h in dis_spec[:8]:
        key = "tree:" + shape_key(text)
        ctx.finding(key, "expression %r: the real parser gives %s, the operator table prescribes %s" % (text, h[:300], canon_model(s)[:300]),
                    {"entry": "parse_XTA(text, builder, newxta=true, S_EXPRESSION) in the scope of harness/c02.cpp",
                     "text": text, "observed": h, "expected_by_reference_table": canon_model(s), "origin": origin})
    for kind, x, want, h in lit_bad[:8]:
        ctx.finding("literal:%s:%s" % (kind, x if len(x) < 30 else x[:30]), "literal %s: expected %s, real parser gives %s" % (x, want, h[:200]),
                    {"text": x, "expected": want, "observed": h})
    unexplained = [d for d in dis_model if not any(d[1] == s[1] for s in dis_spec + dis_list)]
    if unexplained:
        ctx.proof_broken("correspondence:generated-table-model",
                         "model (generated table) and implementation disagree on %d texts where the reference table agrees with the "
                         "implementation; first: %r" % (len(unexplained), unexplained[0]), "reference parse agrees with the implementation")
    if machinery:
        ctx.proof_broken("machinery:c02", repr(machinery[:3]), "internal consistency of driver/generator")
    if tie_err and not ctx.violations:
        ctx.proof_broken("translate/exprgrammar.py", tie_err, "%d texts compared with the reference table, no disagreement" % n_cmp)
    if broken and not ctx.violations:
        for path, thm, msg in broken:
            ctx.proof_broken(thm, msg + "\n" + log[-1500:], "%d texts compared with the reference table, no disagreement" % n_cmp)
    cov["correspondence_cases"] = n_cmp
    cov["not_comparable_semantic_error"] = n_sem
    cov["correspondence_disagreements"] = len(dis_model)
    cov["reference_disagreements"] = len(dis_spec)
    cov["evaluations"] = len(texts) + len(ints) + len(floats)
    cov["distinct_nontrivial"] = len({t for o, t, k in texts if len(t.split()) >= 3})
    cov["rule"] = ("texts = every operator pair/triple (complete), random trees rendered minimally and fully by the Lean model, "
                   "single-token mutants of those, integer/double boundary literals; distinct texts with >= 3 tokens counted")
    cov["exhaustive"] = False
    cov["distribution"] = {"by_origin": origin_count, "tree_nodes": gen.stats if gen else {}, "rejects_by_impl": sum(1 for h in ph if h.startswith("REJECT")),
                           "int_literals": len(ints), "double_literals": len(floats)}
    cov["traces_validated_against_impl"] = n_cmp
    cov["samples"] = [{"text": t, "model": m[:200], "impl": h[:200]} for (o, t, k), m, h in list(zip(texts, pm, ph))[:: max(1, len(texts) // 5)][:6]]
    ctx.assumptions += [
        "identifier scope of the comparison is the fixed declaration block in harness/c02.cpp; identifier binding itself is C07",
        "double literals: the model keeps the literal text; nearest-double conversion is compared with Python's float() (a test, not a theorem)",
        "dynamic (spawn/exit/numOf/foreach) and MITL expressions and bison's error-recovery productions are outside the model",
        "new (4.x) syntax only; the 3.x keyword set is not modelled",
    ]


def shape_key(text):
    """identity of a disagreement: the operator skeleton (identifiers and numbers abstracted), so that the same defect has one key"""
    toks = []
    for t in text.split():
        if re.fullmatch(r"[A-Za-z_][A-Za-z_0-9]*", t) and t not in ("and", "or", "not", "imply", "xor", "forall", "exists", "sum", "true", "false"):
            toks.append("x")
        elif re.fullmatch(r"[0-9.eE+-]*[0-9][0-9.eE+-]*", t) and t not in ("-", "+", "--", "++"):
            toks.append("n")
        else:
            toks.append(t)
    return "_".join(toks)[:70]


def replay(ctx, path):
    r = json.load(open(path))
    text = r["replay"].get("text")
    lc = r["replay"].get("list_context")
    print("replaying:", text, "(comma list, %s)" % lc if lc else "")
    b = core.build_repo("asan")
    har = core.build_harness(b, "c02", ["c02.cpp"])
    core.lake_build(["drv_c02"])
    _, h, _ = run_lines(har, [("E\t" + text if lc == "expression-list" else "X\t%s\t%s" % (lc, text)) if lc else "P\t" + text])
    _, s, _ = run_lines(core.lean_exe("drv_c02"), [("D\t" if lc else "S\t") + text])
    print("implementation:", h[0] if h else "?")
    print("reference     :", canon_model(s[0]) if s else "?")
    return 0 if h and s and same(s[0], h[0]) is not False else 1
