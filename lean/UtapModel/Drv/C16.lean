/- stub: line-protocol driver for C16 (to be written) -/
def main : IO Unit := pure ()
