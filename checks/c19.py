"""C19 -- expression cloning, substitution and equality obey their algebraic laws (DESIGN.md section 4, C19).

 1 translate   the `switch` of expression_t::get_size -> lean/UtapModel/Gen/Arity.lean (arityOf)          (tie T)
 2 prove       UtapModel.Props.C19: equal reflexive / symmetric / transitive, deep clone equal + fresh + independent,
               subst exact / frame / self, equal distinguishes every single-node perturbation, get_size = number of
               children for every kind the builders construct (decide over the generated table), equal => same text
               outside the computed exception set (constants of equal value and different type class) + witness
 3 correspond  trees the REAL parser produced (generated models, expressions, queries) with node identities ->
               clone / clone_deeper / clone_deeper(from,to) / subst / equal / get_size answered by the real
               expression_t API (harness/c19.cpp) and by the Lean model (drv_c19); canonical results diffed     (tie C)
 4 search      direct oracle in the harness: every law on every tree, all its symbols, all single-node perturbations;
               call sequences on one tree: print, replace an operand through operator[], print again (the text follows the tree);
               a child beyond get_size() is probed in a forked process (one read past the reported end)
"""
import json
import os
import re
import sys
from xml.sax.saxutils import escape

from vlib import core

sys.path.insert(0, os.path.join(core.VERIF, "translate"))
import arity as arity_tr  # noqa: E402
import kinds as kinds_tr  # noqa: E402

GEN = os.path.join(core.LEAN_DIR, "UtapModel", "Gen", "Arity.lean")
MODULE = "UtapModel.Props.C19"

GDECL = """const int N = 3; typedef int[0,N] id_t; int i, j, k; bool b, c; double d, e; clock x, y;
int a[4]; int m[2][3]; struct { int f; bool g; } s; chan ch; broadcast chan bc[2]; const bool T = true;
int f1(int p) { return p + 1; } int f3(int p, int q, bool r) { return r ? p : q; } void f0() { i = 0; }
double fd(double p) { return p * 2.0; }
"""

# ------------------------------------------------------------------------------------------------
# type-directed expression generator
# ------------------------------------------------------------------------------------------------
M1 = ["fabs", "sqrt", "exp", "ln", "sin", "cos", "ceil", "floor", "log", "tan", "cbrt", "exp2", "log2", "log10", "trunc", "round",
      "asin", "acos", "atan", "sinh", "cosh", "tanh", "erf", "tgamma", "lgamma", "expm1", "log1p", "asinh", "acosh", "atanh", "erfc",
      "logb", "random", "random_poisson"]
M2 = ["pow", "fmod", "hypot", "atan2", "fmax", "fmin", "fdim", "nextafter", "copysign", "random_normal", "random_gamma",
      "random_beta", "random_weibull", "random_arcsine"]
M3 = ["fma", "random_tri"]
IOPS = ["+", "-", "*", "/", "%", "&", "|", "^", "<<", ">>", "<?", ">?"]
CMP = ["<", "<=", "==", "!=", ">=", ">"]


class G:
    def __init__(self, r, binders=()):
        self.r = r
        self.binders = list(binders)

    def lit(self):
        return str(self.r.choice([0, 1, 2, 3, 5, 7, 10, 42, 255, 1000, 2147483647]))

    def int(self, d):
        r = self.r
        if d <= 0 or r.random() < 0.25:
            opts = ["i", "j", "k", "N", "s.f", "P1.lv", "P2.lv", self.lit(), self.lit(), "a[%s]" % r.choice(["0", "i", "3"]), "m[1][2]"]
            opts += self.binders
            return r.choice(opts)
        c = r.random()
        if c < 0.40:
            return "(%s %s %s)" % (self.int(d - 1), r.choice(IOPS), self.int(d - 1))
        if c < 0.48:
            return "-%s" % self.int(d - 1) if r.random() < 0.5 else "-(%s)" % self.int(d - 1)
        if c < 0.58:
            return "(%s ? %s : %s)" % (self.bool(d - 1), self.int(d - 1), self.int(d - 1))
        if c < 0.66:
            return "f1(%s)" % self.int(d - 1)
        if c < 0.74:
            return "f3(%s, %s, %s)" % (self.int(d - 1), self.int(d - 1), self.bool(d - 1))
        if c < 0.80:
            return "a[%s]" % self.int(d - 1)
        if c < 0.84:
            return "abs(%s)" % self.int(d - 1)
        if c < 0.90:
            q = "q%d" % len(self.binders)
            inner = G(r, self.binders + [q])
            return "(sum (%s : %s) %s)" % (q, r.choice(["id_t", "int[0,2]"]), inner.int(d - 1))
        if c < 0.94:
            return r.choice(["fint(%s)", "ilogb(%s)", "fpclassify(%s)"]) % self.dbl(d - 1)
        return "m[%s][%s]" % (r.choice(["0", "1"]), self.int(d - 1))

    def bool(self, d):
        r = self.r
        if d <= 0 or r.random() < 0.2:
            return r.choice(["b", "c", "true", "false", "s.g", "T", "P1.L0", "P2.L1", "b == true", "c == false"])
        c = r.random()
        if c < 0.30:
            return "(%s %s %s)" % (self.int(d - 1), r.choice(CMP), self.int(d - 1))
        if c < 0.38:
            return "(%s %s %s)" % (self.dbl(d - 1), r.choice(CMP), self.dbl(d - 1))
        if c < 0.60:
            return "(%s %s %s)" % (self.bool(d - 1), r.choice(["&&", "||", "and", "or", "imply"]), self.bool(d - 1))
        if c < 0.70:
            return "!%s" % self.bool(d - 1) if r.random() < 0.5 else "not (%s)" % self.bool(d - 1)
        if c < 0.84:
            q = "q%d" % len(self.binders)
            inner = G(r, self.binders + [q])
            return "(%s (%s : %s) %s)" % (r.choice(["forall", "exists"]), q, r.choice(["id_t", "int[0,2]"]), inner.bool(d - 1))
        if c < 0.90:
            return "(%s ? %s : %s)" % (self.bool(d - 1), self.bool(d - 1), self.bool(d - 1))
        if c < 0.95:
            return r.choice(["isnan(%s)", "isinf(%s)", "isfinite(%s)", "signbit(%s)", "isnormal(%s)"]) % self.dbl(d - 1)
        return "(%s == %s)" % (self.bool(d - 1), self.bool(d - 1))

    def dbl(self, d):
        r = self.r
        if d <= 0 or r.random() < 0.25:
            return r.choice(["d", "e", "1.5", "2.0", "0.25", "3.14159", "1e3", "0.0", "100.0"])
        c = r.random()
        if c < 0.35:
            return "(%s %s %s)" % (self.dbl(d - 1), r.choice(["+", "-", "*", "/"]), self.dbl(d - 1))
        if c < 0.60:
            return "%s(%s)" % (r.choice(M1), self.dbl(d - 1))
        if c < 0.78:
            return "%s(%s, %s)" % (r.choice(M2), self.dbl(d - 1), self.dbl(d - 1))
        if c < 0.86:
            return "%s(%s, %s, %s)" % (r.choice(M3), self.dbl(d - 1), self.dbl(d - 1), self.dbl(d - 1))
        if c < 0.92:
            return "fd(%s)" % self.dbl(d - 1)
        if c < 0.96:
            return "ldexp(%s, %s)" % (self.dbl(d - 1), self.int(d - 1))
        return "(%s ? %s : %s)" % (self.bool(d - 1), self.dbl(d - 1), self.dbl(d - 1))

    def update(self, d):
        r = self.r
        return r.choice([
            "i = %s" % self.int(d), "j += %s" % self.int(d), "k -= %s" % self.int(d), "i *= %s" % self.lit(), "j /= 2", "k %= 3",
            "i &= %s" % self.int(d), "j |= %s" % self.lit(), "k ^= 5", "i <<= 1", "j >>= 1", "i++", "++j", "k--", "--i",
            "b = %s" % self.bool(d), "d = %s" % self.dbl(d), "a[%s] = %s" % (self.int(d - 1), self.int(d)), "s.f = %s" % self.int(d),
            "x = 0", "f0()", "m[1][0] = %s" % self.int(d)])

    def guard(self, d):
        r = self.r
        atoms = [r.choice(["x < %s" % self.int(0), "y >= 2", "x - y <= %s" % self.lit(), "x == 3", self.bool(d), self.bool(d)])
                 for _ in range(r.randint(1, 3))]
        return " && ".join(atoms)

    def any(self, d):
        r = self.r
        c = r.random()
        if c < 0.35:
            return self.int(d)
        if c < 0.6:
            return self.bool(d)
        if c < 0.8:
            return self.dbl(d)
        if c < 0.9:
            return self.update(d)
        return r.choice(["x'", "x - y < %s" % self.int(1), "x <= %s" % self.lit(), "ch", "bc[%s]" % self.int(0), "i, j" if False else "s",
                         "a", "P1.lx <= 3", "deadlock" if False else "y > x"])


def gen_query(r, g):
    B = lambda: g.bool(r.randint(0, 2))
    I = lambda: g.int(r.randint(0, 2))
    n = lambda: str(r.choice([1, 5, 10, 100]))
    lst = lambda: ", ".join(r.choice([I(), "d", "x", B()]) for _ in range(r.randint(1, 4)))
    forms = [
        lambda: "A[] %s" % B(), lambda: "E<> %s" % B(), lambda: "A<> %s" % B(), lambda: "E[] %s" % B(), lambda: "%s --> %s" % (B(), B()),
        lambda: "A[] not deadlock", lambda: "E<> (%s and deadlock)" % B(),
        lambda: "Pr[<=%s](<> %s)" % (n(), B()), lambda: "Pr[<=%s]([] %s)" % (n(), B()), lambda: "Pr[#<=%s](<> %s)" % (n(), B()),
        lambda: "Pr[x<=%s](<> %s)" % (n(), B()), lambda: "Pr[<=%s](<> %s) >= 0.%d" % (n(), B(), r.randint(1, 9)),
        lambda: "Pr[<=%s]([] %s) <= 0.%d" % (n(), B(), r.randint(1, 9)),
        lambda: "Pr[<=%s](<> %s) >= Pr[<=%s](<> %s)" % (n(), B(), n(), B()),
        lambda: "E[<=%s; %s](max: %s)" % (n(), n(), I()), lambda: "E[<=%s; %s](min: %s)" % (n(), n(), I()),
        lambda: "simulate [<=%s] {%s}" % (n(), lst()), lambda: "simulate [<=%s; %s] {%s}" % (n(), n(), lst()),
        lambda: "simulate [<=%s; %s] {%s} : %s : %s" % (n(), n(), lst(), n(), B()),
        lambda: "sup: %s" % lst(), lambda: "inf: %s" % lst(), lambda: "sup{%s}: %s" % (B(), lst()), lambda: "inf{%s}: %s" % (B(), lst()),
        lambda: "bounds: %s" % lst(), lambda: "bounds{%s}: %s" % (B(), lst()),
        lambda: "control: A[] %s" % B(), lambda: "control: A<> %s" % B(), lambda: "control: A[%s U %s]" % (B(), B()),
        lambda: "minE(%s)[<=%s]: <> %s" % (I(), n(), B()), lambda: "maxE(%s)[<=%s]: <> %s" % (I(), n(), B()),
        lambda: "E<> exists (q : id_t) a[q] == %s" % I(), lambda: "A[] forall (q : id_t) (a[q] >= 0 imply %s)" % B(),
        lambda: "A[%s U %s]" % (B(), B()), lambda: "A[%s W %s]" % (B(), B()),
    ]
    return r.choice(forms)()


def gen_doc(r):
    g = G(r)
    decl = GDECL
    for k in range(r.randint(1, 4)):
        decl += r.choice([
            "int v%d[3] = {%s, %s, %s};" % (k, g.lit(), g.lit(), g.lit()),
            "int w%d = %s;" % (k, G(r).int(2).replace("P1.lv", "1").replace("P2.lv", "2")),
            "bool u%d[2] = {true, false};" % k,
            "struct { int p; bool q; } r%d = {%s, true};" % (k, g.lit()),
            "double z%d = %s;" % (k, r.choice(["1.5", "2.0 * 3.0", "0.1"])),
            "int n%d[2][2] = {{1, 2}, {3, %s}};" % (k, g.lit()),
        ]) + "\n"
    gl = G(r, ["q"])   # the edge's select variable
    edges = []
    for _ in range(r.randint(1, 3)):
        upd = ", ".join(gl.update(1).replace("P1.lv", "lv").replace("P2.lv", "lv").replace("P1.L0", "b").replace("P2.L1", "c")
                        for _ in range(r.randint(1, 3)))
        grd = gl.guard(1).replace("P1.lv", "lv").replace("P2.lv", "lv").replace("P1.L0", "b").replace("P2.L1", "c")
        sync = r.choice(["ch!", "ch?", "bc[id]!", "bc[0]?", ""])
        edges.append((grd, sync, upd))
    t = ["<template><name>P</name><parameter>int id</parameter><declaration>int lv; clock lx; int k; bool c;</declaration>",
         '<location id="id0"><name>L0</name><label kind="invariant">%s</label></location>' % escape(r.choice(["lx <= 5 && x' == 1", "lx <= N", "x' == 0 && lx < 10 + id"])),
         '<location id="id1"><name>L1</name></location><init ref="id0"/>']
    for k, (grd, sync, upd) in enumerate(edges):
        t.append('<transition><source ref="id%d"/><target ref="id%d"/><label kind="select">q : id_t</label><label kind="guard">%s</label>%s'
                 '<label kind="assignment">%s</label></transition>' % (k % 2, (k + 1) % 2, escape(grd),
                                                                         '<label kind="synchronisation">%s</label>' % escape(sync) if sync else "", escape(upd)))
    t.append("</template>")
    return ('<?xml version="1.0" encoding="utf-8"?><nta><declaration>%s</declaration>%s<system>P1 = P(1); P2 = P(0); system P1, P2;</system></nta>'
            % (escape(decl), "\n".join(t)))


# pairs of texts the parser turns into `equal` trees that print differently unless equal() looked at the constant's type
SPECIAL = ["b == true", "b == 1", "c == false", "c == 0", "a[1]", "a[true]", "i + 1", "i + 1"]


def strip_ids(sx):
    return re.sub(r"\((\d+) ", "(", sx)


def const_type_shape(sa, sb):
    """first differing token of two identity-free trees, as a shape: constant-type:B/I"""
    ta, tb = strip_ids(sa).replace("(", " ( ").replace(")", " ) ").split(), strip_ids(sb).replace("(", " ( ").replace(")", " ) ").split()
    for x, y in zip(ta, tb):
        if x != y:
            return "constant-type:%s/%s" % (x, y) if x in "BIDS-" and y in "BIDS-" else "structure:%s/%s" % (x, y)
    return "structure"


# ------------------------------------------------------------------------------------------------
def session(ctx, exe, r, nexpr, nquery, have_drv, stats):
    """one generated document + expressions + queries: oracle (LAWS) and correspondence with the Lean driver"""
    xml = gen_doc(r)
    g = G(r)
    texts = [("E", t) for t in SPECIAL]
    for _ in range(nexpr):
        t = g.any(r.randint(0, 3))
        texts.append(("E", t))
        if r.random() < 0.12:
            texts.append(("E", t))          # the same text twice: two distinct, equal trees
    for _ in range(nquery):
        texts.append(("Q", gen_query(r, g)))
    lines = ["DOC " + xml.encode().hex()] + ["%s %s" % (op, t.encode().hex()) for op, t in texts]
    rc, out, err, _ = core.run_exe(exe, [], stdin_text="\n".join(lines) + "\n", timeout=300)
    o = out.split("\n")
    if rc != 0 or not o[0].startswith("DOC"):
        return {"crash": {"stage": "parse", "rc": rc, "stderr": err[-2500:], "xml": xml, "texts": texts}}
    m = re.match(r"DOC errors=(\d+) pool=(\d+)", o[0])
    if int(m.group(1)) > 0:
        stats["docs_rejected"] += 1
        return {}
    npool = int(m.group(2))
    accepted = []
    for (op, t), l in zip(texts, o[1:]):
        mm = re.match(r"[EQ] (\d+)$", l)
        if mm:
            accepted.append((int(mm.group(1)), op, t))
        else:
            stats["texts_rejected"] += 1
    ntrees = npool + len(accepted)
    # perturbed variants of some trees become trees of their own (for equal on near misses, in both implementations)
    var_of = r.sample(range(ntrees), min(ntrees, 6))
    lines2 = lines + ["VARIANTS %d 6" % k for k in var_of]
    rc, out, err, _ = core.run_exe(exe, [], stdin_text="\n".join(lines2) + "\nNSYMS\n", timeout=300)
    o = out.split("\n")
    total = ntrees
    for l in o[len(lines):]:
        mm = re.match(r"VARIANTS (\d+) (\d+)", l)
        if mm:
            total = int(mm.group(2))
    # ops
    ops = []
    trees = list(range(total))
    for k in trees:
        ops.append("sizes %d" % k)
    for k in r.sample(trees, min(len(trees), 40)):
        ops.append("clone_deeper %d" % k)
        ops.append("clone %d" % k)
        ops.append("clone_frame %d" % k)
    pairs = [(k, k) for k in r.sample(trees, min(len(trees), 10))]
    pairs += [(r.choice(trees), r.choice(trees)) for _ in range(60)]
    # a tree against its neighbours (duplicates and variants are adjacent in the pool)
    pairs += [(k, k + 1) for k in range(total - 1)] + [(k + 1, k) for k in range(0, total - 1, 3)]
    for vk in var_of:
        pairs += [(vk, j) for j in range(ntrees, total)][:8]
    for a, bb in pairs:
        ops.append("equal %d %d" % (a, bb))
    # the special texts against each other
    sp = [k for k, op, t in accepted if t in SPECIAL]
    pairs += [(x, y) for x in sp for y in sp if x != y]
    for a, bb in pairs:
        ops.append("equal %d %d" % (a, bb))
    lines3 = lines2 + ["TREE %d" % k for k in trees] + ["NSYMS", "RESOLVE"]
    rc, out, err, _ = core.run_exe(exe, [], stdin_text="\n".join(lines3) + "\n", timeout=300)
    o = out.split("\n")
    tree_lines = [l for l in o if l.startswith("TREE ")]
    if rc != 0 or len(tree_lines) != total:
        return {"crash": {"stage": "tree", "rc": rc, "stderr": err[-2500:], "xml": xml, "texts": texts}}
    tree_sx = {}
    for l in tree_lines:
        _, k, sx = l.split(" ", 2)
        tree_sx[int(k)] = sx
    nsyms = 0
    resolve_line = "RESOLVE"
    for l in o:
        if l.startswith("NSYMS "):
            nsyms = int(l.split()[1])
        if l.startswith("RESOLVE"):
            resolve_line = l
    stats["empty_children"] += sum(sx.count("()") for sx in tree_sx.values())
    # subst / clone_sym ops need the symbols occurring in the tree
    for k in r.sample(trees, min(len(trees), 40)):
        syms = sorted({int(x) for x in re.findall(r"#(\d+)", tree_sx[k])})
        for s in syms[:3]:
            ops.append("subst %d %d %d" % (k, s, r.choice(trees)))
            if nsyms:
                ops.append("clone_sym %d %d %d" % (k, s, r.randrange(nsyms)))
        if nsyms:
            ops.append("subst %d %d %d" % (k, r.randrange(nsyms), r.choice(trees)))
    # the laws are run on the trees the parser produced (perturbed variants are ill-formed on purpose and need not print)
    law_lines = ["LAWS %d %d" % (k, r.randrange(ntrees)) for k in range(ntrees)]
    text_lines = ["TEXT %d" % k for k in range(ntrees)]
    lines4 = lines3 + ops + text_lines + law_lines
    rc, out, err, _ = core.run_exe(exe, [], stdin_text="\n".join(lines4) + "\n", timeout=600)
    o = out.split("\n")
    res = {"fails": [], "xml": xml, "texts": texts}
    if rc != 0:
        return {"crash": {"stage": "ops/laws", "rc": rc, "stderr": err[-2500:], "stdout_tail": out[-1500:], "xml": xml, "texts": texts}}
    # skip the echo of lines3
    body = o[len(lines3):]
    # FAIL lines interleave with LAWS lines: separate op answers (first len(ops) lines) from the rest
    impl_ops = body[:len(ops)]
    impl_text = body[len(ops):len(ops) + ntrees]
    # equal => same text, on trees the parser itself produced (no API-built node involved)
    for idx, op in enumerate(ops):
        p = op.split()
        if p[0] == "equal" and impl_ops[idx] == "true" and int(p[1]) < ntrees and int(p[2]) < ntrees and p[1] != p[2]:
            stats["laws"]["equal_implies_same_text(parsed pairs)"] = stats["laws"].get("equal_implies_same_text(parsed pairs)", 0) + 1
            ta, tb = impl_text[int(p[1])], impl_text[int(p[2])]
            if ta != tb:
                res["fails"].append("FAIL equal_implies_same_text %s parsed trees %s and %s are equal() but print %s vs %s" % (
                    const_type_shape(tree_sx[int(p[1])], tree_sx[int(p[2])]), p[1], p[2], ta[5:], tb[5:]))
    for l in body[len(ops) + ntrees:]:
        if l.startswith("FAIL "):
            res["fails"].append(l)
        elif l.startswith("LAWS "):
            mm = re.search(r"checks=(\d+) fails=(\d+) probe=(\d)", l)
            stats["oracle_checks"] += int(mm.group(1))
            stats["probe_ok"] &= (mm.group(3) == "1")
            for law, cnt in re.findall(r"(\w+)=(\d+)", l.split(" per:")[1]):
                stats["laws"][law] = stats["laws"].get(law, 0) + int(cnt)
            for kn, sz in re.findall(r"([A-Z_0-9a-z]+)=(\d+)\+?", l.split(" arities:")[1].split(" per:")[0]):
                stats["arity_probed"].setdefault(kn, set()).add(int(sz))
        elif l.startswith("EXC "):
            res["fails"].append("FAIL exception %s" % l)
    for k, sx in tree_sx.items():
        for kn in re.findall(r"\((?:\d+) ([A-Z_0-9a-z]+) ", sx):
            stats["kinds"][kn] = stats["kinds"].get(kn, 0) + 1
        stats["nodes"] += sx.count("(") - sx.count("()")
    stats["trees"] += total
    stats["texts_accepted"] += len(accepted)
    # Lean side
    if have_drv:
        llines = ["RESET"] + ["T %d %s" % (k, tree_sx[k]) for k in trees] + [resolve_line] + ops
        rc2, out2, err2, _ = core.run_exe(core.lean_exe("drv_c19"), [], stdin_text="\n".join(llines) + "\n", timeout=600)
        lo_all = out2.split("\n")
        res["dis"] = []
        for k, l in zip(trees, lo_all[1:1 + len(trees)]):
            if k < ntrees and l != "ok parseBuilt=true noNaN=true":
                res["dis"].append({"op": "T %d" % k, "impl": "a tree produced by the parser", "model": l,
                                   "trees": {str(k): tree_sx[k][:1500]}})
        stats["hypotheses_checked"] = stats.get("hypotheses_checked", 0) + ntrees
        lo = lo_all[2 + len(trees):]
        for idx, op in enumerate(ops):
            a = impl_ops[idx] if idx < len(impl_ops) else "<missing>"
            bq = lo[idx] if idx < len(lo) else "<missing>"
            stats["corr_ops"][op.split()[0]] = stats["corr_ops"].get(op.split()[0], 0) + 1
            if op.startswith("equal") and a == "true":
                stats["equal_true"] += 1
            if a != bq:
                res["dis"].append({"op": op, "impl": a[:1500], "model": bq[:1500],
                                   "trees": {k: tree_sx[int(k)][:1500] for k in op.split()[1:2]}})
        stats["corr_cases"] += len(ops)
    return res


# ------------------------------------------------------------------------------------------------
# process-member typing: the type of P.x is the declared type with P's arguments substituted (type_t::subst via expr_dot)
# ------------------------------------------------------------------------------------------------
def sx_parse(s):
    toks = s.replace("(", " ( ").replace(")", " ) ").split()
    stack = [[]]
    for t in toks:
        if t == "(":
            stack.append([])
        elif t == ")":
            x = stack.pop()
            stack[-1].append(x)
        else:
            stack[-1].append(t)
    return stack[0]


def sx_str(x):
    return x if isinstance(x, str) else "(" + " ".join(sx_str(y) for y in x) + ")"


def dot_type_session(ctx, exe, r, stats):
    def pexpr(d):
        if d <= 0 or r.random() < 0.3:
            return r.choice(["n", "m", "N", "n", "m", "1", "2", "0", "5"])
        return "%s %s %s" % (pexpr(d - 1), r.choice(["+", "*", "+"]), pexpr(d - 1))

    def aexpr(d):
        if d <= 0 or r.random() < 0.4:
            return r.choice(["N", "1", "2", "3", "N"])
        return "%s %s %s" % (aexpr(d - 1), r.choice(["+", "*"]), aexpr(d - 1))
    nv = r.randint(3, 7)
    decls, bounds = [], {}
    for k in range(nv):
        if r.random() < 0.7:
            lo, hi = pexpr(1), pexpr(2)
            decls.append("int[%s, %s] v%d;" % (lo, hi, k))
            bounds["v%d" % k] = ("range", lo, hi)
        else:
            sz = pexpr(1)
            decls.append("int w%d[%s];" % (k, sz))
            bounds["w%d" % k] = ("array", sz)
    # the same inside records (and arrays of records): the substitution descends into the field types
    for k in range(r.randint(1, 3)):
        lo, hi, sz = pexpr(1), pexpr(2), pexpr(1)
        arr = r.random() < 0.4
        decls.append("struct { int[%s, %s] f; int g[%s]; } s%d%s;" % (lo, hi, sz, k, "[2]" if arr else ""))
        bounds["s%d%s.f" % (k, "[1]" if arr else "")] = ("range", lo, hi)
        bounds["s%d%s.g" % (k, "[0]" if arr else "")] = ("array", sz)
    insts = []
    for k in range(r.randint(1, 3)):
        insts.append(("Q%d" % k, aexpr(1), aexpr(1)))
    xml = ('<?xml version="1.0" encoding="utf-8"?><nta><declaration>const int N = 3; int i;</declaration>'
           '<template><name>P</name><parameter>const int n, const int m</parameter><declaration>%s</declaration>'
           '<location id="id0"><name>L0</name></location><init ref="id0"/></template><system>%s system %s;</system></nta>'
           % (escape(" ".join(decls)), escape(" ".join("%s = P(%s, %s);" % q for q in insts)), ", ".join(q[0] for q in insts)))
    texts, expect = [], []

    def sub(text, an, am):
        return re.sub(r"\b[nm]\b", lambda mm: "(" + (an if mm.group(0) == "n" else am) + ")", text)
    for qn, an, am in insts:
        for v, bd in bounds.items():
            texts.append("%s.%s" % (qn, v))
            if bd[0] == "range":
                exp = [sub(bd[1], an, am), sub(bd[2], an, am)]
            else:
                exp = ["0", "(" + sub(bd[1], an, am) + ") - 1"]
            expect.append((len(texts) - 1, bd[0], exp))
            texts += exp
    lines = ["DOC " + xml.encode().hex()] + ["E " + t.encode().hex() for t in texts]
    rc, out, err, _ = core.run_exe(exe, [], stdin_text="\n".join(lines) + "\n", timeout=120)
    o = out.split("\n")
    m = re.match(r"DOC errors=(\d+) pool=(\d+)", o[0] if o else "")
    if rc != 0 or not m:
        return [("crash", {"rc": rc, "stderr": err[-2000:], "xml": xml, "texts": texts})]
    if int(m.group(1)) > 0:
        return []
    idx = {}
    for k, l in enumerate(o[1:1 + len(texts)]):
        mm = re.match(r"E (\d+)$", l)
        if mm:
            idx[k] = int(mm.group(1))
    q = []
    for k, kind, exp in expect:
        if k in idx and k + 1 in idx and k + 2 in idx:
            q += ["TYPE %d" % idx[k], "SEXP %d" % idx[k + 1], "SEXP %d" % idx[k + 2]]
    rc, out, err, _ = core.run_exe(exe, [], stdin_text="\n".join(lines + q) + "\n", timeout=120)
    o = out.split("\n")[len(lines):]
    bad = []
    for j in range(0, len(q) - 2, 3):
        ty, lo, hi = o[j].split(" ", 2)[2], o[j + 1].split(" ", 2)[2], o[j + 2].split(" ", 2)[2]
        t = sx_parse(ty)[0]
        if t[0] == "ARRAY":
            t = t[2]
        got = (sx_str(t[2]), sx_str(t[3])) if t[0] == "RANGE" and len(t) >= 4 else ("?", "?")
        stats["dot_types"] += 1
        if got != (lo, hi):
            bad.append(("mismatch", {"member": texts[int(q[j].split()[1]) - int(m.group(2))] if False else q[j], "type": ty,
                                     "expected_bounds": [lo, hi], "xml": xml, "texts": texts}))
    return bad


def run(ctx):
    cov = ctx.coverage
    r = ctx.rng
    b = core.build_repo("asan")
    exe = core.build_harness(b, "c19", ["c19.cpp"])
    # 1 translate -------------------------------------------------------------------------------
    tie_ok, tie_err = True, ""
    try:
        table, default = arity_tr.read(core.REPO)
        core.write_if_changed(GEN, arity_tr.lean_text(table, default, kinds_tr.kinds(core.REPO)))
        cov["translated_kinds"] = len(table)
    except arity_tr.TranslateError as ex:
        tie_ok, tie_err = False, str(ex)
        ctx.log("translator failed:", tie_err[:300])
    # 2 prove -----------------------------------------------------------------------------------
    ok, log = ctx.prove(MODULE, ["drv_c19"])
    broken = []
    if not ok:
        broken = core.failing_theorems(log)
        ctx.log("proof broken:", broken or log[-1500:])
    have_drv = os.path.exists(core.lean_exe("drv_c19")) and (ok or core.lake_build(["drv_c19"])[0])
    # 3 + 4 ---------------------------------------------------------------------------------------
    stats = {"docs_rejected": 0, "texts_rejected": 0, "texts_accepted": 0, "trees": 0, "nodes": 0, "oracle_checks": 0, "probe_ok": True,
             "laws": {}, "kinds": {}, "corr_ops": {}, "corr_cases": 0, "equal_true": 0, "arity_probed": {}, "empty_children": 0,
             "dot_types": 0}
    nsess = 16 if not ctx.thorough else 250
    fails, dis, samples = [], [], []
    for sidx in range(nsess):
        res = session(ctx, exe, r, 45, 25, have_drv, stats)
        if "crash" in res:
            c = res["crash"]
            ctx.finding("impl:crash:" + c["stage"], "the harness died (rc=%s) while running the expression API on parsed trees" % c["rc"], c)
            continue
        for f in res.get("fails", []):
            fails.append((f, res))
        for d in res.get("dis", []):
            dis.append((d, res))
        if not samples and res.get("texts"):
            samples = [t for _, t in res["texts"][:3]]
    # trees of two documents compared with each other: string constants are interned per document
    words = ["alpha", "beta", "gamma", "delta", "f.json", "a b", "x", "alpha2"]
    xlines = []
    for _ in range(6 if not ctx.thorough else 60):
        docs2 = []
        for _d in range(2):
            ws = r.sample(words, r.randint(2, 5))
            decl = " ".join('const string s%d = "%s";' % (i, wd) for i, wd in enumerate(ws)) + " const int k0 = %d; const double d0 = 1.5;" % r.randint(0, 3)
            docs2.append('<?xml version="1.0" encoding="utf-8"?><nta><declaration>%s</declaration><template><name>T</name>'
                         '<location id="id0"><name>L</name></location><init ref="id0"/></template><system>system T;</system></nta>' % escape(decl))
        xlines.append("XDOC %s %s" % (docs2[0].encode().hex(), docs2[1].encode().hex()))
    rc, out, err, _ = core.run_exe(exe, [], stdin_text="\n".join(xlines) + "\n", timeout=300)
    if rc != 0:
        ctx.finding("impl:crash:cross-document", "the harness died (rc=%s) while comparing trees of two documents" % rc, {"stderr": err[-2000:], "ops": xlines[:2]})
    stats["cross_document_pairs"] = 0
    for l in out.split("\n"):
        if l.startswith("FAIL "):
            fails.append((l, {"xml": "(two documents, see the XDOC operation)", "texts": xlines[:3]}))
        elif l.startswith("XDOC "):
            stats["cross_document_pairs"] += int(re.search(r"pairs=(\d+)", l).group(1))
    for _ in range(10 if not ctx.thorough else 100):
        for kind, info in dot_type_session(ctx, exe, r, stats):
            if kind == "crash":
                ctx.finding("impl:crash:dot-type", "the harness died while typing process members", info)
            else:
                ctx.finding("dot_type_subst", "the type of a process member is not its declared type with the process arguments substituted: "
                            "%s has %s, expected bounds %s" % (info["member"], info["type"][:200], info["expected_bounds"]), info)
    # classify oracle failures: key = law:shape
    by_key = {}
    for f, res in fails:
        p = f.split(" ", 3)
        law, shape = p[1], (p[2] if len(p) > 2 else "")
        if law == "equal_implies_same_text":
            key = "%s:%s" % (law, shape)                      # constant-type:B/I, structure...
        elif law == "equal_distinguishes":
            key = "%s:%s" % (law, shape.split(":")[0])         # kind / order / symbol / constant
        elif law == "arity_accessible":
            key = "%s:%s" % (law, shape)                      # the kind whose get_size is wrong
        else:
            key = law                                         # clone_*, subst_*, mutate_independent, equal_refl/symm/trans
        by_key.setdefault(key, []).append((f, res))
    for key, fl in sorted(by_key.items()):
        f, res = min(fl, key=lambda x: len(x[0]))              # the smallest failing tree as witness
        ctx.finding(key, "expression law %s fails on the real expression_t API: %s" % (key.split(":")[0], f[5:400]),
                    {"entry": "parse_XML_buffer + parse_XTA(S_EXPRESSION)/parseProperty, then the public expression_t API (harness/c19.cpp LAWS)",
                     "failing_line": f, "more": [x[0][:300] for x in fl[1:4]], "count": len(fl), "xml": res["xml"],
                     "texts": res["texts"]})
    if dis and not ctx.violations:
        d, res = dis[0]
        ctx.proof_broken("correspondence:expression_t", "model and implementation disagree on %d of %d operations; first: %s" % (
            len(dis), stats["corr_cases"], json.dumps(d)[:2500]), "oracle: %d law checks on %d trees, no failure" % (stats["oracle_checks"], stats["trees"]))
    elif dis:
        ctx.notes.append("model/implementation disagreements: %d (first: %s)" % (len(dis), json.dumps(dis[0][0])[:800]))
    searched = "oracle: %d law checks on %d parsed trees (%d nodes)" % (stats["oracle_checks"], stats["trees"], stats["nodes"])
    new_input = any(not v[3] for v in ctx.violations)
    if not tie_ok and not new_input:
        ctx.proof_broken("translate/arity.py", tie_err, searched)
    if not ok and not new_input:
        for path, thm, msg in (broken or [("?", "lake build", log[-300:])]):
            ctx.proof_broken(thm, msg + "\n" + log[-2000:], searched)
    if not stats["probe_ok"]:
        ctx.notes.append("fork probe for children beyond get_size() was not available")
    cov.update({
        "evaluations": stats["oracle_checks"] + stats["corr_cases"], "oracle_checks_on_implementation": stats["oracle_checks"],
        "oracle_failures": len(fails), "oracle_failure_keys": sorted(by_key),
        "correspondence_cases": stats["corr_cases"], "correspondence_disagreements": len(dis),
        "correspondence_ops": stats["corr_ops"], "equal_true_between_trees": stats["equal_true"],
        "trees": stats["trees"], "nodes": stats["nodes"], "distinct_nontrivial": stats["trees"],
        "theorem_hypotheses_checked_on_parsed_trees": stats.get("hypotheses_checked", 0),
        "empty_subexpressions_in_parsed_trees": stats["empty_children"], "process_member_types_checked": stats["dot_types"], "cross_document_pairs": stats.get("cross_document_pairs", 0),
        "texts_accepted": stats["texts_accepted"], "texts_rejected": stats["texts_rejected"], "docs_rejected": stats["docs_rejected"],
        "distribution": {"kinds_hit": len(stats["kinds"]), "kinds": dict(sorted(stats["kinds"].items(), key=lambda kv: -kv[1])),
                         "law_checks": stats["laws"],
                         "arity_probed": {k: sorted(v) for k, v in sorted(stats["arity_probed"].items())}},
        "rule": "every law of C19 evaluated on the real API for every parsed tree, every symbol in it, every single-node perturbation; "
                "operation results compared with the Lean model node identity by node identity",
        "samples": samples,
    })
    ctx.assumptions += [
        "node identity = object identity of expression_t (operator== / operator<); types (type_t) are not part of the tree: "
        "sharing of type objects between a clone and its original is not examined, symbols inside types are not substituted",
        "trees come from the parser (XML model + expression/query texts); empty sub-expressions do not occur in them "
        "(equal() of an empty and a childless expression dereferences null in the C++ and is `false` in the model)",
        "printing is modelled as: layout(kind, payload, children's texts) with the constant's payload chosen by its type; "
        "the real str() is compared on every equal pair by the oracle",
        "clone_deeper(frame, select) is modelled (resolve by name as a function on symbols) but only the (from, to) and the plain "
        "overload are exercised against the library",
    ]


def replay(ctx, path):
    rj = json.load(open(path))
    print(json.dumps({k: v for k, v in rj.items() if k != "replay"}, indent=1))
    rp = rj.get("replay", {})
    if "xml" not in rp:
        print(json.dumps(rp, indent=1)[:4000])
        return 1
    b = core.build_repo("asan")
    exe = core.build_harness(b, "c19", ["c19.cpp"])
    lines = ["DOC " + rp["xml"].encode().hex()] + ["%s %s" % (op, t.encode().hex()) for op, t in rp.get("texts", [])]
    rc, out, err, _ = core.run_exe(exe, [], stdin_text="\n".join(lines) + "\n")
    n = 0
    for l in out.split("\n"):
        m = re.match(r"DOC errors=\d+ pool=(\d+)", l)
        if m:
            n = int(m.group(1))
        if re.match(r"[EQ] \d+$", l):
            n += 1
    lines += ["LAWS %d 0" % k for k in range(n)]
    rc, out, err, _ = core.run_exe(exe, [], stdin_text="\n".join(lines) + "\n")
    bad = [l for l in out.split("\n") if l.startswith(("FAIL", "EXC"))]
    for l in bad[:40]:
        print(l[:600])
    print(err[-2000:])
    return 1 if bad or rc != 0 else 0
