/-
C18, floating-point element types: the order-theoretic operations of `range_t<T>` for a `T` with infinities and
`nexttoward`, over the abstract structure `FloatLike` (Model/FloatLike.lean).  The definitions are regenerated from
include/utap/range.h (Gen/RangeOrd.lean), including the `if constexpr (has_infinity)` branches of `gt`/`lt`.
Arithmetic on floating-point ranges rounds, so "+ - *" are claimed for integral types only (Props/C18.lean).
-/
import UtapModel.Gen.RangeOrd
import Mathlib.Order.Lattice
import Mathlib.Order.MinMax
import Mathlib.Tactic.Tauto
import Mathlib.Order.Fin.Basic

namespace UtapModel.C18F
open UtapModel UtapModel.RangeOrd

variable {α : Type} [FloatLike α]

def Mem (x : α) (r : ROrd α) : Prop := r.start ≤ x ∧ x ≤ r.finish
def NonEmpty (r : ROrd α) : Prop := r.start ≤ r.finish

theorem not_mem_empty (x : α) : ¬ Mem x (ROrd.mk 1 0) := by
  intro ⟨h1, h2⟩
  exact absurd (lt_of_lt_of_le FloatLike.zero_lt_one' (le_trans h1 h2)) (lt_irrefl _)

/-- gt keeps exactly the members strictly above the bound — including the bounds +inf (result empty) and -inf -/
theorem mem_gt (r : ROrd α) (l x : α) : Mem x (r.gt l) ↔ Mem x r ∧ l < x := by
  unfold ROrd.gt
  simp only [if_true]
  by_cases hl : l = ⊤
  · subst hl
    have h1 : (FloatLike.fmax : α) < ⊤ := (FloatLike.fmax_lt_iff ⊤).mpr rfl
    simp only [true_or, decide_true, Bool.true_and, gt_iff_lt, h1, if_true]
    constructor
    · intro h; exact absurd h (not_mem_empty x)
    · rintro ⟨_, h⟩; exact absurd h (not_lt_of_ge le_top)
  · have hlt : l < ⊤ := lt_of_le_of_ne le_top hl
    have hnot : ¬ (FloatLike.fmax < l) := fun h => hl ((FloatLike.fmax_lt_iff l).mp h)
    simp only [gt_iff_lt, hnot, decide_false, Bool.and_false, Bool.false_eq_true, if_false]
    simp only [Mem, max_le_iff]
    rw [FloatLike.lt_iff_nx_le l x hlt]
    tauto

theorem mem_lt (r : ROrd α) (u x : α) : Mem x (r.lt u) ↔ Mem x r ∧ x < u := by
  unfold ROrd.lt
  simp only [if_true]
  by_cases hu : u = ⊥
  · subst hu
    have h1 : (⊥ : α) < FloatLike.flowest := (FloatLike.lt_flowest_iff ⊥).mpr rfl
    simp only [or_true, decide_true, Bool.true_and, h1, if_true]
    constructor
    · intro h; exact absurd h (not_mem_empty x)
    · rintro ⟨_, h⟩; exact absurd h (not_lt_of_ge bot_le)
  · have hlt : ⊥ < u := lt_of_le_of_ne bot_le (Ne.symm hu)
    have hnot : ¬ (u < FloatLike.flowest) := fun h => hu ((FloatLike.lt_flowest_iff u).mp h)
    simp only [hnot, decide_false, Bool.and_false, Bool.false_eq_true, if_false]
    simp only [Mem, le_min_iff]
    rw [FloatLike.lt_iff_le_px x u hlt]
    tauto

theorem mem_geq (r : ROrd α) (l x : α) : Mem x (r.geq l) ↔ Mem x r ∧ l ≤ x := by
  simp only [Mem, ROrd.geq, max_le_iff]; tauto

theorem mem_leq (r : ROrd α) (u x : α) : Mem x (r.leq u) ↔ Mem x r ∧ x ≤ u := by
  simp only [Mem, ROrd.leq, le_min_iff]; tauto

theorem mem_and (a b : ROrd α) (x : α) : Mem x (a.andR b) ↔ Mem x a ∧ Mem x b := by
  simp only [Mem, ROrd.andR, ROrd.andAssignR, ROrd.geq, ROrd.leq, max_le_iff, le_min_iff]; tauto

theorem mem_andT (a : ROrd α) (e x : α) : Mem x (a.andT e) ↔ Mem x a ∧ x = e := by
  simp only [Mem, ROrd.andT, ROrd.andAssignT, ROrd.geq, ROrd.leq, max_le_iff, le_min_iff]
  constructor
  · rintro ⟨⟨h1, h2⟩, h3, h4⟩; exact ⟨⟨h1, h3⟩, le_antisymm h4 h2⟩
  · rintro ⟨⟨h1, h2⟩, rfl⟩; exact ⟨⟨h1, le_refl _⟩, h2, le_refl _⟩

/-- convex union: contains both operands and every point between two of their members; nothing else -/
theorem mem_or (a b : ROrd α) (ha : NonEmpty a) (hb : NonEmpty b) (x : α) :
    Mem x (a.orR b) ↔ ∃ p q, (Mem p a ∨ Mem p b) ∧ (Mem q a ∨ Mem q b) ∧ p ≤ x ∧ x ≤ q := by
  simp only [Mem, NonEmpty, ROrd.orR, ROrd.orAssignR, ROrd.lower, ROrd.raise, min_le_iff, le_max_iff] at *
  constructor
  · rintro ⟨h1, h2⟩
    rcases h1 with h1 | h1 <;> rcases h2 with h2 | h2
    · exact ⟨a.start, a.finish, Or.inl ⟨le_refl _, ha⟩, Or.inl ⟨ha, le_refl _⟩, h1, h2⟩
    · exact ⟨a.start, b.finish, Or.inl ⟨le_refl _, ha⟩, Or.inr ⟨hb, le_refl _⟩, h1, h2⟩
    · exact ⟨b.start, a.finish, Or.inr ⟨le_refl _, hb⟩, Or.inl ⟨ha, le_refl _⟩, h1, h2⟩
    · exact ⟨b.start, b.finish, Or.inr ⟨le_refl _, hb⟩, Or.inr ⟨hb, le_refl _⟩, h1, h2⟩
  · rintro ⟨p, q, hp, hq, h1, h2⟩
    constructor
    · rcases hp with hp | hp
      · exact Or.inl (le_trans hp.1 h1)
      · exact Or.inr (le_trans hp.1 h1)
    · rcases hq with hq | hq
      · exact Or.inl (le_trans h2 hq.2)
      · exact Or.inr (le_trans h2 hq.2)

theorem contains_iff (r : ROrd α) (e : α) : r.contains e = true ↔ Mem e r := by
  simp [ROrd.contains, ROrd.overlapsT, Mem]

theorem intersects_iff (a b : ROrd α) (ha : NonEmpty a) (hb : NonEmpty b) :
    a.intersects b = true ↔ ∃ x, Mem x a ∧ Mem x b := by
  simp only [ROrd.intersects, ROrd.overlapsR, Mem, NonEmpty] at *
  constructor
  · intro h
    split at h <;> simp only [decide_eq_true_eq] at *
    · rename_i h0; exact ⟨b.start, ⟨h0, h⟩, le_refl _, hb⟩
    · rename_i h0; exact ⟨a.start, ⟨le_refl _, ha⟩, le_of_lt (lt_of_not_ge h0), h⟩
  · rintro ⟨x, ⟨h1, h2⟩, h3, h4⟩
    split <;> simp only [decide_eq_true_eq]
    · exact le_trans h3 h2
    · exact le_trans h1 h4

theorem lt_iff (a b : ROrd α) (ha : NonEmpty a) (hb : NonEmpty b) :
    a.lt_op b = true ↔ ∀ x y, Mem x a → Mem y b → x < y := by
  simp only [ROrd.lt_op, Mem, NonEmpty, decide_eq_true_eq] at *
  constructor
  · intro h x y hx hy; exact lt_of_le_of_lt hx.2 (lt_of_lt_of_le h hy.1)
  · intro h; exact h a.finish b.start ⟨ha, le_refl _⟩ ⟨le_refl _, hb⟩

theorem eq_iff (a b : ROrd α) (ha : NonEmpty a) (hb : NonEmpty b) :
    a.eq_opR b = true ↔ ∀ x, Mem x a ↔ Mem x b := by
  simp only [ROrd.eq_opR, ROrd.empty, Mem, NonEmpty] at *
  have na : ¬ a.start > a.finish := not_lt_of_ge ha
  have nb : ¬ b.start > b.finish := not_lt_of_ge hb
  simp only [na, nb, decide_false, Bool.or_self, Bool.false_eq_true, if_false, Bool.and_eq_true, decide_eq_true_eq]
  constructor
  · rintro ⟨h1, h2⟩ x; rw [h1, h2]
  · intro h
    have h1 := (h a.start).1 ⟨le_refl _, ha⟩
    have h2 := (h a.finish).1 ⟨ha, le_refl _⟩
    have h3 := (h b.start).2 ⟨le_refl _, hb⟩
    have h4 := (h b.finish).2 ⟨hb, le_refl _⟩
    exact ⟨le_antisymm h2.2 h4.2, le_antisymm h3.1 h1.1⟩

/-! ### the structure is inhabited: a seven-element model (-inf < lowest < … < max < +inf) -/
instance : FloatLike (Fin 7) where
  __ := (inferInstance : LinearOrder (Fin 7))
  __ := (inferInstance : BoundedOrder (Fin 7))
  nx x := if h : x.val < 6 then ⟨x.val + 1, by omega⟩ else x
  px x := if h : 0 < x.val then ⟨x.val - 1, by omega⟩ else x
  fmax := 5
  flowest := 1
  zero_lt_one' := by decide
  lt_iff_nx_le := by decide
  lt_iff_le_px := by decide
  fmax_lt_iff := by decide
  lt_flowest_iff := by decide

example : ((ROrd.mk (1 : Fin 7) 5).gt 2).start = 3 ∧ ((ROrd.mk (1 : Fin 7) 5).gt 2).finish = 5 := by decide
example : ((ROrd.mk (1 : Fin 7) 5).gt ⊤).start = 1 ∧ ((ROrd.mk (1 : Fin 7) 5).gt ⊤).finish = 0 := by decide

end UtapModel.C18F
