// C02/C03 harness: the real parser on expression text, in a fixed scope, printing kind trees in the format of
// lean/UtapModel/Drv/C02.lean.  Line protocol (tab separated):
//   P <text>    parse_XTA(text, builder, newxta=true, S_EXPRESSION) -> kind tree | REJECT <msg> | SEMERR <msg> <tree>
//   Q <text>    additionally: str() of the tree, re-parse, equal(), second str()   (used by C03)
#include "common.hpp"

using namespace UTAP;
using namespace UTAP::Constants;

static const char* DECLS = R"(
int a, b, c, d, e, i, j, k;
int arr[4]; int mat[3][3];
bool p, q;
double x, y;
clock cl;
typedef struct { int h; } In;
typedef struct { int f; int g; In in; int v[2]; } S;
S s; S ss[3];
int f0() { return 1; }
int f1(int u) { return u; }
int f2(int u, int v) { return u; }
int f3(int u, int v, int w) { return u; }
process P() { state s0; init s0; }
system P;
)";

// kind tree in the model's format: constants with type tag, doubles as hex bits, DOT with the field *name*
static std::string ktree(const expression_t& e)
{
    if (e.empty()) return "()";
    std::ostringstream os;
    auto k = e.get_kind();
    os << "(" << vh::kindName(k);
    if (k == IDENTIFIER) os << " " << e.get_symbol().get_name();
    else if (k == CONSTANT) {
        type_t t = e.get_type();
        if (t.is(Constants::DOUBLE)) os << " double " << vh::hexDouble(e.get_double_value());
        else if (t.is_string()) os << " string " << std::string(e.get_string_value());
        else if (t.is(Constants::BOOL)) os << " bool " << e.get_value();
        else os << " int " << e.get_value();
    } else if (k == DOT) {
        type_t t = e[0].get_type();
        int idx = e.get_index();
        if (idx == std::numeric_limits<int32_t>::max()) os << " location";
        else if (t.is_record() || t.is_process()) os << " " << t.get_record_label(idx);
        else os << " #" << idx;
    }
    for (size_t i = 0; i < e.get_size(); ++i) os << " " << ktree(e[i]);
    os << ")";
    return os.str();
}

int main(int argc, char** argv)
{
    Document doc;
    if (!parse_XTA(DECLS, &doc, true) || doc.has_errors()) {
        std::cout << "SCOPE-ERROR\n";
        for (auto& e : doc.get_errors()) std::cout << e.msg << "\n";
        return 2;
    }
    std::string line;
    while (std::getline(std::cin, line)) {
        if (line.size() < 2 || line[1] != '\t') { std::cout << "bad-op\n"; continue; }
        char op = line[0];
        std::string text = line.substr(2);
        doc.clear_errors();
        doc.clear_warnings();
        std::string out;
        try {
            vh::ExprGrabber g(doc);
            parse_XTA(text.c_str(), &g, true, S_EXPRESSION, "");
            std::string syn, sem;
            for (auto& er : doc.get_errors()) {
                if (er.msg.find("syntax_error") != std::string::npos || er.msg.find("$Unknown_symbol") != std::string::npos ||
                    er.msg.find("$Overflow") != std::string::npos || er.msg.find("$Comment_not_closed") != std::string::npos)
                    syn += (syn.empty() ? "" : " | ") + er.msg;
                else
                    sem += (sem.empty() ? "" : " | ") + er.msg;
            }
            if (!syn.empty()) out = "REJECT " + syn;
            else if (g.nfragments() != 1) out = "BADSTACK " + std::to_string(g.nfragments());
            else {
                expression_t e = g.top();
                out = (sem.empty() ? "" : "SEMERR " + sem + " ") + ktree(e);
                if (op == 'Q' && sem.empty()) {
                    std::string s1, s2, k2;
                    bool eq = false;
                    // is the expression accepted by the type checker (the property speaks about accepted expressions)?
                    bool typeok = false;
                    try {
                        doc.clear_errors();
                        TypeChecker tc(doc);
                        expression_t ec = e.clone_deeper();
                        typeok = tc.checkExpression(ec) && !doc.has_errors();
                    } catch (std::exception&) { typeok = false; }
                    try {
                        s1 = e.str();
                        doc.clear_errors();
                        vh::ExprGrabber g2(doc);
                        parse_XTA(s1.c_str(), &g2, true, S_EXPRESSION, "");
                        if (doc.has_errors() || g2.nfragments() != 1) k2 = "REPARSE-REJECT " + (doc.has_errors() ? doc.get_errors()[0].msg : std::string("stack"));
                        else {
                            expression_t e2 = g2.top();
                            k2 = ktree(e2);
                            eq = e2.equal(e);
                            s2 = e2.str();
                        }
                    } catch (std::exception& ex) { k2 = std::string("STR-EXCEPTION ") + ex.what(); }
                    out += "\t" + s1 + "\t" + k2 + "\t" + (eq ? "equal" : "notequal") + "\t" + s2 + "\t" + (typeok ? "typeok" : "typeerr");
                }
            }
        } catch (std::exception& ex) {
            out = std::string("EXCEPTION ") + ex.what();
        }
        for (auto& ch : out) if (ch == '\n') ch = ' ';
        std::cout << out << "\n";
    }
    return 0;
}
