/-
C09 — accept/reject verdicts are invariant under meaning-preserving rewrites: PROPERTY THEOREMS
(models: Model/C09Lex, C09Render, C09Ops, C09Scope, C09Pratt; tables regenerated from /repo: Gen/C09Tables;
 helper lemmas: Lemmas/C09Lex, Lemmas/C09Pratt).

The verdict of libutap on a text is a function of (1) the token stream the lexer hands to the parser, (2) the callback
sequence the parser derives from it, (3) name resolution in the builder.  The four rewrite families are shown to leave
these unchanged (up to the renaming) on the models; the exception shapes where the unchanged code violates the property
are proved as negations on witnesses (`C09_witness_*`) and replayed on the real library by checks/c09.py.
-/
import UtapModel.Lemmas.C09Lex
import UtapModel.Model.C09Ops
import UtapModel.Model.C09Scope
import UtapModel.Gen.C09Tables
namespace UtapModel.C09.Props
open UtapModel.C09

/-- the lexer configuration of the current source tree: generated rule table, keyword table, MAXLEN, syntax bits -/
def genCfg (mask : Nat) (isType : Nat → List Ch → Bool) : Cfg :=
  { rules := Gen.rules, kws := Gen.keywordTable, maxLen := Gen.maxLen, mask := mask,
    bitOld := Gen.bitOLD, bitProperty := Gen.bitPROPERTY, bitProb := Gen.bitPROB,
    tConst := Gen.T_CONST, tOldConst := Gen.T_OLDCONST, isType := isType }

def genTables : Tables :=
  { levels := Gen.precLevels, binary := Gen.binaryProds, unary := Gen.unaryProds, assign := Gen.assignProds,
    nonTypeId := Gen.nonTypeId, kindNames := Gen.kindNames, tokNames := Gen.tokNames }

/-- `NEW | GUIDING`: the syntax of every text block of a model parsed with `newxta = true` -/
def maskNew : Nat := Gen.bitNEW ||| Gen.bitGUIDING

/-! ## 0. the generated tables satisfy what the general theorems assume -/

theorem C09_rules_wf : RulesWF Gen.rules = true := by decide
theorem C09_rules_ident_wf : IdentWF Gen.rules = true := by decide
theorem C09_maskNew_nonProperty (isType) : NonProperty (genCfg maskNew isType) := by
  show ((maskNew &&& Gen.bitPROPERTY != 0) = false)
  decide

/-! ## 1. trivia -/

theorem tokensOf_congr (cfg : Cfg) : ∀ (items items' : List Item) (n : Nat),
    items.map (fun i => (i.w, i.r)) = items'.map (fun i => (i.w, i.r)) → tokensOf cfg n items = tokensOf cfg n items' := by
  intro items
  induction items with
  | nil => intro items' n h; cases items' with
    | nil => rfl
    | cons a b => simp at h
  | cons it rest ih =>
    intro items' n h
    cases items' with
    | nil => simp at h
    | cons it' rest' =>
      simp only [List.map_cons, List.cons.injEq, Prod.mk.injEq] at h
      obtain ⟨⟨hw, hr⟩, ht⟩ := h
      simp only [tokensOf, hw, hr]
      rw [ih rest' _ ht]

theorem lex_text (cfg : Cfg) (hwf : RulesWF cfg.rules = true) (hnp : NonProperty cfg) (sep0 : List Triv) (items : List Item)
    (h0 : sepOK sep0 (renderItems items) = true) (h : Renderable cfg items = true) :
    lex cfg (sepText sep0 ++ renderItems items) = tokensOf cfg 0 items := by
  unfold lex
  rw [lexGo_sep cfg hwf hnp sep0 _ _ 0 h0 (by omega)]
  exact lex_render cfg hwf hnp items _ 0 h (by simp; omega)

/-- **Trivia.**  Two texts made of the same lexemes (same texts, same rules), separated by ANY well-formed trivia
    (blank runs, newline runs, `//` comments, `/* */` comments, backslash-newline continuations; possibly none where
    the lexeme is `Closed` against its successor), have the same token stream.  Side conditions, precisely:
    `Renderable` = each lexeme alone is matched completely by its rule; each lexeme is `Closed` w.r.t. the ONE
    character following it (see `Closed`); each trivia item is maximal and well formed (`Triv.ok`: a comment body
    contains neither `*/` nor `EXPECT:`); the syntax is not PROPERTY (there a newline is a token). -/
theorem C09_trivia (cfg : Cfg) (hwf : RulesWF cfg.rules = true) (hnp : NonProperty cfg)
    (sep0 sep0' : List Triv) (items items' : List Item)
    (hsame : items.map (fun i => (i.w, i.r)) = items'.map (fun i => (i.w, i.r)))
    (h0 : sepOK sep0 (renderItems items) = true) (h : Renderable cfg items = true)
    (h0' : sepOK sep0' (renderItems items') = true) (h' : Renderable cfg items' = true) :
    lex cfg (sepText sep0 ++ renderItems items) = lex cfg (sepText sep0' ++ renderItems items') := by
  rw [lex_text cfg hwf hnp sep0 items h0 h, lex_text cfg hwf hnp sep0' items' h0' h', tokensOf_congr cfg items items' 0 hsame]

/-- the same for the lexer of the current source tree (model syntax) -/
theorem C09_trivia_utap (isType : Nat → List Ch → Bool) (sep0 sep0' : List Triv) (items items' : List Item)
    (hsame : items.map (fun i => (i.w, i.r)) = items'.map (fun i => (i.w, i.r)))
    (h0 : sepOK sep0 (renderItems items) = true) (h : Renderable (genCfg maskNew isType) items = true)
    (h0' : sepOK sep0' (renderItems items') = true) (h' : Renderable (genCfg maskNew isType) items' = true) :
    lex (genCfg maskNew isType) (sepText sep0 ++ renderItems items) = lex (genCfg maskNew isType) (sepText sep0' ++ renderItems items') :=
  C09_trivia _ C09_rules_wf (C09_maskNew_nonProperty isType) sep0 sep0' items items' hsame h0 h h0' h'

/-- the hypotheses are satisfiable: `x=1` and ` x /* c */ = // k⏎ 1 ` are two renderings of the same three lexemes -/
example :
    let noTypes : Nat → List Ch → Bool := fun _ _ => false
    let x : List Ch := [120]; let eq : List Ch := [61]; let one : List Ch := [49]
    let rEq : Rule := .lit [61] Gen.T_ASSIGNMENT
    let a : List Item := [⟨x, .ident, []⟩, ⟨eq, rEq, []⟩, ⟨one, .num, []⟩]
    let b : List Item := [⟨x, .ident, [.blanks 32 [], .block [32, 99, 32], .blanks 32 []]⟩,
                          ⟨eq, rEq, [.blanks 32 [], .line [32, 107], .newlines [], .blanks 32 []]⟩, ⟨one, .num, [.blanks 32 []]⟩]
    Renderable (genCfg maskNew noTypes) a = true ∧ Renderable (genCfg maskNew noTypes) b = true ∧
    sepOK [.blanks 32 []] (renderItems b) = true ∧
    lex (genCfg maskNew noTypes) (renderItems a) = [.id [120], .lit Gen.T_ASSIGNMENT, .nat 1] := by
  decide +kernel

/-! ### exception shape: a comment containing `EXPECT:` -/

/-- `/* EXPECT:k*/` violates `bodyOK` … -/
theorem C09_expect_not_bodyOK : bodyOK [32, 69, 88, 80, 69, 67, 84, 58, 107] = false := by decide

/-- … and the negation of the property on the witness: replacing the comment text `note` by `EXPECT:k` (no blank before
    the closing `*/`) changes the token stream — the rule `"EXPECT:"[^\t \n]*` of the <comment> state swallows the `*/`. -/
theorem C09_witness_expect :
    let cfg := genCfg maskNew (fun _ _ => false)
    -- "/*note*/ y"  vs  "/*EXPECT:k*/ y"
    lex cfg [47, 42, 110, 111, 116, 101, 42, 47, 32, 121] = [.id [121]] ∧
    lex cfg [47, 42, 69, 88, 80, 69, 67, 84, 58, 107, 42, 47, 32, 121] = [.expect [107, 42, 47], .commentNotClosed] := by
  decide +kernel

end UtapModel.C09.Props
