#!/usr/bin/env python3
"""Translator: /repo/include/utap/range.h  ->  lean/UtapModel/Gen/RangeGen.lean

Reads the member functions of `class range_t` (and next_value/prev_value, std::min/std::max on ranges) and
re-expresses each body as a pure Lean function over `Int` (the integral instantiation of T, without overflow,
which is what property C18 quantifies over; `if constexpr (has_infinity)` blocks are the floating-point-only
part and are dropped for this instantiation).  Fails closed: any statement or expression form it does not
know raises TranslateError, and the caller reports a broken tie.

The C++ subset understood:
  statements : assert(e);  x = e;  x += e; x -= e; x *= e;  auto t = e;  std::swap(start, finish);
               if (c) S [else S];  return e;  { ... }
  expressions: identifiers, integer literals, *this, member access o.start / o.first(), calls of members on the
               implicit or an explicit receiver (also chained), range_t(e) / range_t(a,b) / range_t{a,b} / range_t{},
               std::min/std::max, next_value/prev_value, unary ! and -, binary * + - < <= > >= == != && ||, ?:
               and the overloaded operators of range_t itself (dispatched on the static type of the left operand).
"""
import os
import re
import sys


class TranslateError(Exception):
    pass


# ----------------------------------------------------------------------------------------------- lexer
TOK = re.compile(r"\s*(?:(?P<num>\d+)|(?P<id>[A-Za-z_][A-Za-z_0-9]*(?:::[A-Za-z_][A-Za-z_0-9]*)*)|"
                 r"(?P<op>\|=|&=|\+=|-=|\*=|<=|>=|==|!=|&&|\|\||[-+*/<>=!?:;,.(){}\[\]&|]))")


def tokenize(s):
    s = re.sub(r"\bassert\s*\([^;]*\)\s*;", " ", s)      # NDEBUG build: asserts are compiled out
    out, i = [], 0
    s = s.strip()
    while i < len(s):
        m = TOK.match(s, i)
        if not m:
            raise TranslateError("cannot tokenize: %r" % s[i:i + 40])
        i = m.end()
        if m.group("num"):
            out.append(("num", m.group("num")))
        elif m.group("id"):
            out.append(("id", m.group("id")))
        else:
            out.append(("op", m.group("op")))
    out.append(("eof", ""))
    return out


# ----------------------------------------------------------------------------------------------- parser
class P:
    def __init__(self, toks):
        self.t, self.i = toks, 0

    def peek(self, k=0):
        return self.t[self.i + k]

    def next(self):
        x = self.t[self.i]
        self.i += 1
        return x

    def accept(self, v):
        if self.peek()[1] == v and self.peek()[0] != "num":
            self.i += 1
            return True
        return False

    def expect(self, v):
        if not self.accept(v):
            raise TranslateError("expected %r, got %r" % (v, self.peek()))

    # statements ------------------------------------------------------------------------------
    def block(self):
        self.expect("{")
        out = []
        while not self.accept("}"):
            out.append(self.stmt())
        return out

    def stmt(self):
        k, v = self.peek()
        if v == "{":
            return ("block", self.block())
        if v == "assert":
            self.next()
            self.expect("(")
            e = self.expr()
            self.expect(")")
            self.expect(";")
            return ("assert", e)
        if v == "if":
            self.next()
            self.expect("(")
            c = self.expr()
            self.expect(")")
            th = self.stmt()
            el = None
            if self.accept("else"):
                el = self.stmt()
            return ("if", c, th, el)
        if v == "return":
            self.next()
            e = self.expr()
            self.expect(";")
            return ("return", e)
        if v in ("auto", "T") or (v == "const" and self.peek(1)[1] in ("auto", "T")):
            # a local of the element type: `auto t = e;`, `const auto t = e;`, `T t = e;`, `const T t = e;`
            if v == "const":
                self.next()
            self.next()
            name = self.next()[1]
            self.expect("=")
            e = self.expr()
            self.expect(";")
            return ("let", name, e)
        if v == "std::swap":
            self.next()
            self.expect("(")
            a = self.next()[1]
            self.expect(",")
            b = self.next()[1]
            self.expect(")")
            self.expect(";")
            if {a, b} != {"start", "finish"}:
                raise TranslateError("std::swap of something else than start/finish")
            return ("swap",)
        if k == "id" and v in ("start", "finish") and self.peek(1)[1] in ("=", "+=", "-=", "*="):
            self.next()
            op = self.next()[1]
            e = self.expr()
            self.expect(";")
            return ("assign", v, op, e)
        raise TranslateError("unknown statement starting at %r %r" % (self.peek(), self.peek(1)))

    # expressions (precedence climbing) ------------------------------------------------------------
    BIN = {"||": 1, "&&": 2, "==": 6, "!=": 6, "<": 7, "<=": 7, ">": 7, ">=": 7, "+": 9, "-": 9, "*": 10,
           "|=": 0, "&=": 0, "+=": 0, "-=": 0, "*=": 0, "|": 3, "&": 5}   # the two compound assignments only occur as `range_t(*this) OP= o`

    def expr(self, minp=0):
        lhs = self.unary()
        while True:
            k, v = self.peek()
            if k == "op" and v == "?" and minp <= 0:
                self.next()
                a = self.expr()
                self.expect(":")
                b = self.expr()
                lhs = ("cond", lhs, a, b)
                continue
            if k == "op" and v in self.BIN and self.BIN[v] >= minp:
                self.next()
                rhs = self.expr(self.BIN[v] + 1)
                lhs = ("bin", v, lhs, rhs)
                continue
            return lhs

    def unary(self):
        k, v = self.peek()
        if v == "!" and k == "op":
            self.next()
            return ("not", self.unary())
        if v == "-" and k == "op":
            self.next()
            return ("neg", self.unary())
        if v == "*" and k == "op":
            self.next()
            if self.next()[1] != "this":
                raise TranslateError("dereference of something else than this")
            return self.postfix(("this",))
        return self.postfix(self.primary())

    def args(self, close):
        out = []
        if self.accept(close):
            return out
        while True:
            out.append(self.expr(1))
            if self.accept(close):
                return out
            self.expect(",")

    def primary(self):
        k, v = self.next()
        if k == "num":
            return ("num", int(v))
        if k == "op" and v == "(":
            e = self.expr()
            self.expect(")")
            return e
        if k == "id":
            if v == "range_t":
                if self.accept("("):
                    return ("ctor", self.args(")"))
                if self.accept("{"):
                    return ("ctor", self.args("}"))
                raise TranslateError("range_t without arguments")
            if self.accept("("):
                return ("call", None, v, self.args(")"))
            return ("var", v)
        raise TranslateError("unexpected token %r" % ((k, v),))

    def postfix(self, e):
        while self.accept("."):
            name = self.next()[1]
            if self.accept("("):
                e = ("call", e, name, self.args(")"))
            else:
                e = ("field", e, name)
        return e


# ----------------------------------------------------------------------------------------------- extraction
def match_brace(s, i):
    assert s[i] == "{"
    d = 0
    for j in range(i, len(s)):
        if s[j] == "{":
            d += 1
        elif s[j] == "}":
            d -= 1
            if d == 0:
                return j
    raise TranslateError("unbalanced braces")


def strip_comments(s):
    s = re.sub(r"/\*.*?\*/", " ", s, flags=re.S)
    return re.sub(r"//[^\n]*", " ", s)


def drop_infinity_blocks(body):
    """`if constexpr (std::numeric_limits<T>::has_infinity) { ... }` is compiled out for integral T."""
    while True:
        m = re.search(r"if\s+constexpr\s*\(\s*std::numeric_limits<T>::has_infinity\s*\)\s*\{", body)
        if not m:
            return body
        j = match_brace(body, m.end() - 1)
        body = body[:m.start()] + body[j + 1:]


OPNAMES = {"<": "lt_op", "<=": "le_op", ">": "gt_op", ">=": "ge_op", "|=": "orAssign", "|": "or", "&=": "andAssign",
           "&": "and", "+=": "addAssign", "-=": "subAssign", "*=": "mulAssign", "+": "add_op", "-": "sub_op", "*": "mul_op",
           "&&": "overlaps", "==": "eq_op"}


class Method:
    pass


def parse_params(ps):
    out = []
    ps = ps.strip()
    if not ps:
        return out
    for p in ps.split(","):
        m = re.match(r"\s*(?:const\s+)?(range_t(?:<T>)?|T)\s*&?\s*(\w+)\s*$", p)
        if not m:
            raise TranslateError("unknown parameter form %r" % p)
        out.append((m.group(2), "R" if m.group(1).startswith("range_t") else "T"))
    return out


def extract(src):
    src = strip_comments(src)
    m = re.search(r"class\s+range_t\s*\{", src)
    if not m:
        raise TranslateError("class range_t not found")
    end = match_brace(src, m.end() - 1)
    cls = src[m.end():end]
    methods = []
    # member functions
    pat = re.compile(r"(?:constexpr\s+)?(?:static\s+)?(?:explicit\s+)?(?P<ret>range_t&?|bool|uint32_t|T|void)\s+"
                     r"(?P<name>operator\s*[^\s(]+|\w+)\s*\((?P<params>[^)]*)\)\s*(?:const\s*)?\{")
    pos = 0
    seen_spans = []
    while True:
        mm = pat.search(cls, pos)
        if not mm:
            break
        j = match_brace(cls, mm.end() - 1)
        name = mm.group("name").replace(" ", "")
        me = Method()
        me.ret = mm.group("ret")
        me.params = parse_params(mm.group("params"))
        me.cname = name
        me.body = cls[mm.end() - 1:j + 1]
        methods.append(me)
        seen_spans.append(mm.group(0).startswith("constexpr"))
        pos = j + 1
    # constructors
    ctors = []
    for mm in re.finditer(r"constexpr\s+(?:explicit\s+)?range_t\((?P<params>[^)]*)\)\s*:\s*(?P<init>[^;{}\n]*(?:\{[^{}\n]*\}[^;{}\n]*)+)\{\s*\}", cls):
        params = mm.group("params")
        if "range_t" in params:
            continue
        ctors.append((parse_params(params), mm.group("init").strip()))
    # every `constexpr` in the class must be accounted for (fail closed)
    n_constexpr = len(re.findall(r"\bconstexpr\b(?!\s*\()", cls))
    n_if_constexpr = len(re.findall(r"\bif\s+constexpr\b", cls))
    n_default = len(re.findall(r"constexpr\s+range_t\([^)]*\)\s*=\s*default", cls))
    n_methods_constexpr = sum(1 for c in seen_spans if c)
    accounted = n_methods_constexpr + len(ctors) + n_default
    if n_constexpr != accounted:
        raise TranslateError("some constexpr members of range_t were not recognised (%d declared, %d translated)"
                             % (n_constexpr, accounted))
    # free functions next_value / prev_value: integral branch
    free = {}
    for fn in ("next_value", "prev_value"):
        mm = re.search(r"constexpr\s+T\s+%s\s*\(\s*T\s+value\s*\)\s*\{" % fn, src)
        if not mm:
            raise TranslateError(fn + " not found")
        j = match_brace(src, mm.end() - 1)
        body = src[mm.end() - 1:j + 1]
        bm = re.search(r"else\s+if\s+constexpr\s*\(\s*std::is_integral_v<T>\s*\)\s*\{", body)
        if not bm:
            raise TranslateError(fn + ": integral branch not found")
        k = match_brace(body, bm.end() - 1)
        free[fn] = body[bm.end() - 1:k + 1]
        fm = re.search(r"if\s+constexpr\s*\(\s*std::is_floating_point_v<T>\s*\)\s*\{", body)
        if not fm:
            raise TranslateError(fn + ": floating-point branch not found")
        free[fn + "_fp"] = body[fm.end() - 1:match_brace(body, fm.end() - 1) + 1]
    # std::min / std::max on ranges
    for fn in ("min", "max"):
        mm = re.search(r"constexpr\s+UTAP::range_t<T>\s+%s\s*\(const UTAP::range_t<T>& a, const UTAP::range_t<T>& b\)\s*\{" % fn, src)
        if not mm:
            raise TranslateError("std::%s on ranges not found" % fn)
        j = match_brace(src, mm.end() - 1)
        free["range_" + fn] = src[mm.end() - 1:j + 1].replace("UTAP::range_t<T>", "range_t")
    return methods, ctors, free


# ----------------------------------------------------------------------------------------------- emission
class Emitter:
    NS = "Range"          # Lean namespace / structure name
    RT = "Range"          # Lean type of a range
    TT = "Int"            # Lean type of an element
    ORD = False

    def __init__(self, methods, ctors, free):
        self.methods = methods
        self.ctors = ctors
        self.free = free
        self.by_name = {}
        for me in methods:
            me.lname = self.lean_name(me)
            self.by_name.setdefault(me.cname, []).append(me)
        self.deps = {}

    def lean_name(self, me):
        n = me.cname
        if n.startswith("operator"):
            op = n[len("operator"):]
            if op not in OPNAMES:
                raise TranslateError("unknown operator " + op)
            base = OPNAMES[op]
        else:
            base = {"lower": "lower", "raise": "raise"}.get(n, n)
        sig = "".join(t for _, t in me.params)
        suffix = {"": "", "R": "R", "T": "T"}.get(sig)
        if suffix is None:
            raise TranslateError("unsupported signature for " + n)
        over = [m for m in self.methods if m.cname == n]
        return base + (suffix if len(over) > 1 else "")

    def resolve(self, cname, argtypes):
        c = [m for m in self.by_name.get(cname, []) if [t for _, t in m.params] == argtypes]
        if len(c) != 1:
            raise TranslateError("cannot resolve call %s%r" % (cname, argtypes))
        return c[0]

    # expression -> (lean text, type in {T,R,B})
    def ex(self, e, env, cur):
        k = e[0]
        if k == "num":
            if self.ORD and e[1] not in (0, 1):
                raise TranslateError("numeric literal %d in the order-only instantiation" % e[1])
            return ("(%d : %s)" % (e[1], self.TT), "T")
        if k == "this":
            return ("self", "R")
        if k == "var":
            v = e[1]
            if v in ("start", "finish"):
                return ("self.%s" % v, "T")
            if v in env:
                if v in self.alias:
                    return ("self", env[v])          # the operand IS *this (`r -= r`): every read sees the assignments made so far
                return (v if v != "lower" else "lower'", env[v])
            if self.ORD and v == "TMAX":
                return ("FloatLike.fmax", "T")
            if self.ORD and v == "TLOWEST":
                return ("FloatLike.flowest", "T")
            raise TranslateError("unknown variable " + v)
        if k == "field":
            o, t = self.ex(e[1], env, cur)
            if t != "R" or e[2] not in ("start", "finish"):
                raise TranslateError("unknown field access ." + e[2])
            return ("(%s).%s" % (o, e[2]), "T")
        if k == "not":
            a, t = self.ex(e[1], env, cur)
            self.want(t, "B")
            return ("(!%s)" % a, "B")
        if k == "neg":
            a, t = self.ex(e[1], env, cur)
            self.want(t, "T")
            return ("(-%s)" % a, "T")
        if k == "cond":
            c, tc = self.ex(e[1], env, cur)
            a, ta = self.ex(e[2], env, cur)
            b, tb = self.ex(e[3], env, cur)
            self.want(tc, "B")
            self.want(ta, tb)
            return ("(if %s then %s else %s)" % (c, a, b), ta)
        if k == "ctor":
            args = [self.ex(a, env, cur) for a in e[1]]
            if len(args) == 0:
                return ("(%s.mk 0 0)" % self.NS, "R")
            if len(args) == 1 and args[0][1] == "R":
                return (args[0][0], "R")      # copy
            if len(args) == 1:
                return ("(%s.single %s)" % (self.NS, args[0][0]), "R")
            if len(args) == 2:
                return ("(%s.mk %s %s)" % (self.NS, args[0][0], args[1][0]), "R")
            raise TranslateError("range_t constructor with %d arguments" % len(args))
        if k == "call":
            recv, name, args = e[1], e[2], [self.ex(a, env, cur) for a in e[3]]
            if recv is None and name in ("std::min", "std::max"):
                self.want(args[0][1], "T")
                self.want(args[1][1], "T")
                return ("(%s %s %s)" % (name[5:], args[0][0], args[1][0]), "T")
            if recv is None and name in ("next_value", "prev_value"):
                self.deps.setdefault(cur, set()).add(name)
                if self.ORD:
                    return ("(FloatLike.%s %s)" % ("nx" if name == "next_value" else "px", args[0][0]), "T")
                return ("(%s %s)" % (name, args[0][0]), "T")
            if recv is None and name == "isinf" and self.ORD:
                return ("(decide (%s = ⊤ ∨ %s = ⊥))" % (args[0][0], args[0][0]), "B")
            r, rt = ("self", "R") if recv is None else self.ex(recv, env, cur)
            self.want(rt, "R")
            me = self.resolve(name, [t for _, t in args])
            self.deps.setdefault(cur, set()).add(me.lname)
            return ("(%s.%s %s%s)" % (self.NS, me.lname, r, "".join(" " + a for a, _ in args)), self.rtype(me))
        if k == "bin":
            op = e[1]
            a, ta = self.ex(e[2], env, cur)
            b, tb = self.ex(e[3], env, cur)
            if ta == "R":
                me = self.resolve("operator" + op, [tb])
                self.deps.setdefault(cur, set()).add(me.lname)
                return ("(%s.%s %s %s)" % (self.NS, me.lname, a, b), self.rtype(me))
            if op in ("+", "-", "*"):
                if self.ORD:
                    raise TranslateError("arithmetic in the order-only instantiation")
                self.want(ta, "T")
                self.want(tb, "T")
                return ("(%s %s %s)" % (a, op, b), "T")
            if op in ("<", "<=", ">", ">=", "==", "!="):
                if ta == "B" and op in ("==", "!="):
                    self.want(tb, "B")
                    return ("(%s %s %s)" % (a, op, b), "B")
                self.want(ta, "T")
                self.want(tb, "T")
                lop = {"<": "<", "<=": "≤", ">": ">", ">=": "≥", "==": "=", "!=": "≠"}[op]
                return ("(decide (%s %s %s))" % (a, lop, b), "B")
            if op in ("&&", "||"):
                self.want(ta, "B")
                self.want(tb, "B")
                return ("(%s %s %s)" % (a, op, b), "B")
        raise TranslateError("unknown expression form %r" % (e,))

    @staticmethod
    def want(t, w):
        if t != w:
            raise TranslateError("type mismatch: %s where %s expected" % (t, w))

    @staticmethod
    def rtype(me):
        return {"range_t&": "R", "range_t": "R", "bool": "B", "uint32_t": "T", "T": "T"}[me.ret]

    # statements; `rest` is the continuation text producing the method's result
    def returns(self, s):
        if s[0] == "return":
            return True
        if s[0] == "block":
            return any(self.returns(x) for x in s[1])
        if s[0] == "if":
            return self.returns(s[2]) and s[3] is not None and self.returns(s[3])
        return False

    def has_return(self, s):
        if s[0] == "return":
            return True
        if s[0] == "block":
            return any(self.has_return(x) for x in s[1])
        if s[0] == "if":
            return self.has_return(s[2]) or (s[3] is not None and self.has_return(s[3]))
        return False

    def stmts(self, ss, env, cur, ind):
        pad = "  " * ind
        if not ss:
            return None
        s, rest = ss[0], ss[1:]
        if s[0] == "assert":
            return self.stmts(rest, env, cur, ind)
        if s[0] == "block":
            return self.stmts(list(s[1]) + rest, env, cur, ind)
        if s[0] == "return":
            t, ty = self.ex(s[1], env, cur)
            return pad + t
        if s[0] == "let":
            t, ty = self.ex(s[2], env, cur)
            env2 = dict(env)
            env2[s[1]] = ty
            r = self.stmts(rest, env2, cur, ind)
            return "%slet %s := %s\n%s" % (pad, s[1], t, r)
        if s[0] == "swap":
            r = self.stmts(rest, env, cur, ind)
            return "%slet self : %s := { start := self.finish, finish := self.start }\n%s" % (pad, self.RT, r)
        if s[0] == "assign":
            t, ty = self.ex(s[3], env, cur)
            self.want(ty, "T")
            op = s[2]
            val = t if op == "=" else "(self.%s %s %s)" % (s[1], op[0], t)
            r = self.stmts(rest, env, cur, ind)
            if self.ORD and op != "=":
                raise TranslateError("arithmetic in the order-only instantiation")
            return "%slet self : %s := { self with %s := %s }\n%s" % (pad, self.RT, s[1], val, r)
        if s[0] == "if":
            c, tc = self.ex(s[1], env, cur)
            self.want(tc, "B")
            th = s[2] if s[2][0] == "block" else ("block", [s[2]])
            el = s[3] if (s[3] is None or s[3][0] == "block") else ("block", [s[3]])
            if self.has_return(th) or (el is not None and self.has_return(el)):
                # a `return` somewhere inside leaves the function: both branches are continued with the rest
                a = self.stmts(list(th[1]) + rest, env, cur, ind + 1)
                b = self.stmts((list(el[1]) if el else []) + rest, env, cur, ind + 1)
                return "%sif %s then\n%s\n%selse\n%s" % (pad, c, a, pad, b)
            # state-updating if: both branches fall through with a new `self`
            a = self.stmts(list(th[1]) + [("return", ("this",))], env, cur, ind + 2)
            b = self.stmts((list(el[1]) if el else []) + [("return", ("this",))], env, cur, ind + 2)
            r = self.stmts(rest, env, cur, ind)
            return "%slet self : %s :=\n%s  if %s then\n%s\n%s  else\n%s\n%s" % (pad, self.RT, pad, c, a, pad, b, r)
        raise TranslateError("unknown statement " + s[0])

    alias = ()

    def emit_alias(self, me):
        """a member that assigns to *this and takes its range operand by reference, called with the operand aliasing *this"""
        if me.ret != "range_t&" or [t for _, t in me.params] != ["R"]:
            return None
        self.alias = (me.params[0][0],)
        try:
            body = self.prepare(me.body)
            ss = P(tokenize(body)).block()
            text = self.stmts(ss, {n: t for n, t in me.params}, me.lname + "Self", 1)
        finally:
            self.alias = ()
        if text is None:
            raise TranslateError("method %s has no result" % me.cname)
        return "/-- `r %s r`: the operand is the object itself -/\ndef %s.%sSelf%s (self : %s) : %s :=\n%s\n" % (
            me.cname, self.NS, me.lname, self.BINDERS, self.RT, self.RT, text)

    def emit_method(self, me):
        if me.ret == "void":
            return None
        body = self.prepare(me.body)
        ss = P(tokenize(body)).block()
        env = {n: t for n, t in me.params}
        text = self.stmts(ss, env, me.lname, 1)
        if text is None:
            raise TranslateError("method %s has no result" % me.cname)
        lt = {"R": self.RT, "T": self.TT, "B": "Bool"}
        if self.ORD and self.rtype(me) == "T" and me.ret == "uint32_t":
            raise TranslateError("size() is arithmetic")
        params = "".join(" (%s : %s)" % (n if n != "lower" else "lower'", lt[t]) for n, t in me.params)
        is_static = me.cname == "make_empty"
        selfp = "" if is_static else " (self : %s)" % self.RT
        return "def %s.%s%s%s%s : %s :=\n%s\n" % (self.NS, me.lname, self.BINDERS, selfp, params, lt[self.rtype(me)], text)

    BINDERS = ""

    def prepare(self, body):
        return drop_infinity_blocks(body)

    def emit(self):
        out = {}
        for me in self.methods:
            t = self.emit_method(me)
            if t is not None:
                out[me.lname] = t
                ta = self.emit_alias(me)
                if ta is not None:
                    out[me.lname + "Self"] = ta
                    self.deps[me.lname + "Self"] = set(self.deps.get(me.lname, ())) | {me.lname}
        # free functions
        free_txt = {}
        for fn in ("next_value", "prev_value"):
            ss = P(tokenize(self.free[fn])).block()
            txt = self.stmts(ss, {"value": "T"}, fn, 1)
            free_txt[fn] = "def %s (value : Int) : Int :=\n%s\n" % (fn, txt)
        for fn in ("range_min", "range_max"):
            ss = P(tokenize(self.free[fn])).block()
            txt = self.stmts(ss, {"a": "R", "b": "R"}, fn, 1)
            out[fn] = "def Range.%s (a b : Range) : Range :=\n%s\n" % (fn[6:] + "R", txt)
        # constructors: check their shape (fail closed)
        shapes = sorted((tuple(t for _, t in ps), re.sub(r"\s+", "", init)) for ps, init in self.ctors)
        names = {n: n for ps, _ in self.ctors for n, _ in ps}
        ok2 = any(len(ps) == 2 and re.sub(r"\s+", "", init) == "start{%s},finish{%s}" % (ps[0][0], ps[1][0])
                  for ps, init in self.ctors)
        ok1 = any(len(ps) == 1 and re.sub(r"\s+", "", init) == "range_t{%s,%s}" % (ps[0][0], ps[0][0])
                  for ps, init in self.ctors)
        if not (ok1 and ok2 and len(self.ctors) == 2):
            raise TranslateError("constructors of range_t changed shape: %r" % (shapes,))
        # topological order
        order, done = [], set()

        def visit(n, stack=()):
            if n in done:
                return
            if n in stack:
                raise TranslateError("recursion between members: %r" % (stack,))
            for d in sorted(self.deps.get(n, ())):
                if d in out:
                    visit(d, stack + (n,))
            done.add(n)
            order.append(n)
        for n in out:
            visit(n)
        text = ["/- GENERATED by translate/range_h.py from include/utap/range.h on every check run -- do not edit. -/",
                "namespace UtapModel.RangeGen", "",
                "structure Range where\n  start : Int\n  finish : Int\nderiving DecidableEq, Repr", "",
                "/-- `explicit range_t(const T& e)` -/\ndef Range.single (e : Int) : Range := Range.mk e e", "",
                free_txt["next_value"], free_txt["prev_value"]]
        for n in order:
            text.append(out[n])
        text.append("end UtapModel.RangeGen\n")
        return "\n".join(text), order


class OrdEmitter(Emitter):
    """The floating-point instantiation of T, abstractly: a linear order with top/bottom (the infinities), `nexttoward` as
    successor/predecessor, the largest/lowest finite values, and the elements 0 and 1 (used by range.h to build an empty
    range).  Only the order-theoretic members are translated; arithmetic (+ - * size) is the integral instantiation's."""
    NS = "ROrd"
    RT = "ROrd α"
    TT = "α"
    ORD = True
    BINDERS = " {α : Type} [FloatLike α]"

    def prepare(self, body):
        b = re.sub(r"if\s+constexpr\s*\(\s*std::numeric_limits<T>::has_infinity\s*\)", "if (true)", body)
        b = b.replace("std::numeric_limits<T>::max()", "TMAX").replace("std::numeric_limits<T>::lowest()", "TLOWEST")
        return b.replace("std::isinf", "isinf")

    def ex(self, e, env, cur):
        if e[0] == "var" and e[1] == "true":
            return ("true", "B")
        return super().ex(e, env, cur)

    def emit(self):
        out, skipped = {}, {}
        for me in self.methods:
            try:
                t = self.emit_method(me)
            except TranslateError as ex:
                if "order-only" in str(ex) or "arithmetic" in str(ex):
                    skipped[me.lname] = str(ex)
                    continue
                raise
            if t is not None:
                out[me.lname] = t
        # drop members that depend (transitively) on skipped ones
        changed = True
        while changed:
            changed = False
            for n in list(out):
                if any(d in skipped for d in self.deps.get(n, ())):
                    skipped[n] = "depends on a skipped member"
                    del out[n]
                    changed = True
        # the floating branch of next_value / prev_value must be nexttoward(value, +-infinity)
        for fn, sign in (("next_value", ""), ("prev_value", "-")):
            pat = r"return\s+std::nexttoward\(value,\s*%sstd::numeric_limits<T>::infinity\(\)\)" % re.escape(sign)
            if not re.search(pat, self.free[fn + "_fp"]):
                raise TranslateError("%s: floating-point branch is not nexttoward(value, %sinfinity)" % (fn, sign))
        order, done = [], set()

        def visit(n, stack=()):
            if n in done:
                return
            for d in sorted(self.deps.get(n, ())):
                if d in out and d not in stack:
                    visit(d, stack + (n,))
            done.add(n)
            order.append(n)
        for n in out:
            visit(n)
        text = ["/- GENERATED by translate/range_h.py from include/utap/range.h on every check run -- do not edit.",
                "   The order-theoretic members of range_t for a floating-point element type (see `FloatLike`). -/",
                "import UtapModel.Model.FloatLike", "namespace UtapModel.RangeOrd", "open UtapModel", "",
                "structure ROrd (α : Type) where\n  start : α\n  finish : α", "",
                "def ROrd.single {α : Type} (e : α) : ROrd α := ROrd.mk e e", ""]
        for n in order:
            text.append(out[n])
        text.append("/-- members not translated for this instantiation (arithmetic): %s -/" % ", ".join(sorted(skipped)))
        text.append("def skippedMembers : List String := [%s]" % ", ".join('"%s"' % k for k in sorted(skipped)))
        text.append("\nend UtapModel.RangeOrd\n")
        return "\n".join(text), order


def translate_ord(repo="/repo"):
    src = open(os.path.join(repo, "include", "utap", "range.h")).read()
    methods, ctors, free = extract(src)
    return OrdEmitter(methods, ctors, free).emit()


def translate(repo="/repo"):
    src = open(os.path.join(repo, "include", "utap", "range.h")).read()
    methods, ctors, free = extract(src)
    em = Emitter(methods, ctors, free)
    return em.emit()


if __name__ == "__main__":
    if len(sys.argv) > 2 and sys.argv[2] == "ord":
        text, order = translate_ord(sys.argv[1])
    else:
        text, order = translate(sys.argv[1] if len(sys.argv) > 1 else "/repo")
    sys.stdout.write(text)
