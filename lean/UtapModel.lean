-- Root of the `UtapModel` library: property modules (each imports its models and generated tables).
import UtapModel.Props.C18
