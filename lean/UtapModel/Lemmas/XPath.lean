/- The XPath printer of `XMLReader` (class `Path`) against XPath evaluation: helper lemmas for `Props/C06.lean`. -/
import UtapModel.Model.Pos

namespace UtapModel.Pos

/-! ### the reader's walk -/

mutual
theorem run_events : ∀ (n : XNode) (cur : List String) (above : Path) (es : List Ev),
    Path.run (cur :: above) (events n ++ es) = Path.run ((n.tag :: cur) :: above) es
  | .elem t cs, cur, above, es => by
    simp only [events, List.cons_append, List.append_assoc, Path.run, Path.push, XNode.tag, List.nil_append]
    rw [run_eventsL cs [] ((t :: cur) :: above) (Ev.cl :: es)]
    simp [Path.run, Path.pop]
theorem run_eventsL : ∀ (ns : List XNode) (cur : List String) (above : Path) (es : List Ev),
    Path.run (cur :: above) (eventsL ns ++ es) = Path.run (((ns.map XNode.tag).reverse ++ cur) :: above) es
  | [], cur, above, es => by simp [eventsL]
  | n :: ns, cur, above, es => by
    simp only [eventsL, List.append_assoc]
    rw [run_events n cur above (eventsL ns ++ es), run_eventsL ns (n.tag :: cur) above es]
    simp
end

/-- the levels (outermost first) the path holds when the reader stands on the node at `addr` -/
def specLevels : List XNode → Addr → List (List String)
  | _, [] => []
  | kids, i :: rest =>
    match kids[i]? with
    | none => []
    | some n => ((kids.take (i + 1)).map XNode.tag).reverse :: specLevels n.children rest

/-- the address names a node -/
def ValidAddr : List XNode → Addr → Prop
  | _, [] => True
  | kids, i :: rest => ∃ n, kids[i]? = some n ∧ ValidAddr n.children rest

theorem run_prefixTo : ∀ (addr : Addr) (kids : List XNode) (above : Path) (i : Nat),
    ValidAddr kids (i :: addr) →
    (Path.run ([] :: above) (prefixTo kids (i :: addr))).reverse = above.reverse ++ specLevels kids (i :: addr) ++ [[]] := by
  intro addr
  induction addr with
  | nil =>
    intro kids above i hv
    obtain ⟨n, hn, _⟩ := hv
    simp only [prefixTo, hn, specLevels]
    have h := run_eventsL (kids.take i) [] above (Ev.op n.tag :: [])
    simp only [List.append_nil] at h
    rw [h]
    simp only [Path.run, Path.push]
    have htake : kids.take (i + 1) = kids.take i ++ [n] := by
      rw [List.take_add_one, hn]; rfl
    simp [htake]
  | cons j rest ih =>
    intro kids above i hv
    obtain ⟨n, hn, hv'⟩ := hv
    have hp : prefixTo kids (i :: j :: rest) = eventsL (kids.take i) ++ Ev.op n.tag :: prefixTo n.children (j :: rest) := by
      rw [prefixTo]; simp only [hn]
    have hs : specLevels kids (i :: j :: rest) =
        ((kids.take (i + 1)).map XNode.tag).reverse :: specLevels n.children (j :: rest) := by
      rw [specLevels]; simp only [hn]
    rw [hp, hs]
    have h := run_eventsL (kids.take i) [] above (Ev.op n.tag :: prefixTo n.children (j :: rest))
    simp only [List.append_nil] at h
    rw [h]
    simp only [Path.run, Path.push]
    have htake : kids.take (i + 1) = kids.take i ++ [n] := by
      rw [List.take_add_one, hn]; rfl
    have := ih n.children ((n.tag :: (List.map XNode.tag (List.take i kids)).reverse) :: above) j hv'
    rw [this, htake]
    simp

/-! ### XPath steps select by name and index -/

/-- indices (counting from `k`) of the elements of `l` satisfying `p` -/
def idxs (p : XNode → Bool) : List XNode → Nat → List Nat
  | [], _ => []
  | x :: xs, k => if p x then k :: idxs p xs (k + 1) else idxs p xs (k + 1)

theorem idxs_append (p : XNode → Bool) : ∀ (a b : List XNode) (k : Nat),
    idxs p (a ++ b) k = idxs p a k ++ idxs p b (k + a.length) := by
  intro a
  induction a with
  | nil => intro b k; simp [idxs]
  | cons x xs ih =>
    intro b k
    simp only [List.cons_append, idxs, List.length_cons]
    split
    · rw [ih b (k + 1)]; simp [Nat.add_assoc, Nat.add_comm 1]
    · rw [ih b (k + 1)]; simp [Nat.add_assoc, Nat.add_comm 1]

theorem idxs_length (p : XNode → Bool) : ∀ (a : List XNode) (k : Nat), (idxs p a k).length = (a.filter p).length := by
  intro a
  induction a with
  | nil => intro k; simp [idxs]
  | cons x xs ih =>
    intro k
    simp only [idxs, List.filter_cons]
    split <;> simp [ih]

theorem idxs_nil_of_filter (p : XNode → Bool) : ∀ (a : List XNode) (k : Nat), a.filter p = [] → idxs p a k = [] := by
  intro a k h
  have := idxs_length p a k
  rw [h] at this
  exact List.eq_nil_of_length_eq_zero (by simpa using this)

/-- `selectStep` through `idxs` -/
theorem selectStep_range (nameOf : String → String) (kids : List XNode) (name : String) :
    ((List.range kids.length).filter fun i => (kids[i]?.map fun n => nameOf n.tag == name) == some true) =
      idxs (fun n => nameOf n.tag == name) kids 0 := by
  have gen : ∀ (l : List XNode) (k : Nat) (pre : List XNode), pre.length = k →
      ((List.range' k l.length).filter fun i => ((pre ++ l)[i]?.map fun n => nameOf n.tag == name) == some true) =
        idxs (fun n => nameOf n.tag == name) l k := by
    intro l
    induction l with
    | nil => intro k pre _; simp [idxs]
    | cons x xs ih =>
      intro k pre hk
      simp only [List.length_cons, List.range'_succ, List.filter_cons, idxs]
      have hget : (pre ++ x :: xs)[k]? = some x := by
        rw [List.getElem?_append_right (by omega)]; simp [hk]
      have hrest := ih (k + 1) (pre ++ [x]) (by simp [hk])
      simp only [List.append_assoc, List.singleton_append] at hrest
      rw [hget, hrest]
      by_cases h : (nameOf x.tag == name) = true <;> simp [h]
  have := gen kids 0 [] rfl
  simpa [List.range_eq_range'] using this

/-- what one level of the path must satisfy for its step to select exactly the intended child -/
def LevelOK (table : List TagRow) (nameOf : String → String) (kids : List XNode) (i : Nat) (n : XNode) : Prop :=
  kids[i]? = some n ∧ ∃ row, table.find? (·.tag == n.tag) = some row ∧ nameOf n.tag = row.name ∧
    match row.counted with
    | none => ∀ x ∈ kids.take i ++ kids.drop (i + 1), nameOf x.tag ≠ row.name
    | some t => t = n.tag ∧ ∀ x ∈ kids, (nameOf x.tag = row.name ↔ x.tag = n.tag)

/-- the hypothesis of the XPath theorem: every level on the way to the node is `LevelOK` -/
def PathOK (table : List TagRow) (nameOf : String → String) : List XNode → Addr → Prop
  | _, [] => True
  | kids, i :: rest => ∃ n, LevelOK table nameOf kids i n ∧ PathOK table nameOf n.children rest

theorem PathOK.valid {table : List TagRow} {nameOf : String → String} : ∀ {addr : Addr} {kids : List XNode},
    PathOK table nameOf kids addr → ValidAddr kids addr := by
  intro addr
  induction addr with
  | nil => intro _ _; trivial
  | cons i rest ih =>
    intro kids h
    obtain ⟨n, hl, hp⟩ := h
    exact ⟨n, hl.1, ih hp⟩

theorem kids_split {kids : List XNode} {i : Nat} {n : XNode} (h : kids[i]? = some n) :
    kids = kids.take i ++ n :: kids.drop (i + 1) ∧ (kids.take i).length = i := by
  have hlt : i < kids.length := by
    rcases Nat.lt_or_ge i kids.length with h1 | h1
    · exact h1
    · rw [List.getElem?_eq_none h1] at h; simp at h
  have hget : kids[i] = n := by
    have := List.getElem?_eq_getElem hlt
    rw [this] at h; exact Option.some.inj h
  refine ⟨?_, by simp [List.length_take]; omega⟩
  rw [← hget, ← List.drop_eq_getElem_cons hlt, List.take_append_drop]

theorem selectStep_one (table : List TagRow) (nameOf : String → String) (kids : List XNode) (i : Nat) (n : XNode)
    (row : TagRow) (hrow : table.find? (·.tag == n.tag) = some row) (hok : LevelOK table nameOf kids i n) :
    selectStep nameOf kids { name := row.name, index := row.counted.map (count ((kids.take (i + 1)).map XNode.tag).reverse) } = [i] := by
  obtain ⟨hn, row', hrow', hname, hcnt⟩ := hok
  rw [hrow] at hrow'
  have : row' = row := (Option.some.inj hrow').symm
  subst this
  obtain ⟨hsplit, hlen⟩ := kids_split hn
  unfold selectStep
  simp only
  rw [selectStep_range]
  have hp : (fun (x : XNode) => nameOf x.tag == row'.name) n = true := by simp [hname]
  have hidx : idxs (fun x => nameOf x.tag == row'.name) kids 0 =
      idxs (fun x => nameOf x.tag == row'.name) (kids.take i) 0 ++
        i :: idxs (fun x => nameOf x.tag == row'.name) (kids.drop (i + 1)) (i + 1) := by
    conv => lhs; rw [hsplit]
    rw [idxs_append]
    simp only [idxs, hp, ↓reduceIte, Nat.zero_add, hlen]
  rw [hidx]
  cases hc : row'.counted with
  | none =>
    rw [hc] at hcnt
    simp only [Option.map_none]
    have h1 : (kids.take i).filter (fun x => nameOf x.tag == row'.name) = [] := by
      apply List.filter_eq_nil_iff.mpr
      intro x hx
      have := hcnt x (List.mem_append_left _ hx)
      simpa using this
    have h2 : (kids.drop (i + 1)).filter (fun x => nameOf x.tag == row'.name) = [] := by
      apply List.filter_eq_nil_iff.mpr
      intro x hx
      have := hcnt x (List.mem_append_right _ hx)
      simpa using this
    rw [idxs_nil_of_filter _ _ _ h1, idxs_nil_of_filter _ _ _ h2]
    simp
  | some t =>
    rw [hc] at hcnt
    obtain ⟨ht, hiff⟩ := hcnt
    subst ht
    simp only [Option.map_some]
    -- the count is one more than the number of earlier siblings with the same tag
    have htake : kids.take (i + 1) = kids.take i ++ [n] := by
      rw [List.take_add_one, hn]; rfl
    have hcount : count ((kids.take (i + 1)).map XNode.tag).reverse n.tag =
        ((kids.take i).filter (fun x => nameOf x.tag == row'.name)).length + 1 := by
      simp only [count, htake, List.map_append, List.map_cons, List.map_nil, List.reverse_append, List.reverse_cons,
        List.reverse_nil, List.nil_append, List.singleton_append, List.filter_cons, beq_self_eq_true, ↓reduceIte,
        List.length_cons, List.filter_reverse, List.length_reverse, Nat.add_right_cancel_iff]
      rw [List.filter_map, List.length_map]
      congr 1
      apply List.filter_congr
      intro x hx
      have hxk : x ∈ kids := List.mem_of_mem_take hx
      have := hiff x hxk
      simp only [Function.comp]
      by_cases h : x.tag = n.tag
      · have h2 := this.mpr h
        have e1 : (nameOf x.tag == row'.name) = true := by simpa using h2
        have e2 : (x.tag == n.tag) = true := by simpa using h
        rw [e1, e2]
      · have h' : nameOf x.tag ≠ row'.name := fun hh => h (this.mp hh)
        have e1 : (nameOf x.tag == row'.name) = false := by simpa using h'
        have e2 : (x.tag == n.tag) = false := by simpa using h
        rw [e1, e2]
    rw [hcount]
    simp only [Nat.add_eq_zero_iff, Nat.succ_ne_self, and_false, ↓reduceIte, Nat.add_sub_cancel]
    rw [← idxs_length (fun x => nameOf x.tag == row'.name) (kids.take i) 0]
    simp

/-- **the printed steps select exactly the node**, for the levels as the reader's walk leaves them -/
theorem select_specLevels (table : List TagRow) (nameOf : String → String) : ∀ (addr : Addr) (kids : List XNode),
    PathOK table nameOf kids addr →
    ∃ ss, stepsOuter table none (specLevels kids addr ++ [[]]) = some ss ∧ select nameOf kids ss = [addr] := by
  intro addr
  induction addr with
  | nil => intro kids _; exact ⟨[], by simp [specLevels, stepsOuter], by simp [select]⟩
  | cons i rest ih =>
    intro kids h
    obtain ⟨n, hl, hp⟩ := h
    obtain ⟨ss, hss, hsel⟩ := ih n.children hp
    have hn := hl.1
    obtain ⟨row, hrow, _, _⟩ := hl.2
    have htake : kids.take (i + 1) = kids.take i ++ [n] := by
      rw [List.take_add_one, hn]; rfl
    have hlevel : ((kids.take (i + 1)).map XNode.tag).reverse = n.tag :: ((kids.take i).map XNode.tag).reverse := by
      simp [htake]
    refine ⟨{ name := row.name, index := row.counted.map (count ((kids.take (i + 1)).map XNode.tag).reverse) } :: ss, ?_, ?_⟩
    · simp only [specLevels, hn, List.cons_append]
      rw [hlevel]
      simp only [stepsOuter, hrow]
      rw [← hlevel, hss]
      simp
    · simp only [select]
      rw [selectStep_one table nameOf kids i n row hrow hl]
      simp [hn, hsel]

end UtapModel.Pos
