// C18 harness: the real UTAP::range_t (header only) behind (1) the line protocol of lean/UtapModel/Drv/C18.lean
// and (2) a direct set-semantics oracle that searches the *implementation* for a failing input.
#include "utap/range.h"

#include <cstdint>
#include <cstdio>
#include <cstdlib>
#include <cstring>
#include <iostream>
#include <limits>
#include <sstream>
#include <string>
#include <vector>

using UTAP::range_t;
using R = range_t<int32_t>;

static std::string showR(const R& r) { return "[" + std::to_string(r.first()) + "," + std::to_string(r.last()) + "]"; }
static std::string showB(bool b) { return b ? "true" : "false"; }

static int ops()
{
    std::string line;
    while (std::getline(std::cin, line)) {
        std::istringstream is(line);
        std::string op;
        is >> op;
        std::vector<long long> x;
        long long v;
        while (is >> v)
            x.push_back(v);
        std::string out = "bad-op";
        auto A = [&] { return R((int32_t)x[0], (int32_t)x[1]); };
        auto B = [&] { return R((int32_t)x[2], (int32_t)x[3]); };
        if (x.size() == 3) {
            int32_t e = (int32_t)x[2];
            if (op == "gt") out = showR(A().gt(e));
            else if (op == "geq") out = showR(A().geq(e));
            else if (op == "lt") out = showR(A().lt(e));
            else if (op == "leq") out = showR(A().leq(e));
            else if (op == "andT") out = showR(A() & e);
            else if (op == "orT") out = showR(A() | e);
            else if (op == "addT") out = showR(A() + e);
            else if (op == "subT") out = showR(A() - e);
            else if (op == "mulT") out = showR(A() * e);
            else if (op == "contains") out = showB(A().contains(e));
            else if (op == "eqT") out = showB(A() == e);
        } else if (x.size() == 4) {
            if (op == "andR") out = showR(A() & B());
            else if (op == "orR") out = showR(A() | B());
            else if (op == "addR") out = showR(A() + B());
            else if (op == "subR") out = showR(A() - B());
            else if (op == "mulR") out = showR(A() * B());
            else if (op == "intersects") out = showB(A().intersects(B()));
            else if (op == "eqR") out = showB(A() == B());
            else if (op == "ltop") out = showB(A() < B());
            else if (op == "gtop") out = showB(A() > B());
            else if (op == "leop") out = showB(A() <= B());
            else if (op == "geop") out = showB(A() >= B());
            else if (op == "minR") out = showR(std::min(A(), B()));
            else if (op == "maxR") out = showR(std::max(A(), B()));
        } else if (x.size() == 2) {
            // the operand is the object itself
            if (op == "addSelf") { R r = A(); r += r; out = showR(r); }
            else if (op == "subSelf") { R r = A(); r -= r; out = showR(r); }
            else if (op == "mulSelf") { R r = A(); r *= r; out = showR(r); }
            else if (op == "andSelf") { R r = A(); r &= r; out = showR(r); }
            else if (op == "orSelf") { R r = A(); r |= r; out = showR(r); }
            else if (op == "size") out = std::to_string(A().size());
            else if (op == "empty") out = showB(A().empty());
        }
        std::cout << out << "\n";
    }
    return 0;
}

// ------------------------------------------------------------------------------------------------ oracle
// Direct check of the property on the implementation: exhaustive for T = int8_t (results that would overflow
// int8_t are skipped, as the property says), boundary sets for int32_t and double.  Prints one line per failing
// (operation, operands) -- at most `cap` per operation -- and a summary.
static long long cases = 0, fails = 0;
static int printed[64];
template <typename... Args>
static void fail(int opid, const char* fmt, Args... a)
{
    ++fails;
    if (printed[opid]++ < 3) {
        std::printf("FAIL ");
        std::printf(fmt, a...);
        std::printf("\n");
    }
}

template <typename T, typename W>
static bool mem(W x, const range_t<T>& r)
{
    return (W)r.first() <= x && x <= (W)r.last();
}

static int WINDOW = 12;
static void oracle_int8()
{
    using T = int8_t;
    using Q = range_t<T>;
    const int lo = -128, hi = 127;
    // scalar operations: all a<=b, all e, membership of all x
    for (int a = lo; a <= hi; ++a)
        for (int b = a; b <= hi; ++b)
            for (int e = lo; e <= hi; ++e) {
                ++cases;
                Q r((T)a, (T)b);
                if (e < hi) {  // next_value(e) must not overflow
                    Q g = Q(r).gt((T)e);
                    int s = std::max(a, e + 1);
                    if (!((int)g.first() == s && (int)g.last() == b)) fail(0, "gt T=int8 r=[%d,%d] e=%d got=[%d,%d] want=[%d,%d]", a, b, e, g.first(), g.last(), s, b);
                }
                {
                    Q g = Q(r).geq((T)e);
                    int s = std::max(a, e);
                    if (!((int)g.first() == s && (int)g.last() == b)) fail(1, "geq T=int8 r=[%d,%d] e=%d got=[%d,%d]", a, b, e, g.first(), g.last());
                }
                if (e > lo) {
                    Q g = Q(r).lt((T)e);
                    // members must be exactly {x in r | x < e}
                    bool ok = true;
                    int badx = 0;
                    for (int x = a - 1 < lo ? lo : a - 1; x <= (b + 1 > hi ? hi : b + 1); ++x) {
                        bool want = (a <= x && x <= b && x < e);
                        if (mem<T, int>(x, g) != want) { ok = false; badx = x; break; }
                    }
                    if (!ok) fail(2, "lt T=int8 r=[%d,%d] e=%d got=[%d,%d] x=%d member=%d but (x in r && x<e)=%d", a, b, e, g.first(), g.last(), badx, (int)mem<T, int>(badx, g), (int)(a <= badx && badx <= b && badx < e));
                }
                {
                    Q g = Q(r).leq((T)e);
                    int f = std::min(b, e);
                    if (!((int)g.first() == a && (int)g.last() == f)) fail(3, "leq T=int8 r=[%d,%d] e=%d got=[%d,%d]", a, b, e, g.first(), g.last());
                }
                {
                    bool c = r.contains((T)e);
                    if (c != (a <= e && e <= b)) fail(4, "contains T=int8 r=[%d,%d] e=%d got=%d", a, b, e, (int)c);
                    bool q = (r == (T)e);
                    if (q != (a == e && b == e)) fail(5, "eqT T=int8 r=[%d,%d] e=%d got=%d", a, b, e, (int)q);
                    Q u = r | (T)e;
                    if (!((int)u.first() == std::min(a, e) && (int)u.last() == std::max(b, e))) fail(6, "orT T=int8 r=[%d,%d] e=%d got=[%d,%d]", a, b, e, u.first(), u.last());
                    Q n = r & (T)e;
                    bool nonempty = a <= e && e <= b;
                    if (nonempty ? !((int)n.first() == e && (int)n.last() == e) : !n.empty()) fail(7, "andT T=int8 r=[%d,%d] e=%d got=[%d,%d]", a, b, e, n.first(), n.last());
                    if (a + e >= lo && b + e <= hi) {
                        Q p = r + (T)e;
                        if (!((int)p.first() == a + e && (int)p.last() == b + e)) fail(8, "addT T=int8 r=[%d,%d] e=%d got=[%d,%d]", a, b, e, p.first(), p.last());
                    }
                    if (a - e >= lo && b - e <= hi && a - e <= hi && b - e >= lo) {
                        Q p = r - (T)e;
                        if (!((int)p.first() == a - e && (int)p.last() == b - e)) fail(9, "subT T=int8 r=[%d,%d] e=%d got=[%d,%d]", a, b, e, p.first(), p.last());
                    }
                    int m1 = a * e, m2 = b * e;
                    if (m1 >= lo && m1 <= hi && m2 >= lo && m2 <= hi) {
                        Q p = r * (T)e;
                        if (!((int)p.first() == std::min(m1, m2) && (int)p.last() == std::max(m1, m2))) fail(10, "mulT T=int8 r=[%d,%d] e=%d got=[%d,%d]", a, b, e, p.first(), p.last());
                    }
                }
            }
    // interval x interval: all a<=b, c<=d over a window (full int8 would be 2^30 pairs), results in int
    const int wl = -WINDOW, wh = WINDOW;
    for (int a = wl; a <= wh; ++a)
        for (int b = a; b <= wh; ++b)
            for (int c = wl; c <= wh; ++c)
                for (int d = c; d <= wh; ++d) {
                    ++cases;
                    Q r((T)a, (T)b), o((T)c, (T)d);
                    // reference by brute force over members
                    int mn = 1 << 30, mx = -(1 << 30), an = mn, ax = mx, sn = mn, sx = mx;
                    bool overlap = false;
                    for (int x = a; x <= b; ++x)
                        for (int y = c; y <= d; ++y) {
                            mn = std::min(mn, x * y); mx = std::max(mx, x * y);
                            an = std::min(an, x + y); ax = std::max(ax, x + y);
                            sn = std::min(sn, x - y); sx = std::max(sx, x - y);
                            overlap |= (x == y);
                        }
                    auto chk = [&](int id, const char* nm, const Q& g, int s, int f) {
                        if (s < lo || f > hi) return;
                        if (!((int)g.first() == s && (int)g.last() == f)) fail(id, "%s T=int8 a=[%d,%d] b=[%d,%d] got=[%d,%d] want=[%d,%d]", nm, a, b, c, d, g.first(), g.last(), s, f);
                    };
                    if (mn >= lo && mx <= hi) chk(11, "mulR", r * o, mn, mx);
                    if (an >= lo && ax <= hi) chk(12, "addR", r + o, an, ax);
                    if (sn >= lo && sx <= hi) chk(13, "subR", r - o, sn, sx);
                    chk(14, "orR", r | o, std::min(a, c), std::max(b, d));
                    {
                        Q n = r & o;
                        int s = std::max(a, c), f = std::min(b, d);
                        if (s <= f ? !((int)n.first() == s && (int)n.last() == f) : !n.empty()) fail(15, "andR T=int8 a=[%d,%d] b=[%d,%d] got=[%d,%d]", a, b, c, d, n.first(), n.last());
                    }
                    if (r.intersects(o) != overlap) fail(16, "intersects T=int8 a=[%d,%d] b=[%d,%d] got=%d", a, b, c, d, (int)r.intersects(o));
                    if ((r && o) != overlap) fail(16, "overlaps T=int8 a=[%d,%d] b=[%d,%d]", a, b, c, d);
                    if ((r == o) != (a == c && b == d)) fail(17, "eqR T=int8 a=[%d,%d] b=[%d,%d]", a, b, c, d);
                    if ((r < o) != (b < c)) fail(18, "ltop T=int8 a=[%d,%d] b=[%d,%d]", a, b, c, d);
                    if ((r > o) != (d < a)) fail(19, "gtop T=int8 a=[%d,%d] b=[%d,%d]", a, b, c, d);
                    if ((r <= o) != !(d < a)) fail(20, "leop T=int8 a=[%d,%d] b=[%d,%d]", a, b, c, d);
                    if ((r >= o) != !(b < c)) fail(21, "geop T=int8 a=[%d,%d] b=[%d,%d]", a, b, c, d);
                }
    for (int a = lo; a <= hi; ++a)
        for (int b = a; b <= hi; ++b) {
            ++cases;
            Q r((T)a, (T)b);
            if (r.size() != (uint32_t)(b - a + 1)) fail(22, "size T=int8 r=[%d,%d] got=%u", a, b, r.size());
            // the operand may be the object itself: same set semantics as for two equal operands
            {
                int mn = 1 << 30, mx = -(1 << 30);
                for (int x = a; x <= b; ++x)
                    for (int y = a; y <= b; ++y) { mn = std::min(mn, x * y); mx = std::max(mx, x * y); }
                auto chk2 = [&](int id, const char* nm, const Q& g, int s, int f) {
                    if (s < lo || f > hi) return;
                    if (!((int)g.first() == s && (int)g.last() == f)) fail(id, "%s T=int8 r=[%d,%d] got=[%d,%d] want=[%d,%d]", nm, a, b, g.first(), g.last(), s, f);
                };
                { Q t = r; t += t; chk2(25, "addSelf", t, a + a, b + b); }
                { Q t = r; t -= t; chk2(26, "subSelf", t, a - b, b - a); }
                { Q t = r; t *= t; chk2(27, "mulSelf", t, mn, mx); }
                { Q t = r; t &= t; chk2(28, "andSelf", t, a, b); }
                { Q t = r; t |= t; chk2(29, "orSelf", t, a, b); }
            }
            if (r.empty()) fail(23, "empty T=int8 r=[%d,%d]", a, b);
        }
}

template <typename T>
static void oracle_boundary(const char* tn, const std::vector<T>& vals)
{
    using Q = range_t<T>;
    using L = long double;
    for (T a : vals)
        for (T b : vals) {
            if (!(a <= b)) continue;
            for (T e : vals) {
                ++cases;
                Q r(a, b);
                bool has_next = e < std::numeric_limits<T>::max() || std::numeric_limits<T>::has_infinity;
                bool has_prev = e > std::numeric_limits<T>::lowest() || std::numeric_limits<T>::has_infinity;
                for (T x : vals) {
                    bool inr = a <= x && x <= b;
                    if (has_next && !(std::numeric_limits<T>::has_infinity && e == std::numeric_limits<T>::infinity() && false)) {
                        Q g = Q(r).gt(e);
                        if ((g.first() <= x && x <= g.last()) != (inr && e < x)) fail(30, "gt T=%s r=[%Lg,%Lg] e=%Lg x=%Lg", tn, (L)a, (L)b, (L)e, (L)x);
                    }
                    if (has_prev) {
                        Q g = Q(r).lt(e);
                        if ((g.first() <= x && x <= g.last()) != (inr && x < e)) fail(31, "lt T=%s r=[%Lg,%Lg] e=%Lg x=%Lg got=[%Lg,%Lg]", tn, (L)a, (L)b, (L)e, (L)x, (L)g.first(), (L)g.last());
                    }
                    {
                        Q g = Q(r).geq(e);
                        if ((g.first() <= x && x <= g.last()) != (inr && e <= x)) fail(32, "geq T=%s r=[%Lg,%Lg] e=%Lg x=%Lg", tn, (L)a, (L)b, (L)e, (L)x);
                        Q h = Q(r).leq(e);
                        if ((h.first() <= x && x <= h.last()) != (inr && x <= e)) fail(33, "leq T=%s r=[%Lg,%Lg] e=%Lg x=%Lg", tn, (L)a, (L)b, (L)e, (L)x);
                    }
                }
                if (r.contains(e) != (a <= e && e <= b)) fail(34, "contains T=%s r=[%Lg,%Lg] e=%Lg", tn, (L)a, (L)b, (L)e);
            }
            for (T c : vals)
                for (T d : vals) {
                    if (!(c <= d)) continue;
                    ++cases;
                    Q r(a, b), o(c, d);
                    bool overlap = std::max(a, c) <= std::min(b, d);
                    if (r.intersects(o) != overlap) fail(35, "intersects T=%s a=[%Lg,%Lg] b=[%Lg,%Lg]", tn, (L)a, (L)b, (L)c, (L)d);
                    Q u = r | o;
                    if (!(u.first() == std::min(a, c) && u.last() == std::max(b, d))) fail(36, "orR T=%s a=[%Lg,%Lg] b=[%Lg,%Lg]", tn, (L)a, (L)b, (L)c, (L)d);
                    Q n = r & o;
                    if (overlap ? !(n.first() == std::max(a, c) && n.last() == std::min(b, d)) : !n.empty()) fail(37, "andR T=%s a=[%Lg,%Lg] b=[%Lg,%Lg]", tn, (L)a, (L)b, (L)c, (L)d);
                    if ((r == o) != (a == c && b == d)) fail(38, "eqR T=%s a=[%Lg,%Lg] b=[%Lg,%Lg]", tn, (L)a, (L)b, (L)c, (L)d);
                    if ((r < o) != (b < c)) fail(39, "ltop T=%s a=[%Lg,%Lg] b=[%Lg,%Lg]", tn, (L)a, (L)b, (L)c, (L)d);
                    if ((r > o) != (d < a)) fail(40, "gtop T=%s a=[%Lg,%Lg] b=[%Lg,%Lg]", tn, (L)a, (L)b, (L)c, (L)d);
                }
        }
}

int main(int argc, char** argv)
{
    if (argc > 1 && !std::strcmp(argv[1], "ops"))
        return ops();
    if (argc > 2) WINDOW = std::atoi(argv[2]);
    oracle_int8();
    {
        using N = std::numeric_limits<int32_t>;
        oracle_boundary<int32_t>("int32", {N::min(), N::min() + 1, -2, -1, 0, 1, 2, N::max() - 1, N::max()});
    }
    {
        using N = std::numeric_limits<double>;
        oracle_boundary<double>("double", {-N::infinity(), N::lowest(), -1.0, -N::denorm_min(), 0.0, N::denorm_min(), 1.0,
                                           std::nextafter(1.0, 2.0), N::max(), N::infinity()});
    }
    std::printf("SUMMARY cases=%lld fails=%lld\n", cases, fails);
    return 0;
}
