// C06 harness: diagnostics of the real library with (path, line, column), the line table of a parsed block, and an
// independent oracle built on libxml2's *tree* API (the library itself uses the streaming xmlTextReader).
//
// stdin: one op per line; stdout: one JSON line per op.
//   L <newxta> <part> <hex text>   parse_XTA(text, DocumentBuilder, newxta, part, "/p") on a fresh Document;
//                                  prints how much the lexer consumed, the line table as seen through
//                                  Document::find_position for every offset of the consumed text, and the diagnostics
//   X <newxta> <hex xml>           parse_XML_buffer(xml, Document, newxta) (type checker included); prints every
//                                  diagnostic, the element its XPath selects in a DOM of the same input, and the
//                                  oracle's verdict about line / columns
//   XT / XFT                       the same with the element tree of the DOM in the result / through parse_XML_file
//   XTQ / XFTQ                     the same, then - as a verifier does - every query the reader stored from the <queries> element is
//                                  handed to one TigaPropertyBuilder: parse(formula, location, options); the diagnostics of the query
//                                  parses are diagnostics of the same document and are judged by the same oracle
#include "common.hpp"
#include <fstream>
#include <cstdio>
#include <unistd.h>
#include "libparser.h"

#include <libxml/parser.h>
#include <libxml/tree.h>
#include <libxml/xpath.h>

#include <map>

using namespace UTAP;

static std::string unhex(const std::string& h)
{
    std::string o;
    auto v = [](char c) { return c <= '9' ? c - '0' : (c | 32) - 'a' + 10; };
    for (size_t i = 0; i + 1 < h.size(); i += 2) o += (char)(v(h[i]) * 16 + v(h[i + 1]));
    return o;
}

static std::string jstr(const std::string& s)
{
    std::string o = "\"";
    for (unsigned char c : s) {
        if (c == '"' || c == '\\') { o += '\\'; o += (char)c; }
        else if (c == '\n') o += "\\n";
        else if (c == '\r') o += "\\r";
        else if (c == '\t') o += "\\t";
        else if (c < 32 || c > 126) { char b[8]; std::snprintf(b, sizeof b, "\\u%04x", c); o += b; }
        else o += (char)c;
    }
    return o + "\"";
}

static std::string excName(const std::exception& e)
{
    if (dynamic_cast<const TypeException*>(&e)) return "TypeException";
    if (dynamic_cast<const XMLReaderError*>(&e)) return "XMLReaderError";
    if (dynamic_cast<const XMLDocError*>(&e)) return "XMLDocError";
    if (dynamic_cast<const std::logic_error*>(&e)) return std::string("logic_error:") + e.what();
    if (dynamic_cast<const std::runtime_error*>(&e)) return std::string("runtime_error:") + e.what();
    if (dynamic_cast<const std::bad_alloc*>(&e)) return "bad_alloc";
    return std::string("exception:") + e.what();
}

struct D
{
    char kind;
    std::string msg, path;
    uint32_t sl, sc, el, ec;
    uint32_t ps, pe;  // absolute
    bool sameEntryPath;
};

static std::vector<D> diags(Document& doc)
{
    std::vector<D> out;
    auto add = [&](char k, const UTAP::error_t& e) {
        D d;
        d.kind = k;
        d.msg = e.msg;
        d.path = e.start.path ? *e.start.path : std::string();
        d.sl = e.start.line;
        d.sc = e.position.start - e.start.position;
        d.el = e.end.line;
        d.ec = e.position.end - e.end.position;
        d.ps = e.position.start;
        d.pe = e.position.end;
        d.sameEntryPath = (e.end.path ? *e.end.path : std::string()) == d.path;
        out.push_back(d);
    };
    for (auto& e : doc.get_errors()) add('E', e);
    for (auto& e : doc.get_warnings()) add('W', e);
    return out;
}

// ---------------------------------------------------------------------------------------------------------------
// DocumentBuilder that remembers every range the parser assigns (CALL -> set_position) outside [lo, hi] or with start > end
class RangeBuilder : public DocumentBuilder
{
public:
    uint32_t lo = 0, hi = 0xffffffffu;
    uint64_t calls = 0;
    std::vector<std::pair<uint32_t, uint32_t>> bad;
    explicit RangeBuilder(Document& d): DocumentBuilder{d} {}
    void set_position(uint32_t a, uint32_t b) override
    {
        ++calls;
        if ((a < lo || b > hi || a > b) && bad.size() < 8) bad.emplace_back(a, b);
        DocumentBuilder::set_position(a, b);
    }
};

static void opLex(bool newxta, int part, const std::string& text)
{
    Document doc;
    RangeBuilder b(doc);
    uint32_t p0 = tracker.position;
    b.lo = p0 + 1;
    b.hi = p0 + 1 + (uint32_t)text.size();
    std::string exc;
    int rc = 0;
    try {
        rc = parse_XTA(text.c_str(), &b, newxta, (xta_part_t)part, "/p");
    } catch (std::exception& e) {
        exc = excName(e);
    }
    uint32_t consumed = tracker.position - p0 - 1;
    std::ostringstream os;
    os << "{\"rc\":" << rc << ",\"exc\":" << jstr(exc) << ",\"c\":" << consumed << ",\"tab\":\"";
    // the line table as the document resolves positions: distinct (entry offset, line) over all offsets of the block
    uint32_t lastPos = 0xffffffffu;
    bool first = true;
    try {
        for (uint32_t k = 0; k <= consumed && k <= text.size(); ++k) {
            const auto& e = doc.find_position(p0 + 1 + k);
            if (e.position != lastPos) {
                os << (first ? "" : ",") << (e.position - (p0 + 1)) << ":" << e.line;
                first = false;
                lastPos = e.position;
            }
        }
    } catch (std::exception& e) {
        os << "!" << excName(e);
    }
    os << "\",\"errs\":\"";
    first = true;
    for (auto& d : diags(doc)) {
        if (d.msg == "$Unknown_symbol" || d.msg == "$Comment_not_closed") {
            os << (first ? "" : ";") << d.msg << "@" << d.sl << ":" << d.sc << "-" << d.el << ":" << d.ec;
            first = false;
        }
    }
    os << "\",\"all\":[";
    first = true;
    for (auto& d : diags(doc)) {
        os << (first ? "" : ",") << "[" << jstr(d.msg) << "," << (int64_t)d.ps - (int64_t)(p0 + 1) << "," << (int64_t)d.pe - (int64_t)(p0 + 1) << ","
           << d.sl << "," << d.sc << "," << d.el << "," << d.ec << "," << jstr(d.path) << "]";
        first = false;
    }
    os << "],\"calls\":" << b.calls << ",\"badpos\":[";
    first = true;
    for (auto& p : b.bad) {
        os << (first ? "" : ",") << "[" << (int64_t)p.first - (int64_t)(p0 + 1) << "," << (int64_t)p.second - (int64_t)(p0 + 1) << "]";
        first = false;
    }
    os << "]}";
    std::cout << os.str() << "\n";
}

// ---------------------------------------------------------------------------------------------------------------
static void sexp(xmlNodePtr n, std::ostringstream& os)
{
    os << "(" << (const char*)n->name;
    for (xmlNodePtr c = n->children; c; c = c->next)
        if (c->type == XML_ELEMENT_NODE) {
            os << " ";
            sexp(c, os);
        }
    os << ")";
}

// address = indices among *element* children, from the document node
static std::string addrOf(xmlNodePtr n)
{
    std::vector<int> a;
    for (xmlNodePtr cur = n; cur && cur->type == XML_ELEMENT_NODE; cur = cur->parent) {
        int i = 0;
        for (xmlNodePtr s = cur->prev; s; s = s->prev)
            if (s->type == XML_ELEMENT_NODE) ++i;
        a.push_back(i);
    }
    std::string o;
    for (auto it = a.rbegin(); it != a.rend(); ++it) o += (o.empty() ? "" : ".") + std::to_string(*it);
    return o;
}

// fully indexed canonical path /nta[1]/template[2]/...
static std::string canonOf(xmlNodePtr n)
{
    std::vector<std::string> a;
    for (xmlNodePtr cur = n; cur && cur->type == XML_ELEMENT_NODE; cur = cur->parent) {
        int i = 1;
        for (xmlNodePtr s = cur->prev; s; s = s->prev)
            if (s->type == XML_ELEMENT_NODE && xmlStrEqual(s->name, cur->name)) ++i;
        a.push_back(std::string("/") + (const char*)cur->name + "[" + std::to_string(i) + "]");
    }
    std::string o;
    for (auto it = a.rbegin(); it != a.rend(); ++it) o += *it;
    return o;
}

// The text the library parses for an element: the first child if it is a text node (what XMLReader looks at after read()).
static bool elementText(xmlNodePtr n, std::string& out)
{
    xmlNodePtr c = n->children;
    if (c && (c->type == XML_TEXT_NODE || c->type == XML_CDATA_SECTION_NODE) && c->content) {
        out = (const char*)c->content;
        return true;
    }
    out.clear();
    return false;
}

// Is (line, col) inside `text`?  Lines are separated by '\n' (a preceding '\r' belongs to the line); columns are byte
// offsets, the position just after the last character of a line is allowed (exclusive end of a range).
static std::string inText(const std::string& text, uint32_t line, uint32_t col)
{
    std::vector<size_t> len;
    size_t cur = 0;
    for (char ch : text) {
        if (ch == '\n') { len.push_back(cur); cur = 0; }
        else ++cur;
    }
    len.push_back(cur);
    if (line < 1 || line > len.size()) return "line " + std::to_string(line) + " outside 1.." + std::to_string(len.size());
    if (col > len[line - 1]) return "column " + std::to_string(col) + " outside line " + std::to_string(line) + " of length " + std::to_string(len[line - 1]);
    return "";
}

// `viaFile`: the same bytes through parse_XML_file (the file readers ask libxml2 to drop blank text nodes, the buffer reader does not)
static void opXml(bool newxta, const std::string& xml, bool with_tree, bool viaFile = false, bool withQueries = false)
{
    std::ostringstream os;
    std::string exc;
    int rc = 0;
    Document doc;
    uint32_t p0 = tracker.position;
    try {
        if (viaFile) {
            const char* dir = getenv("VERIF_C06_DIR");
            std::string path = std::string(dir ? dir : ".") + "/c06-" + std::to_string((long)getpid()) + ".xml";
            {
                std::ofstream f(path, std::ios::binary);
                f << xml;
            }
            try {
                rc = parse_XML_file(path.c_str(), &doc, newxta);
            } catch (...) {
                std::remove(path.c_str());
                throw;
            }
            std::remove(path.c_str());
        } else
            rc = parse_XML_buffer(xml.c_str(), &doc, newxta);
    } catch (std::exception& e) {
        exc = excName(e);
    }
    size_t nq = 0;
    std::string qexc;
    if (withQueries && exc.empty()) {
        TigaPropertyBuilder pb(doc);
        for (const auto& q : doc.get_queries()) {
            ++nq;
            try {
                pb.parse(q.formula.c_str(), q.location, q.options);
            } catch (std::exception& e) {
                qexc += excName(e) + ";";
            }
        }
    }
    os << "{\"rc\":" << rc << ",\"exc\":" << jstr(exc) << ",\"p0\":" << p0 << ",\"p1\":" << tracker.position << ",\"nq\":" << nq
       << ",\"qexc\":" << jstr(qexc);
    // the independent DOM of the same bytes (same parser options as the library's reader)
    xmlDocPtr dom = xmlReadMemory(xml.c_str(), (int)xml.size(), "", nullptr,
                                  XML_PARSE_NOCDATA | XML_PARSE_HUGE | XML_PARSE_RECOVER | XML_PARSE_NOERROR | XML_PARSE_NOWARNING);
    xmlXPathContextPtr ctx = dom ? xmlXPathNewContext(dom) : nullptr;
    if (with_tree && dom && xmlDocGetRootElement(dom)) {
        std::ostringstream t;
        sexp(xmlDocGetRootElement(dom), t);
        os << ",\"tree\":" << jstr(t.str());
    }
    os << ",\"diags\":[";
    bool first = true;
    for (auto& d : diags(doc)) {
        os << (first ? "" : ",") << "{\"k\":\"" << d.kind << "\",\"msg\":" << jstr(d.msg) << ",\"path\":" << jstr(d.path) << ",\"sl\":" << d.sl
           << ",\"sc\":" << d.sc << ",\"el\":" << d.el << ",\"ec\":" << d.ec << ",\"ps\":" << d.ps << ",\"pe\":" << d.pe;
        first = false;
        std::string verdict;
        int nsel = -1;
        if (!d.sameEntryPath) verdict = "start and end resolve to different elements";
        if (d.path.empty()) {
            verdict = verdict.empty() ? "empty path for XML input" : verdict;
        } else if (ctx) {
            xmlXPathObjectPtr r = xmlXPathEvalExpression((const xmlChar*)d.path.c_str(), ctx);
            nsel = (r && r->nodesetval) ? r->nodesetval->nodeNr : 0;
            if (nsel == 1 && r->nodesetval->nodeTab[0]->type == XML_ELEMENT_NODE) {
                xmlNodePtr n = r->nodesetval->nodeTab[0];
                std::string text;
                bool hasText = elementText(n, text);
                os << ",\"addr\":" << jstr(addrOf(n)) << ",\"canon\":" << jstr(canonOf(n)) << ",\"hasText\":" << (hasText ? "true" : "false");
                if (verdict.empty()) {
                    // the one-character dummy position the reader registers for element-level diagnostics
                    bool dummy = d.sl == 1 && d.el == 1 && d.sc == 0 && d.ec == 1;
                    if (!dummy) {
                        std::string a = inText(text, d.sl, d.sc), b = inText(text, d.el, d.ec);
                        if (!a.empty()) verdict = "start: " + a;
                        else if (!b.empty()) verdict = "end: " + b;
                        else if (d.sl > d.el || (d.sl == d.el && d.sc > d.ec)) verdict = "start after end";
                    }
                }
            } else if (verdict.empty()) {
                verdict = "XPath selects " + std::to_string(nsel) + " nodes";
            }
            if (r) xmlXPathFreeObject(r);
        }
        os << ",\"nsel\":" << nsel << ",\"oracle\":" << jstr(verdict) << "}";
    }
    os << "],\"has_errors\":" << (doc.has_errors() ? "true" : "false") << "}";
    if (ctx) xmlXPathFreeContext(ctx);
    if (dom) xmlFreeDoc(dom);
    std::cout << os.str() << "\n";
}

static void quietXml(void*, const char*, ...) {}

int main(int argc, char** argv)
{
    std::ios::sync_with_stdio(false);
    xmlInitParser();
    // keep libxml2's own complaints about deliberately broken input off stderr
    xmlSetGenericErrorFunc(nullptr, quietXml);
    if (argc > 1 && std::string(argv[1]) == "seed" && argc > 2) tracker.position = (uint32_t)std::stoull(argv[2]);
    std::string line;
    while (std::getline(std::cin, line)) {
        std::istringstream is(line);
        std::string op;
        is >> op;
        if (op == "L") {
            int nx, part;
            std::string hex;
            is >> nx >> part >> hex;
            opLex(nx != 0, part, unhex(hex));
        } else if (op == "X" || op == "XT" || op == "XFT" || op == "XTQ" || op == "XFTQ") {
            int nx;
            std::string hex;
            is >> nx >> hex;
            opXml(nx != 0, unhex(hex), op != "X", op[1] == 'F', op.back() == 'Q');
        } else {
            std::cout << "{\"bad-op\":true}\n";
        }
        std::cout.flush();
    }
    return 0;
}
