/-
M-PRINT — model of `expression_t::print` on the expression fragment, at token level: the layout of every kind with its
operands wrapped by `embrace` / `embrace_strict` / nothing, driven by the tables that translate/printer.py regenerates
from src/expression.cpp (Gen/PrinterTable.lean).  Core Lean only.
-/
import UtapModel.Model.ExprTable
import UtapModel.Gen.PrinterTable

namespace UtapModel.PrintModel
open UtapModel.Pratt UtapModel.ExprTable UtapModel.ExprGrammar UtapModel.PrinterTable

/-- `kind_t` name of the root of a syntax tree -/
def kindName (D : Data) : Expr → String
  | .atom (.ident _) => "IDENTIFIER"
  | .atom .deadlock => "DEADLOCK"
  | .atom _ => "CONSTANT"
  | .pre t _ => preKind D t
  | .quant k _ _ _ => quantKind D k
  | .post t _ => postKind D t
  | .dot _ _ | .dotLoc _ => "DOT"
  | .bin t _ _ => binKind D t
  | .tern _ _ _ => "INLINE_IF"
  | .index _ _ => "ARRAY"
  | .fn1 k _ | .fn2 k _ _ | .fn3 k _ _ _ => fnKind k
  | .call _ _ => "FUN_CALL"
  | .anil | .acons _ _ => "LIST"

def precOfKind (k : String) : Int :=
  match printerPrec.find? (fun x => x.1 == k) with
  | some (_, p) => p
  | none => -1

def modeOf (k : String) (i : Nat) : String × String :=
  match childModes.find? (fun x => x.1 == k) with
  | some (_, ms) => match ms.find? (fun m => m.1 == i) with | some (_, m, r) => (m, r) | none => ("raw", "")
  | none => ("raw", "")

/-- does the printer put parentheses around operand `i` (tree `x`) of a node of kind `k`? -/
def pparen (D : Data) (k : String) (i : Nat) (x : Expr) : Bool :=
  let (base, r) := modeOf k i
  -- a non-empty `r`: the comparison uses the precedence of kind `r` instead of the parent's own
  let ref := if r == "" then k else r
  if base == "always" then true
  else if base == "embrace" then decide (precOfKind ref ≥ precOfKind (kindName D x))
  else if base == "strict" then decide (precOfKind ref > precOfKind (kindName D x))
  else false

/-- `case UNARY_MINUS` prints its operand into a string first and gives it parentheses of its own when that text starts with `-`
    (`-(-2147483648)`, `-(-2147483648++)`: `--` would be read as a decrement) -/
def negLead (D : Data) (mt : Nat) (t : Nat) (operand : List Tok) : Bool :=
  minusParenthesisesNegativeLead && D.tbl.isMinus t && (match operand with | .sym u :: _ => u == mt | _ => false)

/-- the token stream of `expression_t::str()` -/
def lprint (D : Data) (mt : Nat) : Expr → List Tok
  | .atom a => atomToks mt a
  | .pre t x =>
    let operand := wrap (pparen D (preKind D t) 0 x) (lprint D mt x)
    .sym t :: wrap (negLead D mt t operand) operand
  | .quant k id ty x => .quant k id ty :: wrap (pparen D (quantKind D k) 1 x) (lprint D mt x)
  | .post t x => wrap (pparen D (postKind D t) 0 x) (lprint D mt x) ++ [.sym t]
  | .dot n x => wrap (pparen D "DOT" 0 x) (lprint D mt x) ++ [.dot n]
  | .dotLoc x => wrap (pparen D "DOT" 0 x) (lprint D mt x) ++ [.dotLoc]
  | .bin t l r =>
    wrap (pparen D (binKind D t) 0 l) (lprint D mt l) ++ [.sym t] ++ wrap (pparen D (binKind D t) 1 r) (lprint D mt r)
  | .tern c a b =>
    wrap (pparen D "INLINE_IF" 0 c) (lprint D mt c) ++ [.quest] ++ wrap (pparen D "INLINE_IF" 1 a) (lprint D mt a) ++ [.colon] ++
      wrap (pparen D "INLINE_IF" 2 b) (lprint D mt b)
  | .index a i =>
    wrap (pparen D "ARRAY" 0 a) (lprint D mt a) ++ [.lb] ++ wrap (pparen D "ARRAY" 1 i) (lprint D mt i) ++ [.rb]
  | .fn1 k a => [.fn k 1, .lp] ++ lprint D mt a ++ [.rp]
  | .fn2 k a b => [.fn k 2, .lp] ++ lprint D mt a ++ [.comma] ++ lprint D mt b ++ [.rp]
  | .fn3 k a b c => [.fn k 3, .lp] ++ lprint D mt a ++ [.comma] ++ lprint D mt b ++ [.comma] ++ lprint D mt c ++ [.rp]
  | .call f args => wrap (pparen D "FUN_CALL" 0 f) (lprint D mt f) ++ [.lp] ++ lprint D mt args ++ [.rp]
  | .anil => []
  | .acons x .anil => lprint D mt x
  | .acons x rest => lprint D mt x ++ [.comma] ++ lprint D mt rest

/-- level of the root for the *grammar* (what `R` requires), `none` for atoms and builtin calls -/
def lvlOf (T : Tbl) : Expr → Option Nat
  | .pre t _ => some (T.pp t)
  | .quant k _ _ _ => some (T.quantL k)
  | .post t _ => some (T.sp t)
  | .dot _ _ | .dotLoc _ | .index _ _ | .call _ _ => some T.topL
  | .bin t _ _ => some (T.bp t)
  | .tern _ _ _ => some T.ternL
  | _ => none

/-- may `x` stand without parentheses where the grammar requires level ≥ `c`? -/
def bareOK (T : Tbl) (c : Nat) (x : Expr) : Bool :=
  match lvlOf T x with
  | some l => decide (c ≤ l)
  | none => true

/-- operand `i` (tree `x`, grammar context `c`) of a node of kind `k` is printed re-parseably -/
def opOK (D : Data) (k : String) (i : Nat) (c : Nat) (x : Expr) : Bool := pparen D k i x || bareOK D.tbl c x

/-- **The computed criterion**: every operand of every node is either parenthesised by the printer or allowed to stand
bare by the grammar; and the tree is in the fragment (`wf`).  `false` exactly when some (parent, position, child)
combination is one where the printer omits parentheses the grammar needs. -/
def good (D : Data) (mt : Nat) : Bool → Expr → Bool
  | false, .atom a => if a = .intMin then D.tbl.isPre mt && D.tbl.isMinus mt else true
  | false, .pre t x =>
    D.tbl.isPre t && !D.tbl.prePlus t && opOK D (preKind D t) 0 (D.tbl.mn (D.tbl.pp t)) x && good D mt false x
  | false, .quant k _ _ x => opOK D (quantKind D k) 1 (D.tbl.mn (D.tbl.quantL k)) x && good D mt false x
  | false, .post t x =>
    D.tbl.isPost t && !D.tbl.isBin t && opOK D (postKind D t) 0 (D.tbl.lctx (D.tbl.sp t)) x && good D mt false x
  | false, .dot _ x => opOK D "DOT" 0 (D.tbl.lctx D.tbl.topL) x && good D mt false x
  | false, .dotLoc x => opOK D "DOT" 0 (D.tbl.lctx D.tbl.topL) x && good D mt false x
  | false, .bin t l r =>
    D.tbl.isBin t && !D.tbl.isImply t && !D.tbl.isPost t &&
      opOK D (binKind D t) 0 (D.tbl.lctx (D.tbl.bp t)) l && opOK D (binKind D t) 1 (D.tbl.mn (D.tbl.bp t)) r &&
      good D mt false l && good D mt false r
  | false, .tern c a b =>
    opOK D "INLINE_IF" 0 (D.tbl.lctx D.tbl.questL) c && opOK D "INLINE_IF" 2 (D.tbl.mn D.tbl.ternL) b &&
      good D mt false c && good D mt false a && good D mt false b
  | false, .index a i => opOK D "ARRAY" 0 (D.tbl.lctx D.tbl.topL) a && good D mt false a && good D mt false i
  | false, .fn1 _ a => good D mt false a
  | false, .fn2 _ a b => good D mt false a && good D mt false b
  | false, .fn3 _ a b c => good D mt false a && good D mt false b && good D mt false c
  | false, .call f args => opOK D "FUN_CALL" 0 (D.tbl.lctx D.tbl.topL) f && good D mt false f && good D mt true args
  | false, .anil => false
  | false, .acons _ _ => false
  | true, .anil => true
  | true, .acons x rest => good D mt false x && good D mt true rest
  | true, _ => false

end UtapModel.PrintModel
