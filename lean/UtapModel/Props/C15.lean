/-
C15 — a parse result depends only on its input, not on earlier parses in the process.

The process-global state is `Globals` (Model/Globals.lean).  What a call can inherit from earlier calls:

  * `tracker.position` — never reset.  (shift) below 2^32 the position machinery is translation invariant: every settled
    position of a block resolves to the same (path, line, column) whatever the starting value of the counter and whatever
    earlier blocks the document's table holds, and no exception is raised.  At 2^32 it is not: (wrap witness).
  * `ch`, `syntax`, `syntax_token`, `tracker.line/offset/path` — (reinit) overwritten by every call before parsing.
  * flex's start condition — (yyStart) back to INITIAL whenever the scanner runs to the end of its input.
  * `rootTransId`, `types` — (written first) every read is preceded by a write of the same parse.
  * `yylloc` — (eof location) used by a call only when its text has no lexeme at all; then it is stale: exception shape
    `history:empty-input-location` unless parse_XTA initialises it (`ParseGlobalsGen.yyllocInit`).
-/
import UtapModel.Model.Globals
import UtapModel.Props.C06

namespace UtapModel.C15
open UtapModel.Pos UtapModel.LexLines UtapModel.Loc UtapModel.Globals UtapModel.C06

/-! ### (shift) translation invariance and absence of exceptions below 2^32 -/

/-- **C15_shift**: the same block (any honest lexeme sequence) scanned from two different counter values `p0`, `p0'` into two
    different documents (`idx0`, `idx0'` are whatever earlier blocks put into the tables): as long as neither run reaches
    2^32, neither throws, and every settled position of the block resolves to the same path, line and column in both. -/
theorem C15_shift (idx0 idx0' : Index) (p0 p0' : Nat) (path : String) (hm : Monotone idx0) (hm' : Monotone idx0')
    (hlt : ∀ l, idx0.getLast? = some l → l.position ≤ p0 + 1) (hlt' : ∀ l, idx0'.getLast? = some l → l.position ≤ p0' + 1)
    (ls : List Lexeme) (hon : ∀ lx ∈ ls, Honest lx)
    (hfit : p0 + 1 + (flat ls).length < W) (hfit' : p0' + 1 + (flat ls).length < W)
    (a : List Lexeme) (lx : Lexeme) (b : List Lexeme) (u v : List Char)
    (hsplit : ls = a ++ lx :: b) (hchars : lx.chars = u ++ v) (hu : noNl u) :
    ∃ s s', runLexemes (blockStart idx0 p0 path) ls = .ok s ∧ runLexemes (blockStart idx0' p0' path) ls = .ok s' ∧
      resolve s.idx (p0 + 1 + (flat a).length + u.length) = resolve s'.idx (p0' + 1 + (flat a).length + u.length) := by
  obtain ⟨s, hrun, hres⟩ := C06_linecol_lexemes idx0 p0 path hm hlt ls hon hfit a lx b u v hsplit hchars hu
  obtain ⟨s', hrun', hres'⟩ := C06_linecol_lexemes idx0' p0' path hm' hlt' ls hon hfit' a lx b u v hsplit hchars hu
  exact ⟨s, s', hrun, hrun', by rw [hres, hres']⟩

/-- the hypotheses of `C15_shift` are satisfiable: the lexemes of the multi-line example text of C06 are honest -/
example : ∀ lx ∈ (lexAll LexRulesGen.rules .initial exampleText).1, Honest lx := by
  intro lx hlx
  have hno : ∀ lx ∈ (lexAll LexRulesGen.rules .initial exampleText).1, lx.rule.pat ≠ .str := by decide +kernel
  exact lexAll_honest LexRulesGen.rules tie_rules_faithful .initial exampleText lx hlx (hno lx hlx)

/-- the same for the lexemes of a text under today's rule table: a history that has consumed `p0` characters and a fresh
    process (`p0' = 0`, empty table) report every diagnostic end of the block identically -/
theorem C15_shift_text (idx0 : Index) (p0 : Nat) (path : String) (hm : Monotone idx0)
    (hlt : ∀ l, idx0.getLast? = some l → l.position ≤ p0 + 1) (text : List Char)
    (hstr : NoNewlineInStringLiteral (lexAll LexRulesGen.rules .initial text).1)
    (hfit : p0 + 1 + text.length < W)
    (a : List Lexeme) (lx : Lexeme) (b : List Lexeme) (u v : List Char)
    (hsplit : (lexAll LexRulesGen.rules .initial text).1 = a ++ lx :: b) (hchars : lx.chars = u ++ v) (hu : noNl u) :
    ∃ s s', runLexemes (blockStart idx0 p0 path) (lexAll LexRulesGen.rules .initial text).1 = .ok s ∧
      runLexemes (blockStart [] 0 path) (lexAll LexRulesGen.rules .initial text).1 = .ok s' ∧
      resolve s.idx (p0 + 1 + (flat a ++ u).length) = resolve s'.idx (0 + 1 + (flat a ++ u).length) := by
  obtain ⟨_, s, hrun, hres⟩ := C06_linecol idx0 p0 path hm hlt text hstr hfit a lx b u v hsplit hchars hu
  obtain ⟨_, s', hrun', hres'⟩ := C06_linecol [] 0 path trivial (by intro l h; simp at h) text hstr (by omega) a lx b u v hsplit hchars hu
  exact ⟨s, s', hrun, hrun', by rw [hres, hres']⟩

/-! ### (wrap witness) — exception shape `history:position>=2^32` -/

def wrapText : List Char := "/*\n\n\n".toList

/-- what a run reports: `none` = completed, `some mode` = `std::logic_error("Positions must be monotonically increasing")`
    escaped while flex was in start condition `mode` -/
def throwsIn (p0 : Nat) (text : List Char) : Option Mode :=
  match runLexemesMode (blockStart [] p0 "/p") .initial (lexAll LexRulesGen.rules .initial text).1 with
  | .ok _ => none
  | .error (_, m) => some m

/-- **C15_wrap_witness**: with the counter three characters below 2^32 the text `/*⏎⏎⏎` makes `position_index_t::add` throw
    inside the comment (the counter has wrapped, the new entry lies below the last one) and flex stays in the `comment`
    start condition; from a fresh counter the same text scans without exception.  A later call then scans its whole text as
    a comment: `x@` produces no `$Unknown_symbol`, which it does from INITIAL. -/
theorem C15_wrap_witness :
    throwsIn (W - 3) wrapText = some Mode.comment ∧ throwsIn 0 wrapText = none ∧
    ((lexAll LexRulesGen.rules .comment "x@".toList).1.all (fun lx => lx.rule.err == LexErr.none)) = true ∧
    ((lexAll LexRulesGen.rules .initial "x@".toList).1.any (fun lx => lx.rule.err == LexErr.always "$Unknown_symbol")) = true := by
  decide +kernel

/-! ### (yyStart) -/

/-- the `<<EOF>>` rule of every start condition leaves the scanner in INITIAL -/
def EofRestores (rules : List Rule) : Bool :=
  [Mode.initial, Mode.comment].all fun m =>
    (match rules.find? (fun r => r.mode == m && r.pat == .eof) with
     | some r => modeAfter r m
     | none => m) == Mode.initial

theorem tie_eof_restores : EofRestores LexRulesGen.rules = true := by decide

theorem lexAllF_final (rules : List Rule) (hc : Covering rules = true) (he : EofRestores rules = true) :
    ∀ (fuel : Nat) (mode : Mode) (t : List Char), t.length < fuel → (lexAllF rules fuel mode t).2 = Mode.initial := by
  intro fuel
  induction fuel with
  | zero => intro mode t h; omega
  | succ fuel ih =>
    intro mode t hlen
    cases t with
    | nil =>
      simp only [EofRestores, List.all_cons, List.all_nil, Bool.and_true, Bool.and_eq_true, beq_iff_eq] at he
      simp only [lexAllF]
      cases mode with
      | initial =>
        have h1 := he.1
        cases hf : rules.find? (fun r => r.mode == Mode.initial && r.pat == .eof) with
        | none => simp
        | some r => simp only [hf] at h1 ⊢; exact h1
      | comment =>
        have h2 := he.2
        cases hf : rules.find? (fun r => r.mode == Mode.comment && r.pat == .eof) with
        | none => simp only [hf] at h2; exact absurd h2 (by decide)
        | some r => simp only [hf] at h2 ⊢; exact h2
    | cons c cs =>
      simp only [lexAllF]
      cases hbest : bestRule rules mode (c :: cs) with
      | none =>
        exfalso
        rw [bestRule_eq] at hbest
        exact foldl_finds mode (c :: cs) rules none (covering_match rules hc mode c cs) hbest
      | some p =>
        obtain ⟨r, n⟩ := p
        obtain ⟨_, _, _, hpos⟩ := bestRule_spec rules mode (c :: cs) r n hbest
        have hn : ¬ n = 0 := by omega
        simp only [hn, ↓reduceIte]
        apply ih
        simp only [List.length_drop, List.length_cons] at hlen ⊢; omega

/-- **C15_yyStart_restored**: whenever the scanner runs to the end of its text — which it does unless an exception escapes
    from a lexer action — flex is back in INITIAL, whatever the text (unterminated comments included) and whatever start
    condition the call began in. -/
theorem C15_yyStart_restored (mode : Mode) (text : List Char) :
    (lexAll LexRulesGen.rules mode text).2 = Mode.initial :=
  lexAllF_final LexRulesGen.rules tie_rules_covering tie_eof_restores _ mode text (Nat.lt_succ_self _)

example : (lexAll LexRulesGen.rules .initial "int a; /* never closed\n".toList).2 = Mode.initial := C15_yyStart_restored _ _

/-! ### (reinit) -/

/-- every part of `xta_part_t` has a case in `setStartToken`, so `syntax_token` never survives from an earlier call -/
theorem tie_start_token_total : ∀ p ∈ ParseGlobalsGen.parts, ∀ nx, (startToken p nx).isSome = true := by decide

/-- **C15_reinit**: after the per-call initialisation the builder, the syntax mode, the pending start token and the tracker's
    line / offset / path are functions of the call alone; of the whole state only `tracker.position`, the flex start
    condition, `rootTransId`, `types` (and `yylloc` unless it is initialised) are inherited. -/
theorem C15_reinit (init : Bool) (g₁ g₂ : Globals) (c : Call) (hp : c.property = true ∨ c.part ∈ ParseGlobalsGen.parts) :
    (enter init g₁ c).ch = (enter init g₂ c).ch ∧ (enter init g₁ c).syntaxMode = (enter init g₂ c).syntaxMode ∧
    (enter init g₁ c).syntaxToken = (enter init g₂ c).syntaxToken ∧
    (enter init g₁ c).tracker.line = (enter init g₂ c).tracker.line ∧
    (enter init g₁ c).tracker.offset = (enter init g₂ c).tracker.offset ∧
    (enter init g₁ c).tracker.path = (enter init g₂ c).tracker.path := by
  cases hprop : c.property with
  | true =>
    have ht : startToken "S_PROPERTY" false = some "T_PROPERTY" := by decide
    cases init <;> simp [enter, hprop, ht, Tracker.setPath]
  | false =>
    rcases hp with hp | hp
    · rw [hprop] at hp; exact absurd hp (by decide)
    · have := tie_start_token_total c.part hp c.newxta
      obtain ⟨t, ht⟩ := Option.isSome_iff_exists.mp this
      cases init <;> simp [enter, hprop, ht, Tracker.setPath]

/-! ### (written first) rootTransId and types -/

/-- the accesses recognised in parser.y: `rootTransId` is read only by the short transition forms and written by the full
    ones, `types` is written by `ArrayDecl` and read only below it -/
theorem tie_accesses : ∀ a ∈ ParseGlobalsGen.accesses,
    (a.2.1 = "rootTransId" → (a.2.2 = "read" → a.1 = "TransitionOpt" ∨ a.1 = "OldTransitionOpt") ∧
                              (a.2.2 = "write" → a.1 = "Transition" ∨ a.1 = "OldTransition")) ∧
    (a.2.1 = "types" → (a.2.2 = "read" → a.1 = "ArrayDecl2") ∧ (a.2.2 = "write" → a.1 = "ArrayDecl")) := by decide

/-- **C15_rootTransId_written_first**: in every transition list (`TransitionList : Transition | TransitionList ',' TransitionOpt`,
    the shape the translator checks) the first access of `rootTransId` is the write of the leading full transition, so the
    short forms never see a value left by an earlier parse. -/
theorem C15_rootTransId_written_first (rest : List TransOpt) : WrittenFirst (transListAccesses rest) := rfl

/-- **C15_types_written_first**: `ArrayDecl : { types = 0; } ArrayDecl2` resets the counter before any `ArrayDecl2` uses it. -/
theorem C15_types_written_first (dims : Nat) : WrittenFirst (arrayDeclAccesses dims) := rfl

/-! ### (eof location) `yylloc` -/

/-- **C15_eof_location_partial**: the location of a syntax error at the end of a text with at least one lexeme (blanks,
    comments and newlines count) is the last lexeme's range — the same for every history (up to the shift of the counter,
    which `C15_shift` takes care of).  *Partial*: for a text without any lexeme (the empty string) the location is the
    inherited `yylloc` unless `parse_XTA` initialises it; the full statement
    `∀ ls, (eofErrorRange g₁ ls) = (eofErrorRange g₂ ls)` is false, see the witness below. -/
theorem C15_eof_location_partial (g₁ g₂ : Globals) (ls : List Lexeme) (hne : ls ≠ [])
    (hpos : g₁.tracker.position = g₂.tracker.position) : eofErrorRange g₁ ls = eofErrorRange g₂ ls := by
  cases ls with
  | nil => exact absurd rfl hne
  | cons lx rest =>
    simp only [eofErrorRange, yyllocAfter, hpos]
    have : (tokenRanges g₂.tracker.position (lx :: rest)).getLast? ≠ none := by
      simp [tokenRanges]
    cases h : (tokenRanges g₂.tracker.position (lx :: rest)).getLast? with
    | none => exact absurd h this
    | some r => simp

/-- with the initialisation of the proposed fix the empty text is covered too -/
theorem C15_eof_location_with_init (g₁ g₂ : Globals) (c : Call) (ls : List Lexeme)
    (hpos : g₁.tracker.position = g₂.tracker.position) :
    eofErrorRange (enter true g₁ c) ls = eofErrorRange (enter true g₂ c) ls := by
  simp [eofErrorRange, yyllocAfter, enter, Tracker.setPath, hpos]

/-- **exception shape `history:empty-input-location`**: two histories that differ only in the last token of the previous
    parse report the syntax error of an empty text at different places -/
theorem C15_eof_location_witness :
    let g₁ : Globals := { (default : Globals) with yylloc := ⟨2147483647, 2147483647⟩ }   -- fresh process: position_t()
    let g₂ : Globals := { (default : Globals) with yylloc := ⟨12, 13⟩ }                   -- after an earlier parse
    let c : Call := { builder := 1, newxta := true, part := "S_PARAMETERS", xpath := "/p", property := false }
    eofErrorRange (enter false g₁ c) [] ≠ eofErrorRange (enter false g₂ c) [] := by
  decide

end UtapModel.C15
