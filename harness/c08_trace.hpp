// TraceBuilder: a DocumentBuilder that logs every ParserBuilder callback (name, arguments, whether it threw, the sizes
// of the expression and frame stacks and the number of diagnostics after the call) and then behaves exactly like the
// real DocumentBuilder.  The overrides are generated on every run from include/utap/builder.h
// (translate/c08_builder_h.py -> c08_tracebuilder.inc), so a changed callback set breaks the build of the harness
// (= the tie), it is never silently ignored.  Used by C08 (replay through the Lean `step`), C16 and C07.
#pragma once
#include "common.hpp"

#include <cstdio>
#include <map>
#include <sstream>

namespace c08 {
using namespace UTAP;
using namespace UTAP::Constants;

inline std::string q(const char* s)
{
    if (!s) return "null";
    std::string o = "\"";
    for (const unsigned char* p = (const unsigned char*)s; *p; ++p) {
        if (*p <= 32 || *p > 126 || *p == '"' || *p == '\\') { char b[8]; std::snprintf(b, sizeof b, "\\x%02x", *p); o += b; }
        else o += (char)*p;
    }
    return o + "\"";
}
inline std::string qv(const std::vector<std::string>& v)
{
    std::string o = "[";
    for (size_t i = 0; i < v.size(); ++i) o += (i ? "," : "") + q(v[i].c_str());
    return o + "]";
}

class TraceBuilder : public DocumentBuilder
{
public:
    std::vector<std::string> log;
    bool identDetails = true;
    int depth = 0;
    explicit TraceBuilder(Document& d): DocumentBuilder{d} {}

    size_t nfragments() { return fragments.size(); }
    size_t nframes() { return frames.size(); }
    frame_t topFrame() { return frames.top(); }
    bool inTemplate() { return currentTemplate != nullptr; }

    /// where a symbol lives: G = global frame, T:<template> = a template's frame (parameters and locals),
    /// S = select frame of an edge, L = any other (function / block / binder) frame
    std::string frameKind(symbol_t s)
    {
        // (symbol_t::get_frame() is not usable here: parameter symbols point back to the builder's recycled `params` frame)
        auto has = [&](const frame_t& f) { return f.get_index_of(s).has_value(); };
        if (has(document.get_globals().frame)) return "G";
        for (auto& t : document.get_templates()) {
            if (has(t.parameters)) return "TP:" + t.uid.get_name();
            if (has(t.frame)) return "T:" + t.uid.get_name();
            for (auto& e : t.edges)
                if (has(e.select)) return "S:" + t.uid.get_name() + "#" + std::to_string(e.nr);
        }
        return "L";
    }

private:
    struct Pending { std::string name, args; };
    std::vector<Pending> stack;

    void pre(const char* name, const std::string& args)
    {
        stack.push_back({name, args});
        ++depth;
    }
    void post(bool thrown)
    {
        --depth;
        Pending p = stack.back();
        stack.pop_back();
        std::ostringstream os;
        os << "C " << depth << " " << p.name << p.args << " | t=" << (thrown ? 1 : 0) << " F=" << fragments.size() << " R=" << frames.size()
           << " E=" << document.get_errors().size() << " W=" << document.get_warnings().size();
        if (identDetails && p.name == "expr_identifier" && !thrown && fragments.size() > 0 && fragments[0].get_kind() == IDENTIFIER) {
            symbol_t s = fragments[0].get_symbol();
            std::string ts = vh::tsexp(s.get_type());
            for (char& c : ts) if (c == ' ') c = '_';
            os << " B=" << s.get_position().start << ":" << frameKind(s) << ":" << vh::kindName(s.get_type().get_kind()) << " BT=" << ts;
        }
        log.push_back(os.str());
    }
    void note(const char* name, const std::string& args)
    {
        if (depth > 0) return;  // diagnostics recorded inside a callback are part of that callback
        std::ostringstream os;
        os << "C 0 " << name << args << " | t=0 F=" << fragments.size() << " R=" << frames.size() << " E=" << document.get_errors().size()
           << " W=" << document.get_warnings().size();
        log.push_back(os.str());
    }

public:
#include "c08_tracebuilder.inc"
};

/// canonical *structural* dump: exactly what the Lean builder model (UtapModel.Model.Builder) prints for its Doc
inline std::string nameOf(const symbol_t& s) { return s == symbol_t() ? std::string("?") : q(s.get_name().c_str()); }

inline std::string frameNames(const frame_t& f)
{
    std::string o = "[";
    for (uint32_t i = 0; i < f.get_size(); ++i) o += (i ? "," : "") + nameOf(f[i]);
    return o + "]";
}

inline void structDecls(std::ostream& os, declarations_t& d)
{
    os << " vars=[";
    bool first = true;
    for (auto& v : d.variables) { os << (first ? "" : ",") << nameOf(v.uid); first = false; }
    os << "] funs=[";
    first = true;
    for (auto& f : d.functions) {
        os << (first ? "" : ",") << nameOf(f.uid) << "{";
        bool f2 = true;
        for (auto& v : f.variables) { os << (f2 ? "" : ",") << nameOf(v.uid); f2 = false; }
        os << "}";
        first = false;
    }
    os << "]";
}

inline void structInstance(std::ostream& os, const char* tag, instance_t& p)
{
    os << tag << " " << nameOf(p.uid) << " templ=" << (p.templ ? nameOf(p.templ->uid) : std::string("NONE")) << " unbound=" << p.unbound
       << " arguments=" << p.arguments << " params=" << frameNames(p.parameters) << " mapped=[";
    bool first = true;
    for (uint32_t i = 0; i < p.parameters.get_size(); ++i)
        if (p.mapping.find(p.parameters[i]) != p.mapping.end()) { os << (first ? "" : ",") << i; first = false; }
    os << "] arity=" << p.uid.get_type().size() << "\n";
}

template <class D, class T>
inline std::string ownIndex(D& dq, const T* p, const char* tag)
{
    size_t i = 0;
    for (auto& x : dq) { if (&x == p) return std::string(tag) + "#" + std::to_string(i); ++i; }
    return std::string(tag) + "?";
}

inline void structTemplate(std::ostream& os, template_t& t)
{
    os << "template " << nameOf(t.uid) << " dyn=" << t.dynamic << " isTA=" << t.is_TA << " params=" << frameNames(t.parameters)
       << " unbound=" << t.unbound << " arguments=" << t.arguments << " arity=" << t.uid.get_type().size()
       << " init=" << (t.init == symbol_t() ? std::string("NONE") : nameOf(t.init));
    structDecls(os, t);
    os << "\n";
    for (auto& l : t.locations) {
        type_t lt = l.uid.get_type();
        os << "  loc " << nameOf(l.uid) << " nr=" << l.nr << " u=" << lt.is(URGENT) << " c=" << lt.is(COMMITTED) << " inv=" << !l.invariant.empty()
           << " er=" << !l.exp_rate.empty() << "\n";
    }
    for (auto& b : t.branchpoints) os << "  bp " << nameOf(b.uid) << " nr=" << b.bpNr << "\n";
    for (auto& e : t.edges) {
        os << "  edge nr=" << e.nr << " "
           << (e.src ? ownIndex(t.locations, e.src, "L") : e.srcb ? ownIndex(t.branchpoints, e.srcb, "B") : std::string("NONE")) << " -> "
           << (e.dst ? ownIndex(t.locations, e.dst, "L") : e.dstb ? ownIndex(t.branchpoints, e.dstb, "B") : std::string("NONE"))
           << " control=" << e.control << " select=" << frameNames(e.select) << " sync=" << !e.sync.empty() << "\n";
    }
}

inline std::string structDump(Document& doc);

}  // namespace c08
