A[] P.twr() == 1
